/-
Lemmas for the leaf part of C11: the lexical shape of what `str(Decimal)` produces in its plain branch.
-/
import OfxModel.Ofx.Types
import OfxModel.Spec.Lex
import OfxProofs.Lemmas.Dec
import OfxProofs.Lemmas.Str
import OfxModel.Spec.Denote

namespace Ofx
open Ofx.Spec

/-- the decimals `str()` writes without exponent: finite, exponent ≤ 0, adjusted exponent ≥ −6 -/
def plainDec : Dec → Bool
  | .fin _ c e => decide (e ≤ 0 ∧ e + ((pyStrNat c).length : Int) > -6)
  | _ => false

theorem takeWhile_digits_stop (xs r : Str) (c : Char) (hx : xs.all isDigitC = true) (hc : isDigitC c = false) :
    (xs ++ c :: r).takeWhile isDigitC = xs ∧ (xs ++ c :: r).dropWhile isDigitC = c :: r := by
  induction xs with
  | nil => simp [List.takeWhile, List.dropWhile, hc]
  | cons x xs ih =>
    simp only [List.all_cons, Bool.and_eq_true] at hx
    simp [List.takeWhile, List.dropWhile, hx.1, ih hx.2]

theorem takeWhile_digits_all (xs : Str) (hx : xs.all isDigitC = true) :
    xs.takeWhile isDigitC = xs ∧ xs.dropWhile isDigitC = [] := by
  induction xs with
  | nil => simp
  | cons x xs ih =>
    simp only [List.all_cons, Bool.and_eq_true] at hx
    simp [List.takeWhile, List.dropWhile, hx.1, ih hx.2]

theorem lexDecimalBody_point (ip fp : Str) (hi : ip.all isDigitC = true) (hf : fp.all isDigitC = true)
    (hne : ip ≠ []) : lexDecimalBody (ip ++ '.' :: fp) = true := by
  unfold lexDecimalBody
  have := takeWhile_digits_stop ip fp '.' hi (by decide)
  simp [this.1, this.2, hf, hne]

theorem lexDecimalBody_int (ip : Str) (hi : ip.all isDigitC = true) (hne : ip ≠ []) :
    lexDecimalBody ip = true := by
  unfold lexDecimalBody
  have := takeWhile_digits_all ip hi
  simp [this.1, this.2, hne]

theorem dropSign_signStr (neg : Bool) (c : Char) (b : Str) (h1 : c ≠ '-') (h2 : c ≠ '+') :
    dropSign (signStr neg ++ c :: b) = c :: b := by
  cases neg
  · simp only [signStr, Bool.false_eq_true, if_false, List.nil_append]
    unfold dropSign
    split <;> simp_all
  · rfl

theorem all_take {p : Char → Bool} (xs : Str) (n : Nat) (h : xs.all p = true) : (xs.take n).all p = true := by
  rw [List.all_eq_true] at *
  exact fun c hc => h c (List.mem_of_mem_take hc)

theorem all_drop {p : Char → Bool} (xs : Str) (n : Nat) (h : xs.all p = true) : (xs.drop n).all p = true := by
  rw [List.all_eq_true] at *
  exact fun c hc => h c (List.mem_of_mem_drop hc)

/-- `str(d)` of a plain decimal is an OFX decimal literal (kept: `str` is still what `repr`-like paths use) -/
theorem lexDecimal_plain (d : Dec) (h : plainDec d = true) : lexDecimal (decToStr d) = true := by
  cases d with
  | inf n => simp [plainDec] at h
  | nan n s p => simp [plainDec] at h
  | fin neg c e =>
    simp only [plainDec, decide_eq_true_eq] at h
    rw [decToStr_fin]
    simp only [h, and_self, if_true]
    have hall := pyStrNat_all_digits c
    have hne := pyStrNat_ne_nil c
    obtain ⟨x, xs, hx⟩ := List.exists_cons_of_ne_nil hne
    have hxd : isDigitC x = true := by
      rw [hx] at hall; simp only [List.all_cons, Bool.and_eq_true] at hall; exact hall.1
    have hx1 : x ≠ '-' := by intro e; subst e; exact absurd hxd (by decide)
    have hx2 : x ≠ '+' := by intro e; subst e; exact absurd hxd (by decide)
    unfold lexDecimal
    split
    · rw [dropSign_signStr neg '0' _ (by decide) (by decide)]
      have : ('0' :: '.' :: (List.replicate (-(e + ((pyStrNat c).length : Int))).toNat '0' ++ pyStrNat c) : Str)
          = ['0'] ++ '.' :: (List.replicate (-(e + ((pyStrNat c).length : Int))).toNat '0' ++ pyStrNat c) := rfl
      rw [this]
      apply lexDecimalBody_point _ _ (by decide) _ (by simp)
      simp only [List.all_append, Bool.and_eq_true, hall, and_true]
      simp [List.all_replicate]; right; decide
    · split
      · rename_i h1 h2
        have hz : (e + ((pyStrNat c).length : Int)).toNat - (pyStrNat c).length = 0 := by omega
        rw [hz, List.replicate_zero, List.append_nil, hx, dropSign_signStr neg x xs hx1 hx2, ← hx]
        exact lexDecimalBody_int _ hall hne
      · rename_i h1 h2
        have hk : 1 ≤ (e + ((pyStrNat c).length : Int)).toNat := by omega
        generalize (e + ((pyStrNat c).length : Int)).toNat = k at *
        have htk : (pyStrNat c).take k = x :: xs.take (k - 1) := by
          rw [hx]; cases k with
          | zero => omega
          | succ k => simp
        rw [List.append_assoc, htk, List.cons_append, dropSign_signStr neg x _ hx1 hx2,
          ← List.cons_append, ← htk]
        exact lexDecimalBody_point _ _ (all_take _ _ hall) (all_drop _ _ hall) (by rw [htk]; simp)

/-- **`format(d, "f")` of every finite decimal is an OFX decimal literal**: optional sign, digits, at most one
    point — no exponent, whatever the exponent of `d` -/
theorem lexDecimal_formatF (neg : Bool) (c : Nat) (e : Int) : lexDecimal (decFormatF (.fin neg c e)) = true := by
  rw [decFormatF_fin]
  have hall := pyStrNat_all_digits c
  have hne := pyStrNat_ne_nil c
  obtain ⟨x, xs, hx⟩ := List.exists_cons_of_ne_nil hne
  have hxd : isDigitC x = true := by
    rw [hx] at hall; simp only [List.all_cons, Bool.and_eq_true] at hall; exact hall.1
  have hx1 : x ≠ '-' := by intro e; subst e; exact absurd hxd (by decide)
  have hx2 : x ≠ '+' := by intro e; subst e; exact absurd hxd (by decide)
  unfold lexDecimal
  split
  · split
    · rw [dropSign_signStr neg '0' [] (by decide) (by decide)]
      exact lexDecimalBody_int _ (by decide) (by simp)
    · rw [hx, List.cons_append, dropSign_signStr neg x _ hx1 hx2, ← List.cons_append, ← hx]
      apply lexDecimalBody_int
      · simp only [List.all_append, Bool.and_eq_true, hall, true_and]
        simp [List.all_replicate]; right; decide
      · simp [hne]
  · split
    · rw [dropSign_signStr neg '0' _ (by decide) (by decide)]
      have : ('0' :: '.' :: (List.replicate (-(e + ((pyStrNat c).length : Int))).toNat '0' ++ pyStrNat c) : Str)
          = ['0'] ++ '.' :: (List.replicate (-(e + ((pyStrNat c).length : Int))).toNat '0' ++ pyStrNat c) := rfl
      rw [this]
      apply lexDecimalBody_point _ _ (by decide) _ (by simp)
      simp only [List.all_append, Bool.and_eq_true, hall, and_true]
      simp [List.all_replicate]; right; decide
    · rename_i h1 h2
      have hk : 1 ≤ (e + ((pyStrNat c).length : Int)).toNat := by omega
      generalize (e + ((pyStrNat c).length : Int)).toNat = k at *
      have htk : (pyStrNat c).take k = x :: xs.take (k - 1) := by
        rw [hx]; cases k with
        | zero => omega
        | succ k => simp
      rw [htk, List.cons_append, dropSign_signStr neg x _ hx1 hx2, ← List.cons_append, ← htk]
      exact lexDecimalBody_point _ _ (all_take _ _ hall) (all_drop _ _ hall) (by rw [htk]; simp)

/-- `String.enforce_length` as a decision -/
def fitsLen (l : Option Nat) (strict : Bool) (s : Str) : Bool :=
  match l with
  | some n => !strict || decide (s.length ≤ n)
  | none => true

theorem strEnforceLength_eq (l : Option Nat) (st : Bool) (s : Str) :
    Ofx.Types.strEnforceLength l st s = if fitsLen l st s then .ok s else .error .spec := by
  unfold Ofx.Types.strEnforceLength fitsLen
  cases l with
  | none => simp
  | some n =>
    cases st <;> simp
    by_cases h : s.length ≤ n
    · simp [h] <;> omega
    · simp [h] <;> omega

/-! ### C03, type part: `convert` returns the value the type rules assign (string, boolean, enumeration) -/

open Ofx.Types in
section
/-- the value the type rules assign, as the converters report it -/
def denoteResult (o : Option Val) : PyM Val :=
  match o with
  | some v => .ok v
  | none => .error .spec

/-- C03, type part, character data: for every non-empty text, `String/NagString.convert` returns exactly the
    value the OFX rules assign (entities decoded in one left-to-right pass, strict limit on the decoded text) -/
theorem convert_denotes_string (ext : DenoteExt) (enums : List (List Str)) (l : Option Nat) (st r : Bool) (s : Str)
    (hs : s ≠ []) :
    convert enums (.string l st) r (.str s) = denoteResult (denote ext enums (.string l st) s) := by
  obtain ⟨c, cs, rfl⟩ := List.exists_cons_of_ne_nil hs
  simp only [convert, stringConvert, strEnforceLength_eq, unescape_onepass]
  simp only [List.cons_ne_nil, if_false]
  cases l with
  | none => simp [denote, fitsLen, denoteResult, Functor.map, Except.map]
  | some n =>
    cases st
    · simp [denote, fitsLen, denoteResult, Functor.map, Except.map]
    · by_cases h : (decodeEntities (c :: cs)).length ≤ n
      · simp [denote, fitsLen, denoteResult, Functor.map, Except.map, h]
      · simp [denote, fitsLen, denoteResult, Functor.map, Except.map, h]

/-- C03, type part, booleans -/
theorem convert_denotes_bool (ext : DenoteExt) (enums : List (List Str)) (r : Bool) (s : Str) (hs : s ≠ []) :
    convert enums .bool r (.str s) = denoteResult (denote ext enums .bool s) := by
  obtain ⟨c, cs, rfl⟩ := List.exists_cons_of_ne_nil hs
  simp only [convert, boolConvert, denote]
  by_cases h1 : c :: cs = ['Y']
  · simp [h1, denoteResult]
  · by_cases h2 : c :: cs = ['N']
    · simp [h2, denoteResult]
    · simp [h1, h2, denoteResult]

/-- C03, type part, enumerations -/
theorem convert_denotes_oneof (ext : DenoteExt) (enums : List (List Str)) (e : Nat) (valid : List Str)
    (he : enums[e]? = some valid) (r : Bool) (s : Str) (hs : s ≠ []) :
    convert enums (.oneOf e) r (.str s) = denoteResult (denote ext enums (.oneOf e) s) := by
  obtain ⟨c, cs, rfl⟩ := List.exists_cons_of_ne_nil hs
  simp only [convert, he, oneOfConvert, oneOfDefault, denote]
  by_cases hm : c :: cs ∈ valid
  · simp [hm, denoteResult]
  · simp [hm, denoteResult]

end

/-! ### C03, type part: integers -/

theorem isDigitC_bounds (c : Char) (h : isDigitC c = true) : 48 ≤ c.toNat ∧ c.toNat ≤ 57 := by
  simp only [isDigitC, decide_eq_true_eq] at h
  have h1 : (48 : Nat) ≤ c.toNat := h.1
  have h2 : c.toNat ≤ 57 := h.2
  exact ⟨h1, h2⟩

theorem digitVal_of_isDigitC (c : Char) (h : isDigitC c = true) : digitVal c = some (digitOf c) := by
  simp only [isDigitC, decide_eq_true_eq] at h
  simp [digitVal, h, digitOf]

theorem intSpace_of_isDigitC (c : Char) (h : isDigitC c = true) : intSpace c = false := by
  have hb := isDigitC_bounds c h
  simp only [intSpace, isSpace, pySpaceCodepoints, Bool.and_eq_false_iff]
  left
  simp only [List.contains_eq_mem, List.mem_cons, List.not_mem_nil, or_false, decide_eq_false_iff_not]
  omega

theorem intBody_positional (b : Str) (hb : b.all isDigitC = true) (pd : Bool) (acc : Nat) (hne : b ≠ [] ∨ pd = true) :
    intBody pd acc b = some (acc * 10 ^ b.length + positional b) := by
  induction b generalizing pd acc with
  | nil =>
    rcases hne with h | h
    · exact absurd rfl h
    · subst h; simp [intBody, positional]
  | cons c cs ih =>
    simp only [List.all_cons, Bool.and_eq_true] at hb
    simp only [intBody, digitVal_of_isDigitC c hb.1]
    rw [ih hb.2 true _ (Or.inr rfl)]
    simp only [positional, List.length_cons, Nat.pow_succ]
    congr 1
    grind

/-- C03, type part, integers: on the lexical space `[+-]?[0-9]+`, `int(text)` is the positional value -/
theorem pyIntParse_of_lex (s : Str) (h : lexInteger s = true) : pyIntParse s = denoteInteger s := by
  have hb : (dropSign s).all isDigitC = true ∧ dropSign s ≠ [] := by
    simp only [lexInteger, Bool.and_eq_true, Bool.not_eq_true', List.isEmpty_eq_false_iff] at h
    exact ⟨h.2, h.1⟩
  have hdig : ∀ (b : Str), b.all isDigitC = true → stripBy intSpace b = b := fun b hall =>
    stripBy_id _ _ (fun c hc => intSpace_of_isDigitC c (List.all_eq_true.mp hall c hc))
  have hsgn : ∀ (x : Char) (b : Str), intSpace x = false → b.all isDigitC = true →
      stripBy intSpace (x :: b) = x :: b := fun x b hx hall =>
    stripBy_id _ _ (fun c hc => by
      rcases List.mem_cons.mp hc with rfl | hc
      · exact hx
      · exact intSpace_of_isDigitC c (List.all_eq_true.mp hall c hc))
  unfold denoteInteger
  rw [h]
  simp only [if_true]
  unfold pyIntParse
  match s, hb with
  | '-' :: b, hb =>
    simp only [dropSign] at hb
    simp [hsgn '-' b (by decide) hb.1, takeSign, intBody_positional b hb.1 false 0 (Or.inl hb.2), dropSign, isNegative]
  | '+' :: b, hb =>
    simp only [dropSign] at hb
    simp [hsgn '+' b (by decide) hb.1, takeSign, intBody_positional b hb.1 false 0 (Or.inl hb.2), dropSign, isNegative]
  | [], hb => simp [dropSign] at hb
  | c :: b, hb =>
    by_cases h1 : c = '-'
    · subst h1
      simp only [dropSign] at hb
      simp [hsgn '-' b (by decide) hb.1, takeSign, intBody_positional b hb.1 false 0 (Or.inl hb.2), dropSign, isNegative]
    · by_cases h2 : c = '+'
      · subst h2
        simp only [dropSign] at hb
        simp [hsgn '+' b (by decide) hb.1, takeSign, intBody_positional b hb.1 false 0 (Or.inl hb.2), dropSign, isNegative]
      · have hd : dropSign (c :: b) = c :: b := by
          unfold dropSign; split <;> simp_all
        rw [hd] at hb
        have hneg : isNegative (c :: b) = false := by
          unfold isNegative; split <;> simp_all
        simp [hdig (c :: b) hb.1, takeSign_other c b h1 h2, intBody_positional (c :: b) hb.1 false 0 (Or.inl hb.2), hd, hneg]


/-- C03, type part, integers (any declared length): on the lexical space `[+-]?[0-9]+` the converter returns
    the positional value when it has at most `length` digits and refuses otherwise -/
theorem convert_denotes_integer (ext : DenoteExt) (enums : List (List Str)) (l : Option Nat) (r : Bool) (s : Str)
    (h : lexInteger s = true) :
    Ofx.Types.convert enums (.integer l) r (.str s) = denoteResult (denote ext enums (.integer l) s) := by
  have hne : s ≠ [] := by
    intro e; subst e; simp [lexInteger, dropSign] at h
  obtain ⟨c, cs, rfl⟩ := List.exists_cons_of_ne_nil hne
  have hd : ∃ i, denoteInteger (c :: cs) = some i := by
    unfold denoteInteger; rw [h]; exact ⟨_, rfl⟩
  obtain ⟨i, hi⟩ := hd
  cases l with
  | none =>
    simp [Ofx.Types.convert, Ofx.Types.integerConvert, pyIntParse_of_lex _ h, hi, denote, denoteResult,
      Ofx.Types.intEnforceLength, bind, Except.bind, pure, Except.pure]
  | some n =>
    by_cases hf : i.natAbs < 10 ^ n
    · have : ¬ (i.natAbs ≥ 10 ^ n) := by omega
      simp [Ofx.Types.convert, Ofx.Types.integerConvert, pyIntParse_of_lex _ h, hi, denote, denoteResult,
        Ofx.Types.intEnforceLength, bind, Except.bind, pure, Except.pure, hf, this]
    · have : i.natAbs ≥ 10 ^ n := by omega
      simp [Ofx.Types.convert, Ofx.Types.integerConvert, pyIntParse_of_lex _ h, hi, denote, denoteResult,
        Ofx.Types.intEnforceLength, bind, Except.bind, pure, Except.pure, hf, this]

end Ofx
