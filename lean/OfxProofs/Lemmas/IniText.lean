/-
Lemmas for C18 (persistence through the file): what `ConfigParser.write` puts on disk, line by line, and what
`ConfigParser._read` makes of each of those lines.

Model: `OfxModel/Ofx/IniText.lean`.
-/
import OfxProofs.Lemmas.OfxgetCanon
import OfxProofs.Lemmas.OfxgetValues
import OfxProofs.Lemmas.Str
import OfxModel.Ofx.IniText

namespace Ofx.IniText
open Ofx Ofx.Ofxget

/-! ### white space -/

theorem eq_nil_or_snoc {α : Type} (s : List α) : s = [] ∨ ∃ pre d, s = pre ++ [d] := by
  rcases List.eq_nil_or_concat s with h | ⟨pre, d, h⟩
  · exact Or.inl h
  · exact Or.inr ⟨pre, d, by rw [h, List.concat_eq_append]⟩

def AllSpace (w : Str) : Prop := ∀ c ∈ w, isSpace c = true

theorem isSpace_nl : isSpace '\n' = true := by decide
theorem isSpace_tab : isSpace '\t' = true := by decide
theorem isSpace_blank : isSpace ' ' = true := by decide

theorem allSpace_nil : AllSpace [] := by intro c hc; cases hc
theorem allSpace_nl : AllSpace ['\n'] := by intro c hc; simp at hc; subst hc; decide
theorem allSpace_tab : AllSpace ['\t'] := by intro c hc; simp at hc; subst hc; decide
theorem allSpace_blank : AllSpace [' '] := by intro c hc; simp at hc; subst hc; decide
theorem allSpace_blank_nl : AllSpace [' ', '\n'] := by
  intro c hc; simp at hc; rcases hc with h | h <;> subst h <;> decide

theorem lstrip_allSpace_append (w s : Str) (hw : AllSpace w) : lstrip (w ++ s) = lstrip s := by
  induction w with
  | nil => rfl
  | cons c cs ih =>
    have hc : isSpace c = true := hw c (by simp)
    simp only [List.cons_append, lstrip, hc, if_true]
    exact ih (fun x hx => hw x (by simp [hx]))

theorem lstrip_allSpace (w : Str) (hw : AllSpace w) : lstrip w = [] := by
  have := lstrip_allSpace_append w [] hw
  simpa [lstrip] using this

theorem rstrip_append_allSpace (s w : Str) (hw : AllSpace w) : rstrip (s ++ w) = rstrip s := by
  unfold rstrip
  rw [List.reverse_append, lstrip_allSpace_append w.reverse s.reverse (fun c hc => hw c (by simpa using hc))]

theorem rstrip_nil : rstrip [] = [] := by simp [rstrip, lstrip]

/-- the first and the last character, if any, are not white space -/
theorem edgeClean_cons (c : Char) (cs : Str) (h : edgeClean (c :: cs) = true) : isSpace c = false := by
  simp only [edgeClean, List.head?_cons, Bool.and_eq_true, Bool.not_eq_true'] at h
  exact h.1

theorem edgeClean_concat (pre : Str) (d : Char) (h : edgeClean (pre ++ [d]) = true) : isSpace d = false := by
  simp only [edgeClean, Bool.and_eq_true] at h
  have h2 := h.2
  simp only [List.getLast?_append, List.getLast?_singleton, Option.some_or, Bool.not_eq_true'] at h2
  exact h2

theorem lstrip_edgeClean (s : Str) (h : edgeClean s = true) : lstrip s = s := by
  cases s with
  | nil => rfl
  | cons c cs => exact lstrip_of_not_space c cs (edgeClean_cons c cs h)

theorem rstrip_edgeClean (s : Str) (h : edgeClean s = true) : rstrip s = s := by
  rcases eq_nil_or_snoc s with rfl | ⟨pre, d, rfl⟩
  · exact rstrip_nil
  · have hd := edgeClean_concat pre d h
    unfold rstrip
    rw [List.reverse_append, List.reverse_singleton, List.singleton_append, lstrip_of_not_space _ _ hd]
    simp

theorem strip_edgeClean (s : Str) (h : edgeClean s = true) : strip s = s := by
  unfold strip
  rw [lstrip_edgeClean s h, rstrip_edgeClean s h]

/-- **a padded line**: white space around an edge-clean text is what `strip` removes -/
theorem strip_pad (w1 s w2 : Str) (h1 : AllSpace w1) (h2 : AllSpace w2) (hs : edgeClean s = true) :
    strip (w1 ++ s ++ w2) = s := by
  unfold strip
  rw [List.append_assoc, lstrip_allSpace_append w1 _ h1]
  cases s with
  | nil =>
    rw [List.nil_append, lstrip_allSpace w2 h2, rstrip_nil]
  | cons c cs =>
    rw [List.cons_append, lstrip_of_not_space c _ (edgeClean_cons c cs hs), ← List.cons_append,
      rstrip_append_allSpace _ _ h2, rstrip_edgeClean _ hs]

theorem edgeClean_append (a b : Str) (ha : edgeClean a = true) (hb : edgeClean b = true) (hane : a ≠ []) (hbne : b ≠ []) :
    edgeClean (a ++ b) = true := by
  cases a with
  | nil => exact absurd rfl hane
  | cons c cs =>
    rcases eq_nil_or_snoc b with rfl | ⟨pre, d, rfl⟩
    · exact absurd rfl hbne
    · have hc := edgeClean_cons c cs ha
      have hd := edgeClean_concat pre d hb
      simp only [edgeClean, List.cons_append, List.head?_cons, hc, Bool.not_false, Bool.true_and]
      rw [← List.cons_append, ← List.append_assoc, List.getLast?_append]
      simp [hd]

/-- `strip s = s` says the same as `edgeClean` (so the existing guards `strip s = s` carry over) -/
theorem lstrip_length_le (s : Str) : (lstrip s).length ≤ s.length := by
  induction s with
  | nil => simp [lstrip]
  | cons c cs ih =>
    simp only [lstrip]
    split
    · simp only [List.length_cons]; omega
    · simp

theorem rstrip_length_le (s : Str) : (rstrip s).length ≤ s.length := by
  unfold rstrip
  have := lstrip_length_le s.reverse
  simpa using this

theorem edgeClean_of_strip (s : Str) (h : strip s = s) : edgeClean s = true := by
  cases s with
  | nil => rfl
  | cons c cs =>
    have hc : isSpace c = false := by
      cases hsp : isSpace c with
      | false => rfl
      | true =>
        exfalso
        have h1 : (strip (c :: cs)).length ≤ cs.length := by
          unfold strip
          simp only [lstrip, hsp, if_true]
          exact Nat.le_trans (rstrip_length_le _) (lstrip_length_le _)
        rw [h] at h1
        simp only [List.length_cons] at h1
        omega
    rcases eq_nil_or_snoc (c :: cs) with hnil | ⟨pre, d, hpd⟩
    · cases hnil
    · have hd : isSpace d = false := by
        cases hsp : isSpace d with
        | false => rfl
        | true =>
          exfalso
          have h1 : (strip (c :: cs)).length ≤ pre.length := by
            unfold strip
            rw [lstrip_of_not_space c cs hc, hpd, rstrip_append_allSpace pre [d] (by intro x hx; simp at hx; subst hx; exact hsp)]
            exact rstrip_length_le _
          rw [h, hpd] at h1
          simp only [List.length_append, List.length_singleton] at h1
          omega
      rw [hpd]
      simp only [edgeClean, Bool.and_eq_true]
      constructor
      · rw [← hpd]; simp [hc]
      · simp [hd]

/-! ### lines of a text -/

theorem splitLinesGo_line (cur body rest : Str) (h : '\n' ∉ body) :
    splitLinesGo cur (body ++ '\n' :: rest) = (cur.reverse ++ body ++ ['\n']) :: splitLinesGo [] rest := by
  induction body generalizing cur with
  | nil => simp [splitLinesGo]
  | cons c cs ih =>
    have hc : c ≠ '\n' := fun e => h (by simp [e])
    simp only [List.cons_append, splitLinesGo, hc, if_false]
    rw [ih (c :: cur) (fun hm => h (by simp [hm]))]
    simp

/-- a line as `write` produces it: text without line break, then the line break -/
def IsLine (l : Str) : Prop := ∃ body, l = body ++ ['\n'] ∧ '\n' ∉ body

theorem splitLines_flatten (ls : List Str) (h : ∀ l ∈ ls, IsLine l) : splitLines ls.flatten = ls := by
  unfold splitLines
  induction ls with
  | nil => simp [splitLinesGo]
  | cons l ls ih =>
    obtain ⟨body, rfl, hb⟩ := h l (by simp)
    simp only [List.flatten_cons, List.append_assoc, List.singleton_append]
    rw [splitLinesGo_line [] body _ hb, ih (fun x hx => h x (by simp [hx]))]
    simp

/-! ### the lines of a value -/

theorem nlLines_no_nl (v : Str) : '\n' ∉ (nlLines v).1 ∧ ∀ l ∈ (nlLines v).2, '\n' ∉ l := by
  induction v with
  | nil => simp [nlLines]
  | cons c cs ih =>
    simp only [nlLines]
    split
    · refine ⟨by simp, ?_⟩
      intro l hl
      rcases List.mem_cons.mp hl with rfl | hl
      · exact ih.1
      · exact ih.2 l hl
    · rename_i hc
      refine ⟨?_, ih.2⟩
      intro hm
      rcases List.mem_cons.mp hm with e | hm
      · exact hc e.symm
      · exact ih.1 hm

theorem join_cons_char (sep : Str) (c : Char) (h : Str) (t : List Str) :
    join sep ((c :: h) :: t) = c :: join sep (h :: t) := by
  cases t <;> simp [join]

theorem join_nlLines (v : Str) : join ['\n'] ((nlLines v).1 :: (nlLines v).2) = v := by
  induction v with
  | nil => simp [nlLines, join]
  | cons c cs ih =>
    simp only [nlLines]
    split
    · rename_i hc
      subst hc
      simp only [join]
      rw [ih]
      simp
    · rw [join_cons_char, ih]

/-- the lines `_write_section` produces for one option: `key = first line`, then each further line after a tab -/
def optLines (k : Name) (v : Str) : List Str :=
  (k ++ delim ++ (nlLines v).1 ++ ['\n']) :: (nlLines v).2.map (fun l => '\t' :: l ++ ['\n'])

theorem flatMap_nl_lines (p v : Str) :
    p ++ v.flatMap (fun c => if c = '\n' then ['\n', '\t'] else [c]) ++ ['\n'] =
      (p ++ (nlLines v).1 ++ ['\n']) ++ ((nlLines v).2.map (fun l => '\t' :: l ++ ['\n'])).flatten := by
  induction v generalizing p with
  | nil => simp [nlLines]
  | cons c cs ih =>
    simp only [List.flatMap_cons, nlLines]
    split
    · rename_i hc
      subst hc
      have := ih ['\t']
      simp only [if_true, List.map_cons, List.flatten_cons, List.append_nil, List.append_assoc, List.cons_append,
        List.nil_append] at this ⊢
      rw [this]
    · rename_i hc
      simp only [hc, if_false]
      have := ih (p ++ [c])
      simp only [List.append_assoc, List.singleton_append] at this ⊢
      exact this

theorem writeOption_lines (kv : Name × Str) : writeOption kv = (optLines kv.1 kv.2).flatten := by
  unfold writeOption optLines
  rw [replace_single]
  have := flatMap_nl_lines (kv.1 ++ delim) kv.2
  simp only [List.flatten_cons, List.append_assoc] at this ⊢
  exact this

/-- the lines of one section -/
def sectLines (sec : Str × Sect) : List Str :=
  ('[' :: sec.1 ++ [']', '\n']) :: (sec.2.flatMap fun kv => optLines kv.1 kv.2) ++ [['\n']]

theorem writeSection_lines (name : Str) (items : Sect) : writeSection name items = (sectLines (name, items)).flatten := by
  unfold writeSection sectLines
  simp only [List.flatten_cons, List.flatten_append, List.flatten_cons, List.flatten_nil, List.append_nil]
  congr 2
  induction items with
  | nil => rfl
  | cons kv rest ih =>
    simp only [List.flatMap_cons, List.flatten_append, writeOption_lines, ih]

/-- what `write` writes, as a list of sections: DEFAULT first if it has options -/
def fileOf (c : Ini) : FileC := (if c.defaults.isEmpty then [] else [(defaultSect, c.defaults)]) ++ c.sections

theorem iniWrite_lines (c : Ini) : iniWrite c = ((fileOf c).flatMap sectLines).flatten := by
  unfold iniWrite fileOf
  have hs : ∀ l : List (Str × Sect), l.flatMap (fun s => writeSection s.1 s.2) = (l.flatMap sectLines).flatten := by
    intro l
    induction l with
    | nil => rfl
    | cons s rest ih => rw [List.flatMap_cons, List.flatMap_cons, List.flatten_append, ih, writeSection_lines]
  rw [hs]
  split
  · simp
  · simp only [List.flatMap_append, List.flatMap_cons, List.flatMap_nil, List.append_nil, List.flatten_append,
      writeSection_lines]

end Ofx.IniText
