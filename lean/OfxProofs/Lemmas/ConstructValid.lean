/-
`construct_valid`: the converse direction of the aggregate round-trip development (Lemmas/AggRound.lean).

An instance returned by `Agg.construct` (= `Cls(*args, **kwargs)`) for a plain aggregate class satisfying the
class-level premises of the round trip (`ClsPlain`: concrete, found by its own name, `ClsWF`, no `ElementList`,
no groom/ungroom rename) is `Valid`, provided
  * every value `setattr` stored is admissible for its attribute (`FieldOk Dom`) and, when an aggregate, valid;
  * the list members are valid instances of existing classes;
  * `validate_args` accepts the kwargs as they are written back (`rawKwOf`) — `validate_trivial` discharges this for
    classes without a hand-coded rule and without exclusivity groups (all but 2 of the request classes);
    `validate_of_counts` reduces it to the extra rule when the groups are counted over non-`None` fields.
-/
import OfxProofs.Lemmas.NodeRT
import OfxProofs.Props.C04

namespace Ofx.Agg
open Ofx

section
variable (S : Schema) (cv : Conv) (esc : Str → Str) (Dom : Kind → Bool → Val → Prop)

/-- class-level premises of `Valid` for an instance of class `c` (index `ci`) -/
structure ClsPlain (c : Cls) (ci : Nat) : Prop where
  hc : S.cls? ci = some c
  concrete : c.abstract = false
  hfind : S.findIdx? c.name = some ci
  wf : ClsWF S c
  hel : c.elementList = false
  hg : c.groom = none
  hug : c.ungroom = none

theorem mapM_applyArg_same (c : Cls) : ∀ (args items : List Node),
    args.mapM (applyArg S c) = .ok items → items = args ∧ ∀ m ∈ args, applyArg S c m = .ok m
  | [], items, h => by
    simp [List.mapM_nil, pure, Except.pure] at h
    exact ⟨h, by simp⟩
  | m :: rest, items, h => by
    simp only [List.mapM_cons, bind, Except.bind] at h
    cases hm : applyArg S c m with
    | error e => simp [hm] at h
    | ok m' =>
      cases hr : rest.mapM (applyArg S c) with
      | error e => simp [hm, hr] at h
      | ok rest' =>
        simp only [hm, hr, pure, Except.pure, Except.ok.injEq] at h
        obtain ⟨h1, h2⟩ := mapM_applyArg_same c rest rest' hr
        have hmm : m' = m := by
          cases m with
          | val v => simp [applyArg] at hm
          | agg ci f i =>
            simp only [applyArg] at hm
            split at hm
            · simp only [Except.ok.injEq] at hm; exact hm.symm
            · simp at hm
        subst hmm h1
        refine ⟨h.symm, ?_⟩
        intro x hx
        rcases List.mem_cons.mp hx with rfl | hx
        · exact hm
        · exact h2 x hx

theorem validFields_of_match : ∀ {L : List Attr} {fs : List (Str × Node)},
    FieldsMatch (fun _ v => v.isAgg = true → Valid S cv esc Dom v) L fs → ValidFields S cv esc Dom fs := by
  intro L fs h
  induction h with
  | nil => simp [ValidFields]
  | unsup b L fs hb _ ih => exact ih
  | field b v L fs hb hp _ ih => exact ⟨hp, ih⟩

theorem validItems_of_forall : ∀ (items : List Node), (∀ m ∈ items, Valid S cv esc Dom m) →
    ValidItems S cv esc Dom items
  | [], _ => by simp [ValidItems]
  | m :: r, h => ⟨fun _ => h m (by simp), validItems_of_forall r (fun x hx => h x (List.mem_cons_of_mem _ hx))⟩

/-- `validate_args` of a class without a hand-coded rule and without exclusivity groups accepts everything -/
theorem validate_trivial (c : Cls) (args : List Node) (kw : List (Str × Node)) (hx : c.extra = .none)
    (ho : c.optMutex = []) (hr : c.reqMutex = []) : validateArgs S c args kw = .ok () := by
  simp [validateArgs, hx, ho, hr, extraRule, enforceCount, bind, Except.bind]

/-- **an instance returned by `Cls(*args, **kwargs)` is `Valid`** -/
theorem construct_valid {c : Cls} {ci : Nat} (hp : ClsPlain S c ci) {args : List Node} {kw : List (Str × Node)}
    {n : Node} (h : construct S cv ci args kw = .ok n)
    (hfield : ∀ a ∈ specNoList c, a.kind.isUnsupported = false → ∀ v,
      setAttr S cv a ((lookup a.name kw).getD (.val .none)) = .ok (some v) →
      FieldOk Dom a v ∧ (v.isAgg = true → Valid S cv esc Dom v))
    (hargs : ∀ m ∈ args, Valid S cv esc Dom m ∧
      ∃ cj f i cjc, m = .agg cj f i ∧ S.cls? cj = some cjc ∧ '.' ∉ cjc.name)
    (hvalidate : ∀ fields, setAttrs S cv (specNoList c) kw = .ok fields →
      validateArgs S c args (rawKwOf S cv esc fields c.spec) = .ok ()) :
    Valid S cv esc Dom n := by
  obtain ⟨c', fields, items, hc', _, hs, ha, _, rfl⟩ := (construct_ok_iff S cv ci args kw n).mp h
  rw [hp.hc] at hc'; injection hc' with hc'; subst hc'
  have hfm := setAttrs_fieldsMatch S cv kw _ fields
    (fun a ha => by simpa [specNoList] using (List.mem_filter.mp ha).2) hs
  have hfm' := hfm.withLookup (specNoList_nodup c hp.wf.nodup)
  have hboth : FieldsMatch (fun a v => FieldOk Dom a v ∧ (v.isAgg = true → Valid S cv esc Dom v))
      (specNoList c) fields :=
    hfm'.imp (fun a ha v hv => hfield a ha hv.2.1 v hv.1)
  rw [applyArgs, if_neg (by simp [hp.hel])] at ha
  obtain ⟨hitems, happ⟩ := mapM_applyArg_same S c args items ha
  subst hitems
  refine ⟨⟨c, ?_⟩, ?_, ?_⟩
  · refine ⟨hp.hc, hp.concrete, hp.hfind, hp.wf, Or.inl ⟨hp.hg, hp.hug⟩,
      hboth.imp (fun _ _ _ hv => hv.1), ?_, (fun h => by rw [hp.hel] at h; cases h), ?_,
      by rw [rawItemsOf_plain S cv esc c items hp.hel]; exact hvalidate fields hs⟩
    · intro _ m hm
      obtain ⟨_, cj, f, i, cjc, rfl, hcj, hdot⟩ := hargs m hm
      have := happ _ hm
      simp only [applyArg, argClassName, clsName, hcj] at this
      split at this
      · rename_i hcon
        exact ⟨cj, f, i, cjc, rfl, hcj, hcon, hdot⟩
      · simp at this
    · intro hno
      cases items with
      | nil => rfl
      | cons m r =>
        exfalso
        obtain ⟨_, cj, f, i, cjc, rfl, hcj, _⟩ := hargs m (by simp)
        have := happ _ (List.mem_cons_self)
        simp only [applyArg] at this
        split at this
        · rename_i hcon
          have hnil : listAggNames c = [] := by
            simp only [listAggNames, hp.hel, Bool.false_eq_true, if_false, List.map_eq_nil_iff,
              List.filter_eq_nil_iff]
            intro a ha hk
            have : a.kind.isList = true := by cases hka : a.kind <;> simp_all [Kind.isListAgg, Kind.isList]
            have hall := List.any_eq_false.mp hno a ha
            simp [this] at hall
          simp [hnil] at hcon
        · simp at this
  · exact validFields_of_match S cv esc Dom (hboth.imp (fun _ _ _ hv => hv.2))
  · exact validItems_of_forall S cv esc Dom items (fun m hm => (hargs m hm).1)

end
end Ofx.Agg

namespace Ofx.Agg
open Ofx

section
variable (S : Schema) (cv : Conv) (esc : Str → Str) (Dom : Kind → Bool → Val → Prop)

theorem mapM_mem_src {α β} (f : α → PyM β) : ∀ (l : List α) (r : List β), l.mapM (m := PyM) f = .ok r →
    ∀ y ∈ r, ∃ x ∈ l, f x = .ok y
  | [], r, h, y, hy => by
    simp [List.mapM_nil, pure, Except.pure] at h; subst h; simp at hy
  | x :: l, r, h, y, hy => by
    rw [List.mapM_cons] at h
    cases hx : f x with
    | error e => simp [hx, bind, Except.bind] at h
    | ok x' =>
      cases hl : l.mapM (m := PyM) f with
      | error e => simp [hx, hl, bind, Except.bind] at h
      | ok l' =>
        simp only [hx, hl, bind, Except.bind, pure, Except.pure] at h
        injection h with h; subst h
        simp only [List.mem_cons] at hy
        rcases hy with rfl | hy
        · exact ⟨x, by simp, hx⟩
        · obtain ⟨z, hz, hfz⟩ := mapM_mem_src f l l' hl y hy
          exact ⟨z, by simp [hz], hfz⟩

theorem validItems_of_vals : ∀ (items : List Node), (∀ m ∈ items, m.isAgg = false) →
    ValidItems S cv esc Dom items
  | [], _ => by simp [ValidItems]
  | m :: r, h => ⟨fun hagg => (by rw [h m (by simp)] at hagg; cases hagg),
      validItems_of_vals r (fun x hx => h x (List.mem_cons_of_mem _ hx))⟩

/-- class-level premises of `Valid` for an instance of any concrete class of a well-formed schema -/
structure ClsAny (c : Cls) (ci : Nat) : Prop where
  hc : S.cls? ci = some c
  concrete : c.abstract = false
  hfind : S.findIdx? c.name = some ci
  wf : ClsWF S c
  gr : GroomOk c

/-- **an instance returned by `Cls(*args, **kwargs)` is `Valid`** — plain aggregates, `ElementList`s and classes
    with a rename alike: what the constructor stored per attribute is in the domain (`hfield`), the members it
    accepted are valid instances (plain) / the values its list element made of the arguments are in the domain
    (`ElementList`), and `validate_args` accepts the written-back form. -/
theorem construct_valid_any {c : Cls} {ci : Nat} (hp : ClsAny S c ci) {args : List Node} {kw : List (Str × Node)}
    {n : Node} (h : construct S cv ci args kw = .ok n)
    (hfield : ∀ a ∈ specNoList c, a.kind.isUnsupported = false → ∀ v,
      setAttr S cv a ((lookup a.name kw).getD (.val .none)) = .ok (some v) →
      FieldOk Dom a v ∧ (v.isAgg = true → Valid S cv esc Dom v))
    (hargs : c.elementList = false → ∀ m ∈ args, Valid S cv esc Dom m ∧
      ∃ cj f i cjc, m = .agg cj f i ∧ S.cls? cj = some cjc ∧ '.' ∉ cjc.name)
    (hargsEl : c.elementList = true → ∀ a ∈ c.spec, ∀ inner ireq, a.kind = .listElem inner ireq →
      ∀ m ∈ args, ∀ x, cv.convert S.enums inner ireq (Node.toVal m) = .ok x → x ≠ .none ∧ Dom inner ireq x)
    (hvalidate : ∀ fields items, setAttrs S cv (specNoList c) kw = .ok fields → applyArgs S cv c args = .ok items →
      validateArgs S c (rawItemsOf S cv esc c items) (rawKwOf S cv esc fields c.spec) = .ok ()) :
    Valid S cv esc Dom n := by
  obtain ⟨c', fields, items, hc', _, hs, ha, _, rfl⟩ := (construct_ok_iff S cv ci args kw n).mp h
  rw [hp.hc] at hc'; injection hc' with hc'; subst hc'
  have hfm := setAttrs_fieldsMatch S cv kw _ fields
    (fun a ha => by simpa [specNoList] using (List.mem_filter.mp ha).2) hs
  have hfm' := hfm.withLookup (specNoList_nodup c hp.wf.nodup)
  have hboth : FieldsMatch (fun a v => FieldOk Dom a v ∧ (v.isAgg = true → Valid S cv esc Dom v))
      (specNoList c) fields :=
    hfm'.imp (fun a ha v hv => hfield a ha hv.2.1 v hv.1)
  have hval := hvalidate fields items hs ha
  cases hel : c.elementList with
  | false =>
    have ha' := ha
    rw [applyArgs, if_neg (by simp [hel])] at ha'
    obtain ⟨hitems, happ⟩ := mapM_applyArg_same S c args items ha'
    subst hitems
    refine ⟨⟨c, ?_⟩, ?_, ?_⟩
    · refine ⟨hp.hc, hp.concrete, hp.hfind, hp.wf, hp.gr,
        hboth.imp (fun _ _ _ hv => hv.1), ?_, (fun h => by rw [hel] at h; cases h), ?_, hval⟩
      · intro _ m hm
        obtain ⟨_, cj, f, i, cjc, rfl, hcj, hdot⟩ := hargs hel m hm
        have := happ _ hm
        simp only [applyArg, argClassName, clsName, hcj] at this
        split at this
        · rename_i hcon
          exact ⟨cj, f, i, cjc, rfl, hcj, hcon, hdot⟩
        · simp at this
      · intro hno
        cases items with
        | nil => rfl
        | cons m r =>
          exfalso
          obtain ⟨_, cj, f, i, cjc, rfl, hcj, _⟩ := hargs hel m (by simp)
          have := happ _ (List.mem_cons_self)
          simp only [applyArg] at this
          split at this
          · rename_i hcon
            have hnil : listAggNames c = [] := by
              simp only [listAggNames, hel, Bool.false_eq_true, if_false, List.map_eq_nil_iff,
                List.filter_eq_nil_iff]
              intro a ha hk
              have : a.kind.isList = true := by cases hka : a.kind <;> simp_all [Kind.isListAgg, Kind.isList]
              have hall := List.any_eq_false.mp hno a ha
              simp [this] at hall
            simp [hnil] at hcon
          · simp at this
    · exact validFields_of_match S cv esc Dom (hboth.imp (fun _ _ _ hv => hv.2))
    · exact validItems_of_forall S cv esc Dom items (fun m hm => (hargs hel m hm).1)
  | true =>
    obtain ⟨a0, inner, ireq, hfilt, hk0, honly⟩ := hp.wf.elOk hel
    have ha0 : a0 ∈ c.spec := by
      have : a0 ∈ c.spec.filter (fun a => a.kind.isListElem) := by rw [hfilt]; simp
      exact (List.mem_filter.mp this).1
    -- the members are the list element's conversions of the arguments
    have hmapM : args.mapM (m := PyM) (fun m => (cv.convert S.enums inner ireq (Node.toVal m)).map Node.val) = .ok items := by
      have ha' := ha
      simp only [applyArgs, hel, if_true, hfilt, hk0] at ha'
      exact ha'
    have hmem : ∀ m ∈ items, ∃ r ∈ args, (cv.convert S.enums inner ireq (Node.toVal r)).map Node.val = .ok m :=
      mapM_mem_src _ args items hmapM
    refine ⟨⟨c, ?_⟩, ?_, ?_⟩
    · refine ⟨hp.hc, hp.concrete, hp.hfind, hp.wf, hp.gr,
        hboth.imp (fun _ _ _ hv => hv.1), (fun h => by rw [hel] at h; cases h), ?_, ?_, hval⟩
      · intro _ a ha inner' ireq' hk m hm
        have haeq : a = a0 := honly a ha (by rw [hk]; rfl)
        subst haeq
        rw [hk0] at hk; injection hk with hk1 hk2; subst hk1; subst hk2
        obtain ⟨r, hr, hconv⟩ := hmem m hm
        cases hx : cv.convert S.enums inner ireq (Node.toVal r) with
        | error e => simp [hx, Except.map] at hconv
        | ok x =>
          simp only [hx, Except.map] at hconv
          injection hconv with hconv; subst hconv
          obtain ⟨h1, h2⟩ := hargsEl hel a ha inner ireq hk0 r hr x hx
          exact ⟨x, rfl, h1, h2⟩
      · intro hno
        exfalso
        have hall := List.any_eq_false.mp hno a0 ha0
        simp [hk0, Kind.isList] at hall
    · exact validFields_of_match S cv esc Dom (hboth.imp (fun _ _ _ hv => hv.2))
    · -- members of an ElementList are values: nothing to validate below them
      have : ∀ m ∈ items, m.isAgg = false := by
        intro m hm
        obtain ⟨r, _, hconv⟩ := hmem m hm
        cases hx : cv.convert S.enums inner ireq (Node.toVal r) with
        | error e => simp [hx, Except.map] at hconv
        | ok x => simp only [hx, Except.map] at hconv; injection hconv with hconv; subst hconv; rfl
      exact validItems_of_vals S cv esc Dom items this

end
end Ofx.Agg
