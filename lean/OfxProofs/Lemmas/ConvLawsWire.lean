/-
The element converters on the wire domain of the end-to-end C01 theorem (`OfxProofs/Lemmas/Written.lean`):
`typesDomWire` = `typesDom` with string values and enumeration tokens free of leading/trailing white space (the
property's own quantifier), the `ConvLaws` on it, and `TextOk`: every text the converters write for a value of the
domain is non-empty and trimmed (booleans `Y`/`N`, integers `str(i)`, decimals `format(d, "f")`, date-times and times
the rendered UTC text, strings and tokens the value itself).
-/
import OfxProofs.Lemmas.ConvLaws
import OfxProofs.Lemmas.Written
import OfxProofs.Props.C11

namespace Ofx.Types
open Ofx Ofx.Agg Ofx.Spec.Wire

/-! ### trimmed texts -/

/-- a text none of whose characters is Python white space is trimmed -/
theorem trimmedB_of_noSpace (s : Str) (h : ∀ c ∈ s, isSpace c = false) : trimmedB s = true := by
  unfold trimmedB
  cases hh : s.head? with
  | none =>
    cases hl : s.getLast? with
    | none => rfl
    | some c => simp [h c (List.mem_of_getLast? hl)]
  | some a =>
    cases hl : s.getLast? with
    | none => simp [h a (List.mem_of_head? hh)]
    | some c => simp [h a (List.mem_of_head? hh), h c (List.mem_of_getLast? hl)]

theorem trimmedB_of_AllOk (s : Str) (h : AllOk s) : trimmedB s = true := by
  apply trimmedB_of_noSpace
  intro c hc
  have := h c hc
  simp only [plainOk, Bool.and_eq_true, Bool.not_eq_true'] at this
  exact this.2

theorem AllOk_pyStrInt (i : Int) : AllOk (pyStrInt i) := by
  unfold pyStrInt
  split
  · exact AllOk_cons (by decide) (AllOk_pyStrNat _)
  · exact AllOk_pyStrNat _

theorem pyStrInt_ne_nil (i : Int) : pyStrInt i ≠ [] := by
  unfold pyStrInt; split
  · simp
  · exact pyStrNat_ne_nil _

theorem decFormatF_ne_nil (neg : Bool) (c : Nat) (e : Int) : decFormatF (.fin neg c e) ≠ [] := by
  intro h
  have := lexDecimal_formatF neg c e
  rw [h] at this
  exact absurd this (by decide)

end Ofx.Types

namespace Ofx.DateTime
open Ofx Ofx.Cal Ofx.Spec.Instant Ofx.Types

theorem dch_plainOk (n : Nat) : plainOk (dch n) = true := by
  have : dch n = digitChar (n % 10) := rfl
  rw [this]; exact digitChar_plainOk (n % 10) (Nat.mod_lt _ (by decide))

theorem AllOk_d2 (n : Nat) : AllOk (d2 n) :=
  AllOk_cons (dch_plainOk _) (AllOk_cons (dch_plainOk _) AllOk_nil)
theorem AllOk_d3 (n : Nat) : AllOk (d3 n) :=
  AllOk_cons (dch_plainOk _) (AllOk_cons (dch_plainOk _) (AllOk_cons (dch_plainOk _) AllOk_nil))
theorem AllOk_d4 (n : Nat) : AllOk (d4 n) :=
  AllOk_cons (dch_plainOk _) (AllOk_cons (dch_plainOk _) (AllOk_cons (dch_plainOk _) (AllOk_cons (dch_plainOk _) AllOk_nil)))

/-- the text written for a UTC value consists of digits, `.`, `[`, `+0:UTC`, `]` -/
theorem AllOk_render_utc (p : Parts) (htod : p.tod.isSome = true) (hms : p.ms.isSome = true)
    (hoff : p.off = some (canonOff 0 (some "UTC".toList))) : AllOk p.render := by
  obtain ⟨date, tod, ms, off⟩ := p
  simp only at htod hms hoff
  subst hoff
  obtain ⟨⟨h, mi, s⟩, rfl⟩ := Option.isSome_iff_exists.mp htod
  obtain ⟨m, rfl⟩ := Option.isSome_iff_exists.mp hms
  have htail : AllOk ('[' :: "+0:UTC".toList ++ [']']) := AllOk_lit _ (by decide)
  cases date with
  | none =>
    simp only [Parts.render, canonOff_utc_render]
    exact AllOk_append (AllOk_append (AllOk_append AllOk_nil
      (AllOk_append (AllOk_append (AllOk_d2 _) (AllOk_d2 _)) (AllOk_d2 _)))
      (AllOk_cons (by decide) (AllOk_d3 _))) htail
  | some x =>
    obtain ⟨y, m', d⟩ := x
    simp only [Parts.render, canonOff_utc_render]
    exact AllOk_append (AllOk_append (AllOk_append
      (AllOk_append (AllOk_append (AllOk_d4 _) (AllOk_d2 _)) (AllOk_d2 _))
      (AllOk_append (AllOk_append (AllOk_d2 _) (AllOk_d2 _)) (AllOk_d2 _)))
      (AllOk_cons (by decide) (AllOk_d3 _))) htail

theorem utc_name_ok : ∀ n, utc.name = some n → '\n' ∉ n := by
  intro n hn
  have : n = "UTC".toList := by simpa [utc] using hn.symm
  subst this; decide

/-- what is written for a UTC millisecond datetime is non-empty and free of white space -/
theorem dt_written_utc (r : Bool) (d : DT) (hd : dtUtcMs d) (s : Str)
    (h : dtUnconvert r (.dt d) = .ok (.str s)) : s ≠ [] ∧ AllOk s := by
  obtain ⟨hv, htz, hms, hlo, hhi⟩ := hd
  have hyear : us1000 ≤ localUs d + 500 ∧ localUs d + 500 < usEnd := by
    have := localUs_ms d hms
    unfold us1000 usEnd at *; omega
  obtain ⟨p, us, _, hun, _, _, htod, hpms, hpo, _⟩ :=
    C09_write r d utc hv htz (by decide) (by decide) utc_name_ok hyear
  have hs : s = p.render := by
    rw [hun] at h; injection h with h; injection h with h; exact h.symm
  subst hs
  have hpo' : p.off = some (canonOff 0 (some "UTC".toList)) := by rw [hpo]; rfl
  exact ⟨(markupFree_render_utc p trivial htod hpms hpo').2, AllOk_render_utc p htod hpms hpo'⟩

theorem tm_written_utc (r : Bool) (t : TM) (hd : tmUtcMs t) (s : Str)
    (h : tmUnconvert r (.tm t) = .ok (.str s)) : s ≠ [] ∧ AllOk s := by
  obtain ⟨hv, htz, hms⟩ := hd
  obtain ⟨p, hun, _, _, htod, hpms, hpo, _⟩ := C09_time_write r t utc hv htz (by decide) (by decide) utc_name_ok
  have hs : s = p.render := by
    rw [hun] at h; injection h with h; injection h with h; exact h.symm
  subst hs
  have hpo' : p.off = some (canonOff 0 (some "UTC".toList)) := by rw [hpo]; rfl
  exact ⟨(markupFree_render_utc p trivial htod hpms hpo').2, AllOk_render_utc p htod hpms hpo'⟩

end Ofx.DateTime

namespace Ofx.Types
open Ofx Ofx.Agg Ofx.Spec.Wire

/-! ### the wire domain -/

/-- `typesDom` with string values and enumeration tokens trimmed (no leading/trailing white space) -/
def typesDomWire (enums : List (List Str)) : Kind → Bool → Val → Prop
  | .string l st, r, v => typesDom enums (.string l st) r v ∧ ∀ s, v = .str s → trimmedB s = true
  | .oneOf e, r, v => typesDom enums (.oneOf e) r v ∧ ∀ s, v = .str s → trimmedB s = true
  | .listElem k ir, _, v => typesDomWire enums k ir v
  | k, r, v => typesDom enums k r v

theorem typesDomWire_sub (enums : List (List Str)) (k : Kind) (r : Bool) (v : Val)
    (h : typesDomWire enums k r v) : typesDom enums k r v := by
  induction k generalizing r with
  | string l st => exact h.1
  | oneOf e => exact h.1
  | listElem k ir ih => exact ih ir h
  | _ => exact h

example : typesDomWire [] (.string (some 12) true) true (.str "AT&T <&amp;>".toList) :=
  ⟨⟨_, rfl, by decide, by decide⟩, fun s hs => by injection hs with hs; subst hs; decide⟩
example : typesDomWire [["CALL".toList, "PUT".toList]] (.listElem (.oneOf 0) true) false (.str "PUT".toList) :=
  ⟨⟨_, _, rfl, rfl, by decide, by decide, by decide⟩, fun s hs => by injection hs with hs; subst hs; decide⟩
example : typesDomWire [] (.decimal (some (-2))) false (.dec (.fin true 15065 (-2))) :=
  ⟨_, _, rfl, by decide, by decide⟩

/-- **the laws of the aggregate round trip on the wire domain** -/
theorem typesConv_laws_wire (enums : List (List Str)) :
    ConvLaws conv enums escapeCdata (typesDomWire enums) where
  none_ok := typesConv_none_ok enums
  round := fun k r v hd hv => typesConv_round_esc enums k r v (typesDomWire_sub enums k r v hd) hv

/-- **every text the converters write for a value of the wire domain is non-empty and trimmed** -/
theorem typesConv_textOk (S : Schema) : Ofx.Pipeline.TextOk S conv (typesDomWire S.enums) := by
  intro k
  induction k with
  | bool =>
    intro r v s _ h
    rcases boolUnconvert_str r v s h with rfl | rfl <;> exact ⟨by simp, by decide⟩
  | string l st =>
    intro r v s hd h
    obtain ⟨hv, _⟩ := stringUnconvert_str l st r v s h
    obtain ⟨⟨s', hs', hne, _⟩, htr⟩ := hd
    subst hv
    injection hs' with hs'; subst hs'
    exact ⟨hne, htr s rfl⟩
  | oneOf e =>
    intro r v s hd h
    obtain ⟨⟨s', valid, hs', he, _, hne, _⟩, htr⟩ := hd
    simp only [conv, unconvert, he] at h
    obtain ⟨hv, _⟩ := oneOfUnconvert_str valid r v s h
    subst hv
    injection hs' with hs'; subst hs'
    exact ⟨hne, htr s rfl⟩
  | integer l =>
    intro r v s _ h
    obtain ⟨i, _, rfl⟩ := integerUnconvert_str l r v s h
    exact ⟨pyStrInt_ne_nil i, trimmedB_of_AllOk _ (AllOk_pyStrInt i)⟩
  | decimal q =>
    intro r v s _ h
    obtain ⟨neg, c, e, _, rfl⟩ := decimalUnconvert_str q r v s h
    exact ⟨decFormatF_ne_nil neg c e, trimmedB_of_AllOk _ (decFormatF_AllOk neg c e)⟩
  | datetime =>
    intro r v s hd h
    obtain ⟨d, rfl, hdd⟩ := hd
    obtain ⟨h1, h2⟩ := Ofx.DateTime.dt_written_utc r d hdd s h
    exact ⟨h1, trimmedB_of_AllOk _ h2⟩
  | time =>
    intro r v s hd h
    obtain ⟨t, rfl, hdt⟩ := hd
    obtain ⟨h1, h2⟩ := Ofx.DateTime.tm_written_utc r t hdt s h
    exact ⟨h1, trimmedB_of_AllOk _ h2⟩
  | listElem k ir ih => intro r v s hd h; exact ih ir v s hd h
  | sub c => intro r v s hd _; exact absurd hd (by simp [typesDomWire, typesDom])
  | listAgg c => intro r v s hd _; exact absurd hd (by simp [typesDomWire, typesDom])
  | unsupported => intro r v s hd _; exact absurd hd (by simp [typesDomWire, typesDom])

end Ofx.Types
