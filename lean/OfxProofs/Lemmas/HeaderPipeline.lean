/-
Header-layer facts needed by the end-to-end pipeline theorem (`readFile (writeFile …)`):
round trip with trailing whitespace, `make_header` yields a valid object, UTF-8 encoding is total and splits,
header texts are ASCII.
-/
import OfxProofs.Props.C12

namespace Ofx.Header
open Ofx Ofx.Codec Ofx.Spec.HeaderLayout

/-! ### (3) encoding -/

theorem encode_append (tbl : List (Option Nat)) (cs : Name) (a b : Str) (x y : Bytes)
    (ha : encode tbl cs a = .ok x) (hb : encode tbl cs b = .ok y) : encode tbl cs (a ++ b) = .ok (x ++ y) := by
  induction a generalizing x with
  | nil =>
    simp [encode, pure, Except.pure] at ha
    subst ha
    simpa using hb
  | cons c cs' ih =>
    unfold encode at ha
    split at ha
    · rename_i cb hc
      cases hr : encode tbl cs cs' with
      | error e => simp [hr, bind, Except.bind] at ha
      | ok rb =>
        simp [hr, bind, Except.bind, pure, Except.pure] at ha
        subst ha
        rw [List.cons_append, encode, hc]
        simp [ih rb hr, bind, Except.bind, pure, Except.pure]
    · simp [throw, throwThe, MonadExceptOf.throw] at ha

/-- UTF-8 encodes every character -/
theorem encodeCharUtf8_isSome (c : Char) : ∃ bs, encodeCharUtf8 c = some bs := by
  unfold encodeCharUtf8
  simp only
  split
  · exact ⟨_, rfl⟩
  · split
    · exact ⟨_, rfl⟩
    · split <;> exact ⟨_, rfl⟩

/-- UTF-8 encoding is total -/
theorem encode_utf8_total (tbl : List (Option Nat)) (s : Str) : ∃ bs, encode tbl .utf8 s = .ok bs := by
  induction s with
  | nil => exact ⟨[], rfl⟩
  | cons c cs ih =>
    obtain ⟨rb, hr⟩ := ih
    obtain ⟨cb, hc⟩ := encodeCharUtf8_isSome c
    refine ⟨cb ++ rb, ?_⟩
    rw [encode]
    simp only [encodeChar, hc, hr, bind, Except.bind, pure, Except.pure]

/-- ASCII text encodes to its bytes, in every codec -/
theorem encode_ascii (tbl : List (Option Nat)) (cs : Name) (s : Str) (hs : isAscii s) :
    encode tbl cs s = .ok (asciiBytes s) := by
  induction s with
  | nil => rfl
  | cons c cs' ih =>
    have hc := (isAscii_cons.1 hs).1
    rw [encode, encodeChar_ascii tbl cs c hc]
    simp [ih (isAscii_cons.1 hs).2, bind, Except.bind, pure, Except.pure, asciiBytes]

theorem encode_utf8_ascii (tbl : List (Option Nat)) (s : Str) (hs : isAscii s) :
    encode tbl .utf8 s = .ok (asciiBytes s) := encode_ascii tbl .utf8 s hs

/-- the text of a valid v1 header object is ASCII -/
theorem strV1_ascii (p : V1P) (h : V1) (hv : ValidV1 p h) : isAscii (strV1 h) := by
  rw [strV1_eq]
  have lo := layOk_of_tolerated strLayV1 (by decide)
  have := ofLay_ascii p strLayV1 { h := h, withCompression := true } lo hv
  have e : v1Text strLayV1 { h := h, withCompression := true } =
      (V1W.ofLay strLayV1 { h := h, withCompression := true }).text [] ++ strLayV1.gap := by
    have := v1Text_eq strLayV1 { h := h, withCompression := true }
    rw [← text_append, List.nil_append, ← this]
    simp [v1Text, leadingText, strLayV1]
  rw [e]
  exact isAscii_append.2 ⟨this, by unfold isAscii; decide⟩

/-- the text of a valid v2 header object is ASCII -/
theorem strV2_ascii (p : V2P) (h : V2) (hv : ValidV2 p h) : isAscii (strV2 h) := by
  rw [strV2_eq]
  obtain ⟨c1, _⟩ := pyStrInt_small _ hv.oh0.1 hv.oh0.2
  obtain ⟨c2, _⟩ := pyStrInt_small _ hv.ver0.1 hv.ver0.2
  have hO : isAscii (v2Ofx strLayV2 h) := by
    have := v2Ofx_nf strLayV2 h []
    rw [List.append_nil] at this
    rw [this]
    exact isAscii_ofxNF _ _ _ _ _ _ _ _ _ _ _ _ _ _ _ _ _ (by unfold isAscii; decide) (by unfold isAscii; decide)
      (by unfold isAscii; decide) (by unfold isAscii; decide) (by unfold isAscii; decide) (by unfold isAscii; decide)
      (by unfold isAscii; decide)
      (isAscii_class _ digit_wordDash _ c1.2) (isAscii_class _ digit_wordDash _ c2.2)
      (isAscii_class _ word_wordDash _ hv.sec.2.2) (isAscii_class _ (fun _ h => h) _ hv.old.1.2)
      (isAscii_class _ (fun _ h => h) _ hv.new.1.2)
  unfold v2Text
  refine isAscii_append.2 ⟨by unfold isAscii; decide, isAscii_append.2 ⟨by unfold isAscii; decide,
    isAscii_append.2 ⟨by unfold isAscii; decide, hO⟩⟩⟩

/-! ### (1) round trip with trailing whitespace -/

/-- v1: the header text followed by `body ++ w` (any Python whitespace `w`) parses back to the header and `body`:
    `parse_header` strips the message -/
theorem C12_roundtrip_v1_ws (p1 : V1P) (p2 : V2P) (tbl : List (Option Nat)) (h : V1) (body w : Str) (bb : Bytes)
    (cs : Name) (hv : ValidV1 p1 h) (hcodec : codecV1 p1 h = .ok cs) (henc : encode tbl cs (body ++ w) = .ok bb)
    (hb0 : body.head? = some '<') (hb1 : body.getLast? = some '>') (hw : ∀ c ∈ w, isSpace c = true) :
    parseHeader p1 p2 tbl (asciiBytes (strV1 h) ++ bb) = .ok (.v1 h, body) := by
  obtain ⟨brest, hbody⟩ : ∃ r, body = '<' :: r := by
    cases body with
    | nil => simp at hb0
    | cons c r => simp at hb0; exact ⟨r, by rw [hb0]⟩
  rw [strV1_eq]
  have := parse_v1_gen p1 p2 tbl strLayV1 { h := h, withCompression := true } (body ++ w) bb cs hv
    (by intro h; cases h) hcodec henc (by rw [hbody]; rfl) (by decide)
  simp only [renderV1] at this
  rw [this, strip_ws_body_ws strLayV1.gap body w (by unfold allSpace; decide) hw '<' brest hbody (by decide) '>' hb1
    (by decide)]

/-- v2: nothing is stripped — the message is everything after the OFX declaration and the whitespace that
    follows it, so trailing whitespace stays (as in the real `parse_header`: `decoded_source[header_end_index:]`) -/
theorem C12_roundtrip_v2_ws (p1 : V1P) (p2 : V2P) (tbl : List (Option Nat)) (h : V2) (body w : Str) (bb : Bytes)
    (hv : ValidV2 p2 h) (henc : encode tbl .utf8 (body ++ w) = .ok bb) (hb0 : body.head? = some '<') :
    parseHeader p1 p2 tbl (asciiBytes (strV2 h) ++ bb) = .ok (.v2 h, body ++ w) := by
  obtain ⟨brest, hbody⟩ : ∃ r, body = '<' :: r := by
    cases body with
    | nil => simp at hb0
    | cons c r => simp at hb0; exact ⟨r, by rw [hb0]⟩
  rw [strV2_eq]
  exact parse_v2_gen p1 p2 tbl strLayV2 h (body ++ w) bb hv henc (by rw [hbody]; rfl) (by decide)

/-! ### (2) `make_header` yields a valid object -/

/-- what the model needs of the v1 validator tables for the constructor's defaults to be accepted
    (`Gen.header_wf` checks it of the generated tables) -/
structure WFV1 (p : V1P) : Prop where
  oh : "100".toList ∈ p.ofxheader
  data : "OFXSGML".toList ∈ p.data
  ver : ∀ n, p.versionLen = some n → 3 ≤ n
  sec : "NONE".toList ∈ p.security
  enc : "USASCII".toList ∈ p.encoding
  cs : "NONE".toList ∈ p.charset
  comp : "NONE".toList ∈ p.compression
  codec : p.codecs.lookup "NONE".toList = some "utf_8".toList

structure WFV2 (p : V2P) : Prop where
  oh : "200".toList ∈ p.ofxheader
  sec : "NONE".toList ∈ p.security

/-- a UID argument of `make_header`: absent, or within the pattern's class and the length limit -/
def UidOk (len : Option Nat) : Option Str → Prop
  | none => (∀ n, len = some n → 4 ≤ n)
  | some u => inClass isWordDash u ∧ ∀ n, len = some n → u.length ≤ n

/-- a SECURITY argument: absent, or a listed token -/
def SecOk (valid : List Str) : Option Str → Prop
  | none => True
  | some s => s ∈ valid ∧ inClass isWord s

theorem orStr_none (d : Str) : orStr none d = d := rfl

theorem uid_spec (len : Option Nat) (u : Option Str) (h : UidOk len u) :
    inClass isWordDash (orStr u "NONE".toList) ∧ ∀ n, len = some n → (orStr u "NONE".toList).length ≤ n := by
  cases u with
  | none => exact ⟨⟨by decide, by decide⟩, fun n hn => by have := h n hn; simp [orStr]; omega⟩
  | some s => rw [orStr_some _ _ h.1.1]; exact h

theorem sec_spec (valid : List Str) (s : Option Str) (hnone : "NONE".toList ∈ valid) (h : SecOk valid s) :
    orStr s "NONE".toList ∈ valid ∧ inClass isWord (orStr s "NONE".toList) := by
  cases s with
  | none => exact ⟨hnone, by decide, by decide⟩
  | some t => rw [orStr_some _ _ h.2.1]; exact h

theorem orElse_int (i : Int) (d : Arg) (h : i ≠ 0) : (Arg.int i).orElse d = .int i := by
  cases i with
  | ofNat n => cases n with
    | zero => exact absurd rfl h
    | succ n => rfl
  | negSucc n => rfl

/-- the v1 header object `make_header(v, sec, old, new)` builds for a 1xx version -/
def madeV1 (v : Int) (sec old new : Option Str) : V1 :=
  { ofxheader := 100, data := "OFXSGML".toList, version := v, security := orStr sec "NONE".toList,
    encoding := "USASCII".toList, charset := "NONE".toList, compression := "NONE".toList,
    oldfileuid := orStr old "NONE".toList, newfileuid := orStr new "NONE".toList }

theorem pow10_ge (n : Nat) (h : 3 ≤ n) : (1000 : Int) ≤ (10 : Int) ^ n := by
  obtain ⟨k, rfl⟩ := Nat.exists_eq_add_of_le h
  induction k with
  | zero => decide
  | succ k ih =>
    have e : (10 : Int) ^ (3 + (k + 1)) = (10 : Int) ^ (3 + k) * 10 := by
      rw [← Nat.add_assoc, Int.pow_succ]
    rw [e]
    have := ih (by omega)
    omega

theorem oneOfInt_mem (valid : List Str) (i : Int) (h : pyStrInt i ∈ valid) : oneOfInt valid i = .ok i := by
  simp [oneOfInt, h, pure, Except.pure]

theorem oneOfStr_mem (valid : List Str) (s : Str) (h : s ∈ valid) : oneOfStr valid s = .ok s := by
  simp [oneOfStr, h, pure, Except.pure]

theorem madeV1_valid (p : V1P) (wf : WFV1 p) (v : Int) (sec old new : Option Str) (hv : 100 ≤ v ∧ v ≤ 199)
    (hs : SecOk p.security sec) (ho : UidOk p.oldLen old) (hn : UidOk p.newLen new) :
    ValidV1 p (madeV1 v sec old new) := by
  obtain ⟨s1, s2⟩ := sec_spec _ sec wf.sec hs
  refine { oh0 := ?_, oh := ?_, data := ⟨wf.data, ?_⟩, ver0 := ?_, ver := ?_, sec := ⟨s1, s2⟩, enc := ⟨wf.enc, ?_⟩,
           cs := ⟨wf.cs, ?_⟩, comp := ⟨wf.comp, ?_⟩, old := uid_spec _ old ho, new := uid_spec _ new hn }
  · show (0 : Int) ≤ 100 ∧ (100 : Int) < 1000; decide
  · show pyStrInt 100 ∈ p.ofxheader
    have e100 : pyStrInt 100 = "100".toList := by decide
    rw [e100]; exact wf.oh
  · show inClass isUpper "OFXSGML".toList; exact ⟨by decide, by decide⟩
  · show (0 : Int) ≤ v ∧ v < 1000; omega
  · intro n hn
    show v < (10 : Int) ^ n
    have := pow10_ge n (wf.ver n hn)
    omega
  · show inClass isUpDigDash "USASCII".toList; exact ⟨by decide, by decide⟩
  · show inClass isWordDash "NONE".toList; exact ⟨by decide, by decide⟩
  · show inClass isUpper "NONE".toList; exact ⟨by decide, by decide⟩

set_option maxRecDepth 4000 in
theorem makeHeader_v1 (p1 : V1P) (p2 : V2P) (wf : WFV1 p1) (v : Int) (sec old new : Option Str)
    (hv : 100 ≤ v ∧ v ≤ 199) (hs : SecOk p1.security sec) (ho : UidOk p1.oldLen old) (hn : UidOk p1.newLen new) :
    makeHeader p1 p2 (.int v) sec old new = .ok (.v1 (madeV1 v sec old new)) := by
  obtain ⟨s1, _⟩ := sec_spec _ sec wf.sec hs
  obtain ⟨o1, o2⟩ := uid_spec _ old ho
  obtain ⟨n1, n2⟩ := uid_spec _ new hn
  have hdiv : v / 100 = 1 := by omega
  have hctor : ctorV1 p1 (.int v) .none none sec none none none old new = .ok (madeV1 v sec old new) := by
    have hint : integerConv p1.versionLen v = .ok v := by
      unfold integerConv
      cases hl : p1.versionLen with
      | none => rfl
      | some n => simp only; rw [if_neg (by have := pow10_ge n (wf.ver n hl); omega)]; rfl
    have e100 : pyStrInt 100 = "100".toList := by decide
    have c1 : toInt (Arg.none.orElse (.int 100)) = .ok 100 := rfl
    have c2 : oneOfInt p1.ofxheader 100 = .ok 100 := oneOfInt_mem _ _ (by rw [e100]; exact wf.oh)
    have c3 : oneOfStr p1.data (orStr none "OFXSGML".toList) = .ok "OFXSGML".toList := oneOfStr_mem _ _ wf.data
    have c4 : toInt ((Arg.int v).orElse (.int 102)) = .ok v := by rw [orElse_int v _ (by omega)]; rfl
    have c6 := oneOfStr_mem _ _ s1
    have c7 : oneOfStr p1.encoding (orStr none "USASCII".toList) = .ok "USASCII".toList := oneOfStr_mem _ _ wf.enc
    have c8 : oneOfStr p1.charset (orStr none "NONE".toList) = .ok "NONE".toList := oneOfStr_mem _ _ wf.cs
    have c9 : oneOfStr p1.compression (orStr none "NONE".toList) = .ok "NONE".toList := oneOfStr_mem _ _ wf.comp
    unfold ctorV1
    simp only [c1, c2, c3, c4, hint, c6, c7, c8, c9, stringConv_uid _ _ o1.2 o2, stringConv_uid _ _ n1.2 n2,
      bind, Except.bind, pure, Except.pure, wrapValueError, madeV1]
  simp only [makeHeader, toInt, bind, Except.bind, hdiv, if_true, hctor, pure, Except.pure]

/-- **`make_header` yields a valid v1 object** whose codec is UTF-8 (CHARSET defaults to NONE) -/
theorem makeHeader_v1_valid (p1 : V1P) (p2 : V2P) (wf : WFV1 p1) (v : Int) (sec old new : Option Str) (h : V1)
    (hs : SecOk p1.security sec) (ho : UidOk p1.oldLen old) (hn : UidOk p1.newLen new)
    (hk : makeHeader p1 p2 (.int v) sec old new = .ok (.v1 h)) :
    ValidV1 p1 h ∧ codecV1 p1 h = .ok .utf8 ∧ h = madeV1 v sec old new := by
  have hr : 100 ≤ v ∧ v ≤ 199 := by
    rcases C12_kind p1 p2 (.int v) v sec old new (.v1 h) rfl hk with ⟨h1, _⟩ | ⟨_, h2, e⟩
    · omega
    · cases e
  rw [makeHeader_v1 p1 p2 wf v sec old new hr hs ho hn] at hk
  have e : h = madeV1 v sec old new := by injection hk with hk; injection hk with hk; exact hk.symm
  subst e
  refine ⟨madeV1_valid p1 wf v sec old new hr hs ho hn, ?_, rfl⟩
  simp only [codecV1, madeV1, wf.codec]
  rfl

/-- the v2 header object `make_header(v, sec, old, new)` builds for a listed 2xx version -/
def madeV2 (v : Int) (sec old new : Option Str) : V2 :=
  { version := v, ofxheader := 200, security := orStr sec "NONE".toList,
    oldfileuid := orStr old "NONE".toList, newfileuid := orStr new "NONE".toList }

theorem madeV2_valid (p : V2P) (wf : WFV2 p) (v : Int) (sec old new : Option Str) (hv : 200 ≤ v ∧ v ≤ 299)
    (hm : pyStrInt v ∈ p.version) (hs : SecOk p.security sec) (ho : UidOk p.oldLen old) (hn : UidOk p.newLen new) :
    ValidV2 p (madeV2 v sec old new) := by
  obtain ⟨s1, s2⟩ := sec_spec _ sec wf.sec hs
  refine { oh0 := ?_, oh := ?_, ver0 := ?_, ver := hm, sec := ⟨s1, s2⟩, old := uid_spec _ old ho,
           new := uid_spec _ new hn }
  · show (0 : Int) ≤ 200 ∧ (200 : Int) < 1000; decide
  · show pyStrInt 200 ∈ p.ofxheader
    have e200 : pyStrInt 200 = "200".toList := by decide
    rw [e200]; exact wf.oh
  · show (0 : Int) ≤ v ∧ v < 1000; omega

theorem makeHeader_v2 (p1 : V1P) (p2 : V2P) (wf : WFV2 p2) (v : Int) (sec old new : Option Str)
    (hv : 200 ≤ v ∧ v ≤ 299) (hm : pyStrInt v ∈ p2.version) (hs : SecOk p2.security sec)
    (ho : UidOk p2.oldLen old) (hn : UidOk p2.newLen new) :
    makeHeader p1 p2 (.int v) sec old new = .ok (.v2 (madeV2 v sec old new)) := by
  obtain ⟨s1, _⟩ := sec_spec _ sec wf.sec hs
  obtain ⟨o1, o2⟩ := uid_spec _ old ho
  obtain ⟨n1, n2⟩ := uid_spec _ new hn
  have hd1 : ¬ v / 100 = 1 := by omega
  have hd2 : v / 100 = 2 := by omega
  have hctor : ctorV2 p2 (.int v) .none sec old new = .ok (madeV2 v sec old new) := by
    have e200 : pyStrInt 200 = "200".toList := by decide
    have c1 : toInt (Arg.int v) = .ok v := rfl
    have c2 := oneOfInt_mem _ _ hm
    have c3 : toInt (Arg.none.orElse (.int 200)) = .ok 200 := rfl
    have c4 : oneOfInt p2.ofxheader 200 = .ok 200 := oneOfInt_mem _ _ (by rw [e200]; exact wf.oh)
    have c5 := oneOfStr_mem _ _ s1
    unfold ctorV2
    simp only [c1, c2, c3, c4, c5, stringConv_uid _ _ o1.2 o2, stringConv_uid _ _ n1.2 n2,
      bind, Except.bind, pure, Except.pure, wrapValueError, madeV2]
  have hi : toInt (Arg.int v) = .ok v := rfl
  simp only [makeHeader, hi, bind, Except.bind]
  simp only [hd1, if_false]
  simp only [hd2, if_true, hctor, pure, Except.pure]

/-- **`make_header` yields a valid v2 object** -/
theorem makeHeader_v2_valid (p1 : V1P) (p2 : V2P) (wf : WFV2 p2) (v : Int) (sec old new : Option Str) (h : V2)
    (hs : SecOk p2.security sec) (ho : UidOk p2.oldLen old) (hn : UidOk p2.newLen new)
    (hk : makeHeader p1 p2 (.int v) sec old new = .ok (.v2 h)) :
    ValidV2 p2 h ∧ h = madeV2 v sec old new := by
  have hr : 200 ≤ v ∧ v ≤ 299 := by
    rcases C12_kind p1 p2 (.int v) v sec old new (.v2 h) rfl hk with ⟨_, h1, e⟩ | ⟨h2, _⟩
    · cases e
    · omega
  have hm : pyStrInt v ∈ p2.version := by
    have hi : toInt (Arg.int v) = .ok v := rfl
    have h1 : ¬ v / 100 = 1 := by omega
    have h2 : v / 100 = 2 := by omega
    simp only [makeHeader, hi, bind, Except.bind] at hk
    simp only [h1, if_false] at hk
    simp only [h2, if_true] at hk
    cases hc : ctorV2 p2 (.int v) .none sec old new with
    | error e => rw [hc] at hk; cases hk
    | ok h' =>
      have hs' := ctorV2_sound p2 _ _ _ _ _ h' hc
      have hv' : h'.version = v := by
        unfold ctorV2 at hc
        rw [wrap_ok] at hc
        simp only [bind_ok] at hc
        obtain ⟨a1, h1, a2, h2, a3, h3, a4, h4, a5, h5, a6, h6, a7, h7, hr'⟩ := hc
        cases hr'
        simp only [toInt, pure, Except.pure] at h1
        cases h1
        exact (oneOfInt_ok _ _ _ h2).2
      rw [← hv']; exact hs'.1
  rw [makeHeader_v2 p1 p2 wf v sec old new hr hm hs ho hn] at hk
  have e : h = madeV2 v sec old new := by injection hk with hk; injection hk with hk; exact hk.symm
  subst e
  exact ⟨madeV2_valid p2 wf v sec old new hr hm hs ho hn, rfl⟩

/-- the pinned tables satisfy the well-formedness conditions -/
theorem wf_pinnedV1 : WFV1 pinnedV1P :=
  ⟨by decide, by decide, fun n hn => by cases hn; decide, by decide, by decide, by decide, by decide, by decide⟩

theorem wf_pinnedV2 : WFV2 pinnedV2P := ⟨by decide, by decide⟩

end Ofx.Header
