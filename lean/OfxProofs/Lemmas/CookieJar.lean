/-
Lemmas about `OfxModel/Ofx/CookieJar.lean`: strings, the sort of `_cookie_attrs`, the nested dictionaries of the jar.
-/
import OfxModel.Ofx.CookieJar

namespace Ofx.CookieJar

/-! ### strings -/

theorem startsWith_iff {p s : Str} : startsWith p s = true ↔ ∃ rest, s = p ++ rest := by
  simp only [startsWith, List.isPrefixOf_iff_prefix]
  constructor
  · rintro ⟨t, rfl⟩; exact ⟨t, rfl⟩
  · rintro ⟨t, rfl⟩; exact ⟨t, rfl⟩

theorem endsWith_iff {suf s : Str} : endsWith suf s = true ↔ ∃ pre, s = pre ++ suf := by
  simp only [endsWith, List.isPrefixOf_iff_prefix]
  constructor
  · rintro ⟨t, ht⟩
    refine ⟨t.reverse, ?_⟩
    have := congrArg List.reverse ht
    simpa using this.symm
  · rintro ⟨t, rfl⟩
    exact ⟨t.reverse, by simp⟩

/-! ### the sort -/

theorem mem_insertByPath {x c : Cookie} {l : List Cookie} : x ∈ insertByPath c l ↔ x = c ∨ x ∈ l := by
  induction l with
  | nil => simp [insertByPath]
  | cons d ds ih =>
    simp only [insertByPath]
    split
    · simp
    · simp only [List.mem_cons, ih]
      constructor
      · rintro (h | h | h) <;> simp [h]
      · rintro (h | h | h) <;> simp [h]

theorem mem_sortByPath {x : Cookie} {l : List Cookie} : x ∈ sortByPath l ↔ x ∈ l := by
  induction l with
  | nil => simp [sortByPath]
  | cons d ds ih =>
    have : sortByPath (d :: ds) = insertByPath d (sortByPath ds) := rfl
    rw [this, mem_insertByPath, ih]; simp

def PathOrdered (l : List Cookie) : Prop := l.Pairwise fun a b => b.path.length ≤ a.path.length

theorem insertByPath_ordered {c : Cookie} {l : List Cookie} (h : PathOrdered l) : PathOrdered (insertByPath c l) := by
  induction l with
  | nil => simp [insertByPath, PathOrdered]
  | cons d ds ih =>
    simp only [insertByPath]
    have hd := List.pairwise_cons.mp h
    split
    · rename_i hle
      refine List.pairwise_cons.mpr ⟨?_, h⟩
      intro b hb
      rcases List.mem_cons.mp hb with rfl | hb
      · exact hle
      · exact Nat.le_trans (hd.1 b hb) hle
    · rename_i hlt
      refine List.pairwise_cons.mpr ⟨?_, ih hd.2⟩
      intro b hb
      rcases mem_insertByPath.mp hb with rfl | hb
      · omega
      · exact hd.1 b hb

theorem sortByPath_ordered (l : List Cookie) : PathOrdered (sortByPath l) := by
  induction l with
  | nil => simp [sortByPath, PathOrdered]
  | cons d ds ih => exact insertByPath_ordered ih

/-! ### dictionaries -/

theorem mem_adjust {k : Str} {f : α → α} {d : Dict α} {kv : Str × α} :
    kv ∈ adjust k f d ↔ (kv.1 ≠ k ∧ kv ∈ d) ∨ (kv.1 = k ∧ ∃ v, (k, v) ∈ d ∧ kv.2 = f v) := by
  simp only [adjust, List.mem_map]
  constructor
  · rintro ⟨e, he, rfl⟩
    by_cases hk : e.1 = k
    · right; simp only [hk, if_true]; exact ⟨trivial, e.2, by rw [← hk]; exact he, rfl⟩
    · left; simp only [hk, if_false]; exact ⟨hk, he⟩
  · rintro (⟨hk, he⟩ | ⟨hk, v, hv, hf⟩)
    · exact ⟨kv, he, by simp [hk]⟩
    · refine ⟨(k, v), hv, ?_⟩
      obtain ⟨a, b⟩ := kv
      simp only at hk hf
      simp [hk, hf]

theorem hasKey_iff {k : Str} {d : Dict α} : hasKey k d = true ↔ ∃ v, (k, v) ∈ d := by
  simp only [hasKey, List.any_eq_true, decide_eq_true_eq]
  constructor
  · rintro ⟨e, he, rfl⟩; exact ⟨e.2, he⟩
  · rintro ⟨v, hv⟩; exact ⟨(k, v), hv, rfl⟩

theorem mem_alter {k : Str} {f : Option α → α} {d : Dict α} {kv : Str × α} :
    kv ∈ alter k f d ↔
      (kv.1 ≠ k ∧ kv ∈ d) ∨
      (kv.1 = k ∧ ((∃ v, (k, v) ∈ d ∧ kv.2 = f (some v)) ∨ ((∀ v, (k, v) ∉ d) ∧ kv.2 = f none))) := by
  unfold alter
  by_cases hk : hasKey k d = true
  · rw [if_pos hk, mem_adjust]
    obtain ⟨v0, hv0⟩ := hasKey_iff.mp hk
    constructor
    · rintro (h | ⟨h1, v, hv, h2⟩)
      · exact .inl h
      · exact .inr ⟨h1, .inl ⟨v, hv, h2⟩⟩
    · rintro (h | ⟨h1, ⟨v, hv, h2⟩ | ⟨hno, _⟩⟩)
      · exact .inl h
      · exact .inr ⟨h1, v, hv, h2⟩
      · exact absurd hv0 (hno v0)
  · rw [if_neg hk]
    have hno : ∀ v, (k, v) ∉ d := fun v hv => hk (hasKey_iff.mpr ⟨v, hv⟩)
    simp only [List.mem_append, List.mem_singleton]
    constructor
    · rintro (h | rfl)
      · left
        refine ⟨?_, h⟩
        intro hk'
        obtain ⟨a, b⟩ := kv
        simp only at hk'
        subst hk'
        exact hno b h
      · exact .inr ⟨rfl, .inr ⟨hno, rfl⟩⟩
    · rintro (⟨_, h⟩ | ⟨h1, ⟨v, hv, _⟩ | ⟨_, h2⟩⟩)
      · exact .inl h
      · exact absurd hv (hno v)
      · right
        obtain ⟨a, b⟩ := kv
        simp only at h1 h2
        simp [h1, h2]

theorem mem_setName {x c : Cookie} {ns : List Cookie} :
    x ∈ setName c ns ↔ x = c ∨ (x ∈ ns ∧ x.name ≠ c.name) := by
  unfold setName
  by_cases h : ns.any (·.name = c.name) = true
  · rw [if_pos h]
    simp only [List.any_eq_true, decide_eq_true_eq] at h
    obtain ⟨d0, hd0, hn0⟩ := h
    simp only [List.mem_map]
    constructor
    · rintro ⟨d, hd, rfl⟩
      by_cases hn : d.name = c.name
      · simp [hn]
      · simp only [hn, if_false]; exact .inr ⟨hd, hn⟩
    · rintro (rfl | ⟨hx, hn⟩)
      · exact ⟨d0, hd0, by simp [hn0]⟩
      · exact ⟨x, hx, by simp [hn]⟩
  · rw [if_neg h]
    simp only [List.any_eq_true, decide_eq_true_eq, not_exists, not_and] at h
    simp only [List.mem_append, List.mem_singleton]
    constructor
    · rintro (hx | rfl)
      · exact .inr ⟨hx, h x hx⟩
      · exact .inl rfl
    · rintro (rfl | ⟨hx, _⟩)
      · exact .inr rfl
      · exact .inl hx

/-! ### the jar -/

/-- cookie `c` sits in the jar under the domain key `d` and the path key `p` -/
def At (jar : Jar) (d p : Str) (c : Cookie) : Prop := ∃ ps, (d, ps) ∈ jar ∧ ∃ ns, (p, ns) ∈ ps ∧ c ∈ ns

theorem mem_cookies {jar : Jar} {c : Cookie} : c ∈ cookies jar ↔ ∃ d p, At jar d p c := by
  simp only [cookies, List.mem_flatMap, At]
  constructor
  · rintro ⟨⟨d, ps⟩, he, ⟨p, ns⟩, hq, hc⟩
    exact ⟨d, p, ps, he, ns, hq, hc⟩
  · rintro ⟨d, p, ps, he, ns, hq, hc⟩
    exact ⟨(d, ps), he, (p, ns), hq, hc⟩

/-- every cookie sits under its own domain and path (what `set_cookie` guarantees) -/
def Cons (jar : Jar) : Prop := ∀ d p c, At jar d p c → c.domain = d ∧ c.path = p

theorem cons_nil : Cons [] := by
  intro d p c ⟨ps, h, _⟩; cases h

theorem mem_cookies_cons {jar : Jar} (hc : Cons jar) {c : Cookie} : c ∈ cookies jar ↔ At jar c.domain c.path c := by
  rw [mem_cookies]
  constructor
  · rintro ⟨d, p, h⟩
    obtain ⟨rfl, rfl⟩ := hc d p c h
    exact h
  · exact fun h => ⟨_, _, h⟩

/-- cookie `x` sits under the path key `p` of one domain's dictionary -/
def AtP (ps : Dict (List Cookie)) (p : Str) (x : Cookie) : Prop := ∃ ns, (p, ns) ∈ ps ∧ x ∈ ns

theorem atP_setPath {ps : Dict (List Cookie)} {c x : Cookie} {p : Str} :
    AtP (setPath c ps) p x ↔ (p = c.path ∧ x = c) ∨ (AtP ps p x ∧ ¬ (p = c.path ∧ x.name = c.name)) := by
  unfold AtP setPath
  constructor
  · rintro ⟨ns, hns, hx⟩
    rcases mem_alter.mp hns with ⟨hp, hmem⟩ | ⟨hp, ⟨ns0, hns0, hv2⟩ | ⟨_, hv2⟩⟩
    · exact .inr ⟨⟨ns, hmem, hx⟩, fun h => hp h.1⟩
    · simp only at hp hv2
      subst hp
      rw [hv2] at hx
      rcases mem_setName.mp hx with rfl | ⟨hx0, hn⟩
      · exact .inl ⟨rfl, rfl⟩
      · exact .inr ⟨⟨ns0, hns0, hx0⟩, fun h => hn h.2⟩
    · simp only at hp hv2
      subst hp
      rw [hv2] at hx
      rcases mem_setName.mp hx with rfl | ⟨hx0, _⟩
      · exact .inl ⟨rfl, rfl⟩
      · cases hx0
  · rintro (⟨rfl, rfl⟩ | ⟨⟨ns, hns, hx⟩, hne⟩)
    · by_cases hk2 : ∃ ns0, (x.path, ns0) ∈ ps
      · obtain ⟨ns0, hns0⟩ := hk2
        refine ⟨setName x ns0, ?_, mem_setName.mpr (.inl rfl)⟩
        exact mem_alter.mpr (.inr ⟨rfl, .inl ⟨ns0, hns0, rfl⟩⟩)
      · refine ⟨setName x [], ?_, mem_setName.mpr (.inl rfl)⟩
        exact mem_alter.mpr (.inr ⟨rfl, .inr ⟨fun v hv => hk2 ⟨v, hv⟩, rfl⟩⟩)
    · by_cases hp : p = c.path
      · subst hp
        refine ⟨setName c ns, ?_, mem_setName.mpr (.inr ⟨hx, fun h => hne ⟨rfl, h⟩⟩)⟩
        exact mem_alter.mpr (.inr ⟨rfl, .inl ⟨ns, hns, rfl⟩⟩)
      · exact ⟨ns, mem_alter.mpr (.inl ⟨hp, hns⟩), hx⟩

theorem at_setCookie {jar : Jar} {c x : Cookie} {d p : Str} :
    At (setCookie jar c) d p x ↔
      (d = c.domain ∧ p = c.path ∧ x = c) ∨ (At jar d p x ∧ ¬ (d = c.domain ∧ p = c.path ∧ x.name = c.name)) := by
  show (∃ ps, (d, ps) ∈ setCookie jar c ∧ AtP ps p x) ↔
      (d = c.domain ∧ p = c.path ∧ x = c) ∨ ((∃ ps, (d, ps) ∈ jar ∧ AtP ps p x) ∧ _)
  unfold setCookie
  constructor
  · rintro ⟨ps, hps, hx⟩
    rcases mem_alter.mp hps with ⟨hd, hmem⟩ | ⟨hd, ⟨ps0, hps0, hv⟩ | ⟨_, hv⟩⟩
    · exact .inr ⟨⟨ps, hmem, hx⟩, fun h => hd h.1⟩
    · simp only at hd hv
      subst hd
      rw [hv] at hx
      rcases atP_setPath.mp hx with ⟨rfl, rfl⟩ | ⟨hx0, hn⟩
      · exact .inl ⟨rfl, rfl, rfl⟩
      · exact .inr ⟨⟨ps0, hps0, hx0⟩, fun h => hn h.2⟩
    · simp only at hd hv
      subst hd
      rw [hv] at hx
      rcases atP_setPath.mp hx with ⟨rfl, rfl⟩ | ⟨⟨ns0, hns0, _⟩, _⟩
      · exact .inl ⟨rfl, rfl, rfl⟩
      · cases hns0
  · rintro (⟨rfl, rfl, rfl⟩ | ⟨⟨ps, hps, hx⟩, hne⟩)
    · by_cases hk : ∃ ps0, (x.domain, ps0) ∈ jar
      · obtain ⟨ps0, hps0⟩ := hk
        refine ⟨setPath x ps0, ?_, atP_setPath.mpr (.inl ⟨rfl, rfl⟩)⟩
        exact mem_alter.mpr (.inr ⟨rfl, .inl ⟨ps0, hps0, rfl⟩⟩)
      · refine ⟨setPath x [], ?_, atP_setPath.mpr (.inl ⟨rfl, rfl⟩)⟩
        exact mem_alter.mpr (.inr ⟨rfl, .inr ⟨fun v hv => hk ⟨v, hv⟩, rfl⟩⟩)
    · by_cases hd : d = c.domain
      · subst hd
        refine ⟨setPath c ps, ?_, atP_setPath.mpr (.inr ⟨hx, fun h => hne ⟨rfl, h⟩⟩)⟩
        exact mem_alter.mpr (.inr ⟨rfl, .inl ⟨ps, hps, rfl⟩⟩)
      · exact ⟨ps, mem_alter.mpr (.inl ⟨hd, hps⟩), hx⟩

theorem at_clear {jar : Jar} {k : Key} {x : Cookie} {d p : Str} :
    At (clear jar k) d p x ↔ At jar d p x ∧ ¬ (d = k.domain ∧ p = k.path ∧ x.name = k.name) := by
  unfold At clear
  constructor
  · rintro ⟨ps, hps, ns, hns, hx⟩
    rcases mem_adjust.mp hps with ⟨hd, hmem⟩ | ⟨hd, ps0, hps0, hv⟩
    · exact ⟨⟨ps, hmem, ns, hns, hx⟩, fun h => hd h.1⟩
    · simp only at hd hv
      subst hd
      rw [hv] at hns
      rcases mem_adjust.mp hns with ⟨hp, hmem⟩ | ⟨hp, ns0, hns0, hv2⟩
      · exact ⟨⟨ps0, hps0, ns, hmem, hx⟩, fun h => hp h.2.1⟩
      · simp only at hp hv2
        subst hp
        rw [hv2] at hx
        simp only [List.mem_filter, decide_eq_true_eq] at hx
        exact ⟨⟨ps0, hps0, ns0, hns0, hx.1⟩, fun h => hx.2 h.2.2⟩
  · rintro ⟨⟨ps, hps, ns, hns, hx⟩, hne⟩
    by_cases hd : d = k.domain
    · subst hd
      refine ⟨_, mem_adjust.mpr (.inr ⟨rfl, ps, hps, rfl⟩), ?_⟩
      by_cases hp : p = k.path
      · subst hp
        refine ⟨_, mem_adjust.mpr (.inr ⟨rfl, ns, hns, rfl⟩), ?_⟩
        simp only [List.mem_filter, decide_eq_true_eq]
        exact ⟨hx, fun h => hne ⟨rfl, rfl, h⟩⟩
      · exact ⟨ns, mem_adjust.mpr (.inl ⟨hp, hns⟩), hx⟩
    · exact ⟨ps, mem_adjust.mpr (.inl ⟨hd, hps⟩), ns, hns, hx⟩

theorem at_clearExpired {jar : Jar} {now : Int} {x : Cookie} {d p : Str} :
    At (clearExpired jar now) d p x ↔ At jar d p x ∧ x.isExpired now = false := by
  unfold At clearExpired
  simp only [List.mem_map]
  constructor
  · rintro ⟨ps, ⟨e, he, heq⟩, ns, hns, hx⟩
    obtain ⟨e1, e2⟩ := e
    simp only [Prod.mk.injEq] at heq
    obtain ⟨rfl, rfl⟩ := heq
    simp only [List.mem_map] at hns
    obtain ⟨q, hq, hqe⟩ := hns
    obtain ⟨q1, q2⟩ := q
    simp only [Prod.mk.injEq] at hqe
    obtain ⟨rfl, rfl⟩ := hqe
    simp only [List.mem_filter, Bool.not_eq_true'] at hx
    exact ⟨⟨e2, he, q2, hq, hx.1⟩, hx.2⟩
  · rintro ⟨⟨ps, hps, ns, hns, hx⟩, hexp⟩
    refine ⟨_, ⟨(d, ps), hps, rfl⟩, _, List.mem_map.mpr ⟨(p, ns), hns, rfl⟩, ?_⟩
    simp only [List.mem_filter, Bool.not_eq_true']
    exact ⟨hx, hexp⟩

theorem cons_setCookie {jar : Jar} (h : Cons jar) (c : Cookie) : Cons (setCookie jar c) := by
  intro d p x hx
  rcases at_setCookie.mp hx with ⟨rfl, rfl, rfl⟩ | ⟨hx, _⟩
  · exact ⟨rfl, rfl⟩
  · exact h d p x hx

theorem cons_clear {jar : Jar} (h : Cons jar) (k : Key) : Cons (clear jar k) :=
  fun d p x hx => h d p x (at_clear.mp hx).1

theorem cons_clearExpired {jar : Jar} (h : Cons jar) (now : Int) : Cons (clearExpired jar now) :=
  fun d p x hx => h d p x (at_clearExpired.mp hx).1

/-- **`set_cookie`**: the new cookie is in, everything with another key stays, everything with the same key is gone -/
theorem mem_cookies_setCookie {jar : Jar} (h : Cons jar) {c x : Cookie} :
    x ∈ cookies (setCookie jar c) ↔ x = c ∨ (x ∈ cookies jar ∧ x.key ≠ c.key) := by
  rw [mem_cookies_cons (cons_setCookie h c), at_setCookie, mem_cookies_cons h]
  constructor
  · rintro (⟨_, _, rfl⟩ | ⟨hx, hne⟩)
    · exact .inl rfl
    · refine .inr ⟨hx, fun hk => hne ?_⟩
      simp only [Cookie.key, Key.mk.injEq] at hk
      exact hk
  · rintro (rfl | ⟨hx, hne⟩)
    · exact .inl ⟨rfl, rfl, rfl⟩
    · refine .inr ⟨hx, fun hk => hne ?_⟩
      simp only [Cookie.key, Key.mk.injEq]
      exact hk

/-- **`clear(domain, path, name)`** removes exactly the cookies with that key -/
theorem mem_cookies_clear {jar : Jar} (h : Cons jar) {k : Key} {x : Cookie} :
    x ∈ cookies (clear jar k) ↔ x ∈ cookies jar ∧ x.key ≠ k := by
  rw [mem_cookies_cons (cons_clear h k), at_clear, mem_cookies_cons h]
  obtain ⟨kd, kp, kn⟩ := k
  simp only [Cookie.key, Key.mk.injEq, ne_eq]

/-- **`clear_expired_cookies`** removes exactly the expired cookies -/
theorem mem_cookies_clearExpired {jar : Jar} {now : Int} {x : Cookie} :
    x ∈ cookies (clearExpired jar now) ↔ x ∈ cookies jar ∧ x.isExpired now = false := by
  simp only [mem_cookies, at_clearExpired]
  constructor
  · rintro ⟨d, p, h1, h2⟩; exact ⟨⟨d, p, h1⟩, h2⟩
  · rintro ⟨⟨d, p, h1⟩, h2⟩; exact ⟨d, p, h1, h2⟩

end Ofx.CookieJar
