/-
Lemmas for C18: writing `ofxget.cfg` and reading it back; what the write loop leaves for one option; the global
CLIENTUID across writes.
-/
import OfxProofs.Lemmas.OfxgetCanon
import OfxProofs.Lemmas.OfxgetAll
import OfxProofs.Lemmas.OfxgetValues

namespace Ofx.Ofxget
open Ofx Ofx.Spec.Ofxget

/-! ### file round trip -/

theorem kvsLookup_canon (s : Sect) (h : CanonSect s) (k : Name) : kvsLookup s k = (s.lookup k).map strip := by
  induction s with
  | nil => rfl
  | cons kv rest ih =>
    obtain ⟨a, b⟩ := kv
    have hn' : (a :: rest.map (·.1)).Nodup := h.1
    have hrest : CanonSect rest :=
      ⟨(List.nodup_cons.mp hn').2, fun kv hkv => h.2 kv (by simp [hkv])⟩
    have ha : lower a = a := h.2 (a, b) (by simp)
    have hnot : a ∉ rest.map (·.1) := (List.nodup_cons.mp hn').1
    simp only [kvsLookup, ih hrest, ha, List.lookup_cons]
    by_cases hk : k = a
    · subst hk
      have : rest.lookup k = none := by
        cases hl : rest.lookup k with
        | none => rfl
        | some v =>
          exact absurd ((mem_keys_iff_lookup rest k).mpr (by rw [hl]; rfl)) hnot
      simp [this]
    · have hb : (k == a) = false := by simpa using hk
      have hk' : ¬ a = k := fun e => hk e.symm
      simp [hb, hk']

theorem fileLookup_sections (secs : List (Str × Sect)) (hn : (secs.map (·.1)).Nodup) (s : Str) (k : Name) :
    fileLookup secs s k = (secs.lookup s).bind (fun x => kvsLookup x k) := by
  induction secs with
  | nil => rfl
  | cons sec rest ih =>
    obtain ⟨a, b⟩ := sec
    have hn' : (a :: rest.map (·.1)).Nodup := hn
    have hrest : (rest.map (·.1)).Nodup := (List.nodup_cons.mp hn').2
    have hnot : a ∉ rest.map (·.1) := (List.nodup_cons.mp hn').1
    simp only [fileLookup, ih hrest, List.lookup_cons]
    by_cases hs : s = a
    · subst hs
      have : rest.lookup s = none := by
        cases hl : rest.lookup s with
        | none => rfl
        | some v => exact absurd ((mem_keys_iff_lookup rest s).mpr (by rw [hl]; rfl)) hnot
      simp [this]
    · have hb : (s == a) = false := by simpa using hs
      have hs' : ¬ a = s := fun e => hs e.symm
      simp [hb, hs']

/-- **what a reader finds in the file `--write` produced**: the stored text, stripped -/
theorem fileLookup_toFile (c : Ini) (h : Canon c) (s : Str) (k : Name) :
    fileLookup c.toFile s k = (c.look s k).map strip := by
  unfold Ini.toFile
  simp only [fileLookup]
  rw [fileLookup_sections _ h.names]
  by_cases hs : s = defaultSect
  · subst hs
    have : c.sections.lookup defaultSect = none := by
      cases hl : c.sections.lookup defaultSect with
      | none => rfl
      | some x => exact absurd rfl (h.nodef _ (mem_of_lookup _ _ _ hl))
    simp only [this, Option.bind_none, Option.none_or, if_true, Ini.look, kvsLookup_canon _ h.dflt]
  · have hs' : ¬ defaultSect = s := fun e => hs e.symm
    simp only [hs', if_false, Option.or_none, Ini.look, hs, Ini.sect]
    cases hl : c.sections.lookup s with
    | none => rfl
    | some x =>
      simp only [Option.bind_some, Option.getD_some]
      exact kvsLookup_canon x (h.sects _ (mem_of_lookup _ _ _ hl)) k

theorem fileHasSection_toFile (c : Ini) (s : Str) (hs : s ≠ defaultSect) :
    fileHasSection c.toFile s = c.hasSection s := by
  have hsf : (defaultSect == s) = false := by simpa using fun e : defaultSect = s => hs e.symm
  simp only [fileHasSection, Ini.toFile, List.any_cons, hsf, Bool.false_or, Ini.hasSection]
  induction c.sections with
  | nil => rfl
  | cons sec rest ih =>
    obtain ⟨a, b⟩ := sec
    simp only [List.any_cons, List.lookup_cons]
    by_cases h : a = s
    · subst h; simp
    · have h1 : (a == s) = false := by simpa using h
      have h2 : (s == a) = false := by simpa using fun e : s = a => h e.symm
      simp [h1, h2, ih]

/-! ### the write loop -/

theorem writeOpt_canon (T : Tables) (args : Chain) (libCfg : Map) (server : Str) (cfg cfg' : Ini) (ot : Name × CfgTy)
    (h : writeOpt T args libCfg server cfg ot = .ok cfg') (hc : Canon cfg) : Canon cfg' := by
  rcases writeOpt_cases T args libCfg server cfg cfg' ot h with rfl | ⟨txt, rfl⟩
  · exact hc
  · exact canon_set _ hc _ _ _

theorem set_hasSection (c : Ini) (s : Str) (k : Name) (v : Str) (s' : Str) (h : c.hasSection s' = true) :
    (c.set s k v).hasSection s' = true := by
  unfold Ini.set
  split
  · exact h
  · simp only [Ini.hasSection, lookup_mapSet]
    split
    · rfl
    · exact h

theorem removeOption_hasSection (c : Ini) (s : Str) (k : Name) (s' : Str) (h : c.hasSection s' = true) :
    (c.removeOption s k).hasSection s' = true := by
  unfold Ini.removeOption
  split
  · exact h
  · simp only [Ini.hasSection, lookup_mapSet]
    split
    · rfl
    · exact h

theorem writeOpt_hasSection (T : Tables) (args : Chain) (libCfg : Map) (server : Str) (cfg cfg' : Ini) (ot : Name × CfgTy)
    (h : writeOpt T args libCfg server cfg ot = .ok cfg') (s' : Str) (hc : cfg.hasSection s' = true) :
    cfg'.hasSection s' = true := by
  rcases writeOpt_cases T args libCfg server cfg cfg' ot h with rfl | ⟨txt, rfl⟩
  · exact hc
  · exact set_hasSection _ _ _ _ _ hc

theorem ensureSection_hasSection (c : Ini) (s : Str) (hs : s ≠ defaultSect) : (ensureSection c s).hasSection s = true := by
  unfold ensureSection
  split
  · rename_i h; exact h
  · have hsf : (s == defaultSect) = false := by simpa using hs
    simp only [hsf, Bool.false_eq_true, if_false, Ini.hasSection, List.lookup_append]
    cases c.sections.lookup s <;> simp

/-- the DEFAULT section is not touched by a write to a named section -/
theorem set_defaults (c : Ini) (s : Str) (k : Name) (v : Str) (hs : s ≠ defaultSect) : (c.set s k v).defaults = c.defaults := by
  have hsf : (s == defaultSect) = false := by simpa using hs
  simp [Ini.set, hsf]

theorem removeOption_defaults (c : Ini) (s : Str) (k : Name) (hs : s ≠ defaultSect) :
    (c.removeOption s k).defaults = c.defaults := by
  have hsf : (s == defaultSect) = false := by simpa using hs
  simp [Ini.removeOption, hsf]

theorem writeOpt_defaults (T : Tables) (args : Chain) (libCfg : Map) (server : Str) (hs : server ≠ defaultSect)
    (cfg cfg' : Ini) (ot : Name × CfgTy) (h : writeOpt T args libCfg server cfg ot = .ok cfg') :
    cfg'.defaults = cfg.defaults := by
  rcases writeOpt_cases T args libCfg server cfg cfg' ot h with rfl | ⟨txt, rfl⟩
  · rfl
  · exact set_defaults _ _ _ _ hs

end Ofx.Ofxget

namespace Ofx.Ofxget
open Ofx Ofx.Spec.Ofxget

/-! ### the global CLIENTUID -/

/-- the global CLIENTUID a reader finds in `ofxget.cfg` -/
def globalUid (disk : FileC) : Option Str := fileLookup disk defaultSect "clientuid".toList

theorem ensureSection_defaults (c : Ini) (s : Str) (hs : s ≠ defaultSect) : (ensureSection c s).defaults = c.defaults := by
  have hsf : (s == defaultSect) = false := by simpa using hs
  unfold ensureSection
  split
  · rfl
  · simp [hsf]

theorem look_default (c : Ini) (k : Name) : c.look defaultSect k = c.defaults.lookup k := by simp [Ini.look]

/-- what `mk_server_cfg` returns has the DEFAULT section of the reloaded configuration, and is canonical -/
theorem mkServerCfg_defaults (T : Tables) (args : Chain) (mem lib : Ini) (hmem : Canon mem) (disk : FileC) (uuid : Str)
    (cfg' : Ini) (s : Str) (hs : s ≠ defaultSect) (hnick : serverNick args = .ok s)
    (h : mkServerCfg T args mem lib disk uuid = .ok cfg') :
    cfg'.defaults = (reloadCfg mem disk uuid).defaults ∧ Canon cfg' ∧ cfg'.hasSection s = true := by
  unfold mkServerCfg at h
  simp only [bind, Except.bind, hnick] at h
  cases hlib : readConfig T lib s with
  | error e => rw [hlib] at h; cases h
  | ok libCfg =>
    rw [hlib] at h
    simp only at h
    have hinv := foldlM_preserves (writeOpt T args libCfg s)
      (fun c => c.defaults = (reloadCfg mem disk uuid).defaults ∧ Canon c ∧ c.hasSection s = true)
      T.configurable
      (fun b a b' _ hf hb =>
        ⟨by rw [writeOpt_defaults T args libCfg s hs b b' a hf]; exact hb.1,
         writeOpt_canon T args libCfg s b b' a hf hb.2.1,
         writeOpt_hasSection T args libCfg s b b' a hf s hb.2.2⟩)
      _ cfg' h
      ⟨ensureSection_defaults _ _ hs, canon_ensureSection _ (canon_reloadCfg mem hmem disk uuid) s hs,
       ensureSection_hasSection _ _ hs⟩
    exact hinv

theorem reloadCfg_uid_kept (mem : Ini) (disk : FileC) (uuid u : Str) (hu : globalUid disk = some u) :
    (reloadCfg mem disk uuid).defaults.lookup "clientuid".toList = some u := by
  have hl : (({ mem with sections := [] } : Ini).loadFile disk).defaults.lookup "clientuid".toList = some u := by
    rw [← look_default, loadFile_look]
    unfold globalUid at hu
    rw [hu]; rfl
  unfold reloadCfg
  simp only [hl, Option.isSome_some, if_true]

theorem reloadCfg_has_uid (mem : Ini) (disk : FileC) (uuid : Str) :
    ((reloadCfg mem disk uuid).defaults.lookup "clientuid".toList).isSome = true := by
  unfold reloadCfg
  simp only
  split
  · rename_i h; exact h
  · have hl : lower "clientuid".toList = "clientuid".toList := by decide
    simp only [Ini.set, BEq.rfl, if_true, hl, lookup_mapSet, Option.isSome_some]

/-- the file after one ofxget process (`merge_config`, then `write_config` if `args["write"]`) -/
def diskAfter (T : Tables) (lookup : Str → Option OhRec) (fidb : FileC) (disk : FileC) (run : Map × Str) : FileC :=
  match runOnce T lookup run.1 fidb disk run.2 with
  | .ok ⟨_, some (.ok ini)⟩ => ini.toFile
  | _ => disk

theorem writeConfig_some (T : Tables) (args : Chain) (mem lib : Ini) (disk : FileC) (uuid : Str) (c : Ini)
    (h : writeConfig T args mem lib disk uuid = .ok (some c)) : mkServerCfg T args mem lib disk uuid = .ok c := by
  unfold writeConfig at h
  simp only [bind, Except.bind] at h
  split at h
  · cases h
  · split at h
    · cases h
    · cases hm : mkServerCfg T args mem lib disk uuid with
      | error e => rw [hm] at h; cases h
      | ok c' =>
        rw [hm] at h
        simp only [pure, Except.pure, Except.ok.injEq, Option.some.injEq] at h
        rw [h]

theorem runOnce_written (T : Tables) (lookup : Str → Option OhRec) (ns : Map) (fidb disk : FileC) (uuid : Str)
    (args : Chain) (ini : Ini) (h : runOnce T lookup ns fidb disk uuid = .ok ⟨args, some (.ok ini)⟩) :
    mergeConfig T lookup ns (loadUser fidb disk) = .ok args ∧
    mkServerCfg T args (loadUser fidb disk) (loadLib fidb) disk uuid = .ok ini := by
  unfold runOnce at h
  simp only [bind, Except.bind] at h
  cases hm : mergeConfig T lookup ns (loadUser fidb disk) with
  | error e => rw [hm] at h; cases h
  | ok a =>
    rw [hm] at h
    simp only at h
    cases hw : a.getItem "write".toList with
    | error e => rw [hw] at h; cases h
    | ok w =>
      rw [hw] at h
      simp only at h
      by_cases htw : truthy w = true
      · simp only [htw, if_true] at h
        cases hwc : writeConfig T a (loadUser fidb disk) (loadLib fidb) disk uuid with
        | error e =>
          rw [hwc] at h
          simp only [pure, Except.pure, Except.ok.injEq, RunResult.mk.injEq] at h
          cases h.2
        | ok o =>
          cases o with
          | none =>
            rw [hwc] at h
            simp only [pure, Except.pure, Except.ok.injEq, RunResult.mk.injEq] at h
            cases h.2
          | some c =>
            rw [hwc] at h
            simp only [pure, Except.pure, Except.ok.injEq, RunResult.mk.injEq, Option.some.injEq] at h
            obtain ⟨h1, h2⟩ := h
            subst h1
            have := writeConfig_some T a _ _ disk uuid c hwc
            exact ⟨rfl, by rw [this, h2]⟩
      · have htf : truthy w = false := by simpa using htw
        simp only [htf, Bool.false_eq_true, if_false, pure, Except.pure, Except.ok.injEq, RunResult.mk.injEq] at h
        cases h.2

/-- **one write keeps the global CLIENTUID** -/
theorem diskAfter_keeps_uid (T : Tables) (lookup : Str → Option OhRec) (fidb disk : FileC) (run : Map × Str) (u : Str)
    (hu : globalUid disk = some u) (hstrip : strip u = u)
    (hnick : ∀ args, mergeConfig T lookup run.1 (loadUser fidb disk) = .ok args → ∀ s, serverNick args = .ok s → s ≠ defaultSect) :
    globalUid (diskAfter T lookup fidb disk run) = some u := by
  unfold diskAfter
  split
  · rename_i args ini hrun
    obtain ⟨hm, hmk⟩ := runOnce_written T lookup run.1 fidb disk run.2 args ini hrun
    cases hsn : serverNick args with
    | error e =>
      unfold mkServerCfg at hmk
      simp only [bind, Except.bind, hsn] at hmk
      cases hmk
    | ok s =>
      have hs := hnick args hm s hsn
      obtain ⟨hdef, hcanon, _⟩ := mkServerCfg_defaults T args _ _ (canon_loadUser fidb disk) disk run.2 ini s hs hsn hmk
      unfold globalUid
      rw [fileLookup_toFile ini hcanon, look_default, hdef, reloadCfg_uid_kept _ disk run.2 u hu]
      simp [hstrip]
  · exact hu

end Ofx.Ofxget

namespace Ofx.Ofxget
open Ofx Ofx.Spec.Ofxget

/-! ### a saved value is in effect on the next run -/

theorem foldlM_append_ok {α β : Type} (f : β → α → PyM β) (l1 l2 : List α) (b b' : β)
    (h : (l1 ++ l2).foldlM f b = .ok b') : ∃ bm, l1.foldlM f b = .ok bm ∧ l2.foldlM f bm = .ok b' := by
  induction l1 generalizing b with
  | nil => exact ⟨b, rfl, h⟩
  | cons a l1 ih =>
    simp only [List.cons_append, List.foldlM_cons, bind, Except.bind] at h ⊢
    cases hfa : f b a with
    | error e => rw [hfa] at h; cases h
    | ok b1 =>
      rw [hfa] at h
      obtain ⟨bm, h1, h2⟩ := ih b1 h
      exact ⟨bm, h1, h2⟩

/-- the three conditions under which `test_cfg_val` lets an option be written -/
structure WillWrite (T : Tables) (cfgDefaults : Sect) (libCfg : Map) (k : Name) (v : CfgVal) : Prop where
  notNull : isNullArg v = false
  notGlobalUid : k = "clientuid".toList → ∀ u, cfgDefaults.lookup "clientuid".toList = some u → pyEq v (.str u) = false
  notDefault : ∀ dflt, T.defaults.lookup k = some dflt → pyEq v ((libCfg.lookup k).getD dflt) = false

theorem get_default (c : Ini) (hc : Canon c) (k : Name) : c.get defaultSect k = c.defaults.lookup k := by
  have : c.sections.lookup defaultSect = none := by
    cases hl : c.sections.lookup defaultSect with
    | none => rfl
    | some x => exact absurd rfl (hc.nodef _ (mem_of_lookup _ _ _ hl))
  simp [Ini.get, Ini.raw, Ini.sect, this]

theorem set_look_eq (c : Ini) (s : Str) (hs : s ≠ defaultSect) (k : Name) (v : Str) :
    (c.set s k v).look s (lower k) = some v := by
  have hsf : (s == defaultSect) = false := by simpa using hs
  simp [Ini.set, hsf, Ini.look, hs, Ini.sect, lookup_mapSet]

/-- the turn of the loop for an option that `WillWrite`: the section then holds what `arg2config` makes of the value -/
theorem writeOpt_writes (T : Tables) (args : Chain) (libCfg : Map) (server : Str) (hs : server ≠ defaultSect)
    (cfg cfg' : Ini) (hc : Canon cfg) (k : Name) (ty : CfgTy) (hk : lower k = k) (v : CfgVal) (hv : args.get? k = some v)
    (hw : WillWrite T cfg.defaults libCfg k v)
    (h : writeOpt T args libCfg server cfg (k, ty) = .ok cfg') :
    ∃ txt, arg2config ty v = .ok txt ∧ cfg'.look server k = some txt := by
  have htest : ∀ (uidM : PyM Str), (∀ u, uidM = .ok u → cfg.defaults.lookup "clientuid".toList = some u) →
      ∀ act, testCfgVal T uidM libCfg k v = .ok act → act = .write := by
    intro uidM huid act hact
    unfold testCfgVal at hact
    simp only [hw.notNull, Bool.false_eq_true, if_false, bind, Except.bind] at hact
    have hfin : ∀ (r : PyM CfgAction), r = .ok act →
        r = (match T.defaults.lookup k with
          | some d => Except.ok (if pyEq v ((libCfg.lookup k).getD d) = true then CfgAction.ifStored else CfgAction.write)
          | none => Except.error Err.key) → act = .write := by
      intro r hr hdef
      rw [hdef] at hr
      cases hd : T.defaults.lookup k with
      | none => rw [hd] at hr; cases hr
      | some dflt =>
        rw [hd] at hr
        simp only [hw.notDefault dflt hd, Bool.false_eq_true, if_false, Except.ok.injEq] at hr
        exact hr.symm
    by_cases hkc : (k == "clientuid".toList) = true
    · have hkc' : k = "clientuid".toList := by simpa using hkc
      simp only [hkc, if_true] at hact
      cases hu : uidM with
      | error e => rw [hu] at hact; cases hact
      | ok u =>
        rw [hu] at hact
        simp only [pure, Except.pure, hw.notGlobalUid hkc' u (huid u hu), Bool.false_eq_true, if_false] at hact
        refine hfin _ hact ?_
        cases T.defaults.lookup k <;> rfl
    · have hkcf : (k == "clientuid".toList) = false := by simpa using hkc
      simp only [hkcf, Bool.false_eq_true, if_false, pure, Except.pure] at hact
      refine hfin _ hact ?_
      cases T.defaults.lookup k <;> rfl
  unfold writeOpt at h
  simp only [hv, bind, Except.bind, get_default cfg hc] at h
  split at h
  · cases h
  · rename_i act heq
    have hact := htest _ (by
      intro u hu
      split at hu
      · rename_i u' hl
        simp only [pure, Except.pure, Except.ok.injEq] at hu
        rw [← hu]; exact hl
      · cases hu) act heq
    subst hact
    simp only [BEq.rfl, Bool.true_or, if_true] at h
    cases ha : arg2config ty v with
    | error e => rw [ha] at h; cases h
    | ok txt =>
      rw [ha] at h
      simp only [pure, Except.pure, Except.ok.injEq] at h
      refine ⟨txt, rfl, ?_⟩
      rw [← h]
      have := set_look_eq cfg server hs k txt
      rwa [hk] at this

/-- after the whole loop of `mk_server_cfg`, the server's section holds, for an option that `WillWrite`, what
    `arg2config` makes of the value in effect -/
theorem mkServerCfg_written (T : Tables) (hlow : ∀ ot ∈ T.configurable, lower ot.1 = ot.1)
    (hnd : (T.configurable.map (·.1)).Nodup)
    (args : Chain) (mem lib : Ini) (hmem : Canon mem) (disk : FileC) (uuid : Str) (cfg' : Ini) (s : Str)
    (hs : s ≠ defaultSect) (hnick : serverNick args = .ok s)
    (h : mkServerCfg T args mem lib disk uuid = .ok cfg')
    (k : Name) (ty : CfgTy) (hkt : (k, ty) ∈ T.configurable) (v : CfgVal) (hv : args.get? k = some v)
    (libCfg : Map) (hlib : readConfig T lib s = .ok libCfg)
    (hw : WillWrite T (reloadCfg mem disk uuid).defaults libCfg k v) :
    ∃ txt, arg2config ty v = .ok txt ∧ cfg'.look s k = some txt := by
  unfold mkServerCfg at h
  simp only [bind, Except.bind, hnick, hlib] at h
  obtain ⟨pre, post, hsplit⟩ := List.append_of_mem hkt
  rw [hsplit] at h
  obtain ⟨bm, hpre, hrest⟩ := foldlM_append_ok _ pre ((k, ty) :: post) _ cfg' h
  rw [List.foldlM_cons] at hrest
  simp only [bind, Except.bind] at hrest
  cases hturn : writeOpt T args libCfg s bm (k, ty) with
  | error e => rw [hturn] at hrest; cases hrest
  | ok bk =>
    rw [hturn] at hrest
    simp only at hrest
    -- state before the turn: DEFAULT untouched, canonical
    have hbm := foldlM_preserves (writeOpt T args libCfg s)
      (fun c => c.defaults = (reloadCfg mem disk uuid).defaults ∧ Canon c) pre
      (fun b a b' _ hf hb =>
        ⟨by rw [writeOpt_defaults T args libCfg s hs b b' a hf]; exact hb.1, writeOpt_canon T args libCfg s b b' a hf hb.2⟩)
      _ bm hpre ⟨ensureSection_defaults _ _ hs, canon_ensureSection _ (canon_reloadCfg mem hmem disk uuid) s hs⟩
    have hw' : WillWrite T bm.defaults libCfg k v := by rw [hbm.1]; exact hw
    obtain ⟨txt, htxt, hlook⟩ := writeOpt_writes T args libCfg s hs bm bk hbm.2 k ty (hlow _ hkt) v hv hw' hturn
    refine ⟨txt, htxt, ?_⟩
    -- the later turns are about other options
    have hnd' : (pre.map (·.1) ++ k :: post.map (·.1)).Nodup := by
      have := hnd
      rw [hsplit] at this
      simpa using this
    have hkpost : ∀ ot ∈ post, k ≠ lower ot.1 := by
      intro ot hot heq
      have hl : lower ot.1 = ot.1 := hlow ot (by rw [hsplit]; simp [hot])
      rw [hl] at heq
      have h2 := (List.nodup_append.mp hnd').2.1
      have h3 := (List.nodup_cons.mp h2).1
      exact h3 (heq ▸ List.mem_map_of_mem hot)
    exact foldlM_preserves (writeOpt T args libCfg s) (fun c => c.look s k = some txt) post
      (fun b a b' ha hf hb => by
        show b'.look s k = some txt
        rw [writeOpt_look_ne T args libCfg s b b' a hf s k (hkpost a ha)]; exact hb)
      bk cfg' hrest hlook

/-! ### the next run -/

theorem finishMerge_dry (T : Tables) (args : Map) (rest : List Map) (d : CfgVal)
    (hd : args.lookup "dryrun".toList = some d) (ht : truthy d = true) :
    finishMerge T args (args :: rest) = .ok (args :: rest) := by
  unfold finishMerge
  have : Chain.get? (args :: rest) "dryrun".toList = some d := by rw [get?_cons, hd]
  simp only [this, Option.getD_some, ht, Bool.or_true, Bool.true_or, if_true, pure, Except.pure]

/-- `merge_config` for a command line that sets `--dryrun`: no "URL as server" detour -/
theorem mergeConfig_effective_dry (T : Tables) (hwf : T.WF = true) (lookup : Str → Option OhRec) (ns : Map) (cfg : Ini)
    (c : Chain) (d : CfgVal) (hd : (extractns ns).lookup "dryrun".toList = some d) (ht : truthy d = true)
    (h : mergeConfig T lookup ns cfg = .ok c) :
    ∃ userCfg, userCfgOf T cfg (extractns ns) = .ok userCfg ∧
      ∀ k, effective c k =
        firstSetter [extractns ns, userCfg, ohSource lookup [extractns ns, userCfg, T.defaults], T.defaults] k := by
  unfold mergeConfig at h
  simp only [bind, Except.bind] at h
  cases hu : userCfgOf T cfg (extractns ns) with
  | error e => simp [hu] at h
  | ok userCfg =>
    simp only [hu] at h
    cases hw : wantsOfxhome (extractns ns) userCfg [extractns ns, userCfg, T.defaults] with
    | error e => simp [hw] at h
    | ok go =>
      simp only [hw] at h
      cases go with
      | false =>
        simp only [Bool.false_eq_true, if_false, pure, Except.pure] at h
        have hoh := ohSource_empty_of_not_wanted T hwf lookup _ _ hw
        rw [finishMerge_dry T _ _ d hd ht] at h
        refine ⟨userCfg, rfl, ?_⟩
        intro k
        rw [firstSetter_eq_get?, hoh, ← Except.ok.inj h, effective, get?_skip_empty]
      | true =>
        simp only [if_true] at h
        cases hm : mergeFromOfxhome lookup [extractns ns, userCfg, T.defaults] with
        | error e => simp [hm] at h
        | ok merged =>
          simp only [hm] at h
          have hg := mergeFromOfxhome_get? lookup _ _ _ merged hm
          have hshape : ∃ rest, merged = extractns ns :: rest := by
            unfold mergeFromOfxhome at hm
            simp only [bind, Except.bind] at hm
            split at hm
            · cases hm
            · split at hm
              · split at hm
                · split at hm
                  · simp [pure, Except.pure, pyInsert_before_last] at hm
                    exact ⟨_, hm.symm⟩
                  · simp [pure, Except.pure] at hm
                    exact ⟨_, hm.symm⟩
                · simp [pure, Except.pure] at hm
                  exact ⟨_, hm.symm⟩
              · simp [pure, Except.pure] at hm
                exact ⟨_, hm.symm⟩
          obtain ⟨rest, hrest⟩ := hshape
          rw [hrest, finishMerge_dry T _ _ d hd ht] at h
          refine ⟨userCfg, rfl, ?_⟩
          intro k
          rw [firstSetter_eq_get?, ← Except.ok.inj h, effective, ← hrest, hg]

/-- **a saved value is what the next run uses.**  After a successful `mk_server_cfg` for nickname `s`, let `k` be
    a CONFIGURABLE option whose value in effect `v` passes `test_cfg_val` (`WillWrite`) and reads back
    (`readsBack`: `typed(strip(arg2config v)) = v`).  Then a later run `ofxget … s --dryrun` that does not set `k`
    on the command line, on the file just written, has `v` in effect for `k` — whatever else the files, the FI
    database and OFX Home say. -/
theorem saved_value_in_effect (T : Tables) (hwf : T.WF = true) (hnd : (T.configurable.map (·.1)).Nodup)
    (lookup : Str → Option OhRec) (fidb user : FileC) (c1 : Chain) (uuid : Str) (cfg' : Ini) (s : Str)
    (hs : s ≠ defaultSect) (hnick : serverNick c1 = .ok s)
    (hmk : mkServerCfg T c1 (loadUser fidb user) (loadLib fidb) user uuid = .ok cfg')
    (k : Name) (ty : CfgTy) (hkt : (k, ty) ∈ T.configurable) (v : CfgVal) (hv : c1.get? k = some v)
    (libCfg : Map) (hlib : readConfig T (loadLib fidb) s = .ok libCfg)
    (hw : WillWrite T (reloadCfg (loadUser fidb user) user uuid).defaults libCfg k v)
    (hrb : ∀ txt, arg2config ty v = .ok txt → typedOfStr T ty (strip txt) = .ok v)
    (ns2 : Map) (c2 : Chain) (d : CfgVal)
    (hsrv2 : (extractns ns2).lookup "server".toList = some (.str s))
    (hdry2 : (extractns ns2).lookup "dryrun".toList = some d) (htd : truthy d = true)
    (hk2 : (extractns ns2).lookup k = none)
    (h2 : mergeConfig T lookup ns2 (loadUser fidb cfg'.toFile) = .ok c2) :
    effective c2 k = some v := by
  have hlow : ∀ ot ∈ T.configurable, lower ot.1 = ot.1 := by
    simp only [Tables.WF, Bool.and_eq_true] at hwf
    intro ot hot
    have := List.all_eq_true.mp hwf.1.1.1.1.2 ot hot
    simpa using this
  obtain ⟨txt, htxt, hlook⟩ := mkServerCfg_written T hlow hnd c1 _ _ (canon_loadUser fidb user) user uuid cfg' s hs hnick hmk
    k ty hkt v hv libCfg hlib hw
  obtain ⟨_, hcanon, hhas⟩ := mkServerCfg_defaults T c1 _ _ (canon_loadUser fidb user) user uuid cfg' s hs hnick hmk
  obtain ⟨userCfg, hu, he⟩ := mergeConfig_effective_dry T hwf lookup ns2 _ c2 d hdry2 htd h2
  have hrc : readConfig T (loadUser fidb cfg'.toFile) s = .ok userCfg := by
    unfold userCfgOf at hu
    rw [hsrv2] at hu
    exact hu
  have hcont : (loadUser fidb cfg'.toFile).contains s = true := by
    rw [loadUser_contains _ _ _ hs, fileHasSection_toFile _ _ hs, hhas]
    simp
  have hty : T.configurable.lookup k = some ty := by
    apply lookup_of_mem_unique _ _ _ hkt
    intro ty' hmem
    -- distinct names: the two entries are the same
    have : ∀ (l : List (Name × CfgTy)), (l.map (·.1)).Nodup → (k, ty) ∈ l → (k, ty') ∈ l → ty' = ty := by
      intro l
      induction l with
      | nil => intro _ h; cases h
      | cons a l ih =>
        intro hn h1 h2
        have hn' : (a.1 :: l.map (·.1)).Nodup := hn
        rw [List.nodup_cons] at hn'
        rcases List.mem_cons.mp h1 with e1 | e1
        · rcases List.mem_cons.mp h2 with e2 | e2
          · rw [← e1] at e2; exact (Prod.mk.inj e2).2
          · exact absurd (List.mem_map_of_mem (f := (·.1)) e2) (by have := hn'.1; rw [← e1] at this; exact this)
        · rcases List.mem_cons.mp h2 with e2 | e2
          · exact absurd (List.mem_map_of_mem (f := (·.1)) e1) (by have := hn'.1; rw [← e2] at this; exact this)
          · exact ih hn'.2 e1 e2
    exact this _ hnd hkt hmem
  have hl := readConfig_lookup T _ s userCfg hs hcont hrc k ty hty
  rw [raw_layering fidb cfg'.toFile s k hs, fileLookup_toFile cfg' hcanon, hlook] at hl
  simp only [Option.map_some, Option.some_or] at hl
  obtain ⟨tv, htv, hlk⟩ := hl
  rw [hrb txt htxt] at htv
  rw [he k]
  simp only [firstSetter, hk2, hlk]
  exact congrArg some (Except.ok.inj htv).symm

end Ofx.Ofxget
