/-
When does `Aggregate.to_etree` write no childless aggregate?  (the guard of the unclosed SGML writer,
`Serialize.unclosedGuard`, known finding unclosed-empty-aggregate-no-end-tag)

`dense n` — a predicate on the *instance*: every aggregate in it has at least one attribute that is set (not `None`)
or at least one list member.  For a valid instance that is enough: `dense_written` — the tree written for a valid,
dense instance has no element without text and without children.
-/
import OfxProofs.Lemmas.Written

namespace Ofx.Pipeline
open Ofx Ofx.Agg Ofx.Spec.Wire Ofx.Serialize

mutual
  /-- every aggregate of the instance has an attribute that is set, or a list member -/
  def dense : Node → Bool
    | .val _ => true
    | .agg _ fs its => (fs.any (fun p => !p.2.isNone) || !its.isEmpty) && denseFields fs && denseItems its
  def denseFields : List (Str × Node) → Bool
    | [] => true
    | (_, v) :: r => dense v && denseFields r
  def denseItems : List Node → Bool
    | [] => true
    | v :: r => dense v && denseItems r
end

theorem denseFields_iff : ∀ fs, denseFields fs = true ↔ ∀ p ∈ fs, dense p.2 = true
  | [] => by simp [denseFields]
  | (k, v) :: r => by simp [denseFields, denseFields_iff r]

theorem denseItems_iff : ∀ is, denseItems is = true ↔ ∀ m ∈ is, dense m = true
  | [] => by simp [denseItems]
  | v :: r => by simp [denseItems, denseItems_iff r]

theorem hasEmptyAggList_false_iff : ∀ cs, hasEmptyAggList cs = false ↔ ∀ c ∈ cs, hasEmptyAgg c = false
  | [] => by simp [hasEmptyAggList]
  | c :: cs => by simp [hasEmptyAggList, hasEmptyAggList_false_iff cs]

/-- the `ungroom` rename changes a tag only -/
theorem renameFirst_facts (u : Rename) : ∀ (L : List Tree),
    (renameFirst u L).isEmpty = L.isEmpty ∧ hasEmptyAggList (renameFirst u L) = hasEmptyAggList L
  | [] => by simp [renameFirst]
  | .node t x tl cs :: rest => by
    by_cases ht : t = u.fromTag
    · simp [renameFirst, ht, hasEmptyAggList, hasEmptyAgg]
    · simp [renameFirst, ht, hasEmptyAggList, hasEmptyAgg, (renameFirst_facts u rest).2]

theorem mapM_length {α β : Type} (f : α → PyM β) : ∀ (l : List α) (r : List β), l.mapM f = .ok r → r.length = l.length
  | [], r, h => by
    simp [pure, Except.pure] at h; subst h; rfl
  | a :: l, r, h => by
    simp only [List.mapM_cons] at h
    cases ha : f a with
    | error e => simp [ha, bind, Except.bind] at h
    | ok b =>
      cases hl : l.mapM f with
      | error e => simp [ha, hl, bind, Except.bind] at h
      | ok bs =>
        simp [ha, hl, bind, Except.bind, pure, Except.pure] at h
        subst h
        simp [mapM_length f l bs hl]

theorem itemTrees_length (S : Schema) (cv : Conv) : ∀ items, (itemTrees S cv items).length = items.length
  | [] => by simp [itemTrees]
  | v :: r => by simp [itemTrees, itemTrees_length S cv r]

section
variable (S : Schema) (cv : Conv)

theorem listAppend_length (c : Cls) (items : List Node) (ms : List Tree)
    (h : listAppend S cv c items (itemTrees S cv items) = .ok ms) : ms.length = items.length := by
  unfold listAppend at h
  split at h
  · split at h
    · split at h
      · exact mapM_length _ _ _ h
      · simp at h
    · simp at h
  · rw [mapM_length _ _ _ h, itemTrees_length]

/-- a supported, non-repeated attribute whose stored value is not `None` is written -/
theorem emit_ne_field (c : Cls) (fields : List (Str × Node)) (fts : List (Str × PyM Tree)) (items : List Node)
    (its : List (PyM Tree)) : ∀ (spec : List Attr) (dl : Bool) (ts : List Tree),
    emitSpec S cv c fields fts items its spec dl = .ok ts →
    (∃ a ∈ spec, a.kind.isList = false ∧ a.kind.isUnsupported = false ∧
      ∃ w, lookup a.name fields = some w ∧ w.isNone = false) → ts ≠ [] := by
  intro spec
  induction spec with
  | nil => intro dl ts _ ⟨a, ha, _⟩; simp at ha
  | cons b rest ih =>
    intro dl ts h ⟨a, ha, hl, hu, w, hw, hn⟩
    simp only [emitSpec] at h
    by_cases hbl : b.kind.isList = true
    · have hab : a ∈ rest := by
        rcases List.mem_cons.mp ha with rfl | h'
        · simp [hl] at hbl
        · exact h'
      simp only [hbl, if_true] at h
      cases dl with
      | true =>
        simp only [if_true] at h
        cases hms : listAppend S cv c items its with
        | error e => simp [hms, bind, Except.bind] at h
        | ok ms =>
          cases hmore : emitSpec S cv c fields fts items its rest false with
          | error e => simp [hms, hmore, bind, Except.bind] at h
          | ok more =>
            simp [hms, hmore, bind, Except.bind, pure, Except.pure] at h
            subst h
            have := ih false more hmore ⟨a, hab, hl, hu, w, hw, hn⟩
            simp [this]
      | false =>
        simp only [Bool.false_eq_true, if_false] at h
        exact ih false ts h ⟨a, hab, hl, hu, w, hw, hn⟩
    · have hbl' : b.kind.isList = false := by simpa using hbl
      simp only [hbl', Bool.false_eq_true, if_false] at h
      by_cases hbu : b.kind.isUnsupported = true
      · have hab : a ∈ rest := by
          rcases List.mem_cons.mp ha with rfl | h'
          · simp [hu] at hbu
          · exact h'
        simp only [hbu, if_true] at h
        exact ih dl ts h ⟨a, hab, hl, hu, w, hw, hn⟩
      · have hbu' : b.kind.isUnsupported = false := by simpa using hbu
        simp only [hbu', Bool.false_eq_true, if_false] at h
        split at h
        · simp at h
        · -- stored `None`: not written, so the witness is further on
          rename_i hlk
          have hab : a ∈ rest := by
            rcases List.mem_cons.mp ha with rfl | h'
            · rw [hw] at hlk; injection hlk with hlk; subst hlk; simp [Node.isNone] at hn
            · exact h'
          exact ih dl ts h ⟨a, hab, hl, hu, w, hw, hn⟩
        · cases hch : (lookup b.name fts).getD (.error .key) with
          | error e => simp [hch, bind, Except.bind] at h
          | ok child =>
            cases hmore : emitSpec S cv c fields fts items its rest dl with
            | error e => simp [hch, hmore, bind, Except.bind] at h
            | ok more =>
              simp [hch, hmore, bind, Except.bind, pure, Except.pure] at h
              subst h; simp
        · rename_i v _ _
          cases hun : cv.unconvert S.enums b.kind b.required v with
          | error e => simp [hun, bind, Except.bind] at h
          | ok t =>
            cases hch : leafOf b t with
            | error e => simp [hun, hch, bind, Except.bind] at h
            | ok child =>
              cases hmore : emitSpec S cv c fields fts items its rest dl with
              | error e => simp [hun, hch, hmore, bind, Except.bind] at h
              | ok more =>
                simp [hun, hch, hmore, bind, Except.bind, pure, Except.pure] at h
                subst h; simp

/-- the list members are written where the first repeated attribute stands -/
theorem emit_ne_items (c : Cls) (fields : List (Str × Node)) (items : List Node) (hne : items ≠ []) :
    ∀ (spec : List Attr) (ts : List Tree),
    emitSpec S cv c fields (fieldTrees S cv fields) items (itemTrees S cv items) spec true = .ok ts →
    spec.any (·.kind.isList) = true → ts ≠ [] := by
  intro spec
  induction spec with
  | nil => intro ts _ h; simp at h
  | cons b rest ih =>
    intro ts h hany
    simp only [emitSpec] at h
    by_cases hbl : b.kind.isList = true
    · simp only [hbl, if_true] at h
      cases hms : listAppend S cv c items (itemTrees S cv items) with
      | error e => simp [hms, bind, Except.bind] at h
      | ok ms =>
        cases hmore : emitSpec S cv c fields (fieldTrees S cv fields) items (itemTrees S cv items) rest false with
        | error e => simp [hms, hmore, bind, Except.bind] at h
        | ok more =>
          simp [hms, hmore, bind, Except.bind, pure, Except.pure] at h
          subst h
          have hlen := listAppend_length S cv c items ms hms
          have : ms ≠ [] := by
            intro h0; subst h0
            cases items with
            | nil => exact hne rfl
            | cons _ _ => simp at hlen
          simp [this]
    · have hany' : rest.any (·.kind.isList) = true := by
        simp only [List.any_cons, Bool.or_eq_true] at hany
        rcases hany with h0 | h0
        · exact absurd h0 hbl
        · exact h0
      have hbl' : b.kind.isList = false := by simpa using hbl
      simp only [hbl', Bool.false_eq_true, if_false] at h
      by_cases hbu : b.kind.isUnsupported = true
      · simp only [hbu, if_true] at h
        exact ih ts h hany'
      · have hbu' : b.kind.isUnsupported = false := by simpa using hbu
        simp only [hbu', Bool.false_eq_true, if_false] at h
        split at h
        · simp at h
        · exact ih ts h hany'
        · cases hch : (lookup b.name (fieldTrees S cv fields)).getD (.error .key) with
          | error e => simp [hch, bind, Except.bind] at h
          | ok child =>
            cases hmore : emitSpec S cv c fields (fieldTrees S cv fields) items (itemTrees S cv items) rest true with
            | error e => simp [hch, hmore, bind, Except.bind] at h
            | ok more =>
              simp [hch, hmore, bind, Except.bind, pure, Except.pure] at h
              subst h; simp
        · rename_i v _ _
          cases hun : cv.unconvert S.enums b.kind b.required v with
          | error e => simp [hun, bind, Except.bind] at h
          | ok t =>
            cases hch : leafOf b t with
            | error e => simp [hun, hch, bind, Except.bind] at h
            | ok child =>
              cases hmore : emitSpec S cv c fields (fieldTrees S cv fields) items (itemTrees S cv items) rest true with
              | error e => simp [hun, hch, hmore, bind, Except.bind] at h
              | ok more =>
                simp [hun, hch, hmore, bind, Except.bind, pure, Except.pure] at h
                subst h; simp
end

section
variable (S : Schema) (cv : Conv) (esc : Str → Str) (Dom : Kind → Bool → Val → Prop)

/-- the stored attributes of a valid node have pairwise different names -/
theorem FieldsMatch.keys_nodup {P : Attr → Node → Prop} {L : List Attr} {fs : List (Str × Node)}
    (h : FieldsMatch P L fs) (hnd : (L.map (·.name)).Nodup) : (fs.map (·.1)).Nodup := by
  induction h with
  | nil => simp
  | unsup b L fs hb _ ih =>
    simp only [List.map_cons, List.nodup_cons] at hnd
    exact ih hnd.2
  | field b v L fs hb hp hm ih =>
    simp only [List.map_cons, List.nodup_cons] at hnd ⊢
    refine ⟨?_, ih hnd.2⟩
    intro hmem
    obtain ⟨⟨k, w⟩, hkw, hk⟩ := List.mem_map.mp hmem
    obtain ⟨a, ha, han, _⟩ := hm.mem k w hkw
    apply hnd.1
    simp only at hk
    rw [← hk, ← han]
    exact List.mem_map_of_mem ha

theorem NodeOk.keys_nodup {c : Cls} {ci : Nat} {fields : List (Str × Node)} {items : List Node}
    (ok : NodeOk S cv esc Dom c ci fields items) : (fields.map (·.1)).Nodup :=
  FieldsMatch.keys_nodup ok.fm (specNoList_nodup c ok.wf.nodup)

/-- one node: it writes a child, and if the written children of its sub-aggregates have no childless aggregate the
    written node has none -/
theorem node_dense (laws : ConvLaws cv S.enums esc Dom)
    (c : Cls) (ci : Nat) (fields : List (Str × Node)) (items : List Node)
    (ok : NodeOk S cv esc Dom c ci fields items)
    (ihF : ∀ n v, (n, v) ∈ fields → v.isAgg = true → RT S cv esc v)
    (ihI : ∀ m ∈ items, m.isAgg = true → RT S cv esc m)
    (gF : ∀ n v t, (n, v) ∈ fields → v.isAgg = true → toEtree S cv v = .ok t → hasEmptyAgg t = false)
    (gI : ∀ m t, m ∈ items → toEtree S cv m = .ok t → hasEmptyAgg t = false)
    (hne : (fields.any (fun p => !p.2.isNone) || !items.isEmpty) = true) :
    ∀ t, toEtree S cv (.agg ci fields items) = .ok t → hasEmptyAgg t = false := by
  intro t ht
  obtain ⟨ts, hts, hch⟩ := node_written S cv esc Dom laws c ci fields items ok ihF ihI
  -- the children before the rename are not none
  have hts' : ts ≠ [] := by
    cases hemit : emitSpec S cv c fields (fieldTrees S cv fields) items (itemTrees S cv items) c.spec true with
    | error e =>
      simp [toEtree, assemble, ok.hc, hemit, bind, Except.bind] at hts
    | ok ts' =>
      have hne' : ts' ≠ [] := by
        simp only [Bool.or_eq_true, List.any_eq_true, Bool.not_eq_true'] at hne
        rcases hne with ⟨⟨n, w⟩, hmem, hw⟩ | hit
        · have hnd := specNoList_nodup c ok.wf.nodup
          obtain ⟨a, ha, han, hu, _, _, hlk⟩ := (ok.fm.withLookup hnd).mem n w hmem
          simp only [specNoList, List.mem_filter, Bool.not_eq_true'] at ha
          exact emit_ne_field S cv c fields _ items _ c.spec true ts' hemit ⟨a, ha.1, ha.2, hu, w, hlk, hw⟩
        · have hi : items ≠ [] := by intro h0; subst h0; simp at hit
          have hany : c.spec.any (·.kind.isList) = true := by
            cases hh : c.spec.any (·.kind.isList) with
            | true => rfl
            | false => exact absurd (ok.noList hh) hi
          exact emit_ne_items S cv c fields items hi c.spec ts' hemit hany
      have : ungroomed c ts' = ungroomed c ts := by
        cases hu : c.ungroom <;>
          simp [toEtree, assemble, ok.hc, hemit, hu, ungroomed, bind, Except.bind, pure, Except.pure] at hts ⊢ <;>
          exact hts
      intro h0; subst h0
      apply hne'
      have h1 : (ungroomed c ts').isEmpty = true := by rw [this]; simp [ungroomed]; cases c.ungroom <;> simp [renameFirst]
      have h2 : (ungroomed c ts').isEmpty = ts'.isEmpty := by
        simp only [ungroomed]; cases c.ungroom with
        | none => rfl
        | some u => exact (renameFirst_facts u ts').1
      rw [h2] at h1
      simpa using h1
  rw [hts] at ht; injection ht with ht; subst ht
  have hkids : hasEmptyAggList ts = false := by
    rw [hasEmptyAggList_false_iff]
    intro ch hmem
    rcases hch ch hmem with ⟨a, ha, x, s, hl, hu, hx, hv, hunc, rfl⟩ | ⟨v, hvmem, hagg, hvt⟩ |
      ⟨a, ha, inner, ireq, x, s, hel, hk, hxi, hx, hunc, rfl⟩
    · simp [hasEmptyAgg, hasEmptyAggList]
    · rcases hvmem with ⟨n, hn⟩ | hi
      · exact gF n v ch hn hagg hvt
      · exact gI v ch hi hvt
    · simp [hasEmptyAgg, hasEmptyAggList]
  have h1 : (ungroomed c ts).isEmpty = false := by
    have : (ungroomed c ts).isEmpty = ts.isEmpty := by
      simp only [ungroomed]; cases c.ungroom with
      | none => rfl
      | some u => exact (renameFirst_facts u ts).1
    rw [this]; cases ts with
    | nil => exact absurd rfl hts'
    | cons _ _ => rfl
  have h2 : hasEmptyAggList (ungroomed c ts) = false := by
    have : hasEmptyAggList (ungroomed c ts) = hasEmptyAggList ts := by
      simp only [ungroomed]; cases c.ungroom with
      | none => rfl
      | some u => exact (renameFirst_facts u ts).2
    rw [this]; exact hkids
  simp [hasEmptyAgg, h1, h2]

mutual
  /-- **the tree written for a valid, dense instance has no childless aggregate** -/
  theorem dense_written (laws : ConvLaws cv S.enums esc Dom) :
      ∀ n, Valid S cv esc Dom n → dense n = true → ∀ t, toEtree S cv n = .ok t → hasEmptyAgg t = false
    | .val _, h, _, _, _ => by simp [Valid] at h
    | .agg ci fields items, h, hd, t, ht => by
      obtain ⟨⟨c, ok⟩, hf, hi⟩ := h
      simp only [dense, Bool.and_eq_true] at hd
      exact node_dense S cv esc Dom laws c ci fields items ok
        (rt_fields S cv esc Dom laws fields hf) (rt_items S cv esc Dom laws items hi)
        (dense_fields laws fields hf hd.1.2) (dense_items laws items hi hd.2) hd.1.1 t ht
  theorem dense_fields (laws : ConvLaws cv S.enums esc Dom) :
      ∀ fs, ValidFields S cv esc Dom fs → denseFields fs = true → ∀ n v t, (n, v) ∈ fs → v.isAgg = true →
        toEtree S cv v = .ok t → hasEmptyAgg t = false
    | [], _, _, n, v, t, hm, _, _ => by simp at hm
    | (k, w) :: r, h, hd, n, v, t, hm, hagg, ht => by
      obtain ⟨hw, hr⟩ := h
      simp only [denseFields, Bool.and_eq_true] at hd
      simp only [List.mem_cons, Prod.mk.injEq] at hm
      rcases hm with ⟨_, rfl⟩ | hm
      · exact dense_written laws v (hw hagg) hd.1 t ht
      · exact dense_fields laws r hr hd.2 n v t hm hagg ht
  theorem dense_items (laws : ConvLaws cv S.enums esc Dom) :
      ∀ is, ValidItems S cv esc Dom is → denseItems is = true → ∀ m t, m ∈ is → toEtree S cv m = .ok t →
        hasEmptyAgg t = false
    | [], _, _, m, t, hm, _ => by simp at hm
    | w :: r, h, hd, m, t, hm, ht => by
      obtain ⟨hw, hr⟩ := h
      simp only [denseItems, Bool.and_eq_true] at hd
      simp only [List.mem_cons] at hm
      rcases hm with rfl | hm
      · cases m with
        | val x => simp [toEtree] at ht
        | agg cj f i => exact dense_written laws _ (hw rfl) hd.1 t ht
      · exact dense_items laws r hr hd.2 m t hm ht
end

/-- in the form the unclosed round trip asks for -/
theorem unclosedGuard_of_dense (laws : ConvLaws cv S.enums esc Dom) (i : Node) (hv : Valid S cv esc Dom i)
    (hd : dense i = true) : ∀ t, toEtree S cv i = .ok t → unclosedGuard t = true := by
  intro t ht
  simp [unclosedGuard, dense_written S cv esc Dom laws i hv hd t ht]

end
end Ofx.Pipeline
