/-
C05, v1 files: from a rendered layout to what `parse_header` returns.
-/
import OfxProofs.Lemmas.HeaderStream
namespace Ofx.Header
open Ofx Ofx.Codec Ofx.Spec.HeaderLayout

theorem wordDash_ascii (c : Char) (h : isWordDash c = true) : c.toNat < 128 := by
  simp only [isWordDash, isWord, isDigit, isUpper, isLower, Bool.or_eq_true, Bool.and_eq_true, decide_eq_true_eq,
    beq_iff_eq, Char.le_def, UInt32.le_iff_toNat_le] at h
  have e : c.toNat = c.val.toNat := rfl
  rcases h with (((h | h) | h) | h) | h
  · rw [e]; have := h.2; simp at this; omega
  · rw [e]; have := h.2; simp at this; omega
  · rw [e]; have := h.2; simp at this; omega
  · subst h; decide
  · subst h; decide

theorem isAscii_class (p : Char → Bool) (hp : ∀ c, p c = true → isWordDash c = true) (v : Str)
    (hv : ∀ c ∈ v, p c = true) : isAscii v := fun c hc => wordDash_ascii c (hp c (hv c hc))

theorem blank_spec (b : Str) (h : b.all isBlank = true) : allSpace b ∧ isAscii b ∧ hasLF b = false := by
  simp only [List.all_eq_true, isBlank, Bool.or_eq_true, decide_eq_true_eq] at h
  refine ⟨?_, ?_, ?_⟩
  · intro c hc; rcases h c hc with e | e <;> (subst e; decide)
  · intro c hc; rcases h c hc with e | e <;> (subst e; decide)
  · simp only [hasLF, List.any_eq_false, beq_iff_eq]
    intro c hc; rcases h c hc with e | e <;> (subst e; decide)

theorem sep_spec (s : Sep) : allSpace s.str ∧ isAscii s.str ∧ hasLF s.str = s.hasLF ∧ s.str.count '\n' ≤ 1 := by
  cases s <;> refine ⟨by unfold allSpace; decide, by unfold isAscii; decide, by decide, by decide⟩

theorem asciiSpace_spec (g : Str) (h : g.all isAsciiSpace = true) : allSpace g ∧ isAscii g := by
  simp only [List.all_eq_true, isAsciiSpace, Bool.and_eq_true, decide_eq_true_eq] at h
  exact ⟨fun c hc => (h c hc).1, fun c hc => (h c hc).2⟩

/-! ### from the layout to the text structure -/

def V1W.ofLay (lay : V1Lay) (f : V1File) : V1W :=
  { indent := lay.indent,
    b1 := lay.ofxheader.blank, v1 := pyStrInt f.h.ofxheader, w1 := lay.ofxheader.sep.str,
    b2 := lay.data.blank, v2 := f.h.data, w2 := lay.data.sep.str,
    b3 := lay.version.blank, v3 := pyStrInt f.h.version, w3 := lay.version.sep.str,
    b4 := lay.security.blank, v4 := f.h.security, w4 := lay.security.sep.str,
    b5 := lay.encoding.blank, v5 := f.h.encoding, w5 := lay.encoding.sep.str,
    b6 := lay.charset.blank, v6 := f.h.charset, w6 := lay.charset.sep.str,
    comp := if f.withCompression then some (lay.compression.blank, f.h.compression, lay.compression.sep.str) else none,
    b8 := lay.oldfileuid.blank, v8 := f.h.oldfileuid, w8 := lay.oldfileuid.sep.str,
    b9 := lay.newBlank, v9 := f.h.newfileuid }

theorem text_append (t : V1W) (R S : Str) : t.text (R ++ S) = t.text R ++ S := by
  cases hc : t.comp with
  | none => simp [V1W.text, V1W.compText, hc, fld]
  | some x => obtain ⟨b, v, w⟩ := x; simp [V1W.text, V1W.compText, hc, fld]

theorem v1Text_eq (lay : V1Lay) (f : V1File) :
    lay.indent ++ v1Fields lay f = (V1W.ofLay lay f).text lay.gap := by
  cases hw : f.withCompression <;>
    simp [v1Fields, fieldText, V1W.text, V1W.compText, V1W.ofLay, fld, hw]

structure LayOk (lay : V1Lay) : Prop where
  leadingLen : lay.leading.length ≤ 7
  leading : ∀ l ∈ lay.leading, wsNoLF l = true
  indent : wsNoLF lay.indent = true
  b1 : lay.ofxheader.blank.all isBlank = true
  b2 : lay.data.blank.all isBlank = true
  b3 : lay.version.blank.all isBlank = true
  b4 : lay.security.blank.all isBlank = true
  b5 : lay.encoding.blank.all isBlank = true
  b6 : lay.charset.blank.all isBlank = true
  b7 : lay.compression.blank.all isBlank = true
  b8 : lay.oldfileuid.blank.all isBlank = true
  b9 : lay.newBlank.all isBlank = true
  gap : lay.gap.all isAsciiSpace = true

theorem layOk_of_tolerated (lay : V1Lay) (h : lay.tolerated = true) : LayOk lay := by
  simp only [V1Lay.tolerated, FieldLay.ok, Bool.and_eq_true, decide_eq_true_eq] at h
  obtain ⟨⟨⟨⟨⟨⟨⟨⟨⟨⟨⟨⟨h1, h2⟩, h3⟩, h4⟩, h5⟩, h6⟩, h7⟩, h8⟩, h9⟩, h10⟩, h11⟩, h12⟩, h13⟩ := h
  exact ⟨h1, by simpa [List.all_eq_true] using h2, h3, h4, h5, h6, h7, h8, h9, h10, h11, h12, h13⟩

theorem ofLay_ok (p : V1P) (lay : V1Lay) (f : V1File) (lo : LayOk lay) (hv : ValidV1 p f.h) :
    (V1W.ofLay lay f).Ok ∧ (V1W.ofLay lay f).NoLF := by
  have d1 := (pyStrInt_small _ hv.oh0.1 hv.oh0.2).1
  have d3 := (pyStrInt_small _ hv.ver0.1 hv.ver0.2).1
  constructor
  · refine { indent := (wsNoLF_spec _ lo.indent).1, b1 := (blank_spec _ lo.b1).1, b2 := (blank_spec _ lo.b2).1,
             b3 := (blank_spec _ lo.b3).1, b4 := (blank_spec _ lo.b4).1, b5 := (blank_spec _ lo.b5).1,
             b6 := (blank_spec _ lo.b6).1, b8 := (blank_spec _ lo.b8).1, b9 := (blank_spec _ lo.b9).1,
             w1 := (sep_spec _).1, w2 := (sep_spec _).1, w3 := (sep_spec _).1, w4 := (sep_spec _).1,
             w5 := (sep_spec _).1, w6 := (sep_spec _).1, w8 := (sep_spec _).1,
             v1 := d1, v2 := hv.data.2, v3 := d3, v4 := hv.sec.2, v5 := hv.enc.2, v6 := hv.cs.2,
             v8 := hv.old.1, v9 := hv.new.1, comp := ?_ }
    intro b v w h
    simp only [V1W.ofLay] at h
    split at h
    · simp at h
      rw [← h.1, ← h.2.1, ← h.2.2]
      exact ⟨(blank_spec _ lo.b7).1, hv.comp.2, (sep_spec _).1⟩
    · cases h
  · refine { b1 := (blank_spec _ lo.b1).2.2, b2 := (blank_spec _ lo.b2).2.2, b3 := (blank_spec _ lo.b3).2.2,
             b4 := (blank_spec _ lo.b4).2.2, b5 := (blank_spec _ lo.b5).2.2, b6 := (blank_spec _ lo.b6).2.2,
             b8 := (blank_spec _ lo.b8).2.2, b9 := (blank_spec _ lo.b9).2.2, bc := ?_ }
    intro b v w h
    simp only [V1W.ofLay] at h
    split at h
    · simp at h
      rw [← h.1]
      exact (blank_spec _ lo.b7).2.2
    · cases h

theorem isAscii_fld (nm : String) (b v w T : Str) (hn : isAscii nm.toList) (hb : isAscii b) (hv : isAscii v)
    (hw : isAscii w) (hT : isAscii T) : isAscii (fld nm b v w T) := by
  unfold fld
  refine isAscii_append.2 ⟨hn, isAscii_cons.2 ⟨by decide, ?_⟩⟩
  exact isAscii_append.2 ⟨hb, isAscii_append.2 ⟨hv, isAscii_append.2 ⟨hw, hT⟩⟩⟩

theorem isAscii_nil : isAscii [] := fun _ h => by simp at h

theorem ofLay_ascii (p : V1P) (lay : V1Lay) (f : V1File) (lo : LayOk lay) (hv : ValidV1 p f.h) :
    isAscii ((V1W.ofLay lay f).text []) := by
  have a1 := isAscii_class _ digit_wordDash _ (pyStrInt_small _ hv.oh0.1 hv.oh0.2).1.2
  have a3 := isAscii_class _ digit_wordDash _ (pyStrInt_small _ hv.ver0.1 hv.ver0.2).1.2
  have a2 := isAscii_class _ upper_wordDash _ hv.data.2.2
  have a4 := isAscii_class _ word_wordDash _ hv.sec.2.2
  have a5 := isAscii_class _ upDigDash_wordDash _ hv.enc.2.2
  have a6 := isAscii_class _ (fun _ h => h) _ hv.cs.2.2
  have a7 := isAscii_class _ upper_wordDash _ hv.comp.2.2
  have a8 := isAscii_class _ (fun _ h => h) _ hv.old.1.2
  have a9 := isAscii_class _ (fun _ h => h) _ hv.new.1.2
  have tail : isAscii (fld "OLDFILEUID" lay.oldfileuid.blank f.h.oldfileuid lay.oldfileuid.sep.str
      ("NEWFILEUID".toList ++ ':' :: (lay.newBlank ++ (f.h.newfileuid ++ [])))) := by
    apply isAscii_fld _ _ _ _ _ (by unfold isAscii; decide) (blank_spec _ lo.b8).2.1 a8 (sep_spec _).2.1
    refine isAscii_append.2 ⟨by unfold isAscii; decide, isAscii_cons.2 ⟨by decide, ?_⟩⟩
    exact isAscii_append.2 ⟨(blank_spec _ lo.b9).2.1, isAscii_append.2 ⟨a9, isAscii_nil⟩⟩
  unfold V1W.text
  refine isAscii_append.2 ⟨(wsNoLF_spec _ lo.indent).2.1, ?_⟩
  apply isAscii_fld _ _ _ _ _ (by unfold isAscii; decide) (blank_spec _ lo.b1).2.1 a1 (sep_spec _).2.1
  apply isAscii_fld _ _ _ _ _ (by unfold isAscii; decide) (blank_spec _ lo.b2).2.1 a2 (sep_spec _).2.1
  apply isAscii_fld _ _ _ _ _ (by unfold isAscii; decide) (blank_spec _ lo.b3).2.1 a3 (sep_spec _).2.1
  apply isAscii_fld _ _ _ _ _ (by unfold isAscii; decide) (blank_spec _ lo.b4).2.1 a4 (sep_spec _).2.1
  apply isAscii_fld _ _ _ _ _ (by unfold isAscii; decide) (blank_spec _ lo.b5).2.1 a5 (sep_spec _).2.1
  apply isAscii_fld _ _ _ _ _ (by unfold isAscii; decide) (blank_spec _ lo.b6).2.1 a6 (sep_spec _).2.1
  simp only [V1W.compText, V1W.ofLay]
  cases f.withCompression
  · exact tail
  · exact isAscii_fld _ _ _ _ _ (by unfold isAscii; decide) (blank_spec _ lo.b7).2.1 a7 (sep_spec _).2.1 tail

/-! line-feed count -/

def lfc (s : Str) : Nat := s.count '\n'

theorem lfc_noLF (s : Str) (h : hasLF s = false) : lfc s = 0 := by
  simp only [hasLF, List.any_eq_false, beq_iff_eq] at h
  exact List.count_eq_zero.2 (fun hm => h _ hm rfl)

theorem lfc_append (a b : Str) : lfc (a ++ b) = lfc a + lfc b := List.count_append

theorem lfc_fld (nm : String) (b v w T : Str) (hn : hasLF nm.toList = false) (hb : hasLF b = false)
    (hv : hasLF v = false) : lfc (fld nm b v w T) = lfc w + lfc T := by
  unfold fld
  have e : nm.toList ++ ':' :: (b ++ (v ++ (w ++ T))) = nm.toList ++ ([':'] ++ (b ++ (v ++ (w ++ T)))) := by simp
  rw [e]
  simp only [lfc_append, lfc_noLF _ hn, lfc_noLF _ hb, lfc_noLF _ hv]
  have : lfc [':'] = 0 := by decide
  omega

theorem lfCount_ascii (s : Str) (hs : isAscii s) : lfCount (asciiBytes s) = lfc s := by
  induction s with
  | nil => rfl
  | cons c cs ih =>
    have hc := (isAscii_cons.1 hs).1
    have ih := ih (isAscii_cons.1 hs).2
    simp only [lfCount, asciiBytes, List.map_cons, lfc, List.count_cons] at ih ⊢
    rw [ih]
    by_cases h : c = '\n'
    · subst h; simp [byteOf_10]
    · have : byteOf c.toNat ≠ 10 := fun e => h ((byteOf_eq_lf c hc).1 e)
      simp [h, this]

theorem ofLay_lfc (p : V1P) (lay : V1Lay) (f : V1File) (lo : LayOk lay) (hv : ValidV1 p f.h) :
    lfc ((V1W.ofLay lay f).text []) ≤ 8 := by
  obtain ⟨ok, nl⟩ := ofLay_ok p lay f lo hv
  have h1 := hasLF_of_class _ digit_not_space _ ok.v1.2
  have h2 := hasLF_of_class _ upper_not_space _ ok.v2.2
  have h3 := hasLF_of_class _ digit_not_space _ ok.v3.2
  have h4 := hasLF_of_class _ word_not_space _ ok.v4.2
  have h5 := hasLF_of_class _ upDigDash_not_space _ ok.v5.2
  have h6 := hasLF_of_class _ wordDash_not_space _ ok.v6.2
  have h8 := hasLF_of_class _ wordDash_not_space _ ok.v8.2
  have h9 := hasLF_of_class _ wordDash_not_space _ ok.v9.2
  have h7 := hasLF_of_class _ upper_not_space _ hv.comp.2.2
  have s1 : lfc (V1W.ofLay lay f).w1 ≤ 1 := (sep_spec lay.ofxheader.sep).2.2.2
  have s2 : lfc (V1W.ofLay lay f).w2 ≤ 1 := (sep_spec lay.data.sep).2.2.2
  have s3 : lfc (V1W.ofLay lay f).w3 ≤ 1 := (sep_spec lay.version.sep).2.2.2
  have s4 : lfc (V1W.ofLay lay f).w4 ≤ 1 := (sep_spec lay.security.sep).2.2.2
  have s5 : lfc (V1W.ofLay lay f).w5 ≤ 1 := (sep_spec lay.encoding.sep).2.2.2
  have s6 : lfc (V1W.ofLay lay f).w6 ≤ 1 := (sep_spec lay.charset.sep).2.2.2
  have s7 : lfc lay.compression.sep.str ≤ 1 := (sep_spec lay.compression.sep).2.2.2
  have s8 : lfc lay.oldfileuid.sep.str ≤ 1 := (sep_spec lay.oldfileuid.sep).2.2.2
  have hi : hasLF (V1W.ofLay lay f).indent = false := (wsNoLF_spec _ lo.indent).2.2
  have tail : lfc ("NEWFILEUID".toList ++ ':' :: ((V1W.ofLay lay f).b9 ++ ((V1W.ofLay lay f).v9 ++ []))) = 0 := by
    have e : "NEWFILEUID".toList ++ ':' :: ((V1W.ofLay lay f).b9 ++ ((V1W.ofLay lay f).v9 ++ [])) =
      ("NEWFILEUID".toList ++ [':']) ++ ((V1W.ofLay lay f).b9 ++ ((V1W.ofLay lay f).v9 ++ [])) := by simp
    rw [e]
    simp only [lfc_append, lfc_noLF _ nl.b9, lfc_noLF _ h9]
    decide
  unfold V1W.text
  rw [lfc_append, lfc_noLF _ hi,
    lfc_fld _ _ _ _ _ (by decide) nl.b1 h1, lfc_fld _ _ _ _ _ (by decide) nl.b2 h2,
    lfc_fld _ _ _ _ _ (by decide) nl.b3 h3, lfc_fld _ _ _ _ _ (by decide) nl.b4 h4,
    lfc_fld _ _ _ _ _ (by decide) nl.b5 h5, lfc_fld _ _ _ _ _ (by decide) nl.b6 h6]
  have hcomp : lfc ((V1W.ofLay lay f).compText (fld "OLDFILEUID" (V1W.ofLay lay f).b8 (V1W.ofLay lay f).v8
      (V1W.ofLay lay f).w8 ("NEWFILEUID".toList ++ ':' :: ((V1W.ofLay lay f).b9 ++ ((V1W.ofLay lay f).v9 ++ []))))) ≤ 2 := by
    simp only [V1W.compText]
    cases hw : f.withCompression
    · simp only [V1W.ofLay, hw]
      have := lfc_fld "OLDFILEUID" lay.oldfileuid.blank f.h.oldfileuid lay.oldfileuid.sep.str
        ("NEWFILEUID".toList ++ ':' :: (lay.newBlank ++ (f.h.newfileuid ++ []))) (by decide) nl.b8 h8
      simp only [V1W.ofLay] at tail
      simp only [Bool.false_eq_true, if_false]
      rw [this, tail]
      omega
    · simp only [V1W.ofLay, hw, if_true]
      have := lfc_fld "OLDFILEUID" lay.oldfileuid.blank f.h.oldfileuid lay.oldfileuid.sep.str
        ("NEWFILEUID".toList ++ ':' :: (lay.newBlank ++ (f.h.newfileuid ++ []))) (by decide) nl.b8 h8
      rw [lfc_fld _ _ _ _ _ (by decide) (blank_spec _ lo.b7).2.2 h7, this]
      simp only [V1W.ofLay] at tail
      rw [tail]
      omega
  omega

theorem encodeChar_ascii (tbl : List (Option Nat)) (cs : Name) (c : Char) (hc : c.toNat < 128) :
    encodeChar tbl cs c = some [byteOf c.toNat] := by
  cases cs
  · simp [encodeChar, encodeCharAscii, hc]
  · simp [encodeChar, encodeCharLatin1, show c.toNat < 256 by omega]
  · simp [encodeChar, encodeCharCp1252, Or.inl hc]
  · simp [encodeChar, encodeCharUtf8, hc]

theorem decode_ascii_prefix (tbl : List (Option Nat)) (cs : Name) (s : Str) (hs : isAscii s) (rest : Bytes) :
    decode tbl cs (asciiBytes s ++ rest) = (decode tbl cs rest).map (s ++ ·) := by
  induction s with
  | nil => cases h : decode tbl cs rest <;> simp [asciiBytes, Except.map, h]
  | cons c cs' ih =>
    have hc := (isAscii_cons.1 hs).1
    have ih := ih (isAscii_cons.1 hs).2
    have := decode_encodeChar tbl cs c _ (asciiBytes cs' ++ rest) (encodeChar_ascii tbl cs c hc)
    simp only [asciiBytes, List.map_cons, List.cons_append, List.singleton_append, List.nil_append] at this ih ⊢
    rw [this, ih]
    cases decode tbl cs rest <;> rfl

theorem encode_cons_ascii (tbl : List (Option Nat)) (cs : Name) (c : Char) (rest : Str) (bb : Bytes)
    (hc : c.toNat < 128) (h : encode tbl cs (c :: rest) = .ok bb) :
    ∃ bb', bb = byteOf c.toNat :: bb' := by
  unfold encode at h
  rw [encodeChar_ascii tbl cs c hc] at h
  cases hr : encode tbl cs rest with
  | error e => simp [hr, bind, Except.bind] at h
  | ok rb =>
    simp [hr, bind, Except.bind, pure, Except.pure] at h
    exact ⟨rb, h.symm⟩

theorem xml_nomatch (s : Str) (h : ∀ c ∈ s.head?, c ≠ '<') : reMatch xmlRegex s = none := by
  cases s with
  | nil => rfl
  | cons c cs =>
    have : c ≠ '<' := h c (by simp)
    have hb : ('<' == c) = false := by simpa using fun e => this e.symm
    simp only [reMatch, xmlRegex, L, matchSegs, stepItem]
    have : "<?xml".toList = '<' :: "?xml".toList := by decide
    rw [this]
    simp [List.isPrefixOf, hb]

theorem firstLines_succ (n : Nat) (bs : Bytes) :
    firstLines (n + 1) bs = splitLine bs ++ firstLines n (bs.drop (splitLine bs).length) := rfl

theorem chars_head (b : UInt8) (bs : Bytes) (hb : b.toNat < 128) : chars (b :: bs) = byteChar b :: chars bs := by
  simp [chars, decodeAsciiReplace, hb]

theorem firstLines_head (n : Nat) (b : UInt8) (bs : Bytes) : ∃ r, firstLines (n + 1) (b :: bs) = b :: r := by
  rw [firstLines_cons]
  split <;> exact ⟨_, rfl⟩

theorem ofx_toList : "OFXHEADER".toList = 'O' :: "FXHEADER".toList := by decide
theorem text_head (t : V1W) (R : Str) : ∃ Y, t.text R = t.indent ++ 'O' :: Y := by
  unfold V1W.text fld
  rw [ofx_toList]
  exact ⟨_, rfl⟩

/-- v1 files, any payload that starts with `<`: the header fields, and the payload with the gap in front,
    stripped -/
theorem parse_v1_gen (p1 : V1P) (p2 : V2P) (tbl : List (Option Nat)) (lay : V1Lay) (f : V1File) (body : Str)
    (bb : Bytes) (cs : Name) (hv : ValidV1 p1 f.h)
    (hcomp : f.withCompression = false → f.h.compression = "NONE".toList)
    (hcodec : codecV1 p1 f.h = .ok cs) (henc : encode tbl cs body = .ok bb)
    (hb0 : body.head? = some '<') (htol : lay.tolerated = true) :
    parseHeader p1 p2 tbl (renderV1 lay f bb) = .ok (.v1 f.h, strip (lay.gap ++ body)) := by
  have lo := layOk_of_tolerated lay htol
  obtain ⟨ok, nl⟩ := ofLay_ok p1 lay f lo hv
  have hA := ofLay_ascii p1 lay f lo hv
  have hlf := ofLay_lfc p1 lay f lo hv
  obtain ⟨gs, gas⟩ := asciiSpace_spec _ lo.gap
  obtain ⟨brest, hbody⟩ : ∃ r, body = '<' :: r := by
    cases body with
    | nil => simp at hb0
    | cons c r => simp at hb0; exact ⟨r, by rw [hb0]⟩
  obtain ⟨bb', hbb⟩ := encode_cons_ascii tbl cs '<' brest bb (by decide) (hbody ▸ henc)
  generalize hT : V1W.ofLay lay f = t at ok nl hA hlf
  generalize hAdef : t.text [] = A at hA hlf
  have hF : lay.indent ++ v1Fields lay f = A ++ lay.gap := by
    rw [v1Text_eq, hT, ← hAdef, ← text_append]; rfl
  let G : Bytes := asciiBytes lay.gap ++ bb
  let F : Bytes := asciiBytes A ++ G
  have hfile : renderV1 lay f bb = asciiBytes (leadingText lay.leading) ++ F := by
    simp only [renderV1, v1Text, asciiBytes_append, hF, List.append_assoc, F, G]
  -- shape of the first line
  obtain ⟨rest1, hline1⟩ : ∃ r, chars (splitLine F) = lay.indent ++ 'O' :: r := by
    have hi := wsNoLF_spec _ lo.indent
    obtain ⟨Y, eA⟩ : ∃ Y, A = lay.indent ++ 'O' :: Y := by
      obtain ⟨Y, hY⟩ := text_head t []
      exact ⟨Y, by rw [← hAdef, hY, ← hT]; rfl⟩
    have e2 : F = asciiBytes lay.indent ++ (byteOf ('O').toNat :: (asciiBytes Y ++ G)) := by
      simp only [F, eA, asciiBytes_append]
      simp [asciiBytes]
    refine ⟨chars (splitLine (asciiBytes Y ++ G)), ?_⟩
    rw [e2, splitLine_noLF _ _ hi.2.1 hi.2.2, splitLine_cons, if_neg (by decide), chars_append,
      chars_asciiBytes _ hi.2.1, chars_head _ _ (by decide)]
    rfl
  obtain ⟨hs, hsdef⟩ : ∃ hs, (leadingText lay.leading).length = hs := ⟨_, rfl⟩
  have hdropF : (renderV1 lay f bb).drop hs = F := by
    rw [hfile, ← hsdef]
    exact List.drop_left' (asciiBytes_length _)
  have hfind : findHeader (renderV1 lay f bb) 8 0 =
      .ok (hs, chars (splitLine F), hs + (splitLine F).length) := by
    rw [findHeader_leading _ lay.leading lo.leading 8 0 F (by rw [List.drop_zero, hfile])
      (by have := lo.leadingLen; omega)]
    obtain ⟨k, hk⟩ : ∃ k, 8 - lay.leading.length = k + 1 := ⟨7 - lay.leading.length, by have := lo.leadingLen; omega⟩
    rw [hk, findHeader]
    simp only [readline, Nat.zero_add, hsdef, hdropF]
    have : strip (chars (splitLine F)) ≠ [] :=
      strip_ne_nil_of_mem _ 'O' (by rw [hline1]; simp) (by decide)
    cases hst : strip (chars (splitLine F)) with
    | nil => exact absurd hst this
    | cons c cs => simp [chars] at hst ⊢; simp [hst]; rfl
  have hxml : reMatch xmlRegex (chars (splitLine F)) = none := by
    apply xml_nomatch
    rw [hline1]
    intro c hc
    cases hi : lay.indent with
    | nil => rw [hi] at hc; simp at hc; subst hc; decide
    | cons d ds =>
      rw [hi] at hc; simp at hc; subst hc
      intro e
      have := (wsNoLF_spec _ lo.indent).1 d (by rw [hi]; simp)
      rw [e] at this
      exact absurd this (by decide)
  -- rawheader: the first nine lines
  have hlfA : lfCount (asciiBytes A) < 9 := by rw [lfCount_ascii A hA]; omega
  obtain ⟨k, hk⟩ : ∃ k, 9 - lfCount (asciiBytes A) = k + 1 := ⟨8 - lfCount (asciiBytes A), by omega⟩
  let R0 : Str := chars (firstLines (k + 1) G)
  have hraw : chars (splitLine F) ++ moreLines (renderV1 lay f bb) 8 (hs + (splitLine F).length) = t.text R0 := by
    have e : (renderV1 lay f bb).drop (hs + (splitLine F).length) = F.drop (splitLine F).length := by
      rw [← List.drop_drop, hdropF]
    rw [moreLines_eq, e, ← chars_append, ← firstLines_succ]
    have : firstLines 9 F = asciiBytes A ++ firstLines (k + 1) G := by
      rw [← hk]; exact firstLines_append _ _ 9 hlfA
    rw [this, chars_append, chars_asciiBytes A hA, ← hAdef, ← text_append, List.nil_append]
  -- what follows the NEWFILEUID value is not a word character
  have hR0 : ∀ c ∈ R0.head?, isWordDash c = false := by
    intro c hc
    cases hg : lay.gap with
    | nil =>
      have eG : G = byteOf ('<').toNat :: bb' := by simp only [G, hg, hbb]; rfl
      obtain ⟨r, hr⟩ := firstLines_head k (byteOf ('<').toNat) bb'
      simp only [R0, eG, hr, chars_head _ _ (show (byteOf ('<').toNat).toNat < 128 by decide)] at hc
      simp at hc; subst hc; decide
    | cons g gr =>
      have hga : g.toNat < 128 := gas g (by rw [hg]; simp)
      have eG : G = byteOf g.toNat :: (asciiBytes gr ++ bb) := by simp only [G, hg]; rfl
      obtain ⟨r, hr⟩ := firstLines_head k (byteOf g.toNat) (asciiBytes gr ++ bb)
      simp only [R0, eG, hr, chars_head _ _ (show (byteOf g.toNat).toNat < 128 by rw [byteOf_toNat _ (by omega)]; exact hga)] at hc
      simp at hc; subst hc
      rw [byteChar_byteOf g (by omega)]
      cases hw : isWordDash g with
      | false => rfl
      | true =>
        have := wordDash_not_space g hw
        rw [gs g (by rw [hg]; simp)] at this
        cases this
  have hmatch := reSearch_of_match _ _ _ (v1_match t R0 ok hR0)
  have hcaps : t.caps = [some (pyStrInt f.h.ofxheader), some f.h.data, some (pyStrInt f.h.version), some f.h.security,
      some f.h.encoding, some f.h.charset, (if f.withCompression then some f.h.compression else none),
      some f.h.oldfileuid, some f.h.newfileuid] := by
    rw [← hT]
    simp only [V1W.caps, V1W.ofLay]
    cases f.withCompression <;> rfl
  have hctor := ctorV1_valid p1 f.h hv (if f.withCompression then some f.h.compression else none) (by
    cases hw : f.withCompression
    · exact Or.inr ⟨rfl, hcomp hw⟩
    · exact Or.inl rfl)
  have hlen : (t.text R0).length - R0.length = A.length := by
    have : t.text R0 = A ++ R0 := by rw [← hAdef, ← text_append]; rfl
    rw [this, List.length_append]; omega
  have hparse : parseV1 p1 (t.text R0) = .ok (f.h, A.length) := by
    unfold parseV1
    rw [hmatch, hcaps]
    simp only [hctor, bind, Except.bind, pure, Except.pure, hlen]
  -- the body: byte-exact offset, declared codec, strip
  have hmsg : (strip <$> decode tbl cs ((renderV1 lay f bb).drop (hs + A.length))) =
      .ok (strip (lay.gap ++ body)) := by
    have e : (renderV1 lay f bb).drop (hs + A.length) = G := by
      rw [← List.drop_drop, hdropF]
      exact List.drop_left' (asciiBytes_length _)
    rw [e]
    simp only [G]
    rw [decode_ascii_prefix tbl cs lay.gap gas bb, decode_encode tbl cs body bb henc]
    simp only [Except.map, Functor.map]
  unfold parseHeader
  simp only [hfind, bind, Except.bind, hxml, hraw, hparse, hcodec]
  have := hmsg
  simp only [Functor.map, Except.map] at this
  cases hdd : decode tbl cs ((renderV1 lay f bb).drop (hs + A.length)) with
  | error e => rw [hdd] at this; cases this
  | ok m =>
    rw [hdd] at this
    simp only [pure, Except.pure]
    have e : strip m = strip (lay.gap ++ body) := by injection this
    rw [e]

/-- `strip` removes whitespace on both sides of a text that starts and ends with non-space characters -/
theorem strip_ws_body_ws (g body w : Str) (hg : allSpace g) (hw : allSpace w) (c0 : Char) (cs : Str)
    (hb : body = c0 :: cs) (h0 : isSpace c0 = false) (cl : Char) (hl : body.getLast? = some cl)
    (hls : isSpace cl = false) : strip (g ++ (body ++ w)) = body := by
  unfold strip
  rw [lstrip_append_space g _ hg, hb, List.cons_append, lstrip_nonspace c0 _ h0, ← List.cons_append, ← hb]
  unfold rstrip
  obtain ⟨init, hi⟩ : ∃ init, body = init ++ [cl] := by
    rw [List.getLast?_eq_some_iff] at hl
    exact hl
  rw [List.reverse_append, lstrip_append_space _ _ (fun c hc => hw c (by simpa using hc)), hi, List.reverse_append]
  simp only [List.reverse_cons, List.reverse_nil, List.nil_append, List.singleton_append]
  rw [lstrip_nonspace cl _ hls]
  simp

/-- **C05 for v1 files**: every tolerated layout -/
theorem parse_v1 (p1 : V1P) (p2 : V2P) (tbl : List (Option Nat)) (lay : V1Lay) (f : V1File) (body : Str)
    (bb : Bytes) (cs : Name) (hv : ValidV1 p1 f.h)
    (hcomp : f.withCompression = false → f.h.compression = "NONE".toList)
    (hcodec : codecV1 p1 f.h = .ok cs) (henc : encode tbl cs body = .ok bb)
    (hb0 : body.head? = some '<') (hb1 : body.getLast? = some '>')
    (htol : lay.tolerated = true) :
    parseHeader p1 p2 tbl (renderV1 lay f bb) = .ok (.v1 f.h, body) := by
  rw [parse_v1_gen p1 p2 tbl lay f body bb cs hv hcomp hcodec henc hb0 htol]
  obtain ⟨brest, hbody⟩ : ∃ r, body = '<' :: r := by
    cases body with
    | nil => simp at hb0
    | cons c r => simp at hb0; exact ⟨r, by rw [hb0]⟩
  rw [strip_ws_body lay.gap body (asciiSpace_spec _ (layOk_of_tolerated lay htol).gap).1 '<' brest hbody (by decide)
    '>' hb1 (by decide)]

end Ofx.Header
