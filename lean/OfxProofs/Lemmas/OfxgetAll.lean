/-
Lemmas for C19 (`--all`): after discovery the six account-type keys hold what the response lists as ACTIVE;
the request list is, as a multiset of accounts, `specActive`.
-/
import OfxProofs.Lemmas.OfxgetStmt
namespace Ofx.Ofxget
open Ofx Ofx.Spec.Ofxget

/-- the accounts a request list is for, given the ids per account type -/
def acctsOf (closing : Bool) (a : Accounts) : List AcctKey :=
  a.checking.map (fun id => AcctKey.bank id "CHECKING".toList) ++
  a.savings.map (fun id => AcctKey.bank id "SAVINGS".toList) ++
  a.moneymrkt.map (fun id => AcctKey.bank id "MONEYMRKT".toList) ++
  a.creditline.map (fun id => AcctKey.bank id "CREDITLINE".toList) ++
  a.creditcard.map AcctKey.cc ++
  (if closing then [] else a.investment.map AcctKey.inv)

theorem specStmt_accts {δ : Type} (a : Accounts) (o : StmtOpts δ) :
    (specStmt a o).map rqAcct = acctsOf false a := by
  simp [specStmt, bankStmts, acctsOf, rqAcct, List.map_append, List.map_map, Function.comp_def]

theorem specStmtend_accts {δ : Type} (a : Accounts) (o : StmtOpts δ) :
    (specStmtend a o).map rqAcct = acctsOf true a := by
  simp [specStmtend, bankStmtends, acctsOf, rqAcct, List.map_append, List.map_map, Function.comp_def]

theorem stmtendRequests_eq {δ : Type} (dt : Dates δ) (args : Chain) (a : Accounts) (ha : HasAccounts args a)
    (o : StmtOpts δ) (hs : o.dtstart = dt.start) (he : o.dtend = dt.end) :
    stmtendRequests dt args = .ok (specStmtend a o) := by
  unfold stmtendRequests
  simp only [bankTypes, List.foldlM, acctIds_of_get? _ _ _ ha.checking, acctIds_of_get? _ _ _ ha.savings,
    acctIds_of_get? _ _ _ ha.moneymrkt, acctIds_of_get? _ _ _ ha.creditline, acctIds_of_get? _ _ _ ha.creditcard,
    bind, Except.bind, pure, Except.pure,
    upper_bankTypes.1, upper_bankTypes.2.1, upper_bankTypes.2.2.1, upper_bankTypes.2.2.2, List.nil_append]
  simp only [specStmtend, bankStmtends, List.append_assoc, hs, he]

theorem mapM_error_of_ne_nil {α β : Type} (f : α → PyM β) (l : List α) (hl : l ≠ []) (e : Err)
    (hf : ∀ x, f x = .error e) : l.mapM f = .error e := by
  cases l with
  | nil => exact absurd rfl hl
  | cons x xs => rw [List.mapM_cons, hf x]; rfl

theorem getItem_none (args : Chain) (k : Name) (h : args.get? k = none) : args.getItem k = .error .key := by
  simp [Chain.getItem, h]

theorem stmtRequests_shape {δ : Type} (dt : Dates δ) (args : Chain) (a : Accounts) (rqs : List (Rq δ))
    (ha : HasAccounts args a) (h : stmtRequests dt args = .ok rqs) :
    ∃ t oo pos bal, rqs = specStmt a ⟨dt.start, dt.end, dt.asof, t, oo, pos, bal⟩ := by
  cases hti : args.get? "inctran".toList with
  | none =>
    exfalso
    unfold stmtRequests at h
    simp only [bankTypes, List.foldlM, acctIds_of_get? _ _ _ ha.checking, Chain.getItem, hti, bind, Except.bind] at h
    cases h
  | some t =>
    by_cases hinv : a.investment = []
    · refine ⟨t, .null, .null, .null, ?_⟩
      have hinv' := ha.investment
      rw [hinv] at hinv'
      unfold stmtRequests at h
      simp only [bankTypes, List.foldlM, acctIds_of_get? _ _ _ ha.checking, acctIds_of_get? _ _ _ ha.savings,
        acctIds_of_get? _ _ _ ha.moneymrkt, acctIds_of_get? _ _ _ ha.creditline, acctIds_of_get? _ _ _ ha.creditcard,
        acctIds_of_get? _ _ _ hinv', getItem_of_get? _ _ _ hti, bind, Except.bind, pure, Except.pure,
        mapM_pure_ok, List.mapM_nil,
        upper_bankTypes.1, upper_bankTypes.2.1, upper_bankTypes.2.2.1, upper_bankTypes.2.2.2, List.nil_append,
        Except.ok.injEq] at h
      rw [← h]
      simp only [specStmt, bankStmts, List.append_assoc, hinv, List.map_nil]
    · cases hoo : args.get? "incoo".toList with
      | none =>
        exfalso
        unfold stmtRequests at h
        simp only [bankTypes, List.foldlM, acctIds_of_get? _ _ _ ha.checking, acctIds_of_get? _ _ _ ha.savings,
          acctIds_of_get? _ _ _ ha.moneymrkt, acctIds_of_get? _ _ _ ha.creditline, acctIds_of_get? _ _ _ ha.creditcard,
          acctIds_of_get? _ _ _ ha.investment, getItem_of_get? _ _ _ hti, bind, Except.bind, pure, Except.pure,
          mapM_pure_ok] at h
        rw [mapM_error_of_ne_nil _ a.investment hinv .key (by intro x; simp only [getItem_none _ _ hoo])] at h
        cases h
      | some oo =>
        cases hpos : args.get? "incpos".toList with
        | none =>
          exfalso
          unfold stmtRequests at h
          simp only [bankTypes, List.foldlM, acctIds_of_get? _ _ _ ha.checking, acctIds_of_get? _ _ _ ha.savings,
            acctIds_of_get? _ _ _ ha.moneymrkt, acctIds_of_get? _ _ _ ha.creditline, acctIds_of_get? _ _ _ ha.creditcard,
            acctIds_of_get? _ _ _ ha.investment, getItem_of_get? _ _ _ hti, getItem_of_get? _ _ _ hoo,
            bind, Except.bind, pure, Except.pure, mapM_pure_ok] at h
          rw [mapM_error_of_ne_nil _ a.investment hinv .key (by intro x; simp only [getItem_none _ _ hpos])] at h
          cases h
        | some pos =>
          cases hbal : args.get? "incbal".toList with
          | none =>
            exfalso
            unfold stmtRequests at h
            simp only [bankTypes, List.foldlM, acctIds_of_get? _ _ _ ha.checking, acctIds_of_get? _ _ _ ha.savings,
              acctIds_of_get? _ _ _ ha.moneymrkt, acctIds_of_get? _ _ _ ha.creditline, acctIds_of_get? _ _ _ ha.creditcard,
              acctIds_of_get? _ _ _ ha.investment, getItem_of_get? _ _ _ hti, getItem_of_get? _ _ _ hoo,
              getItem_of_get? _ _ _ hpos, bind, Except.bind, pure, Except.pure, mapM_pure_ok] at h
            rw [mapM_error_of_ne_nil _ a.investment hinv .key (by intro x; simp only [getItem_none _ _ hbal])] at h
            cases h
          | some bal =>
            refine ⟨t, oo, pos, bal, ?_⟩
            rw [stmtRequests_eq dt args a t oo pos bal ha ⟨hti, hoo, hpos, hbal⟩] at h
            exact (Except.ok.inj h).symm

/-! ### `--all`: the accounts requested are the ACTIVE accounts listed -/

theorem get?_cons (a : Map) (b : Chain) (k : Name) :
    Chain.get? (a :: b) k = match a.lookup k with
      | some v => some v
      | none => Chain.get? b k := by
  simp only [Chain.get?, List.findSome?_cons]
  cases List.lookup k a <;> rfl

/-- what the six account-type keys hold after discovery (`[]` where nothing is discovered) -/
def discoveredAccounts (infos : List AcctInfo) : Accounts where
  checking := (discovered infos "checking".toList).getD []
  savings := (discovered infos "savings".toList).getD []
  moneymrkt := (discovered infos "moneymrkt".toList).getD []
  creditline := (discovered infos "creditline".toList).getD []
  creditcard := (discovered infos "creditcard".toList).getD []
  investment := (discovered infos "investment".toList).getD []

/-- the guard: an account-type key about which the response says nothing is not configured further down
    (otherwise `args[type]` falls through the ChainMap to that list) -/
def NoFallback (rest : Chain) (infos : List AcctInfo) : Prop :=
  ∀ t ∈ acctKeys, discovered infos t = none → Chain.get? rest t = some (.list [])

theorem get?_discovered (cli : Map) (rest : Chain) (infos : List AcctInfo) (hv : ValidInfos infos) (m : Map)
    (hm : parsedAcctinfo infos = .ok m) (hg : NoFallback rest infos) (t : Name) (ht : t ∈ acctKeys)
    (hcli : cli.lookup t = none) :
    Chain.get? (cli :: m :: rest) t = some (.list ((discovered infos t).getD [])) := by
  rw [get?_cons, hcli]
  simp only
  rw [get?_cons, discovered_lookup infos hv m hm t ht]
  cases hd : discovered infos t with
  | none => simpa using hg t ht hd
  | some l => rfl

theorem hasAccounts_discovered (cli : Map) (rest : Chain) (infos : List AcctInfo) (hv : ValidInfos infos) (m : Map)
    (hm : parsedAcctinfo infos = .ok m) (hg : NoFallback rest infos) (hcli : ∀ t ∈ acctKeys, cli.lookup t = none) :
    HasAccounts (cli :: m :: rest) (discoveredAccounts infos) where
  checking := get?_discovered cli rest infos hv m hm hg _ (by decide) (hcli _ (by decide))
  savings := get?_discovered cli rest infos hv m hm hg _ (by decide) (hcli _ (by decide))
  moneymrkt := get?_discovered cli rest infos hv m hm hg _ (by decide) (hcli _ (by decide))
  creditline := get?_discovered cli rest infos hv m hm hg _ (by decide) (hcli _ (by decide))
  creditcard := get?_discovered cli rest infos hv m hm hg _ (by decide) (hcli _ (by decide))
  investment := get?_discovered cli rest infos hv m hm hg _ (by decide) (hcli _ (by decide))

/-- which account-type key an `*ACCTINFO` contributes to -/
def acctTag : AcctInfo → Option Name
  | .bank _ _ ty st => if st == "ACTIVE".toList then some (lower ty) else none
  | .cc _ st => if st == "ACTIVE".toList then some "creditcard".toList else none
  | .inv _ _ st => if st == "ACTIVE".toList then some "investment".toList else none
  | .other _ => none

theorem discovered_bank_ids (infos : List AcctInfo) (t : Name) (ht : t ∈ bankTypes) :
    (discovered infos t).getD [] = extraFor selBank t infos := by
  simp only [discovered, ht, if_true]
  split
  · rename_i h; rw [h]; rfl
  · rfl

theorem ccActiveIds_nil_of_no_cc (infos : List AcctInfo) (h : infos.filter (fun a => a.clsName == clsCc) = []) :
    ccActiveIds infos = [] := by
  rw [← ccActiveIds_filter, h]; rfl

theorem discovered_cc_ids (infos : List AcctInfo) :
    (discovered infos "creditcard".toList).getD [] = ccActiveIds infos := by
  have h1 : ¬ "creditcard".toList ∈ bankTypes := by decide
  simp only [discovered, h1, if_false, if_true]
  split
  · rename_i h; rw [ccActiveIds_nil_of_no_cc infos h]; rfl
  · rfl

theorem discovered_inv_ids (infos : List AcctInfo) :
    (discovered infos "investment".toList).getD [] = extraFor selInv "investment".toList infos := by
  have h1 : ¬ "investment".toList ∈ bankTypes := by decide
  have h2 : ¬ "investment".toList = "creditcard".toList := by decide
  simp only [discovered, h1, h2, if_false, if_true]
  split
  · rename_i h; rw [h]; rfl
  · rfl

def sACTIVE : Str := "ACTIVE".toList

theorem selBank_eq (b a ty s : Str) :
    selBank (.bank b a ty s) = if s = sACTIVE then some (b, lower ty, a) else none := by
  by_cases h : s = sACTIVE
  · subst h; rfl
  · have : (s == "ACTIVE".toList) = false := by simpa [sACTIVE] using h
    simp only [selBank, this, Bool.false_eq_true, if_false, h]

theorem selInv_eq (b a s : Str) :
    selInv (.inv b a s) = if s = sACTIVE then some (b, "investment".toList, a) else none := by
  by_cases h : s = sACTIVE
  · subst h; rfl
  · have : (s == "ACTIVE".toList) = false := by simpa [sACTIVE] using h
    simp only [selInv, this, Bool.false_eq_true, if_false, h]

theorem acctTag_bank (b a ty s : Str) :
    acctTag (.bank b a ty s) = if s = sACTIVE then some (lower ty) else none := by
  by_cases h : s = sACTIVE
  · subst h; rfl
  · have : (s == "ACTIVE".toList) = false := by simpa [sACTIVE] using h
    simp only [acctTag, this, Bool.false_eq_true, if_false, h]

theorem acctTag_cc (a s : Str) :
    acctTag (.cc a s) = if s = sACTIVE then some "creditcard".toList else none := by
  by_cases h : s = sACTIVE
  · subst h; rfl
  · have : (s == "ACTIVE".toList) = false := by simpa [sACTIVE] using h
    simp only [acctTag, this, Bool.false_eq_true, if_false, h]

theorem acctTag_inv (b a s : Str) :
    acctTag (.inv b a s) = if s = sACTIVE then some "investment".toList else none := by
  by_cases h : s = sACTIVE
  · subst h; rfl
  · have : (s == "ACTIVE".toList) = false := by simpa [sACTIVE] using h
    simp only [acctTag, this, Bool.false_eq_true, if_false, h]

theorem requestable_bank (c : Bool) (b a ty s : Str) :
    requestable c (.bank b a ty s) =
      if s = sACTIVE ∧ ty ∈ requestableBankTypes then some (.bank a ty) else none := rfl

theorem requestable_cc (c : Bool) (a s : Str) :
    requestable c (.cc a s) = if s = sACTIVE then some (.cc a) else none := rfl

theorem requestable_inv (c : Bool) (b a s : Str) :
    requestable c (.inv b a s) = if s = sACTIVE ∧ c = false then some (.inv a) else none := rfl

theorem isActive_cc (a s : Str) : (AcctInfo.cc a s).isActive = decide (s = sACTIVE) := by
  by_cases h : s = sACTIVE
  · subst h; rfl
  · have : (s == "ACTIVE".toList) = false := by simpa [sACTIVE] using h
    show (s == "ACTIVE".toList) = decide (s = sACTIVE)
    rw [this]
    exact (decide_eq_false h).symm

theorem piece_bank (closing : Bool) (infos : List AcctInfo) (hv : ValidInfos infos) (t : Name) (ht : t ∈ bankTypes) :
    (extraFor selBank t infos).map (fun id => AcctKey.bank id (upper t)) =
      infos.filterMap (fun x => if acctTag x = some t then requestable closing x else none) := by
  unfold extraFor
  rw [List.map_filterMap]
  apply filterMap_congr_mem
  intro inf hinf
  have hval := hv inf hinf
  obtain ⟨h1, h2, _, _, hup⟩ := bankTypes_facts t ht
  cases inf with
  | bank b a ty s =>
    simp only at hval
    obtain ⟨_, _, hlow, _⟩ := valid_lower_facts ty hval
    rw [selBank_eq, acctTag_bank, requestable_bank]
    by_cases hs : s = sACTIVE
    · by_cases hlt : lower ty = t
      · have hty : ty = upper t := (hlow t ht).mp hlt
        have hreq : ty ∈ requestableBankTypes := by rw [hty]; exact hup
        simp only [hs, if_true, hlt, true_and, hreq, Option.map_some, Option.bind_some]
        rw [hty]
      · have : ¬ some (lower ty) = some t := fun e => hlt (Option.some.inj e)
        simp only [hs, if_true, hlt, if_false, this, Option.map_none, Option.bind_some]
    · simp only [hs, if_false, Option.map_none, Option.bind_none, false_and]
      split <;> rfl
  | cc a s =>
    have hsel : selBank (AcctInfo.cc a s) = none := rfl
    rw [acctTag_cc, hsel]
    have : ¬ some "creditcard".toList = some t := fun e => h1 (Option.some.inj e).symm
    by_cases hs : s = sACTIVE
    · simp only [hs, if_true, this, if_false]; rfl
    · have hn : ¬ (none : Option Name) = some t := fun e => by cases e
      simp only [hs, if_false, hn]; rfl
  | inv b a s =>
    have hsel : selBank (AcctInfo.inv b a s) = none := rfl
    rw [acctTag_inv, hsel]
    have : ¬ some "investment".toList = some t := fun e => h2 (Option.some.inj e).symm
    by_cases hs : s = sACTIVE
    · simp only [hs, if_true, this, if_false]; rfl
    · have hn : ¬ (none : Option Name) = some t := fun e => by cases e
      simp only [hs, if_false, hn]; rfl
  | other n => rfl

theorem piece_cc (closing : Bool) (infos : List AcctInfo) (hv : ValidInfos infos) :
    (ccActiveIds infos).map AcctKey.cc =
      infos.filterMap (fun x => if acctTag x = some "creditcard".toList then requestable closing x else none) := by
  unfold ccActiveIds
  rw [List.map_filterMap]
  apply filterMap_congr_mem
  intro inf hinf
  have hval := hv inf hinf
  cases inf with
  | bank b a ty s =>
    simp only at hval
    obtain ⟨hcc, _, _, _⟩ := valid_lower_facts ty hval
    rw [acctTag_bank]
    have h1 : ¬ some (lower ty) = some "creditcard".toList := fun e => hcc (Option.some.inj e)
    have hn : ¬ (none : Option Name) = some "creditcard".toList := fun e => by cases e
    by_cases hs : s = sACTIVE
    · simp only [hs, if_true, h1, if_false]; rfl
    · simp only [hs, if_false, hn]; rfl
  | cc a s =>
    rw [acctTag_cc, requestable_cc]
    simp only [isActive_cc]
    have hn : ¬ (none : Option Name) = some "creditcard".toList := fun e => by cases e
    by_cases hs : s = sACTIVE
    · simp only [hs, decide_true, if_true, Option.bind_some, Option.map_some]
    · simp only [hs, decide_false, Bool.false_eq_true, if_false, hn, Option.bind_none, Option.map_none]
  | inv b a s =>
    rw [acctTag_inv]
    have h1 : ¬ some "investment".toList = some "creditcard".toList := by decide
    have hn : ¬ (none : Option Name) = some "creditcard".toList := fun e => by cases e
    by_cases hs : s = sACTIVE
    · simp only [hs, if_true, h1, if_false]; rfl
    · simp only [hs, if_false, hn]; rfl
  | other n => rfl

theorem piece_inv (infos : List AcctInfo) (hv : ValidInfos infos) :
    (extraFor selInv "investment".toList infos).map AcctKey.inv =
      infos.filterMap (fun x => if acctTag x = some "investment".toList then requestable false x else none) := by
  unfold extraFor
  rw [List.map_filterMap]
  apply filterMap_congr_mem
  intro inf hinf
  have hval := hv inf hinf
  cases inf with
  | bank b a ty s =>
    simp only at hval
    obtain ⟨_, hiv, _, _⟩ := valid_lower_facts ty hval
    have hsel : selInv (AcctInfo.bank b a ty s) = none := rfl
    rw [acctTag_bank, hsel]
    have h1 : ¬ some (lower ty) = some "investment".toList := fun e => hiv (Option.some.inj e)
    have hn : ¬ (none : Option Name) = some "investment".toList := fun e => by cases e
    by_cases hs : s = sACTIVE
    · simp only [hs, if_true, h1, if_false]; rfl
    · simp only [hs, if_false, hn]; rfl
  | cc a s =>
    have hsel : selInv (AcctInfo.cc a s) = none := rfl
    rw [acctTag_cc, hsel]
    have h1 : ¬ some "creditcard".toList = some "investment".toList := by decide
    have hn : ¬ (none : Option Name) = some "investment".toList := fun e => by cases e
    by_cases hs : s = sACTIVE
    · simp only [hs, if_true, h1, if_false]; rfl
    · simp only [hs, if_false, hn]; rfl
  | inv b a s =>
    rw [selInv_eq, acctTag_inv, requestable_inv]
    have hn : ¬ (none : Option Name) = some "investment".toList := fun e => by cases e
    by_cases hs : s = sACTIVE
    · simp only [hs, if_true, and_self, Option.bind_some, Option.map_some]
    · simp only [hs, if_false, hn, Option.bind_none, Option.map_none]
  | other n => rfl

/-- keys of `request_stmtend`: no investment statements -/
def closingKeys : List Name := bankTypes ++ ["creditcard".toList]

theorem requestable_tagged (closing : Bool) (infos : List AcctInfo) (hv : ValidInfos infos) (inf : AcctInfo)
    (hinf : inf ∈ infos) :
    requestable closing inf =
      if (acctTag inf).any (fun t => (if closing then closingKeys else acctKeys).contains t) then requestable closing inf
      else none := by
  have hval := hv inf hinf
  cases inf with
  | bank b a ty s =>
    simp only at hval
    obtain ⟨_, _, _, hreq⟩ := valid_lower_facts ty hval
    rw [acctTag_bank, requestable_bank]
    by_cases hs : s = sACTIVE
    · by_cases hty : ty ∈ requestableBankTypes
      · have hm : lower ty ∈ bankTypes := hreq.mp hty
        have hc : (if closing then closingKeys else acctKeys).contains (lower ty) = true := by
          rw [List.contains_iff_mem]
          cases closing
          · exact List.mem_append_left _ hm
          · exact List.mem_append_left _ hm
        simp only [hs, if_true, Option.any_some, hc]
      · simp only [hs, hty, and_false, if_false, ite_self]
    · simp only [hs, false_and, if_false, ite_self]
  | cc a s =>
    rw [acctTag_cc, requestable_cc]
    by_cases hs : s = sACTIVE
    · have hc : (if closing then closingKeys else acctKeys).contains "creditcard".toList = true := by
        cases closing <;> decide
      simp only [hs, if_true, Option.any_some, hc]
    · simp only [hs, if_false, ite_self]
  | inv b a s =>
    rw [acctTag_inv, requestable_inv]
    by_cases hs : s = sACTIVE
    · cases closing with
      | false =>
        have hc : acctKeys.contains "investment".toList = true := by decide
        simp only [hs, if_true, Option.any_some, Bool.false_eq_true, if_false, hc]
      | true => simp only [hs, Bool.true_eq_false, and_false, if_false, ite_self]
    · simp only [hs, false_and, if_false, ite_self]
  | other n => rfl

/-- **multiset core of C19_all_active** (`stmt`): the ids discovered per account-type key are, as a multiset of
    accounts, exactly the ACTIVE accounts of requestable types that the response lists -/
theorem acctsOf_discovered_perm (infos : List AcctInfo) (hv : ValidInfos infos) :
    (acctsOf false (discoveredAccounts infos)).Perm (specActive false infos) := by
  have hnd : acctKeys.Nodup := by decide
  have h1 : specActive false infos =
      infos.filterMap (fun x => if (acctTag x).any (fun t => acctKeys.contains t) then requestable false x else none) := by
    unfold specActive
    apply filterMap_congr_mem
    intro inf hinf
    have := requestable_tagged false infos hv inf hinf
    simpa using this
  rw [h1]
  refine List.Perm.symm ((perm_filterMap_by_tag (requestable false) acctTag infos acctKeys hnd).trans ?_)
  simp only [acctKeys, bankTypes, List.cons_append, List.nil_append, List.flatMap_cons, List.flatMap_nil,
    List.append_nil]
  rw [← piece_bank false infos hv _ (by decide : "checking".toList ∈ bankTypes),
    ← piece_bank false infos hv _ (by decide : "savings".toList ∈ bankTypes),
    ← piece_bank false infos hv _ (by decide : "moneymrkt".toList ∈ bankTypes),
    ← piece_bank false infos hv _ (by decide : "creditline".toList ∈ bankTypes),
    ← piece_cc false infos hv, ← piece_inv infos hv]
  simp only [acctsOf, discoveredAccounts, discovered_bank_ids infos _ (by decide : "checking".toList ∈ bankTypes),
    discovered_bank_ids infos _ (by decide : "savings".toList ∈ bankTypes),
    discovered_bank_ids infos _ (by decide : "moneymrkt".toList ∈ bankTypes),
    discovered_bank_ids infos _ (by decide : "creditline".toList ∈ bankTypes),
    discovered_cc_ids, discovered_inv_ids, upper_bankTypes.1, upper_bankTypes.2.1, upper_bankTypes.2.2.1,
    upper_bankTypes.2.2.2, Bool.false_eq_true, if_false, List.append_assoc]
  exact List.Perm.refl _

theorem discover_all (cli : Map) (rest : Chain) (infos : List AcctInfo) (args' : Chain) (v : CfgVal)
    (hall : Chain.get? (cli :: rest) "all".toList = some v) (ht : truthy v = true)
    (h : discover (cli :: rest) (.ok infos) = .ok args') :
    ∃ m, parsedAcctinfo infos = .ok m ∧ args' = cli :: m :: rest := by
  unfold discover at h
  rw [getItem_of_get? _ _ _ hall] at h
  simp only [bind, Except.bind, ht, if_true] at h
  cases hc : initClient (cli :: rest) with
  | error e => rw [hc] at h; cases h
  | ok cl =>
    rw [hc] at h
    simp only [mergeAcctinfo, bind, Except.bind] at h
    cases hm : parsedAcctinfo infos with
    | error e => rw [hm] at h; cases h
    | ok m =>
      rw [hm] at h
      simp only [pure, Except.pure, Except.ok.injEq, pyInsert_one] at h
      exact ⟨m, rfl, h.symm⟩

/-- **C19_all_active** (`ofxget stmt --all`).  For every command line that sets `--all` and names no account,
    every configuration underneath, every account-information response whose account types are members of
    ACCTTYPES: if the request is composed at all, then — provided no account-type key about which the response
    says nothing is configured further down (`NoFallback`) — the accounts requested are, as a multiset, exactly
    the accounts the response lists as ACTIVE of the types `stmt` can request. -/
theorem requestStmt_all_active {δ : Type} (D : Option Str → PyM (Option δ)) (cli : Map) (rest : Chain)
    (infos : List AcctInfo) (p : Plan δ) (v : CfgVal)
    (hall : Chain.get? (cli :: rest) "all".toList = some v) (ht : truthy v = true)
    (hcli : ∀ t ∈ acctKeys, cli.lookup t = none)
    (hv : ValidInfos infos) (hg : NoFallback rest infos)
    (h : requestStmt D (cli :: rest) (.ok infos) = .ok p) :
    (p.requests.map rqAcct).Perm (specActive false infos) := by
  unfold requestStmt at h
  simp only [bind, Except.bind] at h
  cases hdt : convertDatetime D (cli :: rest) with
  | error e => rw [hdt] at h; cases h
  | ok dt =>
    rw [hdt] at h
    simp only at h
    cases hdry : Chain.getItem (cli :: rest) "dryrun".toList with
    | error e => rw [hdry] at h; cases h
    | ok d =>
      rw [hdry] at h
      simp only at h
      cases hdisc : discover (cli :: rest) (.ok infos) with
      | error e => rw [hdisc] at h; cases h
      | ok args' =>
        rw [hdisc] at h
        simp only at h
        obtain ⟨m, hm, hargs⟩ := discover_all cli rest infos args' v hall ht hdisc
        subst hargs
        cases hrq : stmtRequests dt (cli :: m :: rest) with
        | error e => rw [hrq] at h; cases h
        | ok rqs =>
          rw [hrq] at h
          simp only at h
          cases hcl : initClient (cli :: m :: rest) with
          | error e => rw [hcl] at h; cases h
          | ok cl =>
            rw [hcl] at h
            simp only [pure, Except.pure, Except.ok.injEq] at h
            subst h
            simp only
            have ha := hasAccounts_discovered cli rest infos hv m hm hg hcli
            obtain ⟨t, oo, pos, bal, hshape⟩ := stmtRequests_shape dt _ _ rqs ha hrq
            rw [hshape, specStmt_accts]
            exact acctsOf_discovered_perm infos hv

/-! ### the same for `stmtend` (bank and credit-card accounts only) -/

def NoFallbackClosing (rest : Chain) (infos : List AcctInfo) : Prop :=
  ∀ t ∈ closingKeys, discovered infos t = none → Chain.get? rest t = some (.list [])

theorem get?_discovered_closing (cli : Map) (rest : Chain) (infos : List AcctInfo) (hv : ValidInfos infos) (m : Map)
    (hm : parsedAcctinfo infos = .ok m) (hg : NoFallbackClosing rest infos) (t : Name) (ht : t ∈ closingKeys)
    (hcli : cli.lookup t = none) :
    Chain.get? (cli :: m :: rest) t = some (.list ((discovered infos t).getD [])) := by
  have ht' : t ∈ acctKeys := by
    simp only [closingKeys, List.mem_append] at ht
    rcases ht with ht | ht
    · exact List.mem_append_left _ ht
    · simp only [List.mem_singleton] at ht
      subst ht
      decide
  rw [get?_cons, hcli]
  simp only
  rw [get?_cons, discovered_lookup infos hv m hm t ht']
  cases hd : discovered infos t with
  | none => simpa using hg t ht hd
  | some l => rfl

theorem stmtendRequests_accts {δ : Type} (dt : Dates δ) (args : Chain) (a : Accounts) (rqs : List (Rq δ))
    (h1 : args.get? "checking".toList = some (.list a.checking))
    (h2 : args.get? "savings".toList = some (.list a.savings))
    (h3 : args.get? "moneymrkt".toList = some (.list a.moneymrkt))
    (h4 : args.get? "creditline".toList = some (.list a.creditline))
    (h5 : args.get? "creditcard".toList = some (.list a.creditcard))
    (h : stmtendRequests dt args = .ok rqs) :
    rqs = specStmtend a ⟨dt.start, dt.end, dt.asof, .null, .null, .null, .null⟩ := by
  unfold stmtendRequests at h
  simp only [bankTypes, List.foldlM, acctIds_of_get? _ _ _ h1, acctIds_of_get? _ _ _ h2,
    acctIds_of_get? _ _ _ h3, acctIds_of_get? _ _ _ h4, acctIds_of_get? _ _ _ h5,
    bind, Except.bind, pure, Except.pure, Except.ok.injEq,
    upper_bankTypes.1, upper_bankTypes.2.1, upper_bankTypes.2.2.1, upper_bankTypes.2.2.2, List.nil_append] at h
  rw [← h]
  simp only [specStmtend, bankStmtends, List.append_assoc]

theorem acctsOf_discovered_perm_closing (infos : List AcctInfo) (hv : ValidInfos infos) :
    (acctsOf true (discoveredAccounts infos)).Perm (specActive true infos) := by
  have hnd : closingKeys.Nodup := by decide
  have h1 : specActive true infos =
      infos.filterMap (fun x => if (acctTag x).any (fun t => closingKeys.contains t) then requestable true x else none) := by
    unfold specActive
    apply filterMap_congr_mem
    intro inf hinf
    have := requestable_tagged true infos hv inf hinf
    simpa using this
  rw [h1]
  refine List.Perm.symm ((perm_filterMap_by_tag (requestable true) acctTag infos closingKeys hnd).trans ?_)
  simp only [closingKeys, bankTypes, List.cons_append, List.nil_append, List.flatMap_cons, List.flatMap_nil,
    List.append_nil]
  rw [← piece_bank true infos hv _ (by decide : "checking".toList ∈ bankTypes),
    ← piece_bank true infos hv _ (by decide : "savings".toList ∈ bankTypes),
    ← piece_bank true infos hv _ (by decide : "moneymrkt".toList ∈ bankTypes),
    ← piece_bank true infos hv _ (by decide : "creditline".toList ∈ bankTypes),
    ← piece_cc true infos hv]
  simp only [acctsOf, discoveredAccounts, discovered_bank_ids infos _ (by decide : "checking".toList ∈ bankTypes),
    discovered_bank_ids infos _ (by decide : "savings".toList ∈ bankTypes),
    discovered_bank_ids infos _ (by decide : "moneymrkt".toList ∈ bankTypes),
    discovered_bank_ids infos _ (by decide : "creditline".toList ∈ bankTypes),
    discovered_cc_ids, upper_bankTypes.1, upper_bankTypes.2.1, upper_bankTypes.2.2.1,
    upper_bankTypes.2.2.2, if_true, List.append_assoc, List.append_nil]
  exact List.Perm.refl _

theorem requestStmtend_all_active {δ : Type} (D : Option Str → PyM (Option δ)) (cli : Map) (rest : Chain)
    (infos : List AcctInfo) (p : Plan δ) (v : CfgVal)
    (hall : Chain.get? (cli :: rest) "all".toList = some v) (ht : truthy v = true)
    (hcli : ∀ t ∈ closingKeys, cli.lookup t = none)
    (hv : ValidInfos infos) (hg : NoFallbackClosing rest infos)
    (h : requestStmtend D (cli :: rest) (.ok infos) = .ok p) :
    (p.requests.map rqAcct).Perm (specActive true infos) := by
  unfold requestStmtend at h
  simp only [bind, Except.bind] at h
  cases hdt : convertDatetime D (cli :: rest) with
  | error e => rw [hdt] at h; cases h
  | ok dt =>
    rw [hdt] at h
    simp only at h
    cases hdry : Chain.getItem (cli :: rest) "dryrun".toList with
    | error e => rw [hdry] at h; cases h
    | ok d =>
      rw [hdry] at h
      simp only at h
      cases hdisc : discover (cli :: rest) (.ok infos) with
      | error e => rw [hdisc] at h; cases h
      | ok args' =>
        rw [hdisc] at h
        simp only at h
        obtain ⟨m, hm, hargs⟩ := discover_all cli rest infos args' v hall ht hdisc
        subst hargs
        cases hrq : stmtendRequests dt (cli :: m :: rest) with
        | error e => rw [hrq] at h; cases h
        | ok rqs =>
          rw [hrq] at h
          simp only at h
          cases hcl : initClient (cli :: m :: rest) with
          | error e => rw [hcl] at h; cases h
          | ok cl =>
            rw [hcl] at h
            simp only [pure, Except.pure, Except.ok.injEq] at h
            subst h
            simp only
            have hk := fun t ht' => get?_discovered_closing cli rest infos hv m hm hg t ht' (hcli t ht')
            have hshape := stmtendRequests_accts dt _ (discoveredAccounts infos) rqs
              (hk _ (by decide)) (hk _ (by decide)) (hk _ (by decide)) (hk _ (by decide)) (hk _ (by decide)) hrq
            rw [hshape, specStmtend_accts]
            exact acctsOf_discovered_perm_closing infos hv

/-- every account of a list that is a permutation of `specActive` is one the response lists as ACTIVE -/
theorem listed_active_of_perm (closing : Bool) (infos : List AcctInfo) (l : List AcctKey)
    (h : l.Perm (specActive closing infos)) (k : AcctKey) (hk : k ∈ l) :
    ∃ inf ∈ infos, requestable closing inf = some k := by
  have := (h.mem_iff).mp hk
  unfold specActive at this
  rw [List.mem_filterMap] at this
  exact this

end Ofx.Ofxget
