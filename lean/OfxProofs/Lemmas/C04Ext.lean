/-
Lemmas for the C04 extension (Props/C04Ext.lean):

  * the reader's step on a known child, position bookkeeping for the generalised order theorems;
  * `ValidFull` — the declarative statement of *all* constraint kinds C04 names, for an instance and everything
    below it — and what the element converters `Types.conv` guarantee about the values they return (`kindOk`);
  * groom-free "origin" facts of the reader: every positional/keyword argument collected from a node's children
    is `None`, a non-empty text, or the conversion of one of the children;
  * the declarative violation relation of the 16 hand-coded `validate_args` rules (`ExtraViolates`).
-/
import OfxProofs.Props.C04Order
import OfxProofs.Props.C10

namespace Ofx.Agg
open Ofx

/-! ### order: the step on a known child -/

/-- after a successful step on a known child the reader stands on it, and remembers whether it was a repeated one -/
theorem updateArgs_known_prev' (c : Cls) (acc acc' : Accum) (ch : Tree) (sub : PyM Node) (idx : Nat)
    (hg : c.groom = none) (hdot : '.' ∉ ch.tag) (hidx : specIndex c (lower ch.tag) = some idx)
    (h : updateArgs c acc ch sub = .ok acc') :
    acc'.prev = some idx ∧ acc'.prevIsList = isListMember c (lower ch.tag) := by
  rw [updateArgs_eq c acc ch sub idx hg hdot hidx] at h
  split at h
  · simp at h
  · generalize (if unsupportedAt c idx = true then (Except.ok (Node.val Val.none) : PyM Node)
      else childValue ch sub) = rv at h
    cases rv with
    | error e => simp [bind, Except.bind] at h
    | ok value =>
      simp only [bind, Except.bind] at h
      split at h
      · rename_i hl
        injection h with h; subst h; exact ⟨rfl, hl.symm⟩
      · rename_i hl
        split at h
        · simp at h
        · injection h with h; subst h
          exact ⟨rfl, by simpa using hl⟩

/-- a known child whose position is not past the reader's, and that is not a repeated child following a repeated
    child, stops the reader -/
theorem updateArgs_order_error (c : Cls) (acc : Accum) (ch : Tree) (sub : PyM Node) (idx p : Nat)
    (hg : c.groom = none) (hdot : '.' ∉ ch.tag) (hidx : specIndex c (lower ch.tag) = some idx)
    (hp : acc.prev = some p) (hle : idx ≤ p)
    (hnb : ¬ (isListMember c (lower ch.tag) = true ∧ acc.prevIsList = true)) :
    ∃ e, updateArgs c acc ch sub = .error e := by
  refine ⟨.spec, ?_⟩
  rw [updateArgs_eq c acc ch sub idx hg hdot hidx]
  have hoo : outOfOrder acc.prev idx = true := by simp [outOfOrder, hp, hle]
  have hb : (isListMember c (lower ch.tag) && acc.prevIsList) = false := by
    cases h1 : isListMember c (lower ch.tag) <;> cases h2 : acc.prevIsList <;> simp_all
  simp [hoo, hb]

/-- children the class does not know leave the reader where it was -/
theorem foldChildren_unknown (c : Cls) : ∀ (ts : List Tree) (ss : List (PyM Node)) (acc : Accum),
    (∀ t ∈ ts, Unknown c t.tag) → foldChildren c ts ss acc = .ok acc
  | [], ss, acc, _ => by cases ss <;> rfl
  | t :: ts, [], acc, _ => rfl
  | t :: ts, s :: ss, acc, h => by
    simp only [foldChildren, updateArgs_unknown c acc t s (h t (by simp)), bind, Except.bind]
    exact foldChildren_unknown c ts ss acc (fun u hu => h u (by simp [hu]))

/-! ### what the element converters return -/

/-- a non-`None` element value has the attribute's type and is within its limits: a `Bool` is a bool; a string is
    non-empty and, for a strict `String(n)`, at most `n` characters long; a `OneOf` holds a token of its
    enumeration; an `Integer(n)` holds an int of at most `n` digits; decimals, date-times and times have their
    types -/
def kindOk (enums : List (List Str)) : Kind → Val → Bool
  | .bool, .bool _ => true
  | .string l strict, .str s =>
    !s.isEmpty && (match l with | some n => !strict || decide (s.length ≤ n) | none => true)
  | .oneOf e, .str s => (match enums[e]? with | some valid => valid.contains s | none => false)
  | .integer l, .int i => (match l with | some n => decide (i.natAbs < 10 ^ n) | none => true)
  | .decimal _, .dec _ => true
  | .datetime, .dt _ => true
  | .time, .tm _ => true
  | _, _ => false

/-- the value an element attribute of kind `k` (`required = r`) may hold: `None` only when optional, else a value of
    the kind within its limits (`ListElement(conv)` stands for its inner converter) -/
def valOk (enums : List (List Str)) : Kind → Bool → Val → Bool
  | .listElem k ir, _, v => valOk enums k ir v
  | _, r, .none => !r
  | k, _, v => kindOk enums k v

theorem bind_ok {α β} {x : PyM α} {f : α → PyM β} {b : β} (h : (x >>= f) = .ok b) :
    ∃ a, x = .ok a ∧ f a = .ok b := by
  cases x with
  | error e => simp [bind, Except.bind] at h
  | ok a => exact ⟨a, rfl, by simpa [bind, Except.bind] using h⟩

theorem dtConvertStr_dt (tzs : List (Str × Int)) (s : Str) (v : Val) (h : DateTime.dtConvertStr tzs s = .ok v) :
    ∃ d, v = .dt d := by
  unfold DateTime.dtConvertStr at h
  dsimp only at h
  split at h
  · obtain ⟨_, _, h⟩ := bind_ok h
    obtain ⟨_, _, h⟩ := bind_ok h
    obtain ⟨_, _, h⟩ := bind_ok h
    obtain ⟨_, _, h⟩ := bind_ok h
    obtain ⟨_, _, h⟩ := bind_ok h
    obtain ⟨_, _, h⟩ := bind_ok h
    obtain ⟨_, _, h⟩ := bind_ok h
    obtain ⟨_, _, h⟩ := bind_ok h
    obtain ⟨_, _, h⟩ := bind_ok h
    split at h
    · cases h
    · obtain ⟨_, _, h⟩ := bind_ok h
      simp only [pure, Except.pure] at h
      injection h with h
      exact ⟨_, h.symm⟩
  · obtain ⟨_, h, _⟩ := bind_ok h
    cases h

theorem tmConvertStr_tm (tzs : List (Str × Int)) (s : Str) (v : Val) (h : DateTime.tmConvertStr tzs s = .ok v) :
    ∃ d, v = .tm d := by
  unfold DateTime.tmConvertStr at h
  dsimp only at h
  split at h
  · obtain ⟨_, _, h⟩ := bind_ok h
    obtain ⟨_, _, h⟩ := bind_ok h
    obtain ⟨_, _, h⟩ := bind_ok h
    obtain ⟨_, _, h⟩ := bind_ok h
    obtain ⟨_, _, h⟩ := bind_ok h
    obtain ⟨_, _, h⟩ := bind_ok h
    split at h
    · cases h
    · simp only [pure, Except.pure] at h
      injection h with h
      exact ⟨_, h.symm⟩
  · obtain ⟨_, h, _⟩ := bind_ok h
    cases h

theorem valOk_of_enforce (enums : List (List Str)) (k : Kind) (r : Bool) (v : Val) (hk : k.isListElem = false)
    (h : (if r = true then (.error .spec : PyM Val) else .ok .none) = .ok v) : valOk enums k r v = true := by
  cases r with
  | true => simp at h
  | false =>
    simp only [Bool.false_eq_true, if_false] at h
    injection h with h; subst h
    cases k <;> first | rfl | simp [Kind.isListElem] at hk

open Ofx.Types in
/-- **every value a converter of `ofxtools.Types` returns is within the limits its attribute declares** -/
theorem conv_valOk (enums : List (List Str)) : ∀ (k : Kind) (r : Bool) (x v : Val),
    Types.convert enums k r x = .ok v → valOk enums k r v = true
  | .bool, r, x, v, h => by
    simp only [Types.convert, boolConvert, enforceRequired] at h
    split at h
    · exact valOk_of_enforce _ _ _ _ rfl h
    · injection h with h; subst h; rfl
    · split at h
      · injection h with h; subst h; rfl
      · split at h
        · injection h with h; subst h; rfl
        · cases h
    · cases h
  | .string l st, r, x, v, h => by
    simp only [Types.convert, stringConvert, enforceRequired] at h
    split at h
    · exact valOk_of_enforce _ _ _ _ rfl h
    · rename_i s
      split at h
      · exact valOk_of_enforce _ _ _ _ rfl h
      · rename_i hs
        rw [strEnforceLength_ok] at h
        split at h
        · rename_i hfit
          simp only [Except.map] at h
          injection h with h; subst h
          have hne : unescape s ≠ [] := fun e => hs ((unescape_eq_nil s).mp e)
          cases l with
          | none => simp [valOk, kindOk, hne]
          | some n => simpa [valOk, kindOk, hne, fits] using hfit
        · simp [Except.map] at h
    · cases h
  | .oneOf e, r, x, v, h => by
    simp only [Types.convert] at h
    split at h
    · rename_i valid hv
      cases x with
      | none =>
        simp only [oneOfConvert, enforceRequired] at h
        exact valOk_of_enforce _ _ _ _ rfl h
      | str s =>
        rcases (C10_oneof_limits valid r s v).mp h with ⟨_, hr, rfl⟩ | ⟨_, hm, rfl⟩
        · simp [valOk, hr]
        · simp [valOk, kindOk, hv, hm]
      | bool _ => simp [oneOfConvert, oneOfDefault] at h
      | int _ => simp [oneOfConvert, oneOfDefault] at h
      | dec _ => simp [oneOfConvert, oneOfDefault] at h
      | dt _ => simp [oneOfConvert, oneOfDefault] at h
      | tm _ => simp [oneOfConvert, oneOfDefault] at h
      | other _ => simp [oneOfConvert, oneOfDefault] at h
    · cases h
  | .integer l, r, x, v, h => by
    have key : ∀ i, (do intEnforceLength l i; pure (Val.int i) : PyM Val) = .ok v →
        valOk enums (.integer l) r v = true := by
      intro i hi
      obtain ⟨_, h1, h2⟩ := bind_ok hi
      simp only [pure, Except.pure] at h2
      injection h2 with h2; subst h2
      cases l with
      | none => simp [valOk, kindOk]
      | some n =>
        simp only [intEnforceLength] at h1
        split at h1
        · cases h1
        · rename_i hlt
          simp only [valOk, kindOk, decide_eq_true_eq]; omega
    simp only [Types.convert, integerConvert, enforceRequired] at h
    split at h
    · exact valOk_of_enforce _ _ _ _ rfl h
    · cases h
    · exact key _ h
    · split at h
      · exact valOk_of_enforce _ _ _ _ rfl h
      · split at h
        · exact key _ h
        · cases h
    · obtain ⟨i, _, h⟩ := bind_ok h
      exact key i h
    · cases h
  | .decimal q, r, x, v, h => by
    simp only [Types.convert, decimalConvert, enforceRequired] at h
    split at h
    · exact valOk_of_enforce _ _ _ _ rfl h
    · rename_i d
      cases hq : applyScale q d with
      | error e => simp [hq, Except.map] at h
      | ok d' => simp [hq, Except.map] at h; subst h; rfl
    · obtain ⟨_, _, h⟩ := bind_ok h
      obtain ⟨_, _, h⟩ := bind_ok h
      simp only [pure, Except.pure] at h
      injection h with h; subst h; rfl
    · injection h with h; subst h; rfl
    · injection h with h; subst h; rfl
    · cases h
  | .datetime, r, x, v, h => by
    simp only [Types.convert, DateTime.dtConvert, DateTime.dtConvertWith, DateTime.enforceRequired] at h
    split at h
    · exact valOk_of_enforce _ _ _ _ rfl h
    · obtain ⟨d, rfl⟩ := dtConvertStr_dt _ _ _ h; rfl
    · obtain ⟨o, _, h⟩ := bind_ok h
      split at h
      · cases h
      · simp only [pure, Except.pure] at h
        injection h with h; subst h; rfl
    · cases h
  | .time, r, x, v, h => by
    simp only [Types.convert, DateTime.tmConvert, DateTime.tmConvertWith, DateTime.enforceRequired] at h
    split at h
    · exact valOk_of_enforce _ _ _ _ rfl h
    · obtain ⟨d, rfl⟩ := tmConvertStr_tm _ _ _ h; rfl
    · obtain ⟨o, _, h⟩ := bind_ok h
      split at h
      · cases h
      · simp only [pure, Except.pure] at h
        injection h with h; subst h; rfl
    · cases h
  | .listElem k ir, r, x, v, h => by
    simp only [Types.convert] at h
    simp only [valOk]
    exact conv_valOk enums k ir x v h
  | .sub _, _, _, _, h => by simp [Types.convert] at h
  | .listAgg _, _, _, _, h => by simp [Types.convert] at h
  | .unsupported, _, _, _, h => by simp [Types.convert] at h

open Ofx.Types in
/-- a converter returns `None` only for `None` and for the empty string (`value or None`) -/
theorem conv_none_of (enums : List (List Str)) : ∀ (k : Kind) (r : Bool) (x : Val),
    Types.convert enums k r x = .ok .none → x = .none ∨ x = .str []
  | .bool, r, x, h => by
    cases x <;> simp [Types.convert, boolConvert] at h ⊢
    split at h
    · cases h
    · split at h <;> cases h
  | .string l st, r, x, h => by
    cases x with
    | none => exact Or.inl rfl
    | str s =>
      by_cases hs : s = []
      · subst hs; exact Or.inr rfl
      · rw [Types.convert, C10_string_limits_read l st r s hs] at h
        split at h <;> cases h
    | _ => simp [Types.convert, stringConvert] at h
  | .oneOf e, r, x, h => by
    simp only [Types.convert] at h
    split at h
    · rename_i valid hv
      cases x with
      | none => exact Or.inl rfl
      | str s =>
        rcases (C10_oneof_limits valid r s _).mp h with ⟨hs, _, _⟩ | ⟨_, _, hv⟩
        · subst hs; exact Or.inr rfl
        · cases hv
      | _ => simp [oneOfConvert, oneOfDefault] at h
    · cases h
  | .integer l, r, x, h => by
    have key : ∀ i, (do intEnforceLength l i; pure (Val.int i) : PyM Val) ≠ .ok .none := by
      intro i hi
      obtain ⟨_, _, h2⟩ := bind_ok hi
      cases h2
    cases x with
    | none => exact Or.inl rfl
    | str s =>
      simp only [Types.convert, integerConvert] at h
      split at h
      · rename_i hs
        exact Or.inr (by rw [List.length_eq_zero_iff.mp hs])
      · split at h
        · exact absurd h (key _)
        · cases h
    | int i => simp only [Types.convert, integerConvert] at h; exact absurd h (key _)
    | dec d =>
      simp only [Types.convert, integerConvert] at h
      obtain ⟨i, _, h⟩ := bind_ok h
      exact absurd h (key i)
    | _ => simp [Types.convert, integerConvert] at h
  | .decimal q, r, x, h => by
    cases x with
    | none => exact Or.inl rfl
    | str s =>
      simp only [Types.convert, decimalConvert] at h
      obtain ⟨_, _, h⟩ := bind_ok h
      obtain ⟨_, _, h⟩ := bind_ok h
      cases h
    | dec d =>
      simp only [Types.convert, decimalConvert] at h
      cases hq : applyScale q d <;> simp [hq, Except.map] at h
    | _ => simp [Types.convert, decimalConvert] at h
  | .datetime, r, x, h => by
    cases x with
    | none => exact Or.inl rfl
    | str s =>
      simp only [Types.convert, DateTime.dtConvert, DateTime.dtConvertWith] at h
      obtain ⟨d, hd⟩ := dtConvertStr_dt _ _ _ h; cases hd
    | dt d =>
      simp only [Types.convert, DateTime.dtConvert, DateTime.dtConvertWith] at h
      obtain ⟨o, _, h⟩ := bind_ok h
      split at h <;> cases h
    | _ => simp [Types.convert, DateTime.dtConvert, DateTime.dtConvertWith] at h
  | .time, r, x, h => by
    cases x with
    | none => exact Or.inl rfl
    | str s =>
      simp only [Types.convert, DateTime.tmConvert, DateTime.tmConvertWith] at h
      obtain ⟨d, hd⟩ := tmConvertStr_tm _ _ _ h; cases hd
    | tm d =>
      simp only [Types.convert, DateTime.tmConvert, DateTime.tmConvertWith] at h
      obtain ⟨o, _, h⟩ := bind_ok h
      split at h <;> cases h
    | _ => simp [Types.convert, DateTime.tmConvert, DateTime.tmConvertWith] at h
  | .listElem k ir, r, x, h => by
    simp only [Types.convert] at h
    exact conv_none_of enums k ir x h
  | .sub _, _, _, h => by simp [Types.convert] at h
  | .listAgg _, _, _, h => by simp [Types.convert] at h
  | .unsupported, _, _, h => by simp [Types.convert] at h

open Ofx.Types in
/-- the converters give `None` — never a value — for an absent element -/
theorem conv_none_in (enums : List (List Str)) : ∀ (k : Kind) (r : Bool) (v : Val),
    Types.convert enums k r .none = .ok v → v = .none
  | .bool, r, v, h => by
    simp only [Types.convert, boolConvert, enforceRequired] at h
    split at h <;> simp_all
  | .string l st, r, v, h => by
    simp only [Types.convert, stringConvert, enforceRequired] at h
    split at h <;> simp_all
  | .oneOf e, r, v, h => by
    simp only [Types.convert] at h
    split at h
    · simp only [oneOfConvert, enforceRequired] at h
      split at h <;> simp_all
    · cases h
  | .integer l, r, v, h => by
    simp only [Types.convert, integerConvert, enforceRequired] at h
    split at h <;> simp_all
  | .decimal q, r, v, h => by
    simp only [Types.convert, decimalConvert, enforceRequired] at h
    split at h <;> simp_all
  | .datetime, r, v, h => by
    simp only [Types.convert, DateTime.dtConvert, DateTime.dtConvertWith, DateTime.enforceRequired] at h
    split at h <;> simp_all
  | .time, r, v, h => by
    simp only [Types.convert, DateTime.tmConvert, DateTime.tmConvertWith, DateTime.enforceRequired] at h
    split at h <;> simp_all
  | .listElem k ir, r, v, h => by
    simp only [Types.convert] at h
    exact conv_none_in enums k ir v h
  | .sub _, _, _, h => by simp [Types.convert] at h
  | .listAgg _, _, _, h => by simp [Types.convert] at h
  | .unsupported, _, _, h => by simp [Types.convert] at h

/-! ### `ValidFull`: every constraint kind C04 names, for an instance and everything below it -/

section
variable (S : Schema)

/-- what a non-repeated attribute may hold: a sub-aggregate attribute holds `None` (only when optional) or an
    instance of the declared class; an element attribute holds `None` (only when optional) or a value of its type
    within its limits (`valOk`: enumeration membership, string length, integer digits) -/
def FieldFull (a : Attr) (v : Node) : Prop :=
  match Kind.subTarget a.kind with
  | some t => (v = .val .none ∧ a.required = false) ∨ (∃ cj f i, v = .agg cj f i ∧ isInstance S cj t = true)
  | none => ∃ x, v = .val x ∧ valOk S.enums a.kind a.required x = true

/-- permitted list members: instances of the class's list attributes' classes (plain aggregate); values of the list
    element's type within its limits (`ElementList`) -/
def ItemsFull (c : Cls) (items : List Node) : Prop :=
  if c.elementList = true then
    ∃ a inner ireq, c.spec.filter (fun a => a.kind.isListElem) = [a] ∧ a.kind = .listElem inner ireq ∧
      ∀ m ∈ items, ∃ x, m = .val x ∧ valOk S.enums inner ireq x = true
  else ∀ m ∈ items, ∃ cj f i, m = .agg cj f i ∧ (listAggNames c).contains (lower (clsName S cj)) = true

/-- the part of the hand-coded `validate_args` rules that is a fact about the instance's list contents
    ("at least one member", "no two members of one class", "some TAX1099… member"); the rules keyed on which
    keywords were *passed* are facts about the call, see `C04_sound_kw` -/
def extraItemsB (r : ExtraRule) (el : Bool) (items : List Node) : Bool :=
  match r with
  | .msgsetcore | .msgsetlist | .mfachallengers | .contribinfo
  | .tax1099msgsrqv1 | .tax1099msgsrsv1 | .tax1099msgsetv1 => !items.isEmpty
  | .acctinfo =>
    !items.isEmpty &&
      (el || (items.map (argClassName S)).all
        (fun n => ((items.map (argClassName S)).filter (· = n)).length ≤ 1))
  | .tax1099rs => el || items.any (fun a => "TAX1099".toList.isPrefixOf (argClassName S a))
  | _ => true

/-- one level: the instance `agg ci fields items` satisfies every constraint of its class `c` -/
structure NodeFull (c : Cls) (ci : Nat) (fields : List (Str × Node)) (items : List Node) : Prop where
  hc : S.cls? ci = some c
  /-- exactly one value per supported non-repeated attribute, in spec order, each admissible
      (required present · enumerations · string length · integer digits · sub-aggregate class) -/
  fm : FieldsMatch (FieldFull S) (specNoList c) fields
  /-- at-most-one groups -/
  opt : ∀ g ∈ c.optMutex, mutexCount fields g ≤ 1
  /-- exactly-one groups -/
  req : ∀ g ∈ c.reqMutex, mutexCount fields g = 1
  /-- permitted list member types -/
  members : ItemsFull S c items
  extra : extraItemsB S c.extra c.elementList items = true

mutual
  /-- **an instance all of whose constraints hold, all the way down** -/
  def ValidFull : Node → Prop
    | .val _ => False
    | .agg ci fields items => (∃ c, NodeFull S c ci fields items) ∧ FullFields fields ∧ FullItems items
  def FullFields : List (Str × Node) → Prop
    | [] => True
    | (_, v) :: r => (v.isAgg = true → ValidFull v) ∧ FullFields r
  def FullItems : List Node → Prop
    | [] => True
    | v :: r => (v.isAgg = true → ValidFull v) ∧ FullItems r
end

theorem fullFields_of_forall : ∀ (fs : List (Str × Node)),
    (∀ n v, (n, v) ∈ fs → v.isAgg = true → ValidFull S v) → FullFields S fs
  | [], _ => by simp [FullFields]
  | (n, v) :: r, h => ⟨h n v (by simp), fullFields_of_forall r (fun n' v' hm => h n' v' (by simp [hm]))⟩

theorem fullItems_of_forall : ∀ (items : List Node),
    (∀ m ∈ items, m.isAgg = true → ValidFull S m) → FullItems S items
  | [], _ => by simp [FullItems]
  | m :: r, h => ⟨h m (by simp), fullItems_of_forall r (fun x hx => h x (List.mem_cons_of_mem _ hx))⟩

theorem fullFields_mem : ∀ (fs : List (Str × Node)), FullFields S fs →
    ∀ n v, (n, v) ∈ fs → v.isAgg = true → ValidFull S v
  | [], _, n, v, hm, _ => by simp at hm
  | (k, w) :: r, h, n, v, hm, hagg => by
    obtain ⟨hw, hr⟩ := h
    simp only [List.mem_cons, Prod.mk.injEq] at hm
    rcases hm with ⟨_, rfl⟩ | hm
    · exact hw hagg
    · exact fullFields_mem r hr n v hm hagg

theorem fullItems_mem : ∀ (items : List Node), FullItems S items →
    ∀ m ∈ items, m.isAgg = true → ValidFull S m
  | [], _, m, hm, _ => by simp at hm
  | w :: r, h, m, hm, hagg => by
    obtain ⟨hw, hr⟩ := h
    simp only [List.mem_cons] at hm
    rcases hm with rfl | hm
    · exact hw hagg
    · exact fullItems_mem r hr m hm hagg

/-! ### what `setattr` stores, for the real converters -/

/-- the value `setattr` stores for an attribute is admissible for it -/
theorem setAttr_fieldFull (a : Attr) (w v : Node) (h : setAttr S Types.conv a w = .ok (some v)) :
    FieldFull S a v := by
  unfold FieldFull
  cases hk : a.kind with
  | sub t =>
    simp only [setAttr, hk] at h
    simp only [Kind.subTarget]
    cases w with
    | val x =>
      cases x with
      | none =>
        simp only [convertSub] at h
        split at h
        · simp [Except.map] at h
        · rename_i hr
          simp only [Except.map, Except.ok.injEq, Option.some.injEq] at h
          exact Or.inl ⟨h.symm, by simpa using hr⟩
      | _ => simp [convertSub, Except.map] at h
    | agg cj f i =>
      simp only [convertSub] at h
      split at h
      · rename_i hi
        simp only [Except.map, Except.ok.injEq, Option.some.injEq] at h
        exact Or.inr ⟨cj, f, i, h.symm, hi⟩
      · simp [Except.map] at h
  | unsupported => simp [setAttr, hk] at h
  | listAgg t => simp [setAttr, hk] at h
  | listElem k r => simp [setAttr, hk] at h
  | _ =>
    simp only [setAttr, hk, Types.conv] at h
    simp only [Kind.subTarget]
    generalize hcv : Types.convert S.enums _ a.required (Node.toVal w) = rv at h
    cases rv with
    | error e => simp [Except.map] at h
    | ok x =>
      simp only [Except.map, Except.ok.injEq, Option.some.injEq] at h
      exact ⟨x, h.symm, conv_valOk S.enums _ _ _ _ hcv⟩

/-- an instance stored in a field is the keyword's own value -/
theorem setAttr_agg_same (cv : Conv) (a : Attr) (w v : Node) (h : setAttr S cv a w = .ok (some v))
    (hagg : v.isAgg = true) : w = v := by
  cases hk : a.kind with
  | sub t =>
    simp only [setAttr, hk] at h
    cases w with
    | val x =>
      cases x with
      | none =>
        simp only [convertSub] at h
        split at h
        · simp [Except.map] at h
        · simp only [Except.map, Except.ok.injEq, Option.some.injEq] at h
          subst h; simp [Node.isAgg] at hagg
      | _ => simp [convertSub, Except.map] at h
    | agg cj f i =>
      simp only [convertSub] at h
      split at h
      · simp only [Except.map, Except.ok.injEq, Option.some.injEq] at h; exact h
      · simp [Except.map] at h
  | unsupported => simp [setAttr, hk] at h
  | listAgg t => simp [setAttr, hk] at h
  | listElem k r => simp [setAttr, hk] at h
  | _ =>
    simp only [setAttr, hk] at h
    generalize cv.convert S.enums _ a.required (Node.toVal w) = rv at h
    cases rv with
    | error e => simp [Except.map] at h
    | ok x =>
      simp only [Except.map, Except.ok.injEq, Option.some.injEq] at h
      subst h; simp [Node.isAgg] at hagg

/-- `None` in, `None` stored -/
theorem setAttr_none_in (a : Attr) (v : Node) (h : setAttr S Types.conv a (.val .none) = .ok (some v)) :
    v = .val .none := by
  cases hk : a.kind with
  | sub t =>
    simp only [setAttr, hk, convertSub] at h
    split at h
    · simp [Except.map] at h
    · simp only [Except.map, Except.ok.injEq, Option.some.injEq] at h; exact h.symm
  | unsupported => simp [setAttr, hk] at h
  | listAgg t => simp [setAttr, hk] at h
  | listElem k r => simp [setAttr, hk] at h
  | _ =>
    simp only [setAttr, hk, Types.conv, Node.toVal] at h
    generalize hcv : Types.convert S.enums _ a.required Val.none = rv at h
    cases rv with
    | error e => simp [Except.map] at h
    | ok x =>
      simp only [Except.map, Except.ok.injEq, Option.some.injEq] at h
      rw [← h, conv_none_in S.enums _ _ _ hcv]

open Ofx.Types in
/-- a converter turns a value that counts as given (neither `None` nor `""`) into one that counts as given -/
theorem conv_given (enums : List (List Str)) : ∀ (k : Kind) (r : Bool) (x v : Val),
    Types.convert enums k r x = .ok v → given (.val x) = true → given (.val v) = true
  | .listElem k ir, r, x, v, h, hx => by
    simp only [Types.convert] at h
    exact conv_given enums k ir x v h hx
  | .oneOf e, r, x, v, h, hx => by
    simp only [Types.convert] at h
    split at h
    · rename_i valid hv
      cases x with
      | none => simp [given] at hx
      | str s =>
        rcases (C10_oneof_limits valid r s v).mp h with ⟨hs, _, _⟩ | ⟨hs, _, rfl⟩
        · subst hs; simp [given] at hx
        · cases s with
          | nil => exact absurd rfl hs
          | cons _ _ => rfl
      | _ => simp [oneOfConvert, oneOfDefault] at h
    · cases h
  | .bool, r, x, v, h, hx => conv_given_aux enums _ r x v h hx (by intro _ _; nofun) rfl
  | .string l st, r, x, v, h, hx => conv_given_aux enums _ r x v h hx (by intro _ _; nofun) rfl
  | .integer l, r, x, v, h, hx => conv_given_aux enums _ r x v h hx (by intro _ _; nofun) rfl
  | .decimal q, r, x, v, h, hx => conv_given_aux enums _ r x v h hx (by intro _ _; nofun) rfl
  | .datetime, r, x, v, h, hx => conv_given_aux enums _ r x v h hx (by intro _ _; nofun) rfl
  | .time, r, x, v, h, hx => conv_given_aux enums _ r x v h hx (by intro _ _; nofun) rfl
  | .sub _, _, _, _, h, _ => by simp [Types.convert] at h
  | .listAgg _, _, _, _, h, _ => by simp [Types.convert] at h
  | .unsupported, _, _, _, h, _ => by simp [Types.convert] at h
where
  /-- kinds other than `OneOf` and `ListElement`: from `conv_none_of` and `conv_valOk` -/
  conv_given_aux (enums : List (List Str)) (k : Kind) (r : Bool) (x v : Val)
      (h : Types.convert enums k r x = .ok v) (hx : given (.val x) = true)
      (hk1 : ∀ k' ir, k ≠ .listElem k' ir) (hk2 : (match k with | .oneOf _ => false | _ => true) = true) :
      given (.val v) = true := by
    have hok := conv_valOk enums k r x v h
    cases v with
    | none =>
      rcases conv_none_of enums k r x h with h1 | h1 <;> subst h1 <;> simp [given] at hx
    | str s =>
      cases s with
      | cons _ _ => rfl
      | nil =>
        cases k <;> first
          | (simp [valOk, kindOk] at hok; done)
          | (simp at hk2; done)
          | exact absurd rfl (hk1 _ _)
    | _ => rfl

/-- a keyword that counts as given (neither `None` nor the empty text) is stored as a value that counts as given -/
theorem setAttr_given_out (a : Attr) (w v : Node) (hw : given w = true)
    (h : setAttr S Types.conv a w = .ok (some v)) : given v = true := by
  cases hk : a.kind with
  | sub t =>
    simp only [setAttr, hk] at h
    cases w with
    | val x =>
      cases x <;> simp [convertSub, Except.map, given] at h hw
    | agg cj f i =>
      simp only [convertSub] at h
      split at h
      · simp only [Except.map, Except.ok.injEq, Option.some.injEq] at h; subst h; rfl
      · simp [Except.map] at h
  | unsupported => simp [setAttr, hk] at h
  | listAgg t => simp [setAttr, hk] at h
  | listElem k r => simp [setAttr, hk] at h
  | _ =>
    simp only [setAttr, hk, Types.conv] at h
    generalize hcv : Types.convert S.enums _ a.required (Node.toVal w) = rv at h
    cases rv with
    | error e => simp [Except.map] at h
    | ok x =>
      simp only [Except.map, Except.ok.injEq, Option.some.injEq] at h
      subst h
      cases w with
      | val y => exact conv_given S.enums _ _ y x hcv hw
      | agg _ _ _ => exact conv_given S.enums _ _ _ x hcv rfl

open Ofx.Types in
/-- the empty text is never converted into a value that counts as given -/
theorem conv_empty_text (enums : List (List Str)) : ∀ (k : Kind) (r : Bool) (v : Val),
    Types.convert enums k r (.str []) = .ok v → v = .none
  | .bool, r, v, h => by simp [Types.convert, boolConvert] at h
  | .string l st, r, v, h => by
    simp only [Types.convert, stringConvert, if_true, enforceRequired] at h
    split at h <;> simp_all
  | .oneOf e, r, v, h => by
    simp only [Types.convert] at h
    split at h
    · rename_i valid _
      rcases (C10_oneof_limits valid r [] v).mp h with ⟨_, _, hv⟩ | ⟨hs, _, _⟩
      · exact hv
      · exact absurd rfl hs
    · cases h
  | .integer l, r, v, h => by
    simp only [Types.convert, integerConvert, List.length_nil, if_true, enforceRequired] at h
    split at h <;> simp_all
  | .decimal q, r, v, h => by
    simp only [Types.convert, decimalConvert] at h
    obtain ⟨d, hd, _⟩ := bind_ok h
    have : decOfText [] = .error .decimal := by rfl
    rw [this] at hd; cases hd
  | .datetime, r, v, h => by
    simp only [Types.convert, DateTime.dtConvert, DateTime.dtConvertWith] at h
    have : ∀ tzs, DateTime.dtConvertStr tzs [] = .error .spec := by
      intro tzs
      unfold DateTime.dtConvertStr
      have hr : DateTime.dtRegex [] = none := by decide +kernel
      simp [hr, bind, Except.bind]
    rw [this] at h; cases h
  | .time, r, v, h => by
    simp only [Types.convert, DateTime.tmConvert, DateTime.tmConvertWith] at h
    have : ∀ tzs, DateTime.tmConvertStr tzs [] = .error .spec := by
      intro tzs
      unfold DateTime.tmConvertStr
      have hr : DateTime.tmRegex [] = none := by decide +kernel
      simp [hr, bind, Except.bind]
    rw [this] at h; cases h
  | .listElem k ir, r, v, h => by
    simp only [Types.convert] at h
    exact conv_empty_text enums k ir v h
  | .sub _, _, _, h => by simp [Types.convert] at h
  | .listAgg _, _, _, h => by simp [Types.convert] at h
  | .unsupported, _, _, h => by simp [Types.convert] at h

/-- a keyword that does not count as given (`None` or the empty text) is stored as `None` -/
theorem setAttr_not_given_in (a : Attr) (w v : Node) (hw : given w = false)
    (h : setAttr S Types.conv a w = .ok (some v)) : v = .val .none := by
  cases w with
  | agg _ _ _ => simp [given] at hw
  | val x =>
    cases x with
    | none => exact setAttr_none_in S a v h
    | str s =>
      cases s with
      | cons _ _ => simp [given] at hw
      | nil =>
        cases hk : a.kind with
        | sub t => simp [setAttr, hk, convertSub, Except.map] at h
        | unsupported => simp [setAttr, hk] at h
        | listAgg t => simp [setAttr, hk] at h
        | listElem k r => simp [setAttr, hk] at h
        | _ =>
          simp only [setAttr, hk, Types.conv, Node.toVal] at h
          generalize hcv : Types.convert S.enums _ a.required (Val.str []) = rv at h
          cases rv with
          | error e => simp [Except.map] at h
          | ok y =>
            simp only [Except.map, Except.ok.injEq, Option.some.injEq] at h
            rw [← h, conv_empty_text S.enums _ _ _ hcv]
    | _ => simp [given] at hw

end


/-! ### from a successful construction to `NodeFull` -/

/-- members of exactly-one groups are supported attributes (part of the generated obligation `WF.mutexOk`) -/
def ReqGroupsSupported (c : Cls) : Prop :=
  ∀ g ∈ c.reqMutex, ∀ m ∈ g, ∀ a ∈ c.spec, a.name = m → a.kind.isUnsupported = false

theorem filter_length_le {α} (p q : α → Bool) : ∀ (l : List α), (∀ x ∈ l, p x = true → q x = true) →
    (l.filter p).length ≤ (l.filter q).length
  | [], _ => by simp
  | x :: l, h => by
    have ih := filter_length_le p q l (fun y hy => h y (by simp [hy]))
    cases hp : p x with
    | false =>
      cases hq : q x <;> simp [hp, hq] <;> omega
    | true =>
      have hq := h x (by simp) hp
      simp [hp, hq]; omega

theorem kwval_not_given (kw : List (Str × Node)) (m : Str) (h : ¬ Given kw m) :
    given ((lookup m kw).getD (.val .none)) = false := by
  cases hl : lookup m kw with
  | none => rfl
  | some v =>
    cases hv : given v with
    | true => exact absurd ⟨v, hl, hv⟩ h
    | false => simpa using hv

theorem mapM_length {α β} (f : α → PyM β) : ∀ (l : List α) (r : List β), l.mapM (m := PyM) f = .ok r →
    r.length = l.length
  | [], r, h => by simp [List.mapM_nil, pure, Except.pure] at h; subst h; rfl
  | x :: l, r, h => by
    rw [List.mapM_cons] at h
    obtain ⟨y, _, h⟩ := bind_ok h
    obtain ⟨ys, hys, h⟩ := bind_ok h
    simp only [pure, Except.pure] at h
    injection h with h; subst h
    simp [mapM_length f l ys hys]

section
variable (S : Schema)

/-- the list-content part of the hand-coded rule carries over from the arguments to the members -/
theorem extraItems_of_rule (r : ExtraRule) (el : Bool) (args items : List Node) (kw : List (Str × Node))
    (h : extraRule S r args kw = .ok ()) (hlen : items.length = args.length) (hplain : el = false → items = args) :
    extraItemsB S r el items = true := by
  have hemp : items.isEmpty = args.isEmpty := by
    cases items <;> cases args <;> simp_all
  cases r <;> simp only [extraItemsB] <;> try rfl
  all_goals (simp only [extraRule] at h)
  · rw [hemp]; split at h <;> simp_all
  · rw [hemp]; split at h <;> simp_all
  · rw [hemp]; split at h <;> simp_all
  · rw [hemp]; split at h <;> simp_all
  · rw [hemp]; split at h <;> simp_all
  · rw [hemp]; split at h <;> simp_all
  · rw [hemp]; split at h <;> simp_all
  · rw [hemp]
    split at h
    · cases h
    · rename_i hne
      split at h
      · rename_i hall
        cases el with
        | true => simp_all
        | false => rw [hplain rfl]; simp_all
      · cases h
  · split at h
    · rename_i hany
      cases el with
      | true => rfl
      | false => rw [hplain rfl]; simpa using hany
    · cases h

/-- **one level of soundness**: what `Cls(*args, **kwargs)` returns, with the real converters, satisfies every
    constraint of its class; the exactly-one groups need that group members are supported attributes -/
theorem nodeFull_of_construct (ci : Nat) (c : Cls) (args : List Node) (kw : List (Str × Node))
    (fields : List (Str × Node)) (items : List Node)
    (h : construct S Types.conv ci args kw = .ok (.agg ci fields items)) (hc : S.cls? ci = some c)
    (hnd : (c.spec.map (·.name)).Nodup) :
    (((∀ g ∈ c.reqMutex, mutexCount fields g = 1) → NodeFull S c ci fields items) ∧
      (∀ g ∈ c.optMutex ++ c.reqMutex, mutexCount fields g ≤ 1)) ∧
    (ReqGroupsSupported c → ∀ g ∈ c.reqMutex, mutexCount fields g = 1) := by
  obtain ⟨c', fields', items', hn, hc', hx, ho, hq, hfm, ha, hkeys⟩ := C04_sound_kw S Types.conv ci args kw _ h
  rw [hc] at hc'; injection hc' with hc'; subst hc'
  injection hn with _ hf hi; subst hf; subst hi
  have hndL := specNoList_nodup c hnd
  have hfmL := hfm.withLookup hndL
  -- a field that counts as given comes from a keyword that counts as given
  have hA : ∀ m v, lookup m fields = some v → given v = true → Given kw m := by
    intro m v hl hv
    obtain ⟨a, _, han, _, hset, _, _⟩ := hfmL.mem m v (lookup_mem hl)
    apply Classical.byContradiction
    intro hng
    rw [han] at hset
    rw [setAttr_not_given_in S a _ v (kwval_not_given kw m hng) hset] at hv
    simp [given] at hv
  have hle : ∀ g, mutexCount fields g ≤ mutexCount kw g := by
    intro g
    unfold mutexCount
    apply filter_length_le
    intro m _ hp
    cases hl : lookup m fields with
    | none => simp [hl] at hp
    | some v =>
      simp only [hl] at hp
      obtain ⟨w, hw, hwn⟩ := hA m v hl hp
      simp [hw, hwn]
  refine ⟨⟨fun hreq => ⟨hc, hfm.imp (fun a _ v hv => setAttr_fieldFull S a _ v hv),
      fun g hg => Nat.le_trans (hle g) (ho g hg), hreq, ?_, ?_⟩, ?_⟩, ?_⟩
  · -- permitted list members
    unfold ItemsFull
    cases hel : c.elementList with
    | false =>
      simp only [Bool.false_eq_true, if_false]
      simp only [applyArgs, hel, Bool.false_eq_true, if_false] at ha
      have hsame := mapM_applyArg_eq S c args items ha
      subst hsame
      intro m hm
      obtain ⟨r, _, hr⟩ := mapM_mem _ _ _ ha m hm
      cases r with
      | val _ => simp [applyArg] at hr
      | agg cj f i =>
        simp only [applyArg] at hr
        split at hr
        · rename_i hcon
          injection hr with hr; subst hr
          exact ⟨cj, f, i, rfl, by simpa [argClassName] using hcon⟩
        · cases hr
    | true =>
      simp only [if_true]
      simp only [applyArgs, hel, if_true] at ha
      split at ha
      · rename_i a hfilt
        split at ha
        · rename_i inner ireq hk
          refine ⟨a, inner, ireq, hfilt, hk, ?_⟩
          intro m hm
          obtain ⟨r, _, hr⟩ := mapM_mem _ _ _ ha m hm
          simp only [Types.conv] at hr
          cases hcv : Types.convert S.enums inner ireq (Node.toVal r) with
          | error e => simp [hcv, Except.map] at hr
          | ok x =>
            simp only [hcv, Except.map, Except.ok.injEq] at hr
            exact ⟨x, hr.symm, conv_valOk S.enums inner ireq _ x hcv⟩
        · cases ha
      · cases ha
  · -- the list-content part of the hand-coded rule
    apply extraItems_of_rule S c.extra c.elementList args items kw hx
    · cases hel : c.elementList with
      | false =>
        simp only [applyArgs, hel, Bool.false_eq_true, if_false] at ha
        exact mapM_length _ _ _ ha
      | true =>
        simp only [applyArgs, hel, if_true] at ha
        split at ha
        · split at ha
          · exact mapM_length _ _ _ ha
          · cases ha
        · cases ha
    · intro hel
      simp only [applyArgs, hel, Bool.false_eq_true, if_false] at ha
      exact mapM_applyArg_eq S c args items ha
  · intro g hg
    rcases List.mem_append.mp hg with hg | hg
    · exact Nat.le_trans (hle g) (ho g hg)
    · exact Nat.le_trans (hle g) (Nat.le_of_eq (hq g hg))
  · -- exactly-one groups
    intro hsup g hg
    have hge : mutexCount kw g ≤ mutexCount fields g := by
      unfold mutexCount
      apply filter_length_le
      intro m hm hp
      cases hl : lookup m kw with
      | none => simp [hl] at hp
      | some w =>
        simp only [hl] at hp
        have hkey : m ∈ (specNoList c).map (·.name) :=
          hkeys m (List.mem_map.mpr ⟨(m, w), lookup_mem hl, rfl⟩)
        obtain ⟨a, haL, han⟩ := List.mem_map.mp hkey
        have haspec : a ∈ c.spec := (List.mem_filter.mp haL).1
        have hau := hsup g hg m hm a haspec han
        obtain ⟨v, hlv, hset⟩ := hfm.lookup hndL a haL hau
        rw [han, hl] at hset
        simp only [Option.getD_some] at hset
        rw [han] at hlv
        simp [hlv, setAttr_given_out S a w v hp hset]
    have := hq g hg
    have := hle g
    omega

end


section
variable (S : Schema)

/-- **soundness of keyword construction, recursively**: if the instances handed in are valid all the way down, so is
    the instance that comes out -/
theorem validFull_of_construct (ci : Nat) (c : Cls) (args : List Node) (kw : List (Str × Node)) (n : Node)
    (h : construct S Types.conv ci args kw = .ok n) (hc : S.cls? ci = some c)
    (hnd : (c.spec.map (·.name)).Nodup) (hsup : ReqGroupsSupported c)
    (hargs : ∀ m ∈ args, m.isAgg = true → ValidFull S m)
    (hkw : ∀ k v, (k, v) ∈ kw → v.isAgg = true → ValidFull S v) : ValidFull S n := by
  obtain ⟨c', fields, items, hn, hc', _, _, _, hfm, ha, _⟩ := C04_sound_kw S Types.conv ci args kw n h
  rw [hc] at hc'; injection hc' with hc'; subst hc'
  subst hn
  obtain ⟨⟨hnode, _⟩, hreq⟩ := nodeFull_of_construct S ci c args kw fields items h hc hnd
  have hnf := hnode (hreq hsup)
  refine ⟨⟨c, hnf⟩, ?_, ?_⟩
  · apply fullFields_of_forall
    intro k v hm hagg
    obtain ⟨a, _, _, _, hset⟩ := hfm.mem k v hm
    have hsame := setAttr_agg_same S Types.conv a _ v hset hagg
    cases hl : lookup a.name kw with
    | none => rw [hl] at hsame; simp only [Option.getD_none] at hsame; subst hsame; simp [Node.isAgg] at hagg
    | some w =>
      rw [hl] at hsame; simp only [Option.getD_some] at hsame; subst hsame
      exact hkw a.name w (lookup_mem hl) hagg
  · apply fullItems_of_forall
    intro m hm hagg
    cases hel : c.elementList with
    | false =>
      simp only [applyArgs, hel, Bool.false_eq_true, if_false] at ha
      have hsame := mapM_applyArg_eq S c args items ha
      subst hsame
      exact hargs m hm hagg
    | true =>
      have hmem := hnf.members
      simp only [ItemsFull, hel, if_true] at hmem
      obtain ⟨_, _, _, _, _, hall⟩ := hmem
      obtain ⟨x, rfl, _⟩ := hall m hm
      simp [Node.isAgg] at hagg

end

/-! ### what the reader hands to the constructor (no premise on `groom`) -/

theorem childValue_cases (ch : Tree) (sub : PyM Node) (v : Node) (h : childValue ch sub = .ok v) :
    (∃ t ts, v = .val (.str (t :: ts))) ∨ sub = .ok v := by
  unfold childValue at h
  split at h
  · injection h with h; exact Or.inl ⟨_, _, h.symm⟩
  · exact Or.inr h

/-- every argument the reader's step adds is `None` (an unsupported child) or the child's value -/
theorem updateArgs_vals (c : Cls) (P : Node → Prop) (acc acc' : Accum) (ch : Tree) (sub : PyM Node)
    (h : updateArgs c acc ch sub = .ok acc') (hnone : P (.val .none))
    (hv : ∀ v, childValue ch sub = .ok v → P v)
    (hk : ∀ k v, (k, v) ∈ acc.kwargs → P v) (ha : ∀ m ∈ acc.args, P m) :
    (∀ k v, (k, v) ∈ acc'.kwargs → P v) ∧ (∀ m ∈ acc'.args, P m) := by
  unfold updateArgs at h
  split at h
  · injection h with h; subst h; exact ⟨hk, ha⟩
  · dsimp only at h
    split at h
    · injection h with h; subst h; exact ⟨hk, ha⟩
    · split at h
      · cases h
      · split at h
        · obtain ⟨value, hval, h⟩ := bind_ok h
          have hpv : P value := by
            simp only [pure, Except.pure] at hval; injection hval with hval; subst hval; exact hnone
          split at h
          · simp only [pure, Except.pure] at h
            injection h with h; subst h
            refine ⟨hk, ?_⟩
            intro m hm
            rcases List.mem_append.mp hm with hm | hm
            · exact ha m hm
            · simp only [List.mem_singleton] at hm; subst hm; exact hpv
          · split at h
            · cases h
            · simp only [pure, Except.pure] at h
              injection h with h; subst h
              refine ⟨?_, ha⟩
              intro k v hm
              rcases List.mem_append.mp hm with hm | hm
              · exact hk k v hm
              · simp only [List.mem_singleton, Prod.mk.injEq] at hm
                obtain ⟨_, rfl⟩ := hm; exact hpv
        · obtain ⟨value, hval, h⟩ := bind_ok h
          have hpv : P value := hv value hval
          split at h
          · simp only [pure, Except.pure] at h
            injection h with h; subst h
            refine ⟨hk, ?_⟩
            intro m hm
            rcases List.mem_append.mp hm with hm | hm
            · exact ha m hm
            · simp only [List.mem_singleton] at hm; subst hm; exact hpv
          · split at h
            · cases h
            · simp only [pure, Except.pure] at h
              injection h with h; subst h
              refine ⟨?_, ha⟩
              intro k v hm
              rcases List.mem_append.mp hm with hm | hm
              · exact hk k v hm
              · simp only [List.mem_singleton, Prod.mk.injEq] at hm
                obtain ⟨_, rfl⟩ := hm; exact hpv

theorem foldChildren_vals (c : Cls) (P : Node → Prop) (hnone : P (.val .none)) :
    ∀ (ts : List Tree) (ss : List (PyM Node)) (acc acc' : Accum), foldChildren c ts ss acc = .ok acc' →
    (∀ ch sub, (ch, sub) ∈ ts.zip ss → ∀ v, childValue ch sub = .ok v → P v) →
    (∀ k v, (k, v) ∈ acc.kwargs → P v) → (∀ m ∈ acc.args, P m) →
    (∀ k v, (k, v) ∈ acc'.kwargs → P v) ∧ (∀ m ∈ acc'.args, P m)
  | [], ss, acc, acc', h, _, hk, ha => by
    cases ss <;> simp [foldChildren] at h <;> subst h <;> exact ⟨hk, ha⟩
  | t :: ts, [], acc, acc', h, _, hk, ha => by simp [foldChildren] at h; subst h; exact ⟨hk, ha⟩
  | t :: ts, s :: ss, acc, acc', h, hv, hk, ha => by
    simp only [foldChildren] at h
    obtain ⟨acc1, hu, h⟩ := bind_ok h
    obtain ⟨hk1, ha1⟩ := updateArgs_vals c P acc acc1 t s hu hnone (hv t s (by simp)) hk ha
    exact foldChildren_vals c P hnone ts ss acc1 acc' h
      (fun ch sub hm => hv ch sub (by simp [hm])) hk1 ha1


/-! ### one attribute's value decides: rejection and acceptance, both routes -/

section
variable (S : Schema) (cv : Conv)

/-- a failing `setattr` makes construction fail -/
theorem construct_error_of_setAttr (ci : Nat) (c : Cls) (args : List Node) (kw : List (Str × Node)) (a : Attr)
    (hc : S.cls? ci = some c) (ha : a ∈ specNoList c)
    (hset : ∃ e, setAttr S cv a ((lookup a.name kw).getD (.val .none)) = .error e) :
    ∃ e, construct S cv ci args kw = .error e := by
  apply not_ok_error
  intro n hn
  obtain ⟨c', fields, _, hc', _, hs, _, _, _⟩ := (construct_ok_iff S cv ci args kw n).mp hn
  rw [hc] at hc'; injection hc' with hc'; subst hc'
  obtain ⟨o, ho⟩ := setAttrs_ok_each S cv kw _ fields hs a ha
  obtain ⟨e, he⟩ := hset
  rw [he] at ho; cases ho

theorem setAttrs_ok_of_each (kw : List (Str × Node)) : ∀ (L : List Attr),
    (∀ b ∈ L, ∃ o, setAttr S cv b ((lookup b.name kw).getD (.val .none)) = .ok o) →
    ∃ fields, setAttrs S cv L kw = .ok fields
  | [], _ => ⟨[], rfl⟩
  | b :: L, h => by
    obtain ⟨o, ho⟩ := h b (by simp)
    obtain ⟨more, hm⟩ := setAttrs_ok_of_each kw L (fun x hx => h x (by simp [hx]))
    cases o with
    | none => exact ⟨more, by simp [setAttrs, ho, hm, bind, Except.bind, pure, Except.pure]⟩
    | some v => exact ⟨(b.name, v) :: more, by simp [setAttrs, ho, hm, bind, Except.bind, pure, Except.pure]⟩

/-- nothing else stands in the way of the description `(args, kw)` of class `c`: `validate_args` accepts it, the
    positional arguments are permitted members, no keyword is foreign, and every attribute other than `a` accepts
    the value given for it -/
structure OthersOk (c : Cls) (args : List Node) (kw : List (Str × Node)) (a : Attr) : Prop where
  validate : validateArgs S c args kw = .ok ()
  members : ∃ items, applyArgs S cv c args = .ok items
  residual : applyResidual c kw = .ok ()
  others : ∀ b ∈ specNoList c, b ≠ a → ∃ o, setAttr S cv b ((lookup b.name kw).getD (.val .none)) = .ok o

/-- if attribute `a` accepts its value and nothing else stands in the way, an instance is produced and holds the
    converted value -/
theorem construct_ok_of_others (ci : Nat) (c : Cls) (args : List Node) (kw : List (Str × Node)) (a : Attr) (v : Node)
    (hc : S.cls? ci = some c) (hnd : (c.spec.map (·.name)).Nodup) (ha : a ∈ specNoList c)
    (hset : setAttr S cv a ((lookup a.name kw).getD (.val .none)) = .ok (some v))
    (ho : OthersOk S cv c args kw a) :
    ∃ fields items, construct S cv ci args kw = .ok (.agg ci fields items) ∧ lookup a.name fields = some v := by
  obtain ⟨fields, hs⟩ := setAttrs_ok_of_each S cv kw (specNoList c) (fun b hb => by
    by_cases hba : b = a
    · subst hba; exact ⟨_, hset⟩
    · exact ho.others b hb hba)
  obtain ⟨items, hi⟩ := ho.members
  refine ⟨fields, items, (construct_ok_iff S cv ci args kw _).mpr
    ⟨c, fields, items, hc, ho.validate, hs, hi, ho.residual, rfl⟩, ?_⟩
  have hfm := setAttrs_fieldsMatch S cv kw _ fields
    (fun b hb => by simpa [specNoList] using (List.mem_filter.mp hb).2) hs
  obtain ⟨v', hl, hv'⟩ := hfm.lookup (specNoList_nodup c hnd) a ha (setAttr_some_supported S cv a _ v hset)
  rw [hset] at hv'; injection hv' with hv'; injection hv' with hv'
  rw [hl, hv']

/-- the keyword the reader collects for a known, supported, non-repeated child is the child's value -/
theorem kw_of_child (c : Cls) (hg : c.groom = none) (hnd : (c.spec.map (·.name)).Nodup)
    (pre post : List Tree) (ch : Tree) (acc : Accum) (a : Attr) (v : Node)
    (ha : a ∈ c.spec) (hname : a.name = lower ch.tag) (hdot : '.' ∉ ch.tag)
    (hl : a.kind.isList = false) (hu : a.kind.isUnsupported = false)
    (hv : childValue ch (fromEtree S cv ch) = .ok v)
    (hf : foldChildren c (pre ++ ch :: post) (childInsts S cv (pre ++ ch :: post)) Accum.init = .ok acc) :
    lookup a.name acc.kwargs = some v := by
  rw [childInsts_append] at hf
  simp only [childInsts] at hf
  obtain ⟨acc1, acc2, hstep, hrest⟩ := foldChildren_mid c ch _ pre post _ _ Accum.init acc
    (childInsts_length S cv pre) hf
  obtain ⟨pa, ra, hspec⟩ := List.append_of_mem ha
  have hidx : specIndex c (lower ch.tag) = some pa.length := by
    rw [← hname]; exact specIndex_at c pa ra a hspec hnd
  have hnl : isListMember c (lower ch.tag) = false := by
    rw [← hname]; exact not_listMember_of_nonlist c a ha hl hnd
  have hun : unsupportedAt c pa.length = false := by rw [unsupportedAt_of c pa ra a hspec]; exact hu
  have hk2 := updateArgs_known_lookup c acc1 acc2 ch _ pa.length v hg hdot hidx hnl hun hv hstep
  rw [hname]; exact foldChildren_lookup c hg post _ acc2 acc hrest _ _ hk2

theorem childValue_text (ch : Tree) (sub : PyM Node) (t0 : Char) (ts : Str) (h : ch.text = some (t0 :: ts)) :
    childValue ch sub = .ok (.val (.str (t0 :: ts))) := by
  simp [childValue, h]

/-- **rejection, tree route**: a document holding a child with a text its attribute's `setattr` refuses is rejected -/
theorem fromEtree_error_of_setAttr (tag : Str) (x tl : Option Str) (pre post : List Tree) (ch : Tree)
    (ci : Nat) (c : Cls) (a : Attr) (t0 : Char) (ts : Str)
    (hf : S.findIdx? tag = some ci) (hc : S.cls? ci = some c) (hg : c.groom = none)
    (hnd : (c.spec.map (·.name)).Nodup)
    (ha : a ∈ c.spec) (hname : a.name = lower ch.tag) (hdot : '.' ∉ ch.tag)
    (hl : a.kind.isList = false) (hu : a.kind.isUnsupported = false) (htext : ch.text = some (t0 :: ts))
    (hset : ∃ e, setAttr S cv a (.val (.str (t0 :: ts))) = .error e) :
    ∃ e, fromEtree S cv (.node tag x tl (pre ++ ch :: post)) = .error e := by
  apply not_ok_error
  intro n hn
  simp only [fromEtree, convertNode, hf, hc] at hn
  have hne : (pre ++ ch :: post).isEmpty = false := by cases pre <;> rfl
  simp only [hne, Bool.false_eq_true, if_false] at hn
  obtain ⟨acc, hfold, hn⟩ := bind_ok hn
  have hlk := kw_of_child S cv c hg hnd pre post ch acc a _ ha hname hdot hl hu
    (childValue_text ch _ t0 ts htext) hfold
  obtain ⟨e, he⟩ := construct_error_of_setAttr S cv ci c acc.args acc.kwargs a hc
    (by simp [specNoList, ha, hl]) (by rw [hlk]; exact hset)
  rw [hn] at he; cases he

/-- **acceptance, tree route**: if the reader gets through the children and nothing else stands in the way of what
    it collected, a child whose text its attribute accepts yields an instance holding the converted value -/
theorem fromEtree_ok_of_others (tag : Str) (x tl : Option Str) (pre post : List Tree) (ch : Tree)
    (ci : Nat) (c : Cls) (a : Attr) (t0 : Char) (ts : Str) (v : Node) (acc : Accum)
    (hf : S.findIdx? tag = some ci) (hc : S.cls? ci = some c) (hg : c.groom = none)
    (hnd : (c.spec.map (·.name)).Nodup)
    (ha : a ∈ c.spec) (hname : a.name = lower ch.tag) (hdot : '.' ∉ ch.tag)
    (hl : a.kind.isList = false) (hu : a.kind.isUnsupported = false) (htext : ch.text = some (t0 :: ts))
    (hset : setAttr S cv a (.val (.str (t0 :: ts))) = .ok (some v))
    (hfold : foldChildren c (pre ++ ch :: post) (childInsts S cv (pre ++ ch :: post)) Accum.init = .ok acc)
    (ho : OthersOk S cv c acc.args acc.kwargs a) :
    ∃ fields items, fromEtree S cv (.node tag x tl (pre ++ ch :: post)) = .ok (.agg ci fields items) ∧
      lookup a.name fields = some v := by
  have hlk := kw_of_child S cv c hg hnd pre post ch acc a _ ha hname hdot hl hu
    (childValue_text ch _ t0 ts htext) hfold
  obtain ⟨fields, items, hcon, hlook⟩ := construct_ok_of_others S cv ci c acc.args acc.kwargs a v hc hnd
    (by simp [specNoList, ha, hl]) (by rw [hlk]; exact hset) ho
  refine ⟨fields, items, ?_, hlook⟩
  simp only [fromEtree, convertNode, hf, hc]
  have hne : (pre ++ ch :: post).isEmpty = false := by cases pre <;> rfl
  simp only [hne, Bool.false_eq_true, if_false, hfold, bind, Except.bind]
  exact hcon

end

/-! ### `setattr` of the three limited types, for the real converters -/

section
variable (S : Schema)
open Ofx.Types

theorem setAttr_string_text (a : Attr) (l : Option Nat) (st : Bool) (s : Str) (hk : a.kind = .string l st)
    (hs : s ≠ []) :
    setAttr S Types.conv a (.val (.str s)) =
      if fits l st (unescape s) then .ok (some (.val (.str (unescape s)))) else .error .spec := by
  simp only [setAttr, hk, Types.conv, Types.convert, Node.toVal, C10_string_limits_read l st a.required s hs]
  split <;> rfl

theorem setAttr_integer_int (a : Attr) (l : Option Nat) (i : Int) (hk : a.kind = .integer l) :
    setAttr S Types.conv a (.val (.int i)) =
      (match l with
       | some n => if i.natAbs ≥ 10 ^ n then .error .spec else .ok (some (.val (.int i)))
       | none => .ok (some (.val (.int i)))) := by
  simp only [setAttr, hk, Types.conv, Types.convert, Node.toVal, integerConvert, intEnforceLength]
  cases l with
  | none => rfl
  | some n => dsimp only; split <;> rfl

theorem setAttr_integer_text (a : Attr) (l : Option Nat) (s : Str) (i : Int) (hk : a.kind = .integer l)
    (hs : s ≠ []) (hp : pyIntParse s = some i) :
    setAttr S Types.conv a (.val (.str s)) = setAttr S Types.conv a (.val (.int i)) := by
  have hlen : ¬ s.length = 0 := fun h => hs (List.length_eq_zero_iff.mp h)
  simp only [setAttr, hk, Types.conv, Types.convert, Node.toVal, integerConvert, hlen, if_false, hp]

theorem setAttr_oneOf_text (a : Attr) (e : Nat) (valid : List Str) (s : Str) (hk : a.kind = .oneOf e)
    (he : S.enums[e]? = some valid) (hs : s ≠ []) :
    setAttr S Types.conv a (.val (.str s)) =
      if s ∈ valid then .ok (some (.val (.str s))) else .error .spec := by
  simp only [setAttr, hk, Types.conv, Types.convert, Node.toVal, he, oneOfConvert, hs, if_false, oneOfDefault]
  split <;> rfl

end


/-! ### the hand-coded `validate_args` rules: declarative violations -/

/-- the rules that demand at least one list member -/
def needsMember : ExtraRule → Bool
  | .msgsetcore | .msgsetlist | .mfachallengers | .contribinfo
  | .tax1099msgsrqv1 | .tax1099msgsrsv1 | .tax1099msgsetv1 | .acctinfo => true
  | _ => false

/-- `(args, kwargs)` violates the hand-coded rule `r` — one constructor per rule kind, stated on the description
    itself (which keywords are passed, which are truthy, which members are given), not on the code of the rule -/
inductive ExtraViolates (S : Schema) : ExtraRule → List Node → List (Str × Node) → Prop
  /-- "must contain at least one item" (MSGSETCORE's list classes, MSGSETLIST, MFACHALLENGERS, CONTRIBINFO,
      TAX1099MSGSRQV1/RSV1/SETV1, ACCTINFO) -/
  | noMember (r : ExtraRule) (kw : List (Str × Node)) : needsMember r = true → ExtraViolates S r [] kw
  /-- ACCTINFO: two members of one class -/
  | acctinfoTwo (pre mid post : List Node) (m1 m2 : Node) (kw : List (Str × Node)) :
      argClassName S m1 = argClassName S m2 → ExtraViolates S .acctinfo (pre ++ m1 :: (mid ++ m2 :: post)) kw
  /-- TAX1099RS: no member whose class name starts with TAX1099 -/
  | tax1099rsNone (args : List Node) (kw : List (Str × Node)) :
      (∀ a ∈ args, "TAX1099".toList.isPrefixOf (argClassName S a) = false) → ExtraViolates S .tax1099rs args kw
  /-- OFX: request and response message sets mixed (two keywords whose last seven characters differ) -/
  | ofxMixed (args : List Node) (kw : List (Str × Node)) (k1 k2 : Str) :
      k1 ∈ kw.map (·.1) → k2 ∈ kw.map (·.1) → lastN 7 k1 ≠ lastN 7 k2 → ExtraViolates S .ofx args kw
  /-- SONRQ: neither (USERID and USERPASS) nor USERKEY -/
  | sonrqNeither (args : List Node) (kw : List (Str × Node)) :
      kwTruthy kw "userkey" = false → (kwTruthy kw "userid" && kwTruthy kw "userpass") = false →
      ExtraViolates S .sonrq args kw
  /-- SONRQ: USERKEY together with USERID or USERPASS -/
  | sonrqBoth (args : List Node) (kw : List (Str × Node)) :
      kwTruthy kw "userkey" = true → (kwTruthy kw "userid" || kwTruthy kw "userpass") = true →
      ExtraViolates S .sonrq args kw
  /-- CONTRIBSECURITY: …PCT and …AMT mixed -/
  | contribMixed (args : List Node) (kw : List (Str × Node)) (k1 k2 : Str) :
      k1 ∈ kw.map (·.1) → k2 ∈ kw.map (·.1) → k1 ≠ "secid".toList → k2 ≠ "secid".toList →
      lastN 3 k1 ≠ lastN 3 k2 → ExtraViolates S .contribsecurity args kw
  /-- CONTRIBSECURITY: no source given -/
  | contribNoSource (args : List Node) (kw : List (Str × Node)) :
      kw.length < 2 → ExtraViolates S .contribsecurity args kw
  /-- EXTDPMT: neither EXTDPMTDSC nor an EXTDPMTINV member -/
  | extdpmtNeither (args : List Node) (kw : List (Str × Node)) :
      "EXTDPMTINV".toList ∉ args.map (argClassName S) → "extdpmtdsc".toList ∉ kw.map (·.1) →
      ExtraViolates S .extdpmt args kw
  /-- EXTDPAYEE: PAYEEID without IDSCOPE and NAME -/
  | extdpayee (args : List Node) (kw : List (Str × Node)) :
      kwTruthy kw "payeeid" = true → (kwTruthy kw "idscope" && kwTruthy kw "name") = false →
      ExtraViolates S .extdpayee args kw
  /-- TAX1099R_V100: one of GROSSDIST, TAXAMT, FEDTAXWH, STTAXWH, LCLTAXWH without IRASEPSIMP -/
  | tax1099r (args : List Node) (kw : List (Str × Node)) (t : String) :
      t ∈ ["grossdist", "taxamt", "fedtaxwh", "sttaxwh", "lcltaxwh"] → t.toList ∈ kw.map (·.1) →
      "irasepsimp".toList ∉ kw.map (·.1) → ExtraViolates S .tax1099r args kw
  /-- TAX1099MISC_V100: STTAXWH without PAYERSTATE (upper-case keys, as the code spells them) -/
  | tax1099misc (args : List Node) (kw : List (Str × Node)) :
      "STTAXWH".toList ∈ kw.map (·.1) → "PAYERSTATE".toList ∉ kw.map (·.1) → ExtraViolates S .tax1099misc args kw

theorem hasKey_iff_mem {α} (k : Str) : ∀ (l : List (Str × α)), hasKey k l = true ↔ k ∈ l.map (·.1)
  | [] => by simp [hasKey, lookup]
  | (k', v) :: r => by
    have ih := hasKey_iff_mem k r
    by_cases h : k' = k
    · simp [hasKey, lookup, h]
    · have h' : ¬ k = k' := fun e => h e.symm
      simp only [hasKey, lookup, h, if_false, List.map_cons, List.mem_cons, h', false_or]
      exact ih

theorem allEqual_false_of {α} [DecidableEq α] (l : List α) (a b : α) (ha : a ∈ l) (hb : b ∈ l) (hne : a ≠ b) :
    allEqual l = false := by
  cases l with
  | nil => simp at ha
  | cons x xs =>
    simp only [allEqual]
    rw [List.all_eq_false]
    by_cases hax : a = x
    · subst hax
      rcases List.mem_cons.mp hb with h | h
      · exact absurd h.symm hne
      · exact ⟨b, h, by simpa using fun e => hne e.symm⟩
    · rcases List.mem_cons.mp ha with h | h
      · exact absurd h hax
      · exact ⟨a, h, by simpa using hax⟩

/-- **every declarative violation makes the rule fail** -/
theorem extraRule_error_of_violates (S : Schema) (r : ExtraRule) (args : List Node) (kw : List (Str × Node))
    (h : ExtraViolates S r args kw) : ∃ e, extraRule S r args kw = .error e := by
  refine ⟨.value, ?_⟩
  cases h with
  | noMember r kw hr => cases r <;> simp [needsMember] at hr <;> simp [extraRule]
  | acctinfoTwo pre mid post m1 m2 kw hsame =>
    simp only [extraRule]
    have hne : (pre ++ m1 :: (mid ++ m2 :: post)).isEmpty = false := by cases pre <;> rfl
    simp only [hne, Bool.false_eq_true, if_false]
    have hall : ((pre ++ m1 :: (mid ++ m2 :: post)).map (argClassName S)).all
        (fun n => (((pre ++ m1 :: (mid ++ m2 :: post)).map (argClassName S)).filter (· = n)).length ≤ 1) = false := by
      rw [List.all_eq_false]
      refine ⟨argClassName S m1, by simp, ?_⟩
      have : 2 ≤ (((pre ++ m1 :: (mid ++ m2 :: post)).map (argClassName S)).filter
          (· = argClassName S m1)).length := by
        simp only [List.map_append, List.map_cons, List.filter_append, List.filter_cons, decide_true, if_true,
          hsame, List.length_append, List.length_cons]
        omega
      simp only [decide_eq_true_eq]; omega
    simp only [hall, Bool.false_eq_true, if_false]
  | tax1099rsNone args kw hnone =>
    simp only [extraRule]
    have : args.any (fun a => "TAX1099".toList.isPrefixOf (argClassName S a)) = false := by
      rw [List.any_eq_false]; intro a ha; rw [hnone a ha]; exact Bool.false_ne_true
    simp only [this, Bool.false_eq_true, if_false]
  | ofxMixed args kw k1 k2 h1 h2 hne =>
    simp only [extraRule]
    have : allEqual (kw.map (fun p => lastN 7 p.1)) = false := by
      apply allEqual_false_of _ (lastN 7 k1) (lastN 7 k2) _ _ hne
      · obtain ⟨p, hp, rfl⟩ := List.mem_map.mp h1; exact List.mem_map.mpr ⟨p, hp, rfl⟩
      · obtain ⟨p, hp, rfl⟩ := List.mem_map.mp h2; exact List.mem_map.mpr ⟨p, hp, rfl⟩
    simp [this]
  | sonrqNeither args kw hk hb =>
    simp only [extraRule, hk, hb]; rfl
  | sonrqBoth args kw hk hb =>
    simp only [extraRule, hk, hb]; simp
  | contribMixed args kw k1 k2 h1 h2 hs1 hs2 hne =>
    simp only [extraRule]
    have : allEqual ((kw.filter (fun p => p.1 ≠ "secid".toList)).map (fun p => lastN 3 p.1)) = false := by
      apply allEqual_false_of _ (lastN 3 k1) (lastN 3 k2) _ _ hne
      · obtain ⟨p, hp, rfl⟩ := List.mem_map.mp h1
        exact List.mem_map.mpr ⟨p, List.mem_filter.mpr ⟨hp, by simpa using hs1⟩, rfl⟩
      · obtain ⟨p, hp, rfl⟩ := List.mem_map.mp h2
        exact List.mem_map.mpr ⟨p, List.mem_filter.mpr ⟨hp, by simpa using hs2⟩, rfl⟩
    simp only [this]; rfl
  | contribNoSource args kw hlen =>
    simp only [extraRule]
    split <;> first | rfl | (rw [if_pos hlen])
  | extdpmtNeither args kw h1 h2 =>
    simp only [extraRule]
    have hk : hasKey "extdpmtdsc".toList kw = false := by
      cases hh : hasKey "extdpmtdsc".toList kw with
      | false => rfl
      | true => exact absurd ((hasKey_iff_mem _ kw).mp hh) h2
    have hc : (args.map (argClassName S)).contains "EXTDPMTINV".toList = false := by simpa using h1
    simp only [hk, hc]; rfl
  | extdpayee args kw hp hb =>
    simp only [extraRule, hp, if_true, hb]; rfl
  | tax1099r args kw t ht hkey hno =>
    simp only [extraRule]
    have hk : hasKey "irasepsimp".toList kw = false := by
      cases hh : hasKey "irasepsimp".toList kw with
      | false => rfl
      | true => exact absurd ((hasKey_iff_mem _ kw).mp hh) hno
    have hany : ["grossdist", "taxamt", "fedtaxwh", "sttaxwh", "lcltaxwh"].any (fun t => hasKey t.toList kw) = true := by
      rw [List.any_eq_true]; exact ⟨t, ht, (hasKey_iff_mem _ kw).mpr hkey⟩
    simp only [hk, hany]; rfl
  | tax1099misc args kw h1 h2 =>
    simp only [extraRule]
    have hk1 : hasKey "STTAXWH".toList kw = true := (hasKey_iff_mem _ kw).mpr h1
    have hk2 : hasKey "PAYERSTATE".toList kw = false := by
      cases hh : hasKey "PAYERSTATE".toList kw with
      | false => rfl
      | true => exact absurd ((hasKey_iff_mem _ kw).mp hh) h2
    simp only [hk1, hk2]; rfl

end Ofx.Agg
