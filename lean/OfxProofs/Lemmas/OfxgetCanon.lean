/-
Lemmas for C18: the parser states ofxget can reach are canonical (distinct lower-case option names, distinct
section names, no section called DEFAULT), and for those writing the file and reading it back is the identity up
to the reader's `strip`.
-/
import OfxProofs.Lemmas.OfxgetWrite

namespace Ofx.Ofxget
open Ofx Ofx.Spec.Ofxget

theorem asciiLower_upper_range : ∀ n, n < 91 → 65 ≤ n →
    asciiLower (asciiLower (Char.ofNat n)) = asciiLower (Char.ofNat n) := by decide

theorem asciiLower_idem (c : Char) : asciiLower (asciiLower c) = asciiLower c := by
  by_cases h : 'A' ≤ c ∧ c ≤ 'Z'
  · have h1 : 65 ≤ c.toNat := by
      have := h.1
      rw [Char.le_def, UInt32.le_iff_toNat_le] at this
      exact this
    have h2 : c.toNat < 91 := by
      have := h.2
      rw [Char.le_def, UInt32.le_iff_toNat_le] at this
      have h3 : c.toNat ≤ 90 := this
      omega
    have := asciiLower_upper_range c.toNat h2 h1
    rwa [Char.ofNat_toNat] at this
  · have : asciiLower c = c := by simp [asciiLower, h]
    rw [this, this]

theorem lower_idem (s : Str) : lower (lower s) = lower s := by
  simp [lower, List.map_map, Function.comp_def, asciiLower_idem]

/-! ### association lists -/

theorem mem_mapSet {β : Type} (k : Name) (v : β) (m : List (Name × β)) (kv : Name × β) (h : kv ∈ mapSet k v m) :
    kv = (k, v) ∨ kv ∈ m := by
  induction m with
  | nil => simp only [mapSet, List.mem_singleton] at h; exact Or.inl h
  | cons a rest ih =>
    obtain ⟨a1, a2⟩ := a
    simp only [mapSet] at h
    split at h
    · rcases List.mem_cons.mp h with h | h
      · exact Or.inl h
      · exact Or.inr (by simp [h])
    · rcases List.mem_cons.mp h with h | h
      · exact Or.inr (by simp [h])
      · rcases ih h with h | h
        · exact Or.inl h
        · exact Or.inr (by simp [h])

theorem keys_mapSet {β : Type} (k : Name) (v : β) (m : List (Name × β)) :
    (mapSet k v m).map (·.1) = if k ∈ m.map (·.1) then m.map (·.1) else m.map (·.1) ++ [k] := by
  induction m with
  | nil => simp [mapSet]
  | cons a rest ih =>
    obtain ⟨a1, a2⟩ := a
    simp only [mapSet]
    by_cases h : (a1 == k) = true
    · have h' : a1 = k := by simpa using h
      subst h'
      simp [h]
    · have h' : ¬ a1 = k := by simpa using h
      have hf : (a1 == k) = false := by simpa using h'
      have h'' : ¬ k = a1 := fun e => h' e.symm
      simp only [hf, Bool.false_eq_true, if_false, List.map_cons, ih, List.mem_cons, h'', false_or]
      split <;> simp

theorem nodup_keys_mapSet {β : Type} (k : Name) (v : β) (m : List (Name × β)) (h : (m.map (·.1)).Nodup) :
    ((mapSet k v m).map (·.1)).Nodup := by
  rw [keys_mapSet]
  split
  · exact h
  · rename_i hk
    rw [List.nodup_append]
    refine ⟨h, by simp, ?_⟩
    intro a ha b hb
    simp only [List.mem_singleton] at hb
    subst hb
    exact fun e => hk (e ▸ ha)

theorem mem_mapErase {β : Type} (k : Name) (m : List (Name × β)) (kv : Name × β) (h : kv ∈ mapErase k m) : kv ∈ m := by
  induction m with
  | nil => cases h
  | cons a rest ih =>
    obtain ⟨a1, a2⟩ := a
    simp only [mapErase] at h
    split at h
    · simp [h]
    · rcases List.mem_cons.mp h with h | h
      · simp [h]
      · simp [ih h]

theorem nodup_keys_mapErase {β : Type} (k : Name) (m : List (Name × β)) (h : (m.map (·.1)).Nodup) :
    ((mapErase k m).map (·.1)).Nodup := by
  induction m with
  | nil => simp [mapErase]
  | cons a rest ih =>
    obtain ⟨a1, a2⟩ := a
    simp only [List.map_cons, List.nodup_cons] at h
    simp only [mapErase]
    split
    · exact h.2
    · simp only [List.map_cons, List.nodup_cons]
      refine ⟨?_, ih h.2⟩
      intro hm
      obtain ⟨kv, hkv, hk⟩ := List.mem_map.mp hm
      exact h.1 (List.mem_map.mpr ⟨kv, mem_mapErase k rest kv hkv, hk⟩)

theorem mem_of_lookup {β : Type} (m : List (Name × β)) (k : Name) (v : β) (h : m.lookup k = some v) : (k, v) ∈ m := by
  induction m with
  | nil => cases h
  | cons a rest ih =>
    obtain ⟨a1, a2⟩ := a
    simp only [List.lookup_cons] at h
    by_cases hk : k = a1
    · subst hk
      simp only [BEq.rfl, Option.some.injEq] at h
      simp [h]
    · have : (k == a1) = false := by simpa using hk
      simp only [this] at h
      simp [ih h]

/-! ### canonical parser states -/

/-- one section: distinct option names, each its own `optionxform` -/
def CanonSect (s : Sect) : Prop := (s.map (·.1)).Nodup ∧ ∀ kv ∈ s, lower kv.1 = kv.1

structure Canon (c : Ini) : Prop where
  dflt : CanonSect c.defaults
  names : (c.sections.map (·.1)).Nodup
  nodef : ∀ sec ∈ c.sections, sec.1 ≠ defaultSect
  sects : ∀ sec ∈ c.sections, CanonSect sec.2

theorem canonSect_nil : CanonSect [] := ⟨by simp, by simp⟩

theorem canonSect_mapSet (s : Sect) (k : Name) (v : Str) (h : CanonSect s) (hk : lower k = k) :
    CanonSect (mapSet k v s) := by
  refine ⟨nodup_keys_mapSet k v s h.1, ?_⟩
  intro kv hkv
  rcases mem_mapSet k v s kv hkv with rfl | hkv
  · exact hk
  · exact h.2 kv hkv

theorem canonSect_sectUpdate (s : Sect) (kvs : List (Str × Str)) (h : CanonSect s) : CanonSect (sectUpdate s kvs) := by
  unfold sectUpdate
  induction kvs generalizing s with
  | nil => exact h
  | cons kv kvs ih => exact ih _ (canonSect_mapSet s _ _ h (lower_idem _))

theorem canonSect_mapErase (s : Sect) (k : Name) (h : CanonSect s) : CanonSect (mapErase k s) :=
  ⟨nodup_keys_mapErase k s h.1, fun kv hkv => h.2 kv (mem_mapErase k s kv hkv)⟩

theorem canon_sect (c : Ini) (h : Canon c) (s : Str) : CanonSect (c.sect s) := by
  unfold Ini.sect
  cases hl : c.sections.lookup s with
  | none => exact canonSect_nil
  | some x => exact h.sects (s, x) (mem_of_lookup _ _ _ hl)

theorem canon_empty : Canon Ini.empty := ⟨canonSect_nil, by simp [Ini.empty], by simp [Ini.empty], by simp [Ini.empty]⟩

/-- replacing the body of a named section keeps the state canonical -/
theorem canon_setSect (c : Ini) (h : Canon c) (s : Str) (hs : s ≠ defaultSect) (x : Sect) (hx : CanonSect x) :
    Canon { c with sections := mapSet s x c.sections } := by
  refine ⟨h.dflt, nodup_keys_mapSet s x _ h.names, ?_, ?_⟩
  · intro sec hsec
    rcases mem_mapSet s x _ sec hsec with rfl | hsec
    · exact hs
    · exact h.nodef sec hsec
  · intro sec hsec
    rcases mem_mapSet s x _ sec hsec with rfl | hsec
    · exact hx
    · exact h.sects sec hsec

theorem canon_loadFile (c : Ini) (h : Canon c) (f : FileC) : Canon (c.loadFile f) := by
  unfold Ini.loadFile
  induction f generalizing c with
  | nil => exact h
  | cons sec f ih =>
    simp only [List.foldl_cons]
    apply ih
    by_cases hd : (sec.1 == defaultSect) = true
    · simp only [hd, if_true]
      exact ⟨canonSect_sectUpdate _ _ h.dflt, h.names, h.nodef, h.sects⟩
    · have hd' : sec.1 ≠ defaultSect := by simpa using hd
      have hdf : (sec.1 == defaultSect) = false := by simpa using hd'
      simp only [hdf, Bool.false_eq_true, if_false]
      exact canon_setSect c h sec.1 hd' _ (canonSect_sectUpdate _ _ (canon_sect c h sec.1))

theorem canon_set (c : Ini) (h : Canon c) (s : Str) (k : Name) (v : Str) : Canon (c.set s k v) := by
  unfold Ini.set
  by_cases hd : (s == defaultSect) = true
  · simp only [hd, if_true]
    exact ⟨canonSect_mapSet _ _ _ h.dflt (lower_idem _), h.names, h.nodef, h.sects⟩
  · have hd' : s ≠ defaultSect := by simpa using hd
    have hdf : (s == defaultSect) = false := by simpa using hd'
    simp only [hdf, Bool.false_eq_true, if_false]
    exact canon_setSect c h s hd' _ (canonSect_mapSet _ _ _ (canon_sect c h s) (lower_idem _))

theorem canon_removeOption (c : Ini) (h : Canon c) (s : Str) (k : Name) : Canon (c.removeOption s k) := by
  unfold Ini.removeOption
  by_cases hd : (s == defaultSect) = true
  · simp only [hd, if_true]
    exact ⟨canonSect_mapErase _ _ h.dflt, h.names, h.nodef, h.sects⟩
  · have hd' : s ≠ defaultSect := by simpa using hd
    have hdf : (s == defaultSect) = false := by simpa using hd'
    simp only [hdf, Bool.false_eq_true, if_false]
    exact canon_setSect c h s hd' _ (canonSect_mapErase _ _ (canon_sect c h s))

theorem canon_clear (c : Ini) (h : Canon c) : Canon { c with sections := [] } :=
  ⟨h.dflt, by simp, by simp, by simp⟩

theorem canon_reloadCfg (mem : Ini) (h : Canon mem) (disk : FileC) (uuid : Str) : Canon (reloadCfg mem disk uuid) := by
  unfold reloadCfg
  simp only
  split
  · exact canon_loadFile _ (canon_clear mem h) disk
  · exact canon_set _ (canon_loadFile _ (canon_clear mem h) disk) _ _ _

theorem canon_ensureSection (c : Ini) (h : Canon c) (s : Str) (hs : s ≠ defaultSect) : Canon (ensureSection c s) := by
  unfold ensureSection
  split
  · exact h
  · rename_i hns
    have hsf : (s == defaultSect) = false := by simpa using hs
    simp only [hsf, Bool.false_eq_true, if_false]
    have hnone : c.sections.lookup s = none := by
      cases hl : c.sections.lookup s with
      | none => rfl
      | some x => simp [Ini.hasSection, hl] at hns
    refine ⟨h.dflt, ?_, ?_, ?_⟩
    · simp only [List.map_append, List.map_cons, List.map_nil]
      rw [List.nodup_append]
      refine ⟨h.names, by simp, ?_⟩
      intro a ha b hb
      simp only [List.mem_singleton] at hb
      subst hb
      intro e
      subst e
      have := (mem_keys_iff_lookup c.sections a).mp ha
      rw [hnone] at this
      cases this
    · intro sec hsec
      rcases List.mem_append.mp hsec with hsec | hsec
      · exact h.nodef sec hsec
      · simp only [List.mem_singleton] at hsec
        subst hsec
        exact hs
    · intro sec hsec
      rcases List.mem_append.mp hsec with hsec | hsec
      · exact h.sects sec hsec
      · simp only [List.mem_singleton] at hsec
        subst hsec
        exact canonSect_nil

theorem canon_loadUser (fidb user : FileC) : Canon (loadUser fidb user) :=
  canon_loadFile _ (canon_loadFile _ canon_empty fidb) user

end Ofx.Ofxget
