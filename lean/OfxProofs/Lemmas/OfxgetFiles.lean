/-
Lemmas for C18: how `USERCFG.read([fi.cfg, ofxget.cfg])` layers the two files (per section, per option, the later
file wins; the server's section over DEFAULT), and what `read_config` makes of the layered content.
-/
import OfxProofs.Lemmas.Ofxget
import OfxProofs.Lemmas.OfxgetStmt

namespace Ofx.Ofxget
open Ofx Ofx.Spec.Ofxget

/-! ### what one file says -/

/-- one section body: the last assignment of an option wins; option names are case-insensitive, values stripped -/
def kvsLookup : List (Str × Str) → Name → Option Str
  | [], _ => none
  | kv :: rest, k => (kvsLookup rest k).or (if lower kv.1 = k then some (strip kv.2) else none)

/-- one file: (section, option) ↦ text -/
def fileLookup : FileC → Str → Name → Option Str
  | [], _, _ => none
  | sec :: rest, s, k => (fileLookup rest s k).or (if sec.1 = s then kvsLookup sec.2 k else none)

/-- does the file have the section -/
def fileHasSection (f : FileC) (s : Str) : Bool := f.any (fun sec => sec.1 == s)

theorem sectUpdate_lookup (s : Sect) (kvs : List (Str × Str)) (k : Name) :
    (sectUpdate s kvs).lookup k = (kvsLookup kvs k).or (s.lookup k) := by
  unfold sectUpdate
  induction kvs generalizing s with
  | nil => simp [kvsLookup]
  | cons kv kvs ih =>
    simp only [List.foldl_cons, kvsLookup]
    rw [ih, lookup_mapSet]
    cases kvsLookup kvs k with
    | some v => simp
    | none =>
      by_cases hk : k = lower kv.1
      · simp [hk]
      · have hk' : ¬ lower kv.1 = k := fun e => hk e.symm
        simp [hk, hk']

/-- lookup inside one section of a parser (no DEFAULT fall-through) -/
def Ini.look (c : Ini) (s : Str) (k : Name) : Option Str :=
  if s = defaultSect then c.defaults.lookup k else (c.sect s).lookup k

theorem sect_mapSet (sections : List (Str × Sect)) (n s : Str) (x : Sect) :
    ((mapSet n x sections).lookup s).getD [] = if s = n then x else (sections.lookup s).getD [] := by
  rw [lookup_mapSet]
  by_cases h : s = n <;> simp [h]

theorem loadFile_look (c : Ini) (f : FileC) (s : Str) (k : Name) :
    (c.loadFile f).look s k = (fileLookup f s k).or (c.look s k) := by
  unfold Ini.loadFile
  induction f generalizing c with
  | nil => simp [fileLookup]
  | cons sec f ih =>
    simp only [List.foldl_cons, fileLookup]
    rw [ih, Option.or_assoc]
    congr 1
    by_cases hd : (sec.1 == defaultSect) = true
    · have hd' : sec.1 = defaultSect := by simpa using hd
      simp only [hd, if_true]
      by_cases hs : s = defaultSect
      · simp only [Ini.look, hs, if_true, hd', sectUpdate_lookup]
      · have : ¬ sec.1 = s := fun e => hs (by rw [← e, hd'])
        simp only [Ini.look, hs, if_false, this, Option.none_or, Ini.sect]
    · have hd' : ¬ sec.1 = defaultSect := by simpa using hd
      have hdf : (sec.1 == defaultSect) = false := by simpa using hd'
      simp only [hdf, Bool.false_eq_true, if_false]
      by_cases hs : s = defaultSect
      · subst hs
        simp only [Ini.look, if_true, hd', if_false, Option.none_or]
      · simp only [Ini.look, hs, if_false, Ini.sect, sect_mapSet]
        by_cases hsn : s = sec.1
        · subst hsn
          simp only [if_true, sectUpdate_lookup, Ini.sect]
        · have : ¬ sec.1 = s := fun e => hsn e.symm
          simp only [hsn, if_false, this, Option.none_or]

theorem raw_eq_look (c : Ini) (s : Str) (k : Name) (hs : s ≠ defaultSect) :
    c.raw s k = (c.look s k).or (c.look defaultSect k) := by
  simp only [Ini.raw, Ini.look, hs, if_false, if_true]
  cases List.lookup k (c.sect s) <;> rfl

theorem empty_look (s : Str) (k : Name) : Ini.empty.look s k = none := by
  simp only [Ini.look, Ini.empty, Ini.sect]
  split <;> rfl

/-- **layering of `USERCFG.read([fi.cfg, ofxget.cfg])`**: for the server's section, the user's file over the FI
    database; then the DEFAULT sections, again the user's file first -/
theorem raw_layering (fidb user : FileC) (s : Str) (k : Name) (hs : s ≠ defaultSect) :
    (loadUser fidb user).raw s k =
      ((fileLookup user s k).or (fileLookup fidb s k)).or
        ((fileLookup user defaultSect k).or (fileLookup fidb defaultSect k)) := by
  rw [raw_eq_look _ _ _ hs]
  unfold loadUser
  simp only [loadFile_look, empty_look, Option.or_none]

theorem loadFile_hasSection (c : Ini) (f : FileC) (s : Str) (hs : s ≠ defaultSect) :
    (c.loadFile f).hasSection s = (c.hasSection s || fileHasSection f s) := by
  unfold Ini.loadFile fileHasSection
  induction f generalizing c with
  | nil => simp
  | cons sec f ih =>
    simp only [List.foldl_cons, List.any_cons]
    rw [ih]
    by_cases hd : (sec.1 == defaultSect) = true
    · have hd' : sec.1 = defaultSect := by simpa using hd
      have : (sec.1 == s) = false := by simpa using fun e : sec.1 = s => hs (by rw [← e, hd'])
      simp [hd, Ini.hasSection, this]
    · have hdf : (sec.1 == defaultSect) = false := by simpa using hd
      simp only [hdf, Bool.false_eq_true, if_false, Ini.hasSection, lookup_mapSet]
      by_cases hsn : s = sec.1
      · subst hsn; simp
      · have : (sec.1 == s) = false := by simpa using fun e : sec.1 = s => hsn e.symm
        simp [hsn, this, Bool.or_assoc]

theorem loadUser_contains (fidb user : FileC) (s : Str) (hs : s ≠ defaultSect) :
    (loadUser fidb user).contains s = (fileHasSection fidb s || fileHasSection user s) := by
  have hsf : (s == defaultSect) = false := by simpa using hs
  unfold loadUser Ini.contains
  rw [loadFile_hasSection _ _ _ hs, loadFile_hasSection _ _ _ hs]
  simp [Ini.hasSection, Ini.empty, hsf]

/-! ### `read_config` on the layered content -/

theorem mem_keys_iff_lookup {β : Type} (m : List (Name × β)) (k : Name) :
    k ∈ m.map (·.1) ↔ (m.lookup k).isSome = true := by
  induction m with
  | nil => simp
  | cons kv rest ih =>
    obtain ⟨a, b⟩ := kv
    simp only [List.map_cons, List.mem_cons, List.lookup_cons]
    by_cases h : k = a
    · subst h; simp
    · have : (k == a) = false := by simpa using h
      simp [h, this, ih]

theorem options_mem (c : Ini) (s : Str) (k : Name) (hs : s ≠ defaultSect) :
    k ∈ c.options s ↔ (c.raw s k).isSome = true := by
  have hsf : (s == defaultSect) = false := by simpa using hs
  simp only [Ini.options, hsf, Bool.false_eq_true, if_false, List.mem_append, List.mem_filter, Ini.raw]
  rw [mem_keys_iff_lookup, mem_keys_iff_lookup]
  cases h1 : List.lookup k (c.sect s) with
  | some v => simp
  | none =>
    have : ¬ k ∈ (c.sect s).map (·.1) := by rw [mem_keys_iff_lookup, h1]; simp
    simp [this]

theorem lookup_of_mem_unique {β : Type} (m : List (Name × β)) (k : Name) (v : β) (hm : (k, v) ∈ m)
    (hu : ∀ v', (k, v') ∈ m → v' = v) : m.lookup k = some v := by
  induction m with
  | nil => cases hm
  | cons kv rest ih =>
    obtain ⟨a, b⟩ := kv
    simp only [List.lookup_cons]
    by_cases h : k = a
    · subst h
      have : b = v := hu b (by simp)
      simp [this]
    · have hb : (k == a) = false := by simpa using h
      simp only [hb]
      apply ih
      · rcases List.mem_cons.mp hm with e | e
        · exact absurd (Prod.mk.inj e).1 h
        · exact e
      · intro v' hv'; exact hu v' (by simp [hv'])

theorem lookup_none_of_not_mem {β : Type} (m : List (Name × β)) (k : Name) (h : ∀ v, (k, v) ∉ m) :
    m.lookup k = none := by
  cases hl : m.lookup k with
  | none => rfl
  | some v =>
    exfalso
    have : k ∈ m.map (·.1) := by rw [mem_keys_iff_lookup, hl]; rfl
    obtain ⟨kv, hkv, hk⟩ := List.mem_map.mp this
    exact h kv.2 (by rw [← hk]; exact hkv)

/-- what `read_config` returns for one CONFIGURABLE option: the typed reading of the text in effect in the files -/
theorem readConfig_lookup (T : Tables) (c : Ini) (s : Str) (m : Map) (hs : s ≠ defaultSect)
    (hc : c.contains s = true) (h : readConfig T c s = .ok m) (k : Name) (ty : CfgTy)
    (hty : T.configurable.lookup k = some ty) :
    match c.raw s k with
    | none => m.lookup k = none
    | some v => ∃ tv, typedOfStr T ty v = .ok tv ∧ m.lookup k = some tv := by
  unfold readConfig at h
  simp only [hc, Bool.not_true, Bool.false_eq_true, if_false] at h
  have hmem := mapM_ok_mem _ _ _ h
  have hopt : ∀ kt, kt ∈ configurableOptions T c s ↔ kt.1 ∈ c.options s ∧ T.configurable.lookup kt.1 = some kt.2 := by
    intro kt
    simp only [configurableOptions, List.mem_filterMap]
    constructor
    · rintro ⟨a, ha, hmap⟩
      cases hl : T.configurable.lookup a with
      | none => rw [hl] at hmap; cases hmap
      | some t =>
        rw [hl] at hmap
        simp only [Option.map_some, Option.some.injEq] at hmap
        subst hmap
        exact ⟨ha, hl⟩
    · rintro ⟨h1, h2⟩
      exact ⟨kt.1, h1, by rw [h2]; rfl⟩
  -- every entry of m with key k is the typed reading of the raw text
  have hentry : ∀ v', (k, v') ∈ m → ∃ raw, c.raw s k = some raw ∧ typedOfStr T ty raw = .ok v' := by
    intro v' hv'
    obtain ⟨kt, hkt, hro⟩ := hmem.1 (k, v') hv'
    have hkt' := (hopt kt).mp hkt
    unfold readOne at hro
    cases hraw : c.get s kt.1 with
    | none =>
      rw [hraw] at hro
      simp only [pure, Except.pure, Except.ok.injEq, Prod.mk.injEq] at hro
      have hin := (options_mem c s kt.1 hs).mp hkt'.1
      simp only [Ini.get] at hraw
      rw [hraw] at hin
      cases hin
    | some raw =>
      rw [hraw] at hro
      simp only [bind, Except.bind] at hro
      cases htv : typedOfStr T kt.2 raw with
      | error e => rw [htv] at hro; cases hro
      | ok tv =>
        rw [htv] at hro
        simp only [pure, Except.pure, Except.ok.injEq, Prod.mk.injEq] at hro
        obtain ⟨hk1, hk2⟩ := hro
        have hkt2 := hkt'.2
        rw [hk1, hty] at hkt2
        have hty' : kt.2 = ty := (Option.some.inj hkt2).symm
        refine ⟨raw, ?_, ?_⟩
        · simpa [Ini.get, hk1] using hraw
        · rw [← hty', htv, hk2]
  cases hraw : c.raw s k with
  | none =>
    simp only
    apply lookup_none_of_not_mem
    intro v' hv'
    obtain ⟨raw, hr, _⟩ := hentry v' hv'
    rw [hraw] at hr
    cases hr
  | some raw =>
    simp only
    have hin : (k, ty) ∈ configurableOptions T c s :=
      (hopt (k, ty)).mpr ⟨(options_mem c s k hs).mpr (by rw [hraw]; rfl), hty⟩
    obtain ⟨b, hb, hro⟩ := hmem.2 (k, ty) hin
    have hb1 : b.1 = k := by
      unfold readOne at hro
      cases hg : c.get s k with
      | none => rw [hg] at hro; simp only [pure, Except.pure, Except.ok.injEq] at hro; rw [← hro]
      | some r =>
        rw [hg] at hro
        simp only [bind, Except.bind] at hro
        cases htv : typedOfStr T ty r with
        | error e => rw [htv] at hro; cases hro
        | ok tv => rw [htv] at hro; simp only [pure, Except.pure, Except.ok.injEq] at hro; rw [← hro]
    obtain ⟨bk, bv⟩ := b
    simp only at hb1
    subst hb1
    obtain ⟨raw', hr', htv'⟩ := hentry bv hb
    rw [hraw] at hr'
    have : raw' = raw := (Option.some.inj hr').symm
    subst this
    refine ⟨bv, htv', ?_⟩
    apply lookup_of_mem_unique _ _ _ hb
    intro v' hv'
    obtain ⟨raw'', hr'', htv''⟩ := hentry v' hv'
    rw [hraw] at hr''
    have : raw'' = raw' := (Option.some.inj hr'').symm
    subst this
    rw [htv'] at htv''
    exact (Except.ok.inj htv'').symm

end Ofx.Ofxget
