/-
The constructor looks at an aggregate it is handed (as a keyword value or as a member) only through its class and
through whether it has members (`Sim`).  Consequently a description is accepted by the constructors as soon as each
of its calls is accepted on *stubs* of its arguments (`construct_sim`), which reduces the generic constructibility
theorem (`Props/C13Exist.lean`, `C13_constructible_levels`) to a one-level obligation per (class, child).
-/
import OfxProofs.Lemmas.C13Exist

namespace Ofx.Agg
open Ofx Ofx.Spec.Witness

/-- two arguments the constructor cannot tell apart: equal values, or aggregates of the same class that both have
    members or both have none -/
inductive Sim : Node → Node → Prop
  | val (v : Val) : Sim (.val v) (.val v)
  | agg (c : Nat) (f f' : List (Str × Node)) (i i' : List Node) : i.isEmpty = i'.isEmpty →
      Sim (.agg c f i) (.agg c f' i')

/-- keyword lists with the same keys and indistinguishable values -/
inductive KwSim : List (Str × Node) → List (Str × Node) → Prop
  | nil : KwSim [] []
  | cons {k : Str} {v v' : Node} {r r' : List (Str × Node)} : Sim v v' → KwSim r r' →
      KwSim ((k, v) :: r) ((k, v') :: r')

/-- member lists with indistinguishable entries -/
inductive ArgsSim : List Node → List Node → Prop
  | nil : ArgsSim [] []
  | cons {m m' : Node} {r r' : List Node} : Sim m m' → ArgsSim r r' → ArgsSim (m :: r) (m' :: r')

theorem Sim.given {a b : Node} (h : Sim a b) : given a = given b := by cases h <;> rfl
theorem Sim.truthy {a b : Node} (h : Sim a b) : truthy a = truthy b := by
  cases h with
  | val v => rfl
  | agg c f f' i i' hi => simp [Agg.truthy, hi]
theorem Sim.notNone {a b : Node} (h : Sim a b) : notNone a = notNone b := by cases h <;> rfl
theorem Sim.toVal {a b : Node} (h : Sim a b) : Node.toVal a = Node.toVal b := by cases h <;> rfl
theorem Sim.className (S : Schema) {a b : Node} (h : Sim a b) : argClassName S a = argClassName S b := by
  cases h <;> rfl
theorem Sim.cls {a b : Node} (h : Sim a b) : a.cls? = b.cls? := by cases h <;> rfl

theorem KwSim.keys {kw kw' : List (Str × Node)} (h : KwSim kw kw') : kw.map (·.1) = kw'.map (·.1) := by
  induction h with
  | nil => rfl
  | cons _ _ ih => simp [ih]

theorem KwSim.length {kw kw' : List (Str × Node)} (h : KwSim kw kw') : kw.length = kw'.length := by
  induction h with
  | nil => rfl
  | cons _ _ ih => simp [ih]

theorem ArgsSim.length {a a' : List Node} (h : ArgsSim a a') : a.length = a'.length := by
  induction h with
  | nil => rfl
  | cons _ _ ih => simp [ih]

theorem KwSim.lookup {kw kw' : List (Str × Node)} (h : KwSim kw kw') (k : Str) :
    (lookup k kw = none ∧ lookup k kw' = none) ∨
      ∃ v v', lookup k kw = some v ∧ lookup k kw' = some v' ∧ Sim v v' := by
  induction h with
  | nil => exact Or.inl ⟨rfl, rfl⟩
  | @cons k1 v1 v2 r r' hv _ ih =>
    simp only [Agg.lookup]
    by_cases hkk : k1 = k
    · simp only [hkk, if_true]
      exact Or.inr ⟨v1, v2, rfl, rfl, hv⟩
    · simp only [hkk, if_false]
      exact ih

theorem KwSim.keyMap {kw kw' : List (Str × Node)} (h : KwSim kw kw') {β} (g : Str → β) :
    kw.map (fun p => g p.1) = kw'.map (fun p => g p.1) := by
  have : ∀ l : List (Str × Node), l.map (fun p => g p.1) = (l.map (·.1)).map g := by
    intro l; simp [List.map_map, Function.comp_def]
  rw [this kw, this kw', h.keys]

theorem KwSim.keyFilterMap {kw kw' : List (Str × Node)} (h : KwSim kw kw') {β} (P : Str → Bool) (g : Str → β) :
    (kw.filter (fun p => P p.1)).map (fun p => g p.1) = (kw'.filter (fun p => P p.1)).map (fun p => g p.1) := by
  induction h with
  | nil => rfl
  | @cons k1 v1 v2 r r' _ _ ih =>
    simp only [List.filter_cons]
    split
    · simp [ih]
    · exact ih

theorem ArgsSim.classNames (S : Schema) {a a' : List Node} (h : ArgsSim a a') :
    a.map (argClassName S) = a'.map (argClassName S) := by
  induction h with
  | nil => rfl
  | cons hp _ ih => simp [hp.className S, ih]

theorem ArgsSim.isEmpty {a a' : List Node} (h : ArgsSim a a') : a.isEmpty = a'.isEmpty := by
  cases h <;> rfl

theorem mutexCount_sim {kw kw' : List (Str × Node)} (h : KwSim kw kw') (g : List Str) :
    mutexCount kw g = mutexCount kw' g := by
  unfold mutexCount
  congr 1
  apply List.filter_congr
  intro m _
  rcases h.lookup m with ⟨h1, h2⟩ | ⟨v, v', h1, h2, hs⟩
  · rw [h1, h2]
  · rw [h1, h2]; exact hs.given

theorem enforceCount_sim {kw kw' : List (Str × Node)} (h : KwSim kw kw') (gs : List (List Str)) (p : Nat → Bool) :
    enforceCount kw gs p = enforceCount kw' gs p := by
  unfold enforceCount
  have : gs.all (fun g => p (mutexCount kw g)) = gs.all (fun g => p (mutexCount kw' g)) := by
    congr 1
    funext g
    rw [mutexCount_sim h g]
  rw [this]

theorem kwTruthy_sim {kw kw' : List (Str × Node)} (h : KwSim kw kw') (k : String) :
    kwTruthy kw k = kwTruthy kw' k := by
  unfold kwTruthy
  rcases h.lookup k.toList with ⟨h1, h2⟩ | ⟨v, v', h1, h2, hs⟩
  · rw [h1, h2]
  · rw [h1, h2]; exact hs.truthy

theorem hasKey_sim {kw kw' : List (Str × Node)} (h : KwSim kw kw') (k : Str) : hasKey k kw = hasKey k kw' := by
  unfold hasKey
  rcases h.lookup k with ⟨h1, h2⟩ | ⟨v, v', h1, h2, _⟩
  · rw [h1, h2]
  · rw [h1, h2]; rfl

theorem extraRule_sim (S : Schema) (r : ExtraRule) {args args' : List Node} {kw kw' : List (Str × Node)}
    (ha : ArgsSim args args') (hk : KwSim kw kw') : extraRule S r args kw = extraRule S r args' kw' := by
  have hemp := ha.isEmpty
  have hnames := ha.classNames S
  have hany : ∀ (P : Str → Bool), args.any (fun a => P (argClassName S a)) = args'.any (fun a => P (argClassName S a)) := by
    intro P
    have : ∀ l : List Node, l.any (fun a => P (argClassName S a)) = (l.map (argClassName S)).any P := by
      intro l; simp [List.any_map, Function.comp_def]
    rw [this args, this args', hnames]
  cases r <;> simp only [extraRule]
  · -- ofx
    rw [hk.keyMap (lastN 7)]
  · -- sonrq
    rw [kwTruthy_sim hk "userid", kwTruthy_sim hk "userpass", kwTruthy_sim hk "userkey"]
  all_goals try rw [hemp]
  · -- acctinfo
    rw [hnames]
  · -- tax1099rs
    rw [hany (fun n => "TAX1099".toList.isPrefixOf n)]
  · -- contribsecurity
    rw [hk.keyFilterMap (fun k => decide (k ≠ "secid".toList)) (lastN 3), hk.length]
  · -- extdpmt
    rw [hnames, hasKey_sim hk]
  · -- extdpayee
    rw [kwTruthy_sim hk "payeeid", kwTruthy_sim hk "idscope", kwTruthy_sim hk "name"]
  · -- tax1099r
    have : ∀ (l : List String), l.any (fun t => hasKey t.toList kw) = l.any (fun t => hasKey t.toList kw') := by
      intro l
      congr 1
      funext t
      exact hasKey_sim hk _
    rw [hasKey_sim hk, this]
  · -- tax1099misc
    rw [hasKey_sim hk "STTAXWH".toList, hasKey_sim hk "PAYERSTATE".toList]

theorem validateArgs_sim (S : Schema) (c : Cls) {args args' : List Node} {kw kw' : List (Str × Node)}
    (ha : ArgsSim args args') (hk : KwSim kw kw') : validateArgs S c args kw = validateArgs S c args' kw' := by
  unfold validateArgs
  rw [extraRule_sim S c.extra ha hk, enforceCount_sim hk, enforceCount_sim hk]

/-- what `setattr` stores for indistinguishable values is indistinguishable -/
theorem setAttr_sim (S : Schema) (cv : Conv) (a : Attr) {v v' : Node} (h : Sim v v') :
    ∀ o, setAttr S cv a v = .ok o → ∃ o', setAttr S cv a v' = .ok o' ∧
      ((o = none ∧ o' = none) ∨ ∃ w w', o = some w ∧ o' = some w' ∧ Sim w w') := by
  intro o ho
  cases h with
  | val x => exact ⟨o, ho, by
      cases o with
      | none => exact Or.inl ⟨rfl, rfl⟩
      | some w =>
        refine Or.inr ⟨w, w, rfl, rfl, ?_⟩
        cases w with
        | val y => exact .val y
        | agg c f i => exact .agg c f f i i rfl⟩
  | agg c f f' i i' hi =>
    cases hk : a.kind with
    | sub t =>
      simp only [setAttr, hk, convertSub] at ho ⊢
      by_cases hin : isInstance S c t = true
      · simp only [hin, if_true, Except.map] at ho ⊢
        injection ho with ho
        subst ho
        exact ⟨_, rfl, Or.inr ⟨_, _, rfl, rfl, .agg c f f' i i' hi⟩⟩
      · simp [hin, Except.map] at ho
    | unsupported => simp only [setAttr, hk] at ho ⊢; exact ⟨o, ho, by injection ho with ho; subst ho; exact Or.inl ⟨rfl, rfl⟩⟩
    | listAgg t => simp only [setAttr, hk] at ho ⊢; exact ⟨o, ho, by injection ho with ho; subst ho; exact Or.inl ⟨rfl, rfl⟩⟩
    | listElem k r => simp only [setAttr, hk] at ho ⊢; exact ⟨o, ho, by injection ho with ho; subst ho; exact Or.inl ⟨rfl, rfl⟩⟩
    | bool =>
      simp only [setAttr, hk, Node.toVal] at ho ⊢
      refine ⟨o, ho, ?_⟩
      cases hc : cv.convert S.enums .bool a.required (.other "Aggregate") with
      | error e => simp [hc, Except.map] at ho
      | ok y => simp only [hc, Except.map] at ho; injection ho with ho; subst ho; exact Or.inr ⟨_, _, rfl, rfl, .val y⟩
    | string l st =>
      simp only [setAttr, hk, Node.toVal] at ho ⊢
      refine ⟨o, ho, ?_⟩
      cases hc : cv.convert S.enums (.string l st) a.required (.other "Aggregate") with
      | error e => simp [hc, Except.map] at ho
      | ok y => simp only [hc, Except.map] at ho; injection ho with ho; subst ho; exact Or.inr ⟨_, _, rfl, rfl, .val y⟩
    | oneOf e =>
      simp only [setAttr, hk, Node.toVal] at ho ⊢
      refine ⟨o, ho, ?_⟩
      cases hc : cv.convert S.enums (.oneOf e) a.required (.other "Aggregate") with
      | error e => simp [hc, Except.map] at ho
      | ok y => simp only [hc, Except.map] at ho; injection ho with ho; subst ho; exact Or.inr ⟨_, _, rfl, rfl, .val y⟩
    | integer l =>
      simp only [setAttr, hk, Node.toVal] at ho ⊢
      refine ⟨o, ho, ?_⟩
      cases hc : cv.convert S.enums (.integer l) a.required (.other "Aggregate") with
      | error e => simp [hc, Except.map] at ho
      | ok y => simp only [hc, Except.map] at ho; injection ho with ho; subst ho; exact Or.inr ⟨_, _, rfl, rfl, .val y⟩
    | decimal q =>
      simp only [setAttr, hk, Node.toVal] at ho ⊢
      refine ⟨o, ho, ?_⟩
      cases hc : cv.convert S.enums (.decimal q) a.required (.other "Aggregate") with
      | error e => simp [hc, Except.map] at ho
      | ok y => simp only [hc, Except.map] at ho; injection ho with ho; subst ho; exact Or.inr ⟨_, _, rfl, rfl, .val y⟩
    | datetime =>
      simp only [setAttr, hk, Node.toVal] at ho ⊢
      refine ⟨o, ho, ?_⟩
      cases hc : cv.convert S.enums .datetime a.required (.other "Aggregate") with
      | error e => simp [hc, Except.map] at ho
      | ok y => simp only [hc, Except.map] at ho; injection ho with ho; subst ho; exact Or.inr ⟨_, _, rfl, rfl, .val y⟩
    | time =>
      simp only [setAttr, hk, Node.toVal] at ho ⊢
      refine ⟨o, ho, ?_⟩
      cases hc : cv.convert S.enums .time a.required (.other "Aggregate") with
      | error e => simp [hc, Except.map] at ho
      | ok y => simp only [hc, Except.map] at ho; injection ho with ho; subst ho; exact Or.inr ⟨_, _, rfl, rfl, .val y⟩

theorem setAttrs_sim (S : Schema) (cv : Conv) {kw kw' : List (Str × Node)} (h : KwSim kw kw') :
    ∀ (L : List Attr) (fs : List (Str × Node)), setAttrs S cv L kw = .ok fs →
      ∃ fs', setAttrs S cv L kw' = .ok fs' ∧ KwSim fs fs'
  | [], fs, hs => by
    simp only [setAttrs, Except.ok.injEq] at hs
    subst hs
    exact ⟨[], rfl, .nil⟩
  | a :: rest, fs, hs => by
    simp only [setAttrs, bind, Except.bind] at hs ⊢
    have hv : Sim ((lookup a.name kw).getD (.val .none)) ((lookup a.name kw').getD (.val .none)) := by
      rcases h.lookup a.name with ⟨h1, h2⟩ | ⟨v, v', h1, h2, hsim⟩
      · rw [h1, h2]; exact .val .none
      · rw [h1, h2]; exact hsim
    cases h1 : setAttr S cv a ((lookup a.name kw).getD (.val .none)) with
    | error e => simp [h1] at hs
    | ok o =>
      cases h2 : setAttrs S cv rest kw with
      | error e => simp [h1, h2] at hs
      | ok more =>
        obtain ⟨o', ho', hrel⟩ := setAttr_sim S cv a hv o h1
        obtain ⟨more', hm', hsim⟩ := setAttrs_sim S cv h rest more h2
        simp only [h1, h2] at hs
        simp only [ho', hm']
        rcases hrel with ⟨rfl, rfl⟩ | ⟨w, w', rfl, rfl, hw⟩
        · simp only [pure, Except.pure, Except.ok.injEq] at hs
          subst hs
          exact ⟨more', rfl, hsim⟩
        · simp only [pure, Except.pure, Except.ok.injEq] at hs
          subst hs
          exact ⟨(a.name, w') :: more', rfl, .cons hw hsim⟩

theorem mapM_sim {f g : Node → PyM Node}
    (hfg : ∀ m m', Sim m m' → ∀ y, f m = .ok y → ∃ y', g m' = .ok y' ∧ Sim y y') :
    ∀ (args args' : List Node), ArgsSim args args' → ∀ items, args.mapM f = .ok items →
      ∃ items', args'.mapM g = .ok items' ∧ ArgsSim items items' := by
  intro args args' h
  induction h with
  | nil =>
    intro items hi
    simp only [List.mapM_nil, pure, Except.pure, Except.ok.injEq] at hi
    subst hi
    exact ⟨[], rfl, .nil⟩
  | @cons m m' r r' hm _ ih =>
    intro items hi
    rw [List.mapM_cons] at hi ⊢
    cases h1 : f m with
    | error e => simp [h1, bind, Except.bind] at hi
    | ok y =>
      cases h2 : r.mapM f with
      | error e => simp [h1, h2, bind, Except.bind] at hi
      | ok ys =>
        simp only [h1, h2, bind, Except.bind, pure, Except.pure, Except.ok.injEq] at hi
        subst hi
        obtain ⟨y', hy', hs⟩ := hfg m m' hm y h1
        obtain ⟨ys', hys', hss⟩ := ih ys h2
        exact ⟨y' :: ys', by simp [hy', hys', bind, Except.bind, pure, Except.pure], .cons hs hss⟩

theorem applyArgs_sim (S : Schema) (cv : Conv) (c : Cls) {args args' : List Node} (h : ArgsSim args args')
    (items : List Node) (ha : applyArgs S cv c args = .ok items) :
    ∃ items', applyArgs S cv c args' = .ok items' ∧ ArgsSim items items' := by
  unfold applyArgs at ha ⊢
  split at ha
  · rename_i hel
    simp only [hel, if_true]
    split at ha
    · split at ha
      · refine mapM_sim ?_ args args' h items ha
        intro m m' hm y hy
        rw [← hm.toVal]
        refine ⟨y, hy, ?_⟩
        rename_i inner ireq _
        cases hc : cv.convert S.enums inner ireq (Node.toVal m) with
        | error e => simp [hc, Except.map] at hy
        | ok x => simp only [hc, Except.map] at hy; injection hy with hy; subst hy; exact .val x
      · simp at ha
    · simp at ha
  · rename_i hel
    simp only [hel, if_false]
    refine mapM_sim ?_ args args' h items ha
    intro m m' hm y hy
    cases hm with
    | val v => simp [applyArg] at hy
    | agg ci f f' i i' hi =>
      have hy' : (if (listAggNames c).contains (lower (clsName S ci)) = true then Except.ok (Node.agg ci f i)
          else Except.error Err.type) = Except.ok y := hy
      by_cases hcon : (listAggNames c).contains (lower (clsName S ci)) = true
      · rw [if_pos hcon] at hy'
        injection hy' with hy'
        subst hy'
        refine ⟨.agg ci f' i', ?_, .agg ci f f' i i' hi⟩
        show (if (listAggNames c).contains (lower (clsName S ci)) = true then Except.ok (Node.agg ci f' i')
          else Except.error Err.type) = _
        rw [if_pos hcon]
      · rw [if_neg hcon] at hy'
        cases hy'

theorem applyResidual_sim (c : Cls) {kw kw' : List (Str × Node)} (h : KwSim kw kw') :
    applyResidual c kw = applyResidual c kw' := by
  unfold applyResidual residualKeys
  rw [h.keys]

/-- **the constructor cannot tell indistinguishable arguments apart** (success direction) -/
theorem construct_sim (S : Schema) (cv : Conv) (ci : Nat) {args args' : List Node} {kw kw' : List (Str × Node)}
    (ha : ArgsSim args args') (hk : KwSim kw kw') (n : Node) (h : construct S cv ci args kw = .ok n) :
    ∃ f i f' i', n = .agg ci f i ∧ construct S cv ci args' kw' = .ok (.agg ci f' i') ∧ KwSim f f' ∧ ArgsSim i i' := by
  obtain ⟨c, fields, items, hc, hval, hset, happ, hres, hn⟩ := (construct_ok_iff S cv ci args kw n).mp h
  obtain ⟨fields', hset', hfs⟩ := setAttrs_sim S cv hk _ fields hset
  obtain ⟨items', happ', his⟩ := applyArgs_sim S cv c ha items happ
  refine ⟨fields, items, fields', items', hn, ?_, hfs, his⟩
  apply (construct_ok_iff S cv ci args' kw' _).mpr
  refine ⟨c, fields', items', hc, ?_, hset', happ', ?_, rfl⟩
  · rw [← validateArgs_sim S c ha hk]; exact hval
  · rw [← applyResidual_sim c hk]; exact hres

theorem holds_sim (a : Attr) (ci : Nat) {f f' : List (Str × Node)} {i i' : List Node} (hf : KwSim f f')
    (hi : ArgsSim i i') : holds a (.agg ci f i) = holds a (.agg ci f' i') := by
  have hany : ∀ t, i.any (fun m => m.cls? == some t) = i'.any (fun m => m.cls? == some t) := by
    intro t
    induction hi with
    | nil => rfl
    | cons hm _ ih => simp only [List.any_cons, hm.cls, ih]
  have hl : (match lookup a.name f with | some v => notNone v | none => false) =
      (match lookup a.name f' with | some v => notNone v | none => false) := by
    rcases hf.lookup a.name with ⟨h1, h2⟩ | ⟨v, v', h1, h2, hs⟩
    · rw [h1, h2]
    · rw [h1, h2]; exact hs.notNone
  cases hk : a.kind <;> simp only [holds, hk] <;> first
    | exact hl
    | exact hany _
    | rw [hi.isEmpty]


/-! ### descriptions: stubs, the one-level obligation, and the canonical sub-descriptions of `mk` -/

/-- what the constructor can see of an argument described by `d` before `d` is built: its class and whether it
    will have members -/
def stubDesc : Node → Node
  | .val v => .val v
  | .agg t _ args => .agg t [] (if args.isEmpty then [] else [.val .none])

def stubKw (kw : List (Str × Node)) : List (Str × Node) := kw.map (fun p => (p.1, stubDesc p.2))

/-- the top-level call of a description is accepted on stubs of its arguments -/
def CallOk (S : Schema) (cv : Conv) : Node → Prop
  | .val _ => True
  | .agg t kw args => ∃ n, construct S cv t (args.map stubDesc) (stubKw kw) = .ok n

theorem mapM_option_mem {α β} (g : α → Option β) : ∀ (l : List α) (ys : List β), l.mapM g = some ys →
    ∀ y ∈ ys, ∃ x ∈ l, g x = some y
  | [], ys, h, y, hy => by
    simp only [List.mapM_nil, pure, Option.some.injEq] at h
    subst h; simp at hy
  | x :: l, ys, h, y, hy => by
    rw [List.mapM_cons] at h
    cases hx : g x with
    | none => simp [hx, bind, Option.bind] at h
    | some b =>
      cases hl : l.mapM g with
      | none => simp [hx, hl, bind, Option.bind] at h
      | some bs =>
        simp only [hx, hl, bind, Option.bind, pure, Option.some.injEq] at h
        subst h
        simp only [List.mem_cons] at hy
        rcases hy with rfl | hy
        · exact ⟨x, by simp, hx⟩
        · obtain ⟨z, hz, hgz⟩ := mapM_option_mem g l bs hl y hy
          exact ⟨z, by simp [hz], hgz⟩

theorem mapM_option_mono {α β} (g g' : α → Option β) (hgg : ∀ a y, g a = some y → g' a = some y) :
    ∀ (l : List α) (ys : List β), l.mapM g = some ys → l.mapM g' = some ys
  | [], ys, h => by simpa using h
  | x :: l, ys, h => by
    rw [List.mapM_cons] at h ⊢
    cases hx : g x with
    | none => simp [hx, bind, Option.bind] at h
    | some b =>
      cases hl : l.mapM g with
      | none => simp [hx, hl, bind, Option.bind] at h
      | some bs =>
        simp only [hx, hl, bind, Option.bind, pure, Option.some.injEq] at h
        subst h
        simp [hgg x b hx, mapM_option_mono g g' hgg l bs hl, bind, Option.bind]

/-- the keyword part of `mk` at depth `f` -/
def kwStep (S : Schema) (f : Nat) (a : Attr) : Option (Str × Node) :=
  match a.kind with
  | .sub t => (mk S f t none).map (fun d => (a.name, d))
  | k => (canonVal S.enums k).map (fun v => (a.name, Node.val v))

/-- the member part of `mk` at depth `f` -/
def argStep (S : Schema) (f : Nat) (a : Attr) : Option Node :=
  match a.kind with
  | .listAgg t => mk S f t none
  | k => (canonVal S.enums k).map Node.val

/-- the non-repeated children that are given -/
def kwAttrs (c : Cls) (force : Option Str) : List Attr :=
  c.spec.filter (fun a => plain a && (presentNames c force).contains a.name)

theorem kwAttrs_subset (c : Cls) (force : Option Str) : ∀ a ∈ kwAttrs c force, a ∈ c.spec :=
  fun _ ha => (List.mem_filter.mp ha).1

theorem mk_succ (S : Schema) (f ci : Nat) (force : Option Str) :
    mk S (f + 1) ci force =
      match S.cls? ci with
      | none => none
      | some c =>
        match (kwAttrs c force).mapM (kwStep S f) with
        | none => none
        | some kw =>
          match (memberAttrs c force).mapM (argStep S f) with
          | none => none
          | some args => some (.agg ci kw args) := by
  simp only [mk]
  rfl

/-- more fuel does not change a description that exists -/
theorem mk_mono (S : Schema) : ∀ (f ci : Nat) (force : Option Str) (d : Node),
    mk S f ci force = some d → mk S (f + 1) ci force = some d
  | 0, _, _, _, h => by simp [mk] at h
  | f + 1, ci, force, d, h => by
    rw [mk_succ] at h ⊢
    cases hc : S.cls? ci with
    | none => simp [hc] at h
    | some c =>
      simp only [hc] at h ⊢
      have hk : ∀ a y, kwStep S f a = some y → kwStep S (f + 1) a = some y := by
        intro a y hy
        unfold kwStep at hy ⊢
        cases hkind : a.kind <;> simp only [hkind] at hy ⊢ <;> try exact hy
        rename_i t
        cases hm : mk S f t none with
        | none => simp [hm] at hy
        | some d' => rw [mk_mono S f t none d' hm]; rw [hm] at hy; exact hy
      have ha : ∀ a y, argStep S f a = some y → argStep S (f + 1) a = some y := by
        intro a y hy
        unfold argStep at hy ⊢
        cases hkind : a.kind <;> simp only [hkind] at hy ⊢ <;> try exact hy
        rename_i t
        exact mk_mono S f t none y hy
      cases h1 : (kwAttrs c force).mapM (kwStep S f) with
      | none => simp [h1] at h
      | some kw =>
        cases h2 : (memberAttrs c force).mapM (argStep S f) with
        | none => simp [h1, h2] at h
        | some args =>
          simp only [h1, h2] at h
          rw [mapM_option_mono _ _ hk _ kw h1, mapM_option_mono _ _ ha _ args h2]
          exact h

/-- `t` is the class of a sub-aggregate or of a repeated member of some class -/
def Target (S : Schema) (t : Nat) : Prop :=
  ∃ c ∈ S.classes, ∃ a ∈ c.spec, a.kind = .sub t ∨ a.kind = .listAgg t

theorem mem_of_head?_toList {α} (l : List α) (a : α) (h : a ∈ l.head?.toList) : a ∈ l := by
  cases l with
  | nil => simp at h
  | cons x r => simp at h; simp [h]

theorem memberAttrs_subset (c : Cls) (force : Option Str) : ∀ a ∈ memberAttrs c force, a ∈ c.spec := by
  intro a ha
  unfold memberAttrs at ha
  simp only [List.mem_append] at ha
  rcases ha with ha | ha
  · exact (List.mem_filter.mp (List.mem_filter.mp ha).1).1
  · split at ha
    · split at ha
      · simp at ha
      · cases hf : (c.spec.filter (fun a => a.kind.isList)).find? (fun a => (s "tax1099").isPrefixOf a.name) with
        | none => simp [hf] at ha
        | some b =>
          simp only [hf, Option.toList_some, List.mem_singleton] at ha
          subst ha
          exact (List.mem_filter.mp (List.mem_of_find?_eq_some hf)).1
    · split at ha
      · exact (List.mem_filter.mp (mem_of_head?_toList _ _ ha)).1
      · simp at ha

/-- a description `mk` returns is a call of the asked class whose arguments are values or the minimal descriptions
    (at the same depth bound) of their classes -/
theorem mk_children (S : Schema) (F ci : Nat) (force : Option Str) (d : Node) (h : mk S F ci force = some d) :
    ∃ kw args, d = .agg ci kw args ∧
      (∀ k v, (k, v) ∈ kw → (∃ x, v = .val x) ∨ ∃ t, Target S t ∧ mk S F t none = some v) ∧
      (∀ m ∈ args, (∃ x, m = .val x) ∨ ∃ t, Target S t ∧ mk S F t none = some m) := by
  cases F with
  | zero => simp [mk] at h
  | succ f =>
    rw [mk_succ] at h
    cases hc : S.cls? ci with
    | none => simp [hc] at h
    | some c =>
      simp only [hc] at h
      have hcm : c ∈ S.classes := List.mem_of_getElem? hc
      cases h1 : (kwAttrs c force).mapM (kwStep S f) with
      | none => simp [h1] at h
      | some kw =>
        cases h2 : (memberAttrs c force).mapM (argStep S f) with
        | none => simp [h1, h2] at h
        | some args =>
          simp only [h1, h2, Option.some.injEq] at h
          refine ⟨kw, args, h.symm, ?_, ?_⟩
          · intro k v hm
            obtain ⟨a, hamem, hstep⟩ := mapM_option_mem _ _ kw h1 (k, v) hm
            have haspec : a ∈ c.spec := kwAttrs_subset c force a hamem
            unfold kwStep at hstep
            cases hkind : a.kind <;> simp only [hkind] at hstep <;>
              first
              | (cases hcv : canonVal S.enums a.kind with
                 | none => rw [hkind] at hcv; simp [hcv] at hstep
                 | some x =>
                   rw [hkind] at hcv; simp only [hcv, Option.map_some, Option.some.injEq, Prod.mk.injEq] at hstep
                   exact Or.inl ⟨x, hstep.2.symm⟩)
              | (rename_i t
                 cases hm' : mk S f t none with
                 | none => simp [hm'] at hstep
                 | some d' =>
                   simp only [hm', Option.map_some, Option.some.injEq, Prod.mk.injEq] at hstep
                   exact Or.inr ⟨t, ⟨c, hcm, a, haspec, Or.inl hkind⟩, by rw [← hstep.2]; exact mk_mono S f t none d' hm'⟩)
          · intro m hm
            obtain ⟨a, hamem, hstep⟩ := mapM_option_mem _ _ args h2 m hm
            have haspec : a ∈ c.spec := memberAttrs_subset c force a hamem
            unfold argStep at hstep
            cases hkind : a.kind <;> simp only [hkind] at hstep <;>
              first
              | (cases hcv : canonVal S.enums a.kind with
                 | none => rw [hkind] at hcv; simp [hcv] at hstep
                 | some x =>
                   rw [hkind] at hcv; simp only [hcv, Option.map_some, Option.some.injEq] at hstep
                   exact Or.inl ⟨x, hstep.symm⟩)
              | (rename_i t
                 exact Or.inr ⟨t, ⟨c, hcm, a, haspec, Or.inr hkind⟩, mk_mono S f t none m hstep⟩)

theorem applyArgs_length (S : Schema) (cv : Conv) (c : Cls) (args items : List Node)
    (h : applyArgs S cv c args = .ok items) : items.length = args.length := by
  unfold applyArgs at h
  split at h
  · split at h
    · split at h
      · exact mapM_length _ args items h
      · simp at h
    · simp at h
  · exact mapM_length _ args items h

/-! ### a description all of whose calls are accepted on stubs is accepted -/

section
variable (S : Schema) (cv : Conv) (F : Nat)
  (htab : ∀ t d, Target S t → mk S F t none = some d → CallOk S cv d)

/-- `d` is a value or the minimal description (at depth `F`) of a class that occurs as a child's class -/
def GoodDesc (d : Node) : Prop := (∃ x, d = .val x) ∨ ∃ t, Target S t ∧ mk S F t none = some d

include htab

mutual
  theorem build_good : ∀ (d : Node), GoodDesc S F d → ∃ n, build S cv d = .ok n ∧ Sim (stubDesc d) n
    | .val v, _ => ⟨.val v, rfl, .val v⟩
    | .agg t kw args, hg => by
      rcases hg with ⟨x, hx⟩ | ⟨t', htgt, hmk⟩
      · cases hx
      · obtain ⟨kw0, args0, hd, hkwG, hargsG⟩ := mk_children S F t' none _ hmk
        injection hd with ht hkw0 hargs0
        subst ht hkw0 hargs0
        have hcall := htab t _ htgt hmk
        obtain ⟨n0, hn0⟩ := hcall
        obtain ⟨kw', hkw', hks⟩ := buildKw_good kw (fun k v hm => hkwG k v hm)
        obtain ⟨args', hargs', has⟩ := buildArgs_good args (fun m hm => hargsG m hm)
        obtain ⟨f0, i0, f', i', _, hcon, _, hii⟩ := construct_sim S cv t has hks n0 hn0
        refine ⟨.agg t f' i', by simp only [build, hkw', hargs']; exact hcon, ?_⟩
        simp only [stubDesc]
        refine .agg t _ _ _ _ ?_
        -- the instance has members exactly when the description has
        obtain ⟨c, _, items0, _, _, _, happ, _, hn⟩ := (construct_ok_iff S cv t _ _ _).mp hcon
        have hi : i' = items0 := by injection hn
        have hlen : i'.length = args'.length := by
          rw [hi]; exact applyArgs_length S cv c args' items0 happ
        have hlen2 : args'.length = args.length := by
          have := has.length
          simp at this
          exact this.symm
        cases args with
        | nil => cases i' with
          | nil => rfl
          | cons _ _ => simp only [List.length_cons, List.length_nil] at hlen hlen2; omega
        | cons _ _ => cases i' with
          | nil => simp only [List.length_cons, List.length_nil] at hlen hlen2; omega
          | cons _ _ => rfl
  theorem buildKw_good : ∀ (kw : List (Str × Node)), (∀ k v, (k, v) ∈ kw → GoodDesc S F v) →
      ∃ kw', buildKw S cv kw = .ok kw' ∧ KwSim (stubKw kw) kw'
    | [], _ => ⟨[], rfl, .nil⟩
    | (k, v) :: r, h => by
      obtain ⟨n, hn, hs⟩ := build_good v (h k v (by simp))
      obtain ⟨r', hr', hrs⟩ := buildKw_good r (fun k' v' hm => h k' v' (by simp [hm]))
      exact ⟨(k, n) :: r', by simp only [buildKw, hn, hr'], .cons hs hrs⟩
  theorem buildArgs_good : ∀ (args : List Node), (∀ m ∈ args, GoodDesc S F m) →
      ∃ args', buildArgs S cv args = .ok args' ∧ ArgsSim (args.map stubDesc) args'
    | [], _ => ⟨[], rfl, .nil⟩
    | v :: r, h => by
      obtain ⟨n, hn, hs⟩ := build_good v (h v (by simp))
      obtain ⟨r', hr', hrs⟩ := buildArgs_good r (fun m hm => h m (by simp [hm]))
      exact ⟨n :: r', by simp only [buildArgs, hn, hr'], .cons hs hrs⟩
end

end

end Ofx.Agg
