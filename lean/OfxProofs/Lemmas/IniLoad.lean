/-
Lemmas for C18 (persistence through the file): what reading the written text does to the parser content
(`loadRaw1`, from `Lemmas/IniRead.lean`), expressed (a) as the configuration that was written and (b) as the
API-level `Ini.loadFile … toFile` of `Ofx/Ofxget.lean`.
-/
import OfxProofs.Lemmas.IniRead

set_option linter.unusedSimpArgs false

namespace Ofx.IniText
open Ofx Ofx.Ofxget

/-! ### association lists -/

theorem lookup_none_of_not_mem_keys {β : Type} (m : List (Name × β)) (k : Name) (h : k ∉ m.map (·.1)) :
    m.lookup k = none := by
  cases hl : m.lookup k with
  | none => rfl
  | some v => exact absurd ((mem_keys_iff_lookup m k).mpr (by rw [hl]; rfl)) h

theorem mapSet_absent {β : Type} (k : Name) (v : β) (m : List (Name × β)) (h : k ∉ m.map (·.1)) :
    mapSet k v m = m ++ [(k, v)] := by
  induction m with
  | nil => rfl
  | cons a rest ih =>
    obtain ⟨a1, a2⟩ := a
    have h' : k ≠ a1 ∧ k ∉ rest.map (·.1) := by simpa using h
    have hb : (a1 == k) = false := by simpa using fun e : a1 = k => h'.1 e.symm
    simp [mapSet, hb, ih h'.2]

theorem mapSet_append_single {β : Type} (k : Name) (v x : β) (m : List (Name × β)) (h : k ∉ m.map (·.1)) :
    mapSet k v (m ++ [(k, x)]) = m ++ [(k, v)] := by
  induction m with
  | nil => simp [mapSet]
  | cons a rest ih =>
    obtain ⟨a1, a2⟩ := a
    have h' : k ≠ a1 ∧ k ∉ rest.map (·.1) := by simpa using h
    have hb : (a1 == k) = false := by simpa using fun e : a1 = k => h'.1 e.symm
    simp [mapSet, hb, ih h'.2]

/-- assigning distinct new keys one after the other appends them in order -/
theorem foldl_mapSet_nodup (kvs pre : Sect) (hnd : (kvs.map (·.1)).Nodup)
    (hdis : ∀ kv ∈ kvs, kv.1 ∉ pre.map (·.1)) :
    kvs.foldl (fun s kv => mapSet kv.1 kv.2 s) pre = pre ++ kvs := by
  induction kvs generalizing pre with
  | nil => simp
  | cons kv rest ih =>
    have hnd' : kv.1 ∉ rest.map (·.1) ∧ (rest.map (·.1)).Nodup := by simpa using hnd
    simp only [List.foldl_cons]
    rw [mapSet_absent _ _ _ (hdis kv (by simp)), ih _ hnd'.2]
    · simp
    · intro x hx hm
      simp only [List.map_append, List.map_cons, List.map_nil, List.mem_append, List.mem_singleton] at hm
      rcases hm with hm | hm
      · exact hdis x (by simp [hx]) hm
      · exact hnd'.1 (by rw [← hm]; exact List.mem_map_of_mem hx)

/-! ### `cursect[key] = value`, repeated -/

/-- the parser has a dict for `name` -/
def HasSect (I : Ini) (name : Str) : Prop := name = defaultSect ∨ (I.sections.lookup name).isSome = true

theorem setSect_getSect (I : Ini) (name : Str) (h : HasSect I name) : setSect I name (getSect I name) = I := by
  unfold setSect getSect
  by_cases hd : name = defaultSect
  · simp [hd]
  · have hdb : (name == defaultSect) = false := by simpa using hd
    simp only [hdb, Bool.false_eq_true, if_false, Ini.sect]
    rcases h with h | h
    · exact absurd h hd
    · cases hl : I.sections.lookup name with
      | none => rw [hl] at h; cases h
      | some x => simp [mapSet_of_lookup name x I.sections hl]

theorem getSect_setSect (I : Ini) (name : Str) (s : Sect) : getSect (setSect I name s) name = s := by
  unfold setSect getSect
  by_cases hd : name = defaultSect
  · simp [hd]
  · have hdb : (name == defaultSect) = false := by simpa using hd
    simp [hdb, Ini.sect, lookup_mapSet_self]

theorem setSect_setSect (I : Ini) (name : Str) (s s' : Sect) : setSect (setSect I name s) name s' = setSect I name s' := by
  unfold setSect
  by_cases hd : name = defaultSect
  · simp [hd]
  · have hdb : (name == defaultSect) = false := by simpa using hd
    simp [hdb, mapSet_mapSet]

theorem hasSect_setSect (I : Ini) (name : Str) (s : Sect) : HasSect (setSect I name s) name := by
  unfold HasSect setSect
  by_cases hd : name = defaultSect
  · exact Or.inl hd
  · have hdb : (name == defaultSect) = false := by simpa using hd
    right
    simp [hdb, lookup_mapSet_self]

theorem foldl_set (kvs : Sect) (I : Ini) (name : Str) (h : HasSect I name) (hlow : ∀ kv ∈ kvs, lower kv.1 = kv.1) :
    kvs.foldl (fun I kv => I.set name kv.1 kv.2) I =
      setSect I name (kvs.foldl (fun s kv => mapSet kv.1 kv.2 s) (getSect I name)) := by
  induction kvs generalizing I with
  | nil => simp [setSect_getSect I name h]
  | cons kv rest ih =>
    simp only [List.foldl_cons]
    rw [set_eq_setSect I name kv.1 kv.2 (hlow kv (by simp)),
      ih _ (hasSect_setSect _ _ _) (fun x hx => hlow x (by simp [hx])), getSect_setSect, setSect_setSect]

theorem hasSect_ensureRaw (I : Ini) (name : Str) : HasSect (ensureRaw I name) name := by
  unfold ensureRaw HasSect
  by_cases hd : name = defaultSect
  · exact Or.inl hd
  · right
    have hdb : (name == defaultSect) = false := by simpa using hd
    cases hl : (I.sections.lookup name).isSome with
    | true => simp [hl]
    | false =>
      simp only [hl, hdb, Bool.or_self, Bool.false_eq_true, if_false]
      rw [lookup_append_single]
      simp

/-- the section as it stands plus the assignments, put back: what `loadRaw1` comes to -/
theorem loadRaw1_eq (I : Ini) (sec : Str × Sect) (hlow : ∀ kv ∈ sec.2, lower kv.1 = kv.1) :
    loadRaw1 I sec = setSect I sec.1 (sec.2.foldl (fun s kv => mapSet kv.1 kv.2 s) (getSect I sec.1)) := by
  unfold loadRaw1
  rw [foldl_set sec.2 _ sec.1 (hasSect_ensureRaw I sec.1) hlow]
  unfold ensureRaw
  by_cases hp : ((I.sections.lookup sec.1).isSome || sec.1 == defaultSect) = true
  · simp only [hp, if_true]
  · have hp' : ((I.sections.lookup sec.1).isSome || sec.1 == defaultSect) = false := by
      cases h : ((I.sections.lookup sec.1).isSome || sec.1 == defaultSect) with
      | false => rfl
      | true => exact absurd h hp
    simp only [hp', Bool.false_eq_true, if_false]
    simp only [Bool.or_eq_false_iff] at hp'
    obtain ⟨hl, hdb⟩ := hp'
    have hnone : I.sections.lookup sec.1 = none := by
      cases h : I.sections.lookup sec.1 with
      | none => rfl
      | some x => rw [h] at hl; cases hl
    have hnm : sec.1 ∉ I.sections.map (·.1) := by
      intro hm
      have := (mem_keys_iff_lookup I.sections sec.1).mp hm
      rw [hnone] at this
      cases this
    unfold setSect getSect
    simp only [hdb, Bool.false_eq_true, if_false, Ini.sect]
    rw [lookup_append_single, hnone]
    simp only [if_true, Option.none_or, Option.getD_some, Option.getD_none]
    rw [mapSet_append_single _ _ _ _ hnm, mapSet_absent _ _ _ hnm]

/-! ### (a) on a fresh parser: the configuration that was written -/

theorem iniClean_spec (c : Ini) (h : iniClean c = true) :
    cleanSect c.defaults = true ∧
      (∀ s ∈ c.sections, cleanName s.1 = true ∧ s.1 ≠ defaultSect ∧ cleanSect s.2 = true) ∧
      (c.sections.map (·.1)).Nodup := by
  simp only [iniClean, Bool.and_eq_true, List.all_eq_true, decide_eq_true_eq, bne_iff_ne, ne_eq] at h
  exact ⟨h.1.1, fun s hs => ⟨(h.1.2 s hs).1.1, (h.1.2 s hs).1.2, (h.1.2 s hs).2⟩, h.2⟩

theorem cleanSect_lower (s : Sect) (h : cleanSect s = true) : ∀ kv ∈ s, lower kv.1 = kv.1 := by
  intro kv hkv
  obtain ⟨_, _, _, _, _, _, _, hlow, _⟩ := cleanKey_spec kv.1 ((cleanSect_spec s h).1 kv hkv).1
  exact hlow

theorem foldl_loadRaw1_sections (ss pre : List (Str × Sect)) (d : Sect) (hnd : (ss.map (·.1)).Nodup)
    (hdis : ∀ s ∈ ss, s.1 ∉ pre.map (·.1)) (hnodef : ∀ s ∈ ss, s.1 ≠ defaultSect)
    (hsec : ∀ s ∈ ss, cleanSect s.2 = true) :
    ss.foldl loadRaw1 ⟨d, pre⟩ = ⟨d, pre ++ ss⟩ := by
  induction ss generalizing pre with
  | nil => simp
  | cons s rest ih =>
    have hnd' : s.1 ∉ rest.map (·.1) ∧ (rest.map (·.1)).Nodup := by simpa using hnd
    have hsd : (s.1 == defaultSect) = false := by simpa using hnodef s (by simp)
    have habs := hdis s (by simp)
    have h1 : loadRaw1 ⟨d, pre⟩ s = ⟨d, pre ++ [s]⟩ := by
      rw [loadRaw1_eq _ s (cleanSect_lower s.2 (hsec s (by simp)))]
      unfold setSect getSect
      simp only [hsd, Bool.false_eq_true, if_false, Ini.sect, lookup_none_of_not_mem_keys pre s.1 habs,
        Option.getD_none]
      rw [foldl_mapSet_nodup s.2 [] (cleanSect_spec s.2 (hsec s (by simp))).2 (by simp), mapSet_absent _ _ _ habs]
      simp
    simp only [List.foldl_cons, h1]
    rw [ih (pre ++ [s]) hnd'.2 ?_ (fun x hx => hnodef x (by simp [hx])) (fun x hx => hsec x (by simp [hx]))]
    · simp
    · intro x hx hm
      simp only [List.map_append, List.map_cons, List.map_nil, List.mem_append, List.mem_singleton] at hm
      rcases hm with hm | hm
      · exact hdis x (by simp [hx]) hm
      · exact hnd'.1 (by rw [← hm]; exact List.mem_map_of_mem hx)

/-- reading the written sections into a fresh parser rebuilds the configuration -/
theorem fileOf_load_empty (c : Ini) (h : iniClean c = true) : (fileOf c).foldl loadRaw1 Ini.empty = c := by
  obtain ⟨hd, hs, hnd⟩ := iniClean_spec c h
  obtain ⟨d, ss⟩ := c
  unfold fileOf
  rw [List.foldl_append]
  have hA : (if d.isEmpty then [] else [(defaultSect, d)]).foldl loadRaw1 Ini.empty = ⟨d, []⟩ := by
    cases d with
    | nil => rfl
    | cons kv rest =>
      simp only [List.isEmpty_cons, Bool.false_eq_true, if_false, List.foldl_cons, List.foldl_nil]
      rw [loadRaw1_eq _ _ (cleanSect_lower _ hd)]
      unfold setSect getSect
      simp only [BEq.rfl, if_true, Ini.empty]
      rw [foldl_mapSet_nodup _ [] (cleanSect_spec _ hd).2 (by simp)]
      simp
  simp only at hA ⊢
  rw [hA, foldl_loadRaw1_sections ss [] d hnd (by simp) (fun s hs' => (hs s hs').2.1) (fun s hs' => (hs s hs').2.2)]
  simp

/-! ### (b) on any parser: the API-level `loadFile … toFile` -/

def loadStep (c : Ini) (sec : Str × List (Str × Str)) : Ini :=
  if sec.1 == defaultSect then { c with defaults := sectUpdate c.defaults sec.2 }
  else { c with sections := mapSet sec.1 (sectUpdate (c.sect sec.1) sec.2) c.sections }

theorem loadFile_eq_foldl (c : Ini) (f : FileC) : c.loadFile f = f.foldl loadStep c := rfl

theorem loadStep_eq (I : Ini) (sec : Str × List (Str × Str)) :
    loadStep I sec = setSect I sec.1 (sectUpdate (getSect I sec.1) sec.2) := by
  unfold loadStep setSect getSect
  split <;> rfl

theorem sectUpdate_clean (s : Sect) (kvs : List (Str × Str)) (h : ∀ kv ∈ kvs, lower kv.1 = kv.1 ∧ strip kv.2 = kv.2) :
    sectUpdate s kvs = kvs.foldl (fun s kv => mapSet kv.1 kv.2 s) s := by
  unfold sectUpdate
  induction kvs generalizing s with
  | nil => rfl
  | cons kv rest ih =>
    simp only [List.foldl_cons]
    rw [(h kv (by simp)).1, (h kv (by simp)).2]
    exact ih _ (fun x hx => h x (by simp [hx]))

theorem loadRaw1_eq_loadStep (I : Ini) (sec : Str × Sect) (h : ∀ kv ∈ sec.2, lower kv.1 = kv.1 ∧ strip kv.2 = kv.2) :
    loadRaw1 I sec = loadStep I sec := by
  rw [loadRaw1_eq I sec (fun kv hkv => (h kv hkv).1), loadStep_eq, sectUpdate_clean _ _ h]

theorem valuesStripped_spec (c : Ini) (h : valuesStripped c = true) :
    (∀ kv ∈ c.defaults, strip kv.2 = kv.2) ∧ ∀ s ∈ c.sections, ∀ kv ∈ s.2, strip kv.2 = kv.2 := by
  simp only [valuesStripped, Bool.and_eq_true, List.all_eq_true] at h
  exact ⟨fun kv hkv => strip_edgeClean _ (h.1 kv hkv), fun s hs kv hkv => strip_edgeClean _ (h.2 s hs kv hkv)⟩

/-- reading the written sections into any parser is the API-level `loadFile` of the API-level file content -/
theorem fileOf_load (c0 c : Ini) (h : iniClean c = true) (hv : valuesStripped c = true) :
    (fileOf c).foldl loadRaw1 c0 = c0.loadFile c.toFile := by
  obtain ⟨hd, hs, _⟩ := iniClean_spec c h
  obtain ⟨hvd, hvs⟩ := valuesStripped_spec c hv
  have hfold : ∀ (f : List (Str × Sect)) (I : Ini),
      (∀ sec ∈ f, ∀ kv ∈ sec.2, lower kv.1 = kv.1 ∧ strip kv.2 = kv.2) → f.foldl loadRaw1 I = f.foldl loadStep I := by
    intro f
    induction f with
    | nil => intro I _; rfl
    | cons sec rest ih =>
      intro I hf
      simp only [List.foldl_cons]
      rw [loadRaw1_eq_loadStep I sec (hf sec (by simp)), ih _ (fun x hx => hf x (by simp [hx]))]
  have hsec : ∀ sec ∈ c.sections, ∀ kv ∈ sec.2, lower kv.1 = kv.1 ∧ strip kv.2 = kv.2 :=
    fun sec hsec kv hkv => ⟨cleanSect_lower _ (hs sec hsec).2.2 kv hkv, hvs sec hsec kv hkv⟩
  rw [loadFile_eq_foldl]
  unfold fileOf Ini.toFile
  rw [List.foldl_append, List.foldl_cons]
  have hA : (if c.defaults.isEmpty then [] else [(defaultSect, c.defaults)]).foldl loadRaw1 c0 =
      loadStep c0 (defaultSect, c.defaults) := by
    cases hde : c.defaults with
    | nil =>
      simp only [List.isEmpty_nil, if_true, List.foldl_nil]
      unfold loadStep
      simp [sectUpdate]
    | cons kv rest =>
      simp only [List.isEmpty_cons, Bool.false_eq_true, if_false, List.foldl_cons, List.foldl_nil]
      apply loadRaw1_eq_loadStep
      intro x hx
      rw [← hde] at hx
      exact ⟨cleanSect_lower _ hd x hx, hvd x hx⟩
  rw [hA]
  exact hfold _ _ hsec

end Ofx.IniText
