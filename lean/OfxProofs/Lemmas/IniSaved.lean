/-
Lemmas for C18 (persistence through the file): what `mk_server_cfg` leaves in `USERCFG` is inside the guards of
the text round trip (`iniClean`, `valuesStripped`, `noCR`) when the configuration it started from is, the server
nickname is a clean section name, and every saved text is a stripped single line.
-/
import OfxProofs.Lemmas.IniLoad
import OfxProofs.Lemmas.OfxgetPersist

set_option linter.unusedSimpArgs false

namespace Ofx.IniText
open Ofx Ofx.Ofxget

/-! ### a property of every option and every section name -/

/-- every option `(k, v)` of every section satisfies `P`, every section name satisfies `Q` -/
def AllKV (P : Name → Str → Prop) (Q : Str → Prop) (c : Ini) : Prop :=
  (∀ kv ∈ c.defaults, P kv.1 kv.2) ∧ ∀ s ∈ c.sections, Q s.1 ∧ ∀ kv ∈ s.2, P kv.1 kv.2

theorem allKV_sect (P : Name → Str → Prop) (Q : Str → Prop) (c : Ini) (h : AllKV P Q c) (n : Str) :
    ∀ kv ∈ c.sect n, P kv.1 kv.2 := by
  unfold Ini.sect
  cases hl : c.sections.lookup n with
  | none => intro kv hkv; cases hkv
  | some x => exact (h.2 (n, x) (mem_of_lookup _ _ _ hl)).2

theorem allKV_set (P : Name → Str → Prop) (Q : Str → Prop) (c : Ini) (sect : Str) (k : Name) (v : Str)
    (h : AllKV P Q c) (hp : P (lower k) v) (hq : Q sect) : AllKV P Q (c.set sect k v) := by
  unfold Ini.set
  split
  · refine ⟨?_, h.2⟩
    intro kv hkv
    rcases mem_mapSet _ _ _ kv hkv with rfl | hkv
    · exact hp
    · exact h.1 kv hkv
  · refine ⟨h.1, ?_⟩
    intro s hs
    rcases mem_mapSet _ _ _ s hs with rfl | hs
    · refine ⟨hq, ?_⟩
      intro kv hkv
      rcases mem_mapSet _ _ _ kv hkv with rfl | hkv
      · exact hp
      · exact allKV_sect P Q c h sect kv hkv
    · exact h.2 s hs

theorem allKV_ensureSection (P : Name → Str → Prop) (Q : Str → Prop) (c : Ini) (s : Str) (hs : s ≠ defaultSect)
    (h : AllKV P Q c) (hq : Q s) : AllKV P Q (ensureSection c s) := by
  have hsf : (s == defaultSect) = false := by simpa using hs
  unfold ensureSection
  split
  · exact h
  · simp only [hsf, Bool.false_eq_true, if_false]
    refine ⟨h.1, ?_⟩
    intro x hx
    rcases List.mem_append.mp hx with hx | hx
    · exact h.2 x hx
    · simp only [List.mem_singleton] at hx
      subst hx
      exact ⟨hq, by intro kv hkv; cases hkv⟩

/-- `writeOpt` leaves the configuration alone or assigns what `arg2config` returned for the value in effect -/
theorem writeOpt_cases' (T : Tables) (args : Chain) (libCfg : Map) (server : Str) (cfg cfg' : Ini) (ot : Name × CfgTy)
    (h : writeOpt T args libCfg server cfg ot = .ok cfg') :
    cfg' = cfg ∨ ∃ v txt, args.get? ot.1 = some v ∧ arg2config ot.2 v = .ok txt ∧ cfg' = cfg.set server ot.1 txt := by
  unfold writeOpt at h
  cases hv : args.get? ot.1 with
  | none =>
    rw [hv] at h
    simp only [pure, Except.pure, Except.ok.injEq] at h
    exact Or.inl h.symm
  | some v =>
    rw [hv] at h
    simp only [bind, Except.bind] at h
    split at h
    · cases h
    · split at h
      · cases ha : arg2config ot.2 v with
        | error e => rw [ha] at h; cases h
        | ok txt =>
          rw [ha] at h
          simp only [pure, Except.pure, Except.ok.injEq] at h
          exact Or.inr ⟨v, txt, rfl, ha, h.symm⟩
      · simp only [pure, Except.pure, Except.ok.injEq] at h
        exact Or.inl h.symm

theorem mkServerCfg_allKV (P : Name → Str → Prop) (Q : Str → Prop) (T : Tables) (args : Chain) (mem lib : Ini)
    (disk : FileC) (uuid : Str) (cfg' : Ini) (s : Str) (hs : s ≠ defaultSect) (hnick : serverNick args = .ok s)
    (h : mkServerCfg T args mem lib disk uuid = .ok cfg')
    (hbase : AllKV P Q (reloadCfg mem disk uuid)) (hq : Q s)
    (hvals : ∀ ot ∈ T.configurable, ∀ v txt, args.get? ot.1 = some v → arg2config ot.2 v = .ok txt →
      P (lower ot.1) txt) :
    AllKV P Q cfg' := by
  unfold mkServerCfg at h
  simp only [bind, Except.bind, hnick] at h
  cases hlib : readConfig T lib s with
  | error e => rw [hlib] at h; cases h
  | ok libCfg =>
    rw [hlib] at h
    simp only at h
    refine foldlM_preserves (writeOpt T args libCfg s) (AllKV P Q) T.configurable ?_ _ cfg' h
      (allKV_ensureSection P Q _ s hs hbase hq)
    intro b a b' ha hf hb
    rcases writeOpt_cases' T args libCfg s b b' a hf with rfl | ⟨v, txt, hv, htxt, rfl⟩
    · exact hb
    · exact allKV_set P Q b s a.1 txt hb (hvals a ha v txt hv htxt) hq

/-! ### the three guards in that form -/

theorem iniClean_iff (c : Ini) :
    iniClean c = true ↔ Canon c ∧ AllKV (fun k v => cleanKey k = true ∧ cleanValue v = true) (fun n => cleanName n = true) c := by
  constructor
  · intro h
    obtain ⟨hd, hs, hnd⟩ := iniClean_spec c h
    obtain ⟨hdk, hdn⟩ := cleanSect_spec _ hd
    refine ⟨⟨⟨hdn, cleanSect_lower _ hd⟩, hnd, fun sec hsec => (hs sec hsec).2.1, ?_⟩, hdk, ?_⟩
    · intro sec hsec
      exact ⟨(cleanSect_spec _ (hs sec hsec).2.2).2, cleanSect_lower _ (hs sec hsec).2.2⟩
    · intro sec hsec
      exact ⟨(hs sec hsec).1, (cleanSect_spec _ (hs sec hsec).2.2).1⟩
  · rintro ⟨hc, hd, hs⟩
    simp only [iniClean, cleanSect, Bool.and_eq_true, List.all_eq_true, decide_eq_true_eq, bne_iff_ne, ne_eq]
    refine ⟨⟨⟨hd, hc.dflt.1⟩, ?_⟩, hc.names⟩
    intro sec hsec
    exact ⟨⟨(hs sec hsec).1, hc.nodef sec hsec⟩, (hs sec hsec).2, (hc.sects sec hsec).1⟩

theorem valuesStripped_iff (c : Ini) :
    valuesStripped c = true ↔ AllKV (fun _ v => edgeClean v = true) (fun _ => True) c := by
  simp only [valuesStripped, Bool.and_eq_true, List.all_eq_true, AllKV, true_and]

theorem noCR_iff (c : Ini) :
    noCR c = true ↔ AllKV (fun k v => '\r' ∉ k ∧ '\r' ∉ v) (fun n => '\r' ∉ n) c := by
  simp only [noCR, Bool.and_eq_true, List.all_eq_true, Bool.not_eq_true', List.contains_eq_mem,
    decide_eq_false_iff_not, AllKV]

/-! ### saved texts -/

/-- a text `arg2config` hands to `cfg[opt] = …` that survives the file: one line, no blank at either end, no
    carriage return -/
structure SavedOk (txt : Str) : Prop where
  stripped : strip txt = txt
  oneLine : '\n' ∉ txt
  noCr : '\r' ∉ txt

theorem nlLines_oneLine (s : Str) (h : '\n' ∉ s) : nlLines s = (s, []) := by
  induction s with
  | nil => rfl
  | cons c cs ih =>
    have hc : c ≠ '\n' := fun e => h (by simp [e])
    simp only [nlLines, hc, if_false, ih (fun hm => h (by simp [hm]))]

theorem cleanValue_of_savedOk (txt : Str) (h : SavedOk txt) : cleanValue txt = true := by
  have he := edgeClean_of_strip txt h.stripped
  unfold cleanValue
  simp only [nlLines_oneLine txt h.oneLine, he, List.all_nil, Bool.and_true, Bool.true_and]
  simp only [edgeClean, Bool.and_eq_true] at he
  exact he.2

theorem savedOk_str (s : Str) (h1 : strip s = s) (h2 : '\n' ∉ s) (h3 : '\r' ∉ s) (txt : Str)
    (h : arg2config .str (.str s) = .ok txt) : SavedOk txt := by
  simp only [arg2config, Except.ok.injEq] at h
  subst h
  exact ⟨h1, h2, h3⟩

theorem savedOk_bool (b : Bool) (txt : Str) (h : arg2config .bool (.bool b) = .ok txt) : SavedOk txt := by
  cases b <;> (simp only [arg2config, Except.ok.injEq] at h; subst h; exact ⟨by decide, by decide, by decide⟩)

theorem digitChar_facts : ∀ d, d < 10 → digitChar d ≠ '\n' ∧ digitChar d ≠ '\r' := by decide

theorem savedOk_int (i : Int) (txt : Str) (h : arg2config .int (.int i) = .ok txt) : SavedOk txt := by
  simp only [arg2config, pyStr, Except.ok.injEq] at h
  subst h
  obtain ⟨_, hd, hne⟩ := natDigitsAux_spec (i.natAbs + 1) i.natAbs (by omega)
  have hd' : ∀ d ∈ natDigits i.natAbs, d < 10 := hd
  have hne' : natDigits i.natAbs ≠ [] := hne
  have hnl : ∀ c ∈ (natDigits i.natAbs).map digitChar, c ≠ '\n' ∧ c ≠ '\r' := by
    intro c hc
    obtain ⟨d, hdm, rfl⟩ := List.mem_map.mp hc
    exact digitChar_facts d (hd' d hdm)
  unfold pyStrInt pyStrNat
  by_cases hneg : i < 0
  · simp only [hneg, if_true]
    have hs := strip_digits ['-'] (natDigits i.natAbs) hd' hne' (by decide)
    simp only [List.cons_append, List.nil_append] at hs
    refine ⟨hs, ?_, ?_⟩
    · intro hm
      rcases List.mem_cons.mp hm with e | hm
      · cases e
      · exact (hnl _ hm).1 rfl
    · intro hm
      rcases List.mem_cons.mp hm with e | hm
      · cases e
      · exact (hnl _ hm).2 rfl
  · simp only [hneg, if_false]
    have hs := strip_digits [] (natDigits i.natAbs) hd' hne' (by simp)
    simp only [List.nil_append] at hs
    exact ⟨hs, fun hm => (hnl _ hm).1 rfl, fun hm => (hnl _ hm).2 rfl⟩

theorem mem_join (sep : Str) (l : List Str) (c : Char) (h : c ∈ join sep l) : c ∈ sep ∨ ∃ m ∈ l, c ∈ m := by
  induction l with
  | nil => simp [join] at h
  | cons a rest ih =>
    cases rest with
    | nil => simp only [join] at h; exact Or.inr ⟨a, by simp, h⟩
    | cons b t =>
      simp only [join, List.mem_append] at h
      rcases h with (h | h) | h
      · exact Or.inr ⟨a, by simp, h⟩
      · exact Or.inl h
      · rcases ih h with h | ⟨m, hm, hc⟩
        · exact Or.inl h
        · exact Or.inr ⟨m, by simp [hm], hc⟩

theorem strip_join_clean (m0 : Str) (ms : List Str) (h : ∀ m ∈ m0 :: ms, CleanMember m) :
    strip (join ", ".toList (m0 :: ms)) = join ", ".toList (m0 :: ms) := by
  have hm0 := h m0 (by simp)
  cases hm : m0 with
  | nil => exact absurd hm hm0.nonempty
  | cons c rest =>
    obtain ⟨ml, hml, pre, hpre⟩ := join_last_member ms m0
    have hml' := h ml hml
    obtain ⟨pre2, d, hpd⟩ : ∃ pre2 d, ml = pre2 ++ [d] :=
      ⟨ml.dropLast, ml.getLast hml'.nonempty, (List.dropLast_concat_getLast hml'.nonempty).symm⟩
    have hhead : join ", ".toList (m0 :: ms) = c :: (rest ++ (join ", ".toList (m0 :: ms)).drop (m0.length)) := by
      cases ms with
      | nil => simp [join, hm]
      | cons m1 ms => simp [join, hm]
    rw [← hm]
    exact strip_of_ends _ c _ hhead (hm0.head c rest hm) d (pre ++ pre2) (by rw [hpre, hpd]; simp)
      (hml'.last d pre2 hpd)

theorem cleanChar_not_break (c : Char) (h : cleanChar c = true) : c ≠ '\n' ∧ c ≠ '\r' := by
  have h32 := (cleanChar_facts c h).2.2.2.1
  constructor
  · intro e; subst e; revert h32; decide
  · intro e; subst e; revert h32; decide

theorem savedOk_list (l : List Str) (hne : l ≠ []) (hl : ∀ m ∈ l, CleanMember m) (txt : Str)
    (h : arg2config .list (.list l) = .ok txt) : SavedOk txt := by
  simp only [arg2config, pyStr, Except.ok.injEq] at h
  subst h
  rw [writeList_clean l hne (fun m hm => (hl m hm).chars)]
  have hbr : ∀ c ∈ join ", ".toList l, c ≠ '\n' ∧ c ≠ '\r' := by
    intro c hc
    rcases mem_join _ _ _ hc with hc | ⟨m, hm, hc⟩
    · simp at hc
      rcases hc with rfl | rfl <;> decide
    · exact cleanChar_not_break c ((hl m hm).chars c hc)
  cases l with
  | nil => exact absurd rfl hne
  | cons m0 ms => exact ⟨strip_join_clean m0 ms hl, fun hm => (hbr _ hm).1 rfl, fun hm => (hbr _ hm).2 rfl⟩

end Ofx.IniText
