/-
Serializer layer theorems (`SER_*`), composed by the integrator into C01 (serialize_renders), C06 (version guard,
wire) and C11 (wire clause).

Forms: `serializeBody he close pretty t` — `close = true` is `ET.tostring(method="html")` (used for OFXv2 XML and for
OFXv1 SGML with end tags alike), `close = false` is `tostring_unclosed_elements`; `pretty` applies `utils.indent` first.
`he` is `HTML_EMPTY` (generated; every theorem holds for every list).
-/
import OfxProofs.Lemmas.Serialize

namespace Ofx.Serialize
open Ofx Ofx.Spec.Wire

/-! ## `_escape_cdata` -/

/-- `_escape_cdata` is a character-wise substitution -/
theorem SER_escape_charwise (s : Str) : escapeCdata s = s.flatMap escChar := escapeCdata_eq s

/-- for every string: the escaped string contains no `<`, no `>`, and every `&` in it starts `&amp;`, `&lt;` or `&gt;` -/
theorem SER_escape_no_raw (s : Str) :
    '<' ∉ escapeCdata s ∧ '>' ∉ escapeCdata s ∧
    ∀ pre post, escapeCdata s = pre ++ '&' :: post →
      (['a', 'm', 'p', ';'] <+: post ∨ ['l', 't', ';'] <+: post ∨ ['g', 't', ';'] <+: post) := by
  refine ⟨not_mem_escapeCdata_lt s, not_mem_escapeCdata_gt s, fun pre post e => ?_⟩
  have := ampOk_spec (ampOk_escapeCdata s) pre post e
  simpa [escAhead, List.isPrefixOf_iff_prefix, or_assoc] using this

/-- for every string: what `_escape_cdata` writes satisfies C11's wire clause for element data -/
theorem SER_escape_dataOk (s : Str) : dataOk (escapeCdata s) = true := dataOk_escapeCdata s

/-- data without markup characters is written as is -/
theorem SER_escapeTree_id (t : Tree) (h : ∀ d ∈ texts t, ∀ c ∈ d, c ≠ '&' ∧ c ≠ '<' ∧ c ≠ '>') : escapeTree t = t :=
  escapeTree_id_both.1 t h

/-! ## `indent` -/

/-- `indent` changes only whitespace-only / absent texts and tails (into whitespace): tags, children structure and
    non-blank texts are untouched, the text of a childless element (a leaf) is never touched.  All trees, all levels. -/
theorem SER_indent_frame (t : Tree) (level : Nat) : Frame t (indent t level) := indent_frame_both.1 t level

theorem SER_indent_tag (t : Tree) (level : Nat) : (indent t level).tag = t.tag := by
  cases t with
  | node tag x tl cs => by_cases h : cs.isEmpty = true <;> simp [indent, h, Tree.tag]

theorem SER_indent_leaf_text (tag : Str) (x tl : Option Str) (level : Nat) :
    (indent (.node tag x tl []) level).text = x := by
  simp [indent, Tree.text]

theorem SER_indent_nonblank_text (t : Tree) (level : Nat) (h : blank t.text = false) :
    (indent t level).text = t.text := by
  cases t with
  | node tag x tl cs =>
    simp only [Tree.text] at h
    by_cases hc : cs.isEmpty = true <;> simp [indent, hc, Tree.text, h]

/-! ## HTML_EMPTY, script, style -/

/-- if no tag of the tree lower-cases into `HTML_EMPTY ∪ {script, style}`, every element gets an end tag and every
    text and tail is escaped -/
theorem SER_html_empty_irrelevant (he : List Str) (t : Tree) (h : htmlSafe he t = true) :
    toStringHtml he t = toStringXml t := (html_eq_xml_both he).1 t h

example : htmlSafe ["br".toList, "base".toList]
    (.node "OFX".toList none none [.node "BR0".toList (some "x<y".toList) none []]) = true := by decide

/-- the guards of the theorems below follow from a condition on the list of tags alone (so that a Gen-obligation over
    the schema's class and attribute names discharges them for every tree `to_etree` builds) -/
theorem SER_guards_of_tags (he : List Str) (t : Tree)
    (h : ∀ tag ∈ tags t, tagOk tag = true ∧ isRaw (lower tag) = false ∧ he.contains (lower tag) = false) :
    tagsOk t = true ∧ htmlSafe he t = true ∧ rawFree t = true := by
  have := (guards_of_tags_both he).1 t h
  exact ⟨this.1, this.2, (htmlSafe_rawFree_both he).1 t this.2⟩

/-- `Trimmed` (used by `wireTree` / `DataWF`) says exactly `d.strip() == d` -/
theorem SER_trimmed_iff_strip (d : Str) : Trimmed d ↔ strip d = d := trimmed_iff_strip d

/-! ## C11 wire clause, html forms -/

/-- for every tree (any shape, any texts and tails) with tags `[A-Z0-9._]+` none of which is `script`/`style` up to
    case: in the written body every `<` starts a tag token and every `&` starts an entity — plain and pretty -/
theorem SER_wirelex_html (he : List Str) (t : Tree) (pretty : Bool)
    (htags : tagsOk t = true) (hraw : rawFree t = true) :
    wireLex (serializeBody he true pretty t) = true := by
  cases pretty with
  | false => exact (wireLex_html_both he).1 t htags hraw
  | true =>
    have hf := SER_indent_frame t 0
    have ht := frame_tags_both.1 t _ hf
    exact (wireLex_html_both he).1 _ (ht.1.trans htags) (ht.2.trans hraw)

/-- … and the data written for each element (the escaped text) satisfies the clause element-wise -/
theorem SER_wirelex_data (t : Tree) : ∀ d ∈ texts (escapeTree t), dataOk d = true := by
  rw [texts_escapeTree_both.1 t]
  intro d hd
  obtain ⟨x, _, rfl⟩ := List.mem_map.1 hd
  exact dataOk_escapeCdata x

example : tagsOk (.node "OFX".toList none none [.node "USERPASS".toList (some "p&a<ss>w".toList) none []]) = true
    ∧ rawFree (.node "OFX".toList none none [.node "USERPASS".toList (some "p&a<ss>w".toList) none []]) = true := by
  decide

/-! ## renderings: html forms (xml, sgml-closed) × (plain, pretty) -/

theorem html_renders_frame (he : List Str) (t t' : Tree) (hw : wireTree t = true) (hs : htmlSafe he t = true)
    (hf : Frame t t') : RenderingDoc (escapeTree t) (toStringHtml he t') := by
  obtain ⟨hp, htag, htx⟩ := wireTree_iff.1 hw
  obtain ⟨r, hr, e, hws⟩ := (html_rendering_both he).1 t t' hp htag hs htx hf
  exact ⟨r, _, hr, hws, e⟩

/-- plain: the html writer's output for a domain tree is a rendering of the tree with escaped texts -/
theorem SER_html_renders (he : List Str) (t : Tree) (hw : wireTree t = true) (hs : htmlSafe he t = true) :
    RenderingDoc (escapeTree t) (serializeBody he true false t) :=
  html_renders_frame he t t hw hs (frame_refl_both.1 t)

/-- pretty: the same after `indent` -/
theorem SER_html_pretty_renders (he : List Str) (t : Tree) (hw : wireTree t = true) (hs : htmlSafe he t = true) :
    RenderingDoc (escapeTree t) (serializeBody he true true t) :=
  html_renders_frame he t _ hw hs (SER_indent_frame t 0)

def exTree : Tree :=
  .node "OFX".toList none none
    [.node "SONRQ".toList none none [.node "USERPASS".toList (some "p&a<ss>w".toList) none [],
                                      .node "FI".toList none none []],
     .node "X.Y_1".toList (some "a b".toList) none []]

example : wireTree exTree = true ∧ htmlSafe ["br".toList, "base".toList, "link".toList] exTree = true := by decide

/-! ## renderings: sgml-unclosed × (plain, pretty) -/

/-- `xml.sax.saxutils.escape`, which `tostring_unclosed_elements` applies to element data, is the same function as
    `ET._escape_cdata` (the replacement order `& > <` vs `& < >` does not matter; `>` is escaped by both) -/
theorem SER_saxEscape_eq (s : Str) : saxEscape s = escapeCdata s := saxEscape_eq s

/-- full strength: like the html forms -/
def SER_unclosed_renders_full : Prop :=
  ∀ (he : List Str) (t : Tree) (pretty : Bool), wireTree t = true →
    RenderingDoc (escapeTree t) (serializeBody he false pretty t)

theorem rendering_agg_length {tag s : Str} {cs : List Tree} (h : Rendering (.node tag none none cs) s) :
    2 * tag.length + 5 ≤ s.length := by
  cases h with
  | agg t cs w s' _ _ _ => simp [Spec.Wire.startTag, Spec.Wire.endTag]; omega

/-- a childless aggregate gets no end tag (`<A>` is not a rendering of the aggregate `A`) -/
theorem SER_unclosed_empty_aggregate_not_rendered :
    ¬ RenderingDoc (escapeTree (.node ['A'] none none [])) (serializeBody [] false false (.node ['A'] none none [])) := by
  rintro ⟨r, w, hr, _, e⟩
  have e1 : escapeTree (.node ['A'] none none []) = .node ['A'] none none [] := by
    simp [escapeTree, escapeTreeList]
  rw [e1] at hr
  have hl := rendering_agg_length hr
  have e2 : serializeBody [] false false (.node ['A'] none none []) = ['<', 'A', '>'] := by
    simp [serializeBody, toStringUnclosed, startTag, orEmpty, saxEscape_eq, escapeCdata_nil]
  rw [e2] at e
  have := congrArg List.length e
  simp at this hl
  omega

/-- … so the full statement is false on the pinned tree (known finding `unclosed_empty_aggregate_no_end_tag`) -/
theorem SER_unclosed_renders_full_false : ¬ SER_unclosed_renders_full := fun h =>
  SER_unclosed_empty_aggregate_not_rendered (h [] (.node ['A'] none none []) false (by decide))

/-- the guard `tostring_unclosed_elements` still needs: no childless aggregate -/
def unclosedGuard (t : Tree) : Bool := !hasEmptyAgg t

/-- under the guard, plain and pretty, for ALL leaf data: the output is a rendering of the tree with escaped texts,
    exactly as for the html forms -/
theorem SER_unclosed_renders_partial (he : List Str) (t : Tree) (pretty : Bool)
    (hw : wireTree t = true) (hg : unclosedGuard t = true) :
    RenderingDoc (escapeTree t) (serializeBody he false pretty t) := by
  obtain ⟨hp, htag, htx⟩ := wireTree_iff.1 hw
  simp only [unclosedGuard, Bool.not_eq_true'] at hg
  have key : ∀ t', Frame t t' → RenderingDoc (escapeTree t) (toStringUnclosed t') := by
    intro t' hf
    obtain ⟨r, hr, e, hws⟩ := unclosed_rendering_both.1 t t' hp htag hg htx hf
    exact ⟨r, _, hr, hws, e⟩
  cases pretty with
  | false => exact key t (frame_refl_both.1 t)
  | true => exact key _ (SER_indent_frame t 0)

def exTreeU : Tree :=
  .node "OFX".toList none none
    [.node "SONRQ".toList none none [.node "USERPASS".toList (some "p&a<ss>w".toList) none []],
     .node "X.Y_1".toList (some "a b".toList) none []]

example : wireTree exTreeU = true ∧ unclosedGuard exTreeU = true := by decide

/-! ## C11 wire clause, unclosed form -/

/-- full strength over arbitrary element trees (any tails) -/
def SER_wirelex_unclosed_full : Prop :=
  ∀ (he : List Str) (t : Tree) (pretty : Bool), tagsOk t = true → wireLex (serializeBody he false pretty t) = true

/-- false only because tails are written raw (`<A>x` followed by the tail `&`); no tree `to_etree` builds, and no
    tree `indent` makes of one, has such a tail -/
theorem SER_wirelex_unclosed_full_false : ¬ SER_wirelex_unclosed_full := by
  intro h
  have := h [] (.node ['A'] (some ['x']) (some ['&']) []) false (by decide)
  revert this
  decide

/-- for every tree whose tails are wire-safe (absent, whitespace, …), whatever its shape and texts — childless
    aggregates included —, plain and pretty: every `<` of the body starts a tag token, every `&` an entity -/
theorem SER_wirelex_unclosed_partial (he : List Str) (t : Tree) (pretty : Bool)
    (htags : tagsOk t = true) (htails : tailsOk t = true) :
    wireLex (serializeBody he false pretty t) = true := by
  cases pretty with
  | false => exact wireLex_unclosed_both.1 t htags htails
  | true =>
    have hf := SER_indent_frame t 0
    have ht := frame_tags_both.1 t _ hf
    exact wireLex_unclosed_both.1 _ (ht.1.trans htags) (frame_tailsOk_both.1 t _ hf htails)

/-- in particular for every tree as `to_etree` builds it, with arbitrary leaf texts -/
theorem SER_wirelex_unclosed (he : List Str) (t : Tree) (pretty : Bool)
    (hp : parserShaped t = true) (htags : tagsOk t = true) :
    wireLex (serializeBody he false pretty t) = true :=
  SER_wirelex_unclosed_partial he t pretty htags (parserShaped_tailsOk_both.1 t hp)

example : parserShaped exTreeU = true ∧ tagsOk exTreeU = true ∧ tailsOk exTreeU = true := by decide

/-! ## `OFXClient.serialize`: version guard and assembly -/

/-- versions 2xx refuse to omit end tags -/
theorem SER_serialize_v2_unclosed (he : List Str) (hdr : Str) (v : Nat) (pretty : Bool) (t : Tree) (hv : v ≥ 200) :
    serialize he hdr v false pretty t = .error .value := by
  simp [serialize, hv]

/-- in every other configuration the result is the header followed by the body of the chosen form -/
theorem SER_serialize_ok (he : List Str) (hdr : Str) (v : Nat) (close pretty : Bool) (t : Tree)
    (h : close = true ∨ v < 200) :
    serialize he hdr v close pretty t = .ok (hdr ++ serializeBody he close pretty t) := by
  rcases h with rfl | h
  · simp [serialize]
  · have : ¬ v ≥ 200 := by omega
    simp [serialize, this]

end Ofx.Serialize
