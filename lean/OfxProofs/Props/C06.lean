/-
C06 — a composed request says exactly what the caller asked, in every configuration.

Model: `OfxModel/Ofx/Compose.lean` (request composition of `ofxtools/Client.py`, generic in the schema `S` and
the converters `cv`).  Spec: `OfxModel/Spec/Request.lean` (`RequestSpec`, a checker over a model instance).

Hypotheses of the generic theorems, all explicit:
  * `ReqWF S = true`      — the schema has the classes/attributes/kinds the client uses; for the generated schema
                            this is `Ofx.Gen.schema_reqWF` (kernel evaluation, re-checked when the schema changes);
  * `ConvOK cv Ptext`     — a successful conversion of a text satisfying `Ptext`, a bool, a datetime or `None`
                            returns the value itself (empty text ↦ `None`); `Ofx.Compose.conv_ok` proves it of
                            `Ofx.Types.conv` for `Ptext := EntityFree` (no entity spelling `String.convert` would
                            rewrite — without that guard the statement is false: `C06_compose_full_false`);
  * `uuidStream` injective, never empty, `Ptext` (what `uuid4` is assumed to deliver).
-/
import OfxProofs.Lemmas.Compose

namespace Ofx.C06
open Ofx Ofx.Compose Ofx.Agg Ofx.Spec.Request

/-- **C06_group** — the core list lemma, for any list, any key and any total order on keys:
    `groupby(sorted(l, key), key)` has one group per key that occurs, with strictly increasing keys, and the group of
    key `k` is the subsequence of `l` with key `k` in original order. -/
theorem C06_group {α κ : Type} [DecidableEq κ] (le : κ → κ → Bool) (key : α → κ) (h : IsOrder le) (l : List α) :
    ((groupBy key (sortBy le key l)).map (·.1)).Pairwise (fun a b => le a b = true ∧ a ≠ b) ∧
    (∀ k g, (k, g) ∈ groupBy key (sortBy le key l) → g ≠ [] ∧ g = l.filter (fun x => decide (key x = k))) ∧
    (∀ x ∈ l, ∃ g, (key x, g) ∈ groupBy key (sortBy le key l)) :=
  group_sort le key h l

/-- the order on request class names used by `sorted(requests, key=class name)` is a total order -/
theorem rkind_order : IsOrder RKind.le where
  refl := by intro a; cases a <;> decide
  total := by intro a b; cases a <;> cases b <;> decide
  trans := by intro a b c; cases a <;> cases b <;> cases c <;> decide
  antisymm := by intro a b; cases a <;> cases b <;> decide

/-- likewise for `trnrqs.sort(key=message-set class name)` -/
theorem msgset_order : IsOrder MsgSet.le where
  refl := by intro a; cases a <;> decide
  total := by intro a b; cases a <;> cases b <;> decide
  trans := by intro a b c; cases a <;> cases b <;> cases c <;> decide
  antisymm := by intro a b; cases a <;> cases b <;> decide

example : sortBy RKind.le Req.kind [.stmt none none none none none, .ccStmt none none none none,
    .stmt (some ['x']) none none none none] =
    [.ccStmt none none none none, .stmt none none none none none, .stmt (some ['x']) none none none none] := by
  decide

/-- **C06_signon** — exact field placement of the sign-on, for every configuration: the `SIGNONMSGSRQV1` that
    `signon` returns holds one `SONRQ` with exactly the supplied user id, password, language, application id and
    version and DTCLIENT; FI iff ORG is set (with ORG and FID as configured); CLIENTUID iff configured and the version
    is ≥ 103; nothing else. -/
theorem C06_signon {S : Schema} {cv : Conv} {Ptext : Str → Prop} (hS : ReqWF S = true) (hcv : ConvOK cv Ptext)
    (cfg : Cfg) (userpass : Str) (userid : Option Str) (dtclient : DT)
    (htexts : ∀ s ∈ cfg.texts, Ptext s) (hpw : Ptext userpass) (huid : ∀ s, userid = some s → Ptext s)
    {so : Node} (h : signon S cv cfg userpass userid dtclient = .ok so) :
    signonClauses S cfg (orDefault userid cfg.userid) userpass dtclient so = [] :=
  (signon_spec hS hcv cfg userpass userid dtclient htexts hpw huid h).1

/-- the two clauses named in the property, spelled out -/
theorem C06_signon_fi_clientuid (cfg : Cfg) :
    (wantFi cfg = .leaf .absent ↔ orgSet cfg = false) ∧
    (wantClientuid cfg = .absent ↔ ¬ (cfg.version ≥ 103)) := by
  constructor
  · unfold wantFi; cases orgSet cfg <;> simp
  · unfold wantClientuid; by_cases h : cfg.version ≥ 103 <;> simp [h]

/-- **C06_wrap** — field placement of every request kind: the wrapper built for a request is of its kind's wrapper
    class, carries the uuid it consumed as TRNUID, and contains exactly the account ids, account type, bank/broker id,
    dates and include flags of that request (`expWrapper`). -/
theorem C06_wrap {S : Schema} {cv : Conv} {Ptext : Str → Prop} (hS : ReqWF S = true) (hcv : ConvOK cv Ptext)
    (cfg : Cfg) (rq : Req) (uuid : Str) (htexts : ∀ s ∈ cfg.texts, Ptext s) (hrq : ∀ s ∈ rq.texts, Ptext s)
    (hu : Ptext uuid) (hne : uuid ≠ []) {w : Node} (h : wrap S cv cfg rq uuid = .ok w) :
    (expWrapper cfg rq).ok S w = true ∧ isWrapper S rq.kind w = true ∧ fieldVal w "trnuid" = .val (.str uuid) :=
  wrap_spec hS hcv cfg rq uuid htexts hrq hu hne h

/-- **C06_v2_closed** (constructor) — `OFXClient(version ≥ 200, close_elements=False)` raises `ValueError` -/
theorem C06_v2_closed_init (a : InitArgs) (hv : orDefault a.version 203 ≥ 200)
    (hc : orDefault a.closeElements true = false) : init a = .error .value := by
  simp [init, hc, hv]

/-- **C06_v2_closed** (per-call override) — `serialize(version ≥ 200, close_elements=False)` never returns bytes;
    when the header and the tree can be built the error is `ValueError` -/
theorem C06_v2_closed_serialize {S : Schema} {cv : Conv} (env : Env) (cfg : Cfg) (ofx : Node) (version : Option Nat)
    (old new : Option Str) (pretty close : Option Bool)
    (hv : orDefault version cfg.version ≥ 200) (hc : orDefault close cfg.closeElements = false) :
    (∀ s, serializeReq S cv env cfg ofx version old new pretty close ≠ .ok s) ∧
    (∀ hdr tree, Header.makeHeader env.p1 env.p2 (.int ((orDefault version cfg.version : Nat) : Int)) none old new = .ok hdr →
      toEtree S cv ofx = .ok tree →
      serializeReq S cv env cfg ofx version old new pretty close = .error .value) := by
  constructor
  · intro s hs
    simp only [serializeReq] at hs
    obtain ⟨hdr, _, hs⟩ := bind_ok hs
    obtain ⟨tree, _, hs⟩ := bind_ok hs
    simp [Serialize.serialize, hc, hv] at hs
  · intro hdr tree hh ht
    simp [serializeReq, hh, ht, bind, Except.bind, Serialize.serialize, hc, hv]

example : init { url := [], version := some 203, closeElements := some false } = .error .value := rfl
example : (init { url := [], version := some 102, closeElements := some false }).toBool = true := rfl

end Ofx.C06
