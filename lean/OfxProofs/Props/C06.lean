/-
C06 — a composed request says exactly what the caller asked, in every configuration.

Model: `OfxModel/Ofx/Compose.lean` (request composition of `ofxtools/Client.py`, generic in the schema `S` and
the converters `cv`).  Spec: `OfxModel/Spec/Request.lean` (`RequestSpec`, a checker over a model instance).

Hypotheses of the generic theorems, all explicit:
  * `ReqWF S = true`      — the schema has the classes/attributes/kinds the client uses; for the generated schema
                            this is `Ofx.Gen.schema_reqWF` (kernel evaluation, re-checked when the schema changes);
  * `ConvOK cv Ptext`     — a successful conversion of a text satisfying `Ptext`, a bool, a datetime or `None`
                            returns the value itself (empty text ↦ `None`); `Ofx.Compose.conv_ok` proves it of
                            `Ofx.Types.conv` for `Ptext := EntityFree` (no entity spelling `String.convert` would
                            rewrite — without that guard the statement is false: `C06_compose_full_false`);
  * `uuidStream` injective, never empty, `Ptext` (what `uuid4` is assumed to deliver).
-/
import OfxProofs.Lemmas.Compose

namespace Ofx.C06
open Ofx Ofx.Compose Ofx.Agg Ofx.Spec.Request

/-- **C06_group** — the core list lemma, for any list, any key and any total order on keys:
    `groupby(sorted(l, key), key)` has one group per key that occurs, with strictly increasing keys, and the group of
    key `k` is the subsequence of `l` with key `k` in original order. -/
theorem C06_group {α κ : Type} [DecidableEq κ] (le : κ → κ → Bool) (key : α → κ) (h : IsOrder le) (l : List α) :
    ((groupBy key (sortBy le key l)).map (·.1)).Pairwise (fun a b => le a b = true ∧ a ≠ b) ∧
    (∀ k g, (k, g) ∈ groupBy key (sortBy le key l) → g ≠ [] ∧ g = l.filter (fun x => decide (key x = k))) ∧
    (∀ x ∈ l, ∃ g, (key x, g) ∈ groupBy key (sortBy le key l)) :=
  group_sort le key h l

example : sortBy RKind.le Req.kind [.stmt none none none none none, .ccStmt none none none none,
    .stmt (some ['x']) none none none none] =
    [.ccStmt none none none none, .stmt none none none none none, .stmt (some ['x']) none none none none] := by
  decide

/-- **C06_signon** — exact field placement of the sign-on, for every configuration: the `SIGNONMSGSRQV1` that
    `signon` returns holds one `SONRQ` with exactly the supplied user id, password, language, application id and
    version and DTCLIENT; FI iff ORG is set (with ORG and FID as configured); CLIENTUID iff configured and the version
    is ≥ 103; nothing else. -/
theorem C06_signon {S : Schema} {cv : Conv} {Ptext : Str → Prop} (hS : ReqWF S = true) (hcv : ConvOK cv Ptext)
    (cfg : Cfg) (userpass : Str) (userid : Option Str) (dtclient : DT)
    (htexts : ∀ s ∈ cfg.texts, Ptext s) (hpw : Ptext userpass) (huid : ∀ s, userid = some s → Ptext s)
    {so : Node} (h : signon S cv cfg userpass userid dtclient = .ok so) :
    signonClauses S cfg (orDefault userid cfg.userid) userpass dtclient so = [] :=
  (signon_spec hS hcv cfg userpass userid dtclient htexts hpw huid h).1

/-- the two clauses named in the property, spelled out -/
theorem C06_signon_fi_clientuid (cfg : Cfg) :
    (wantFi cfg = .leaf .absent ↔ orgSet cfg = false) ∧
    (wantClientuid cfg = .absent ↔ ¬ (cfg.version ≥ 103)) := by
  constructor
  · unfold wantFi; cases orgSet cfg <;> simp
  · unfold wantClientuid; by_cases h : cfg.version ≥ 103 <;> simp [h]

/-- **C06_wrap** — field placement of every request kind: the wrapper built for a request is of its kind's wrapper
    class, carries the uuid it consumed as TRNUID, and contains exactly the account ids, account type, bank/broker id,
    dates and include flags of that request (`expWrapper`). -/
theorem C06_wrap {S : Schema} {cv : Conv} {Ptext : Str → Prop} (hS : ReqWF S = true) (hcv : ConvOK cv Ptext)
    (cfg : Cfg) (rq : Req) (uuid : Str) (htexts : ∀ s ∈ cfg.texts, Ptext s) (hrq : ∀ s ∈ rq.texts, Ptext s)
    (hu : Ptext uuid) (hne : uuid ≠ []) {w : Node} (h : wrap S cv cfg rq uuid = .ok w) :
    (expWrapper cfg rq).ok S w = true ∧ isWrapper S rq.kind w = true ∧ fieldVal w "trnuid" = .val (.str uuid) :=
  wrap_spec hS hcv cfg rq uuid htexts hrq hu hne h

/-- **C06_v2_closed** (constructor) — `OFXClient(version ≥ 200, close_elements=False)` raises `ValueError` -/
theorem C06_v2_closed_init (a : InitArgs) (hv : orDefault a.version 203 ≥ 200)
    (hc : orDefault a.closeElements true = false) : init a = .error .value := by
  simp [init, hc, hv]

/-- **C06_v2_closed** (per-call override) — `serialize(version ≥ 200, close_elements=False)` never returns bytes;
    when the header and the tree can be built the error is `ValueError` -/
theorem C06_v2_closed_serialize {S : Schema} {cv : Conv} (env : Env) (cfg : Cfg) (ofx : Node) (version : Option Nat)
    (old new : Option Str) (pretty close : Option Bool)
    (hv : orDefault version cfg.version ≥ 200) (hc : orDefault close cfg.closeElements = false) :
    (∀ s, serializeReq S cv env cfg ofx version old new pretty close ≠ .ok s) ∧
    (∀ hdr tree, Header.makeHeader env.p1 env.p2 (.int ((orDefault version cfg.version : Nat) : Int)) none old new = .ok hdr →
      toEtree S cv ofx = .ok tree →
      serializeReq S cv env cfg ofx version old new pretty close = .error .value) := by
  constructor
  · intro s hs
    simp only [serializeReq] at hs
    obtain ⟨hdr, _, hs⟩ := bind_ok hs
    obtain ⟨tree, _, hs⟩ := bind_ok hs
    simp [Serialize.serialize, hc, hv] at hs
  · intro hdr tree hh ht
    simp [serializeReq, hh, ht, bind, Except.bind, Serialize.serialize, hc, hv]

example : init { url := [], version := some 203, closeElements := some false } = .error .value := rfl
example : (init { url := [], version := some 102, closeElements := some false }).toBool = true := rfl

/-- **C06_compose** — for every configuration and every request list: if `request_statements` composes a request,
    the `OFX` instance satisfies `RequestSpec`: one `SONRQ` with exactly the supplied identity (FI iff ORG, CLIENTUID
    iff configured ∧ version ≥ 103); a message set is present iff a request of one of its kinds was made and holds
    wrappers of its own kinds only; for each kind the wrappers of that kind, in order, are exactly the requests of
    that kind in request order, each with its own account ids, type, bank/broker id, dates and flags and nothing
    else (so: one wrapper per request); every wrapper consumed its own uuid index, hence the TRNUIDs are pairwise
    distinct when `uuidStream` is injective. -/
theorem C06_compose {S : Schema} {cv : Conv} {Ptext : Str → Prop} (hS : ReqWF S = true) (hcv : ConvOK cv Ptext)
    (cfg : Cfg) (password : Str) (reqs : List Req) (uuidStream : Nat → Str) (dtclient : DT)
    (htexts : ∀ s ∈ cfg.texts, Ptext s) (hpw : Ptext password) (hreqs : ∀ r ∈ reqs, ∀ s ∈ r.texts, Ptext s)
    (huuid : ∀ i j, uuidStream i = uuidStream j → i = j) (hne : ∀ i, uuidStream i ≠ [])
    (huP : ∀ i, Ptext (uuidStream i)) {root : Node}
    (h : requestStatements S cv cfg password reqs uuidStream dtclient = .ok root) :
    RequestSpec S cfg password dtclient reqs (Int.ofNat cfg.version) root :=
  requestStatements_spec hS hcv cfg password reqs uuidStream dtclient htexts hpw hreqs huuid hne huP h

/-- a non-trivial configuration: markup characters in the identity, CLIENTUID, no end tags -/
def exampleCfg : Cfg :=
  { url := [], userid := "us&er".toList, clientuid := some "c<1>".toList, org := some "ORG".toList, fid := none,
    version := 103, appid := "QWIN".toList, appver := "2700".toList, language := "ENG".toList, prettyprint := true,
    closeElements := false, bankid := some "123".toList, brokerid := none }

/-- the hypotheses of `C06_compose` are satisfiable by it, a password with markup, and an injective uuid stream -/
example : (∀ s ∈ exampleCfg.texts, EntityFree s) ∧ EntityFree "p&a<ss>w".toList ∧
    (∀ i j, List.replicate (i + 1) 'u' = List.replicate (j + 1) 'u' → i = j) := by
  refine ⟨by decide +kernel, by decide +kernel, ?_⟩
  intro i j h
  have := congrArg List.length h
  simpa using this

/-- **C06_header** — the file starts with the header of the configured version (or of the version given in the call):
    whenever `serialize` returns bytes, they are `str(header) ++ body` for a header object carrying that version -/
theorem C06_header {S : Schema} {cv : Conv} (env : Env) (cfg : Cfg) (ofx : Node) (version : Option Nat)
    (old new : Option Str) (pretty close : Option Bool) (bytes : Str)
    (h : serializeReq S cv env cfg ofx version old new pretty close = .ok bytes) :
    ∃ hdr tree, hdrVersion hdr = Int.ofNat (orDefault version cfg.version) ∧ toEtree S cv ofx = .ok tree ∧
      bytes = Header.strHdr hdr ++ Serialize.serializeBody env.htmlEmpty (orDefault close cfg.closeElements)
        (orDefault pretty cfg.prettyprint) tree := by
  simp only [serializeReq] at h
  obtain ⟨hdr, hh, h⟩ := bind_ok h
  obtain ⟨tree, ht, h⟩ := bind_ok h
  refine ⟨hdr, tree, makeHeader_version _ _ _ _ _ _ _ hh, ht, ?_⟩
  simp only [Serialize.serialize] at h
  split at h
  · simp at h
  · simp only [Except.ok.injEq] at h; exact h.symm

/-- what C06 takes from the wire layers (C01: serializer, header parser, lexer, builder, `from_etree`): the bytes
    `serialize` made of an instance read back to the header version and that instance -/
def RoundTrip (readback : Str → PyM (Int × Node)) (bytes : Str) (version : Nat) (inst : Node) : Prop :=
  readback bytes = .ok (Int.ofNat version, inst)

/-- **C06_wire** — relative to the round-trip theorem of the wire layers: the bytes `request_statements(dryrun=True)`
    returns, parsed back, satisfy `RequestSpec` with the header version they carry -/
theorem C06_wire {S : Schema} {cv : Conv} {Ptext : Str → Prop} (hS : ReqWF S = true) (hcv : ConvOK cv Ptext)
    (env : Env) (cfg : Cfg) (password : Str) (reqs : List Req) (uuidStream : Nat → Str) (dtclient : DT)
    (htexts : ∀ s ∈ cfg.texts, Ptext s) (hpw : Ptext password) (hreqs : ∀ r ∈ reqs, ∀ s ∈ r.texts, Ptext s)
    (huuid : ∀ i j, uuidStream i = uuidStream j → i = j) (hne : ∀ i, uuidStream i ≠ [])
    (huP : ∀ i, Ptext (uuidStream i)) (readback : Str → PyM (Int × Node)) {bytes : Str}
    (h : statementsBytes S cv env cfg password reqs uuidStream dtclient = .ok bytes)
    (hrt : ∀ inst, requestStatements S cv cfg password reqs uuidStream dtclient = .ok inst →
      RoundTrip readback bytes cfg.version inst) :
    ∃ hv inst, readback bytes = .ok (hv, inst) ∧ RequestSpec S cfg password dtclient reqs hv inst := by
  simp only [statementsBytes] at h
  obtain ⟨inst, hinst, _⟩ := bind_ok h
  exact ⟨_, inst, hrt inst hinst,
    C06_compose hS hcv cfg password reqs uuidStream dtclient htexts hpw hreqs huuid hne huP hinst⟩

/-- **C06_accounts** — `request_accounts(password, dtacctup)`: the sign-on as in `C06_signon`, one `SIGNUPMSGSRQV1`
    holding one `ACCTINFOTRNRQ` with its own TRNUID and exactly the DTACCTUP asked for -/
theorem C06_accounts {S : Schema} {cv : Conv} {Ptext : Str → Prop} (hS : ReqWF S = true) (hcv : ConvOK cv Ptext)
    (cfg : Cfg) (password : Str) (dtacctup : Option DT) (uuidStream : Nat → Str) (dtclient : DT)
    (htexts : ∀ s ∈ cfg.texts, Ptext s) (hpw : Ptext password) (hu : Ptext (uuidStream 0))
    (hne : uuidStream 0 ≠ []) {root : Node}
    (h : requestAccounts S cv cfg password dtacctup uuidStream dtclient = .ok root) :
    checkAccounts S cfg password dtclient dtacctup (Int.ofNat cfg.version) root = [] :=
  requestAccounts_spec hS hcv cfg password dtacctup uuidStream dtclient htexts hpw hu hne h

/-- **C06_profile** — `_request_profile(dtprofup)`: anonymous sign-on (user id and password are the placeholder; FI,
    CLIENTUID, language and application ids as configured), one `PROFMSGSRQV1` holding one `PROFTRNRQ` with
    CLIENTROUTING `NONE` and the given DTPROFUP (1990-01-01 UTC when none is given) -/
theorem C06_profile {S : Schema} {cv : Conv} {Ptext : Str → Prop} (hS : ReqWF S = true) (hcv : ConvOK cv Ptext)
    (cfg : Cfg) (dtprofup : Option DT) (uuidStream : Nat → Str) (dtclient : DT)
    (htexts : ∀ s ∈ cfg.texts, Ptext s) (hph : Ptext authPlaceholder) (hnone : Ptext "NONE".toList)
    (hu : Ptext (uuidStream 0)) (hne : uuidStream 0 ≠ []) {root : Node}
    (h : requestProfile S cv cfg dtprofup uuidStream dtclient = .ok root) :
    checkProfile S cfg dtclient dtprofup none (Int.ofNat cfg.version) root = [] :=
  requestProfile_spec hS hcv cfg dtprofup uuidStream dtclient htexts hph hnone hu hne h

example : EntityFree authPlaceholder ∧ EntityFree "NONE".toList := by decide +kernel

/-- **C06_tax** — `request_tax1099(password, *taxyears, acctnum=…, recid=…)` (as repaired by "fix: request_tax1099
    passes the account number on"): the sign-on as in `C06_signon`, one `TAX1099MSGSRQV1` holding one `TAX1099TRNRQ`
    whose `TAX1099RQ` carries exactly the account number and record id asked for (empty = absent) and the tax years in
    order.  `TAX1099RQ` is an `ElementList`: handled by `mk_fields`; tax years are canonical decimal texts. -/
theorem C06_tax {S : Schema} {cv : Conv} {Ptext : Str → Prop} (hS : ReqWF S = true) (hT : taxWFB S = true)
    (hcv : ConvOK cv Ptext) (hy : ConvYear cv) (cfg : Cfg) (password : Str) (taxyears : List Str)
    (acctnum recid : Option Str) (uuidStream : Nat → Str) (dtclient : DT)
    (htexts : ∀ s ∈ cfg.texts, Ptext s) (hpw : Ptext password)
    (hacct : ∀ s, acctnum = some s → Ptext s) (hrec : ∀ s, recid = some s → Ptext s)
    (hyears : ∀ y ∈ taxyears, ∃ j : Int, y = pyStrInt j)
    (hu : Ptext (uuidStream 0)) (hne : uuidStream 0 ≠ []) {root : Node}
    (h : requestTax S cv cfg password taxyears acctnum recid uuidStream dtclient = .ok root) :
    checkTax S cfg password dtclient taxyears acctnum recid (Int.ofNat cfg.version) root = [] :=
  requestTax_spec hS hT hcv hy cfg password taxyears acctnum recid uuidStream dtclient htexts hpw hacct hrec hyears
    hu hne h

example : (∀ y ∈ ["2019".toList, "2020".toList], ∃ j : Int, y = pyStrInt j) := by
  intro y hy
  simp only [List.mem_cons, List.mem_nil_iff, or_false] at hy
  rcases hy with rfl | rfl
  · exact ⟨2019, by decide⟩
  · exact ⟨2020, by decide⟩

end Ofx.C06
