/-
C01 — serialize-then-parse returns the same model.

This file holds the aggregate-layer half: for every schema `S`, every converter family `cv`
satisfying `ConvLaws` on a domain `Dom`, and every text map `esc` (identity, or `_escape_cdata`,
which is what writing with `ET.tostring` and re-parsing does to element data),

    from_etree (map esc (to_etree i)) = i        for every valid instance `i`.

`Valid` (Lemmas/NodeRT.lean) is the declarative validity of an instance, all the way down:
class found by its tag, the instance dict holds exactly one well-typed value per supported
non-repeated attribute in spec order, list members are instances of listed member classes, the
class's own `validate_args` accepts the written form, and the class-level premises `ClsWF`
(names distinct, upper/lower inverse, sub-aggregate attributes named after exported classes, list
block not interleaved) — which `Gen/WF.lean` discharges for the generated schema by kernel
evaluation (`schema_clsWF`).

COVERAGE: `NodeOk` covers plain aggregates, `ElementList`s (members = values of the list element's type) and the
classes with a `groom` / `ungroom` rename (`GroomOk`: the two renames are inverse, around a non-repeated data element,
and the rename's source tag is no child's tag) — every class of the generated schema satisfies these decidable
premises except TAX1099INT_V100 (recorded finding: list block interleaved) and the abstract base `ElementList`.
-/
import OfxProofs.Lemmas.NodeRT

namespace Ofx.Agg
open Ofx

/-- C01, aggregate layer: writing a valid instance to an element tree and converting the tree back —
    with any text map `esc` in between under which the converters still read their own output —
    returns the instance. -/
theorem C01_agg_roundtrip (S : Schema) (cv : Conv) (esc : Str → Str)
    (Dom : Kind → Bool → Val → Prop) (laws : ConvLaws cv S.enums esc Dom) (i : Node)
    (hv : Valid S cv esc Dom i) :
    ∃ t, toEtree S cv i = .ok t ∧ fromEtree S cv (mapText esc t) = .ok i :=
  rt_node S cv esc Dom laws i hv

/-- (the name under which earlier layers refer to it; it was partial in the classes covered until `ElementList`s and
    the `groom` classes were added) -/
theorem C01_agg_roundtrip_partial (S : Schema) (cv : Conv) (esc : Str → Str)
    (Dom : Kind → Bool → Val → Prop) (laws : ConvLaws cv S.enums esc Dom) (i : Node)
    (hv : Valid S cv esc Dom i) :
    ∃ t, toEtree S cv i = .ok t ∧ fromEtree S cv (mapText esc t) = .ok i :=
  C01_agg_roundtrip S cv esc Dom laws i hv

/-- the written tree is rooted at the class's tag and carries no text of its own -/
theorem C01_written_root (S : Schema) (cv : Conv) (ci : Nat) (f : List (Str × Node)) (i : List Node)
    (c : Cls) (t : Tree) (hc : S.cls? ci = some c) (h : toEtree S cv (.agg ci f i) = .ok t) :
    t.tag = c.name ∧ t.text = none :=
  toEtree_shape S cv ci f i c t hc h

end Ofx.Agg
