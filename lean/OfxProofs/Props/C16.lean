/-
C16 — shortcuts and flat attribute access agree with the full path; misses are clean.

All theorems are generic in the schema `S` and the property table `P` (no well-formedness premise on either is
needed for direct access, proxying and misses; the shortcut theorems need the table to read spec attributes only,
`bodyOk`, which is part of the generated obligation `Spec.Getattr.propsAgree`).
The model `Getattr.getattr` is tied to Python's `getattr` on real instances by `harness/corr/C16.py`.
-/
import OfxProofs.Lemmas.Getattr

namespace Ofx.C16
open Ofx Ofx.Agg Ofx.Getattr Ofx.Spec.Getattr

/-! ### direct access -/

/-- a (non-repeated, supported) spec attribute of the instance's own class returns exactly the stored object -/
theorem C16_direct (S : Schema) (P : Props) (ci : Nat) (fields : List (Str × Node)) (items : List Node)
    (name : Str) (c : Cls) (a : Attr) (v : Node)
    (hc : S.cls? ci = some c) (ha : c.attr? name = some a) (hu : a.kind.isUnsupported = false)
    (hv : Agg.lookup name fields = some v) :
    getattr S P (.agg ci fields items) name = .ok (.node v) := by
  have hn := attr?_name c name a ha
  simp [getattr, getattrAt, hc, ha, descr, hu, hn, lookup_fieldSubs, hv, Except.map]

/-- … `None` for an unsupported one, whatever the dict holds -/
theorem C16_direct_unsupported (S : Schema) (P : Props) (ci : Nat) (fields : List (Str × Node)) (items : List Node)
    (name : Str) (c : Cls) (a : Attr)
    (hc : S.cls? ci = some c) (ha : c.attr? name = some a) (hu : a.kind.isUnsupported = true) :
    getattr S P (.agg ci fields items) name = .ok (.node (.val .none)) := by
  simp [getattr, getattrAt, hc, ha, descr, hu, Except.map]

/-- … and KeyError (not AttributeError) when the dict does not hold it: half-built instances, repeated children -/
theorem C16_direct_missing (S : Schema) (P : Props) (ci : Nat) (fields : List (Str × Node)) (items : List Node)
    (name : Str) (c : Cls) (a : Attr)
    (hc : S.cls? ci = some c) (ha : c.attr? name = some a) (hu : a.kind.isUnsupported = false)
    (hv : Agg.lookup name fields = none) :
    getattr S P (.agg ci fields items) name = .error .key := by
  have hn := attr?_name c name a ha
  simp [getattr, getattrAt, hc, ha, descr, hu, hn, lookup_fieldSubs, hv, Except.map]

/-! ### misses -/

theorem isList_not_unsupported (k : Kind) (h : k.isList = true) : k.isUnsupported = false := by
  cases k <;> simp_all [Kind.isList, Kind.isUnsupported]

/-- one aggregate, given that its stored sub-aggregates fail softly -/
theorem agg_undefined_step (S : Schema) (P : Props) (ci : Nat) (fields : List (Str × Node)) (items : List Node)
    (name : Str) (c : Cls) (hc : S.cls? ci = some c)
    (hclean : clean S P (.agg ci fields items) name = true)
    (hdef : definers S (.agg ci fields items) name = [])
    (ih : ∀ k v, (k, v) ∈ fields → clean S P v name = true → definers S v name = [] →
      Soft (getattr S P v name)) :
    Soft (getattr S P (.agg ci fields items) name) ∧
    (c.attr? name = none → getattr S P (.agg ci fields items) name = .error .attr) := by
  simp only [clean, hc, Bool.and_eq_true, Bool.or_eq_true, Bool.not_eq_true', Option.isNone_iff_eq_none] at hclean
  obtain ⟨⟨hP, hk⟩, hcf⟩ := hclean
  simp only [definers, hc] at hdef
  cases ha : c.attr? name with
  | none =>
    simp only [ha] at hdef
    have hnl : definesNL c name = false := by simp [definesNL, ha]
    have hkey : Agg.lookup name fields = none := by
      rcases hk with hk | hk
      · exact hasKey_false_lookup name fields hk
      · rw [hnl] at hk; cases hk
    have hloop : getattrLoop (fieldSubs S P fields) name c.spec = .error .attr := by
      apply getattrLoop_soft
      intro a ham hs v hv
      exact ih a.name v (lookup_mem _ _ _ hv) (cleanFields_mem S P name fields hcf _ _ (lookup_mem _ _ _ hv))
        (childDefiners_nil name S fields c.spec hdef a ham hs v hv)
    have : getattr S P (.agg ci fields items) name = .error .attr := by
      simp [getattr, getattrAt, hc, ha, hP, lookup_fieldSubs, hkey, hloop]
    exact ⟨Or.inl this, fun _ => this⟩
  | some a =>
    simp only [ha] at hdef
    have hl : a.kind.isList = true := by
      by_cases h : a.kind.isList = true
      · exact h
      · simp [h] at hdef
    have hnl : definesNL c name = false := by simp [definesNL, ha, hl]
    have hkey : Agg.lookup name fields = none := by
      rcases hk with hk | hk
      · exact hasKey_false_lookup name fields hk
      · rw [hnl] at hk; cases hk
    have := C16_direct_missing S P ci fields items name c a hc ha (isList_not_unsupported _ hl) hkey
    exact ⟨Or.inr this, fun h => by cases h⟩

/-- an aggregate below which nothing defines the name fails softly (AttributeError, or KeyError when its class has a
    repeated child of that name) — this is what the enclosing `__getattr__` swallows -/
theorem soft_of_no_definer (S : Schema) (P : Props) (name : Str) :
    ∀ i, clean S P i name = true → definers S i name = [] → Soft (getattr S P i name) := by
  intro i
  induction i using Node.induct with
  | hval v => intro _ _; exact Or.inl (by simp [getattr])
  | hagg ci fields items ihf _ =>
    intro hclean hdef
    cases hc : S.cls? ci with
    | none => simp [clean, hc] at hclean
    | some c => exact (agg_undefined_step S P ci fields items name c hc hclean hdef ihf).1

/-- **C16_miss.** A name that neither the instance's class, nor any aggregate among its non-repeated descendants,
    nor a property, nor a stray instance attribute defines raises AttributeError — for EVERY state of the
    instance dictionaries (no premise says the dicts are complete: the empty dict of a half-built instance is
    included). -/
theorem C16_miss (S : Schema) (P : Props) (i : Node) (name : Str) (h : undefined S P i name = true) :
    getattr S P i name = .error .attr := by
  cases i with
  | val v => simp [getattr]
  | agg ci fields items =>
    simp only [undefined, Bool.and_eq_true, List.isEmpty_iff] at h
    obtain ⟨⟨hclean, hdef⟩, hown⟩ := h
    cases hc : S.cls? ci with
    | none => simp [hc] at hown
    | some c =>
      simp only [hc, Option.isNone_iff_eq_none] at hown
      exact (agg_undefined_step S P ci fields items name c hc hclean hdef
        (fun k v _ hcl hd => soft_of_no_definer S P name v hcl hd)).2 hown

/-- hence `hasattr` answers `False` (it does not raise) -/
theorem C16_miss_hasattr (S : Schema) (P : Props) (i : Node) (name : Str) (h : undefined S P i name = true) :
    hasattr S P i name = .ok false := by
  simp [hasattr, C16_miss S P i name h]

/-- the probe of `copy`/`pickle` on a freshly created instance (empty `__dict__`), for any class -/
theorem C16_probe_empty_dict (S : Schema) (P : Props) (ci : Nat) (items : List Node) (name : Str) (c : Cls)
    (hc : S.cls? ci = some c) (ha : c.attr? name = none) (hp : P.find ci name = none) :
    getattr S P (.agg ci [] items) name = .error .attr := by
  simp [getattr, getattrAt, hc, ha, hp, fieldSubs, Agg.lookup, getattrLoop_empty]

/-- what 0f0930a repaired: with the sub-aggregate read outside the `try`, the same probe raised KeyError for every
    class that has a sub-aggregate or a repeated child -/
theorem C16_probe_empty_dict_pinned (name : Str) (c : Cls) (h : ∃ a, a ∈ c.spec ∧ a.kind.isSub = true) :
    getattrLoopPinned [] name c.spec = .error .key :=
  getattrLoopPinned_empty name c.spec h

/-- copy protocol (partial model: only "which probes on which dict state"): if the probe names are undefined on the
    instance and on its emptied twin, every probe answers "no such attribute" -/
theorem C16_copy_probes (S : Schema) (P : Props) (ci : Nat) (fields : List (Str × Node)) (items : List Node)
    (h : ∀ n e, (n, e) ∈ copyProbes → undefined S P (.agg ci (if e then [] else fields) items) n = true) :
    probesClean S P (.agg ci fields items) = true := by
  simp only [probesClean, List.all_eq_true]
  intro ⟨n, e⟩ hm
  have := C16_miss_hasattr S P _ n (h n e hm)
  simp [this]

/-! ### proxying -/

/-- **C16_proxy (strongest form).** The first definer in depth-first spec order wins: if `p` is the first path
    (document order, the instance itself first) to an aggregate whose class declares `name`, and that aggregate
    stores `w` under it, then reading `name` on the instance returns `w` itself. -/
theorem C16_proxy_first (S : Schema) (P : Props) (name : Str) :
    ∀ (i : Node) (p : Path) (ps : List Path) (w : Node), clean S P i name = true →
    definers S i name = p :: ps → valueAt S i p name = some w →
    getattr S P i name = .ok (.node w) := by
  intro i
  induction i using Node.induct with
  | hval v => intro p ps w _ hd _; simp [definers] at hd
  | hagg ci fields items ihf _ =>
    intro p ps w hclean hdef hw
    cases hc : S.cls? ci with
    | none => simp [clean, hc] at hclean
    | some c =>
      have hclean' := hclean
      simp only [clean, hc, Bool.and_eq_true, Bool.or_eq_true, Bool.not_eq_true',
        Option.isNone_iff_eq_none] at hclean'
      obtain ⟨⟨hP, hk⟩, hcf⟩ := hclean'
      simp only [definers, hc] at hdef
      cases ha : c.attr? name with
      | some a =>
        simp only [ha] at hdef
        by_cases hl : a.kind.isList = true
        · simp [hl] at hdef
        · simp only [hl] at hdef
          have hp : p = [] := by
            have := (List.cons.inj hdef).1
            exact this.symm
          subst hp
          simp only [valueAt, hc, ha] at hw
          by_cases hu : a.kind.isUnsupported = true
          · simp only [hu, if_true, Option.some.injEq] at hw
            subst hw
            exact C16_direct_unsupported S P ci fields items name c a hc ha hu
          · simp only [hu] at hw
            exact C16_direct S P ci fields items name c a w hc ha (by simpa using hu) (by simpa using hw)
      | none =>
        simp only [ha] at hdef
        have hnl : definesNL c name = false := by simp [definesNL, ha]
        have hkey : Agg.lookup name fields = none := by
          rcases hk with hk | hk
          · exact hasKey_false_lookup name fields hk
          · rw [hnl] at hk; cases hk
        have hloop := getattrLoop_first S P fields name
          (fun k v hv hd => soft_of_no_definer S P name v
            (cleanFields_mem S P name fields hcf _ _ (lookup_mem _ _ _ hv)) hd)
          (fun k v q qs w' hv hd hw' => ihf k v (lookup_mem _ _ _ hv) q qs w'
            (cleanFields_mem S P name fields hcf _ _ (lookup_mem _ _ _ hv)) hd hw')
          c.spec p ps w ci items hdef hw
        simp [getattr, getattrAt, hc, ha, hP, lookup_fieldSubs, hkey, hloop]

/-- **C16_proxy.** A name that exactly one aggregate among the instance and its non-repeated descendants defines is
    readable directly on the instance and returns the very value stored there. -/
theorem C16_proxy (S : Schema) (P : Props) (name : Str) (i : Node) (p : Path) (w : Node)
    (hclean : clean S P i name = true) (huniq : definers S i name = [p]) (hw : valueAt S i p name = some w) :
    getattr S P i name = .ok (.node w) :=
  C16_proxy_first S P name i p [] w hclean huniq hw

/-! ### shortcuts

Each theorem: on an instance whose class reads the named spec attributes directly (`bodyOk`, an obligation on the
generated table closed in `OfxProofs/Gen/Props.lean`), the getter returns exactly what the path walk `Spec.walk`
denotes — the very objects stored (a `Node` is the object), list members in document order, each once. -/

theorem readSelf_stored (S : Schema) (P : Props) (c : Cls) (fields : List (Str × Node)) (a : Str) (v : Node)
    (hs : definesStored c a = true) (hv : Agg.lookup a fields = some v) :
    readSelf c (fieldSubs S P fields) a = .ok (v, fun nm => getattr S P v nm) := by
  unfold definesStored at hs
  cases ha : c.attr? a with
  | none => simp [ha] at hs
  | some x =>
    simp only [ha, Bool.and_eq_true, Bool.not_eq_true'] at hs
    have hn := attr?_name c a x ha
    simp [readSelf, ha, descr, hs.2, hn, lookup_fieldSubs, hv]

theorem getattr_direct (S : Schema) (P : Props) (b : Str) (m v : Node) (hd : direct S b m = true)
    (hv : fieldOf b m = some v) : getattr S P m b = .ok (.node v) := by
  cases m with
  | val x => simp [direct] at hd
  | agg mi mf mits =>
    simp only [direct] at hd
    cases hc : S.cls? mi with
    | none => simp [hc] at hd
    | some cm =>
      simp only [hc] at hd
      cases ha : cm.attr? b with
      | none => simp [ha] at hd
      | some ab =>
        simp only [ha, Bool.not_eq_true'] at hd
        exact C16_direct S P mi mf mits b cm ab v hc ha hd (by simpa [fieldOf] using hv)

/-- a property of the instance's own class whose getter succeeds is what attribute access returns -/
theorem getattr_of_runBody (S : Schema) (P : Props) (ci : Nat) (fields : List (Str × Node)) (items : List Node)
    (name : Str) (c : Cls) (body : Body) (r : Res)
    (hc : S.cls? ci = some c) (hb : P.find ci name = some body) (hn : c.attr? name = none)
    (hr : runBody S c (fieldSubs S P fields) (itemSubs S P items) body = .ok r) :
    getattr S P (.agg ci fields items) name = .ok r := by
  simp [getattr, getattrAt, hc, hn, hb, hr]

theorem present_some {o : Option Node} {m : Node} (h : present o = some m) : o = some m ∧ notNone m = true := by
  unfold present at h
  split at h
  · cases h
  · subst h
    refine ⟨rfl, ?_⟩
    cases m with
    | val v => cases v <;> simp_all [notNone]
    | agg _ _ _ => rfl

theorem present_none {m : Node} (h : present (some m) = none) : notNone m = false := by
  unfold present at h
  split at h
  · rename_i heq; cases heq; rfl
  · cases h

/-- `account`, `transactions`, `balance(s)`, `positions`, `statement`, `profile`: the object in that field -/
theorem C16_shortcut_alias (S : Schema) (P : Props) (ci : Nat) (fields : List (Str × Node)) (items : List Node)
    (name a : Str) (c : Cls) (r : Res)
    (hc : S.cls? ci = some c) (hb : P.find ci name = some (.alias a))
    (hok : bodyOk c ⟨ci, name, .alias a⟩ = true)
    (hw : walk S P.find (.alias a) (.agg ci fields items) = some r) :
    getattr S P (.agg ci fields items) name = .ok r := by
  simp only [bodyOk, selfReads, List.all_cons, List.all_nil, Bool.and_true, Bool.and_eq_true,
    Option.isNone_iff_eq_none] at hok
  simp only [walk, walk1, fieldOf, Option.map_eq_some_iff] at hw
  obtain ⟨v, hv, rfl⟩ := hw
  apply getattr_of_runBody S P ci fields items name c _ _ hc hb hok.2
  simp [runBody, readSelf_stored S P c fields a v hok.1 hv, bind, Except.bind, pure, Except.pure]

/-- `org`, `fid`: the object in field `b` of the aggregate in field `a` -/
theorem C16_shortcut_path (S : Schema) (P : Props) (ci : Nat) (fields : List (Str × Node)) (items : List Node)
    (name a b : Str) (c : Cls) (r : Res)
    (hc : S.cls? ci = some c) (hb : P.find ci name = some (.path a b))
    (hok : bodyOk c ⟨ci, name, .path a b⟩ = true)
    (hd : ∀ m, fieldOf a (.agg ci fields items) = some m → notNone m = true → direct S b m = true)
    (hw : walk S P.find (.path a b) (.agg ci fields items) = some r) :
    getattr S P (.agg ci fields items) name = .ok r := by
  simp only [bodyOk, selfReads, List.all_cons, List.all_nil, Bool.and_true, Bool.and_eq_true,
    Option.isNone_iff_eq_none] at hok
  simp only [walk, walk1, Option.map_eq_some_iff, Option.bind_eq_some_iff] at hw
  obtain ⟨v, ⟨m, hm, hv⟩, rfl⟩ := hw
  obtain ⟨hm1, hm2⟩ := present_some hm
  apply getattr_of_runBody S P ci fields items name c _ _ hc hb hok.2
  have hm1' : Agg.lookup a fields = some m := by simpa [fieldOf] using hm1
  simp [runBody, readSelf_stored S P c fields a m hok.1 hm1', bind, Except.bind,
    getattr_direct S P b m v (hd m hm1 hm2) hv]

/-- `SECLISTMSGSRSV1.securities`: the members of every `SECLIST` member, in document order -/
theorem extendLoop_eq (S : Schema) (P : Props) (t : Nat) : ∀ (items : List Node),
    extendLoop S t (itemSubs S P items) = (items.filter (isA S t)).flatMap itemsOf
  | [] => rfl
  | .val v :: r => by simp [itemSubs, extendLoop, isA, extendLoop_eq S P t r]
  | .agg mi f its :: r => by
    by_cases h : isInstance S mi t = true
    · simp [itemSubs, extendLoop, isA, h, itemsOf, extendLoop_eq S P t r]
    · simp [itemSubs, extendLoop, isA, h, extendLoop_eq S P t r]

theorem C16_shortcut_extend (S : Schema) (P : Props) (ci : Nat) (fields : List (Str × Node)) (items : List Node)
    (name : Str) (t : Nat) (c : Cls)
    (hc : S.cls? ci = some c) (hb : P.find ci name = some (.extendMembers t)) (hn : c.attr? name = none) :
    getattr S P (.agg ci fields items) name = .ok (.list ((items.filter (isA S t)).flatMap itemsOf)) := by
  apply getattr_of_runBody S P ci fields items name c _ _ hc hb hn
  simp [runBody, extendLoop_eq]

/-! #### `statements` of a message set -/

theorem firstBranch_find (S : Schema) (mi : Nat) : ∀ (br : List (Nat × Str)),
    firstBranch S mi br = (br.find? (fun b => isInstance S mi b.1)).map (·.2)
  | [] => rfl
  | (t, a) :: r => by
    by_cases h : isInstance S mi t = true
    · simp [firstBranch, h]
    · simp [firstBranch, h, firstBranch_find S mi r]

/-- stapling: if the wrapper reads the stapled names directly, the model's assignment loop is `withAttrs` -/
theorem staple_eq (S : Schema) (P : Props) (w : Node) : ∀ (stp : List (Str × Str)) (s s' : Node),
    (∀ d f, (d, f) ∈ stp → direct S f w = true) → withAttrs w stp s = some s' →
    staple (fun nm => getattr S P w nm) stp s = .ok s'
  | [], s, s', _, h => by simp [withAttrs] at h; simp [staple, h]
  | (d, f) :: r, s, s', hd, h => by
    unfold withAttrs at h
    cases hf : fieldOf f w with
    | none => simp [hf] at h
    | some v =>
      cases s with
      | val x => simp [hf] at h
      | agg si sf sits =>
        simp only [hf] at h
        have hg := getattr_direct S P f w v (hd d f List.mem_cons_self) hf
        simp only [staple, hg, bind, Except.bind, resNode]
        exact staple_eq S P w r _ s' (fun d' f' hm => hd d' f' (List.mem_cons_of_mem _ hm)) h

/-- a list member the `statements` getter can process: a wrapper's statement attribute and the stapled
    attributes are plain stored attributes of the wrapper; a member of no wrapper class is skipped (never the
    `assert` of the else-branch) -/
def memberOk (S : Schema) (branches : List (Nat × Str)) (elseAssert : Bool) (stp : List (Str × Str)) (w : Node) :
    Prop :=
  match memberBranch S branches w with
  | none => elseAssert = false
  | some a => direct S a w = true ∧ (fieldOf a w).isSome = true ∧
      (∀ s, present (fieldOf a w) = some s → (withAttrs w stp s).isSome = true) ∧
      (∀ d f, (d, f) ∈ stp → direct S f w = true)

theorem memberBranch_find (S : Schema) (br : List (Nat × Str)) (w : Node) :
    wrapped S br stp w = match memberBranch S br w with
      | none => none
      | some a => (present (fieldOf a w)).bind (withAttrs w stp) := by
  cases w with
  | val v => simp [wrapped, memberBranch]
  | agg mi f its =>
    simp only [wrapped, memberBranch, firstBranch_find]
    cases br.find? (fun b => isInstance S mi b.1) with
    | none => rfl
    | some b => rfl

theorem membersLoop_eq (S : Schema) (P : Props) (br : List (Nat × Str)) (ea : Bool) (stp : List (Str × Str)) :
    ∀ (items : List Node), (∀ w, w ∈ items → memberOk S br ea stp w) →
    membersLoop S br ea stp (itemSubs S P items) = .ok (items.filterMap (wrapped S br stp))
  | [], _ => rfl
  | w :: rest, h => by
    have ih := membersLoop_eq S P br ea stp rest (fun x hx => h x (List.mem_cons_of_mem _ hx))
    have hw := h w List.mem_cons_self
    simp only [itemSubs, membersLoop, List.filterMap_cons, memberBranch_find (stp := stp)]
    unfold memberOk at hw
    cases hb : memberBranch S br w with
    | none =>
      simp only [hb] at hw
      subst hw
      simp [ih, bind, Except.bind, pure, Except.pure]
    | some a =>
      simp only [hb] at hw
      obtain ⟨hd, hsome, hwith, hst⟩ := hw
      obtain ⟨s, hs⟩ := Option.isSome_iff_exists.mp hsome
      have hg := getattr_direct S P a w s hd hs
      simp only [hg, bind, Except.bind, resNode, hs]
      cases hp : present (some s) with
      | none =>
        have := present_none hp
        simp [this, ih, pure, Except.pure]
      | some s0 =>
        obtain ⟨h1, h2⟩ := present_some hp
        have hs0 : s0 = s := by injection h1 with h1; exact h1.symm
        subst hs0
        obtain ⟨s', hs'⟩ := Option.isSome_iff_exists.mp (hwith s0 (by rw [hs]; exact hp))
        simp [h2, staple_eq S P w stp s0 s' hst hs', hs', ih, pure, Except.pure]

/-- `{BANK,CREDITCARD,INVSTMT}MSGS{RQ,RS}V1.statements`: the statement of every wrapper member that holds one,
    every statement once, in document order (the RS variants with the wrapper's `trnuid`/`cltcookie` stapled on) -/
theorem C16_shortcut_members (S : Schema) (P : Props) (ci : Nat) (fields : List (Str × Node)) (items : List Node)
    (name : Str) (br : List (Nat × Str)) (ea : Bool) (stp : List (Str × Str)) (c : Cls)
    (hc : S.cls? ci = some c) (hb : P.find ci name = some (.members br ea stp)) (hn : c.attr? name = none)
    (hm : ∀ w, w ∈ items → memberOk S br ea stp w) :
    getattr S P (.agg ci fields items) name = .ok (.list (items.filterMap (wrapped S br stp))) := by
  apply getattr_of_runBody S P ci fields items name c _ _ hc hb hn
  simp [runBody, membersLoop_eq S P br ea stp items hm, bind, Except.bind, pure, Except.pure]

/-! #### `curtype` / `cursym` / `currate`, `signon` -/

theorem isSome_lookup {α} {k : Str} {l : List (Str × α)} (h : (Agg.lookup k l).isSome = true) :
    ∃ v, Agg.lookup k l = some v := Option.isSome_iff_exists.mp h

/-- `Origcurrency.curtype/cursym/currate`: taken from `currency` if there is one, else from `origcurrency`,
    else `None` -/
theorem C16_shortcut_cur (S : Schema) (P : Props) (ci : Nat) (fields : List (Str × Node)) (items : List Node)
    (name a1 a2 : Str) (sel : Sel) (c : Cls) (r : Res)
    (hc : S.cls? ci = some c) (hb : P.find ci name = some (.cur a1 a2 sel))
    (hok : bodyOk c ⟨ci, name, .cur a1 a2 sel⟩ = true)
    (hfull : (Agg.lookup a1 fields).isSome = true ∧ (Agg.lookup a2 fields).isSome = true)
    (hd : ∀ cu b, sel = .attr b →
      (present (fieldOf a1 (.agg ci fields items))).or (present (fieldOf a2 (.agg ci fields items))) = some cu →
      direct S b cu = true)
    (hw : walk S P.find (.cur a1 a2 sel) (.agg ci fields items) = some r) :
    getattr S P (.agg ci fields items) name = .ok r := by
  simp only [bodyOk, selfReads, List.all_cons, List.all_nil, Bool.and_true, Bool.and_eq_true,
    Option.isNone_iff_eq_none] at hok
  obtain ⟨⟨hs1, hs2⟩, hn⟩ := hok
  obtain ⟨v1, hv1⟩ := isSome_lookup hfull.1
  obtain ⟨v2, hv2⟩ := isSome_lookup hfull.2
  apply getattr_of_runBody S P ci fields items name c _ _ hc hb hn
  simp only [walk, walk1, fieldOf, hv1, hv2] at hw hd
  simp only [runBody, readSelf_stored S P c fields a1 v1 hs1 hv1, bind, Except.bind]
  cases hp1 : present (some v1) with
  | some m =>
    obtain ⟨h1, h2⟩ := present_some hp1
    have hm : m = v1 := by injection h1 with h1; exact h1.symm
    subst hm
    simp only [hp1, Option.some_or] at hw hd
    simp only [h2, if_true, pure, Except.pure]
    cases sel with
    | clsName => simp at hw; simp [hw]
    | attr b =>
      simp only [Option.map_eq_some_iff] at hw
      obtain ⟨v, hv, rfl⟩ := hw
      simp [getattr_direct S P b m v (hd m b rfl rfl) hv]
  | none =>
    have h1 := present_none hp1
    simp only [hp1, Option.none_or] at hw hd
    simp only [h1, readSelf_stored S P c fields a2 v2 hs2 hv2]
    cases hp2 : present (some v2) with
    | some m =>
      obtain ⟨h3, h4⟩ := present_some hp2
      have hm : m = v2 := by injection h3 with h3; exact h3.symm
      subst hm
      simp only [hp2] at hw hd
      simp only [Bool.false_eq_true, if_false, h4, if_true, pure, Except.pure]
      cases sel with
      | clsName => simp at hw; simp [hw]
      | attr b =>
        simp only [Option.map_eq_some_iff] at hw
        obtain ⟨v, hv, rfl⟩ := hw
        simp [getattr_direct S P b m v (hd m b rfl rfl) hv]
    | none =>
      have h2 := present_none hp2
      simp only [hp2] at hw
      simp at hw
      simp [h2, hw, pure, Except.pure]

/-- `OFX.signon`: the request sign-on if there is a request message set, else the response sign-on -/
theorem C16_shortcut_firstOrAssert (S : Schema) (P : Props) (ci : Nat) (fields : List (Str × Node))
    (items : List Node) (name a1 b1 a2 b2 : Str) (c : Cls) (r : Res)
    (hc : S.cls? ci = some c) (hb : P.find ci name = some (.firstOrAssert a1 b1 a2 b2))
    (hok : bodyOk c ⟨ci, name, .firstOrAssert a1 b1 a2 b2⟩ = true)
    (hfull : (Agg.lookup a1 fields).isSome = true ∧ (Agg.lookup a2 fields).isSome = true)
    (hd1 : ∀ m, Agg.lookup a1 fields = some m → notNone m = true → direct S b1 m = true)
    (hd2 : ∀ m, Agg.lookup a2 fields = some m → notNone m = true → direct S b2 m = true)
    (hw : walk S P.find (.firstOrAssert a1 b1 a2 b2) (.agg ci fields items) = some r) :
    getattr S P (.agg ci fields items) name = .ok r := by
  simp only [bodyOk, selfReads, List.all_cons, List.all_nil, Bool.and_true, Bool.and_eq_true,
    Option.isNone_iff_eq_none] at hok
  obtain ⟨⟨hs1, hs2⟩, hn⟩ := hok
  obtain ⟨v1, hv1⟩ := isSome_lookup hfull.1
  obtain ⟨v2, hv2⟩ := isSome_lookup hfull.2
  apply getattr_of_runBody S P ci fields items name c _ _ hc hb hn
  simp only [walk, walk1, fieldOf, hv1, hv2] at hw
  simp only [runBody, readSelf_stored S P c fields a1 v1 hs1 hv1, bind, Except.bind]
  cases hp1 : present (some v1) with
  | some m =>
    obtain ⟨h1, h2⟩ := present_some hp1
    have hm : m = v1 := by injection h1 with h1; exact h1.symm
    subst hm
    simp only [hp1, Option.map_eq_some_iff] at hw
    obtain ⟨v, hv, rfl⟩ := hw
    simp [h2, getattr_direct S P b1 m v (hd1 m hv1 h2) hv]
  | none =>
    have h1 := present_none hp1
    simp only [hp1, Option.map_eq_some_iff, Option.bind_eq_some_iff] at hw
    obtain ⟨v, ⟨m, hm, hv⟩, rfl⟩ := hw
    obtain ⟨h3, h4⟩ := present_some hm
    have hm' : m = v2 := by injection h3 with h3; exact h3.symm
    subst hm'
    simp [h1, readSelf_stored S P c fields a2 m hs2 hv2, h4, getattr_direct S P b2 m v (hd2 m hv2 h4) hv]

/-! #### `OFX.statements`, `OFX.securities` -/

/-- the list shortcut `p` of message set `m` returns its walk (discharged by `C16_shortcut_members` /
    `C16_shortcut_extend` for the message-set classes) -/
def SubOk (S : Schema) (P : Props) (p : Str) (m : Node) : Prop :=
  ∀ l, subList S P.find p m = some l → getattr S P m p = .ok (.list l)

theorem map_node_ne_list (o : Option Node) (l : List Node) : o.map Res.node ≠ some (.list l) := by
  cases o <;> simp

theorem walk1_list_empty (S : Schema) (b : Body) (m : Node) (l : List Node)
    (h : walk1 S b m = some (.list l)) (he : itemsOf m = []) : l = [] := by
  cases b with
  | members br ea stp => simp [walk1, he] at h; exact h
  | extendMembers t => simp [walk1, he] at h; exact h
  | alias a => exact absurd h (map_node_ne_list _ _)
  | path a b => exact absurd h (map_node_ne_list _ _)
  | firstOrAssert a1 b1 a2 b2 =>
    simp only [walk1] at h
    split at h <;> exact absurd h (map_node_ne_list _ _)
  | cur a1 a2 sel =>
    simp only [walk1] at h
    split at h
    · simp at h
    · split at h
      · simp at h
      · exact absurd h (map_node_ne_list _ _)
  | optList a p => simp [walk1] at h
  | concat ns p => simp [walk1] at h
  | unknown => simp [walk1] at h

theorem subList_empty (S : Schema) (P : Props) (p : Str) (m : Node) (l : List Node)
    (h : subList S P.find p m = some l) (he : itemsOf m = []) : l = [] := by
  cases m with
  | val v => simp [subList] at h
  | agg mi mf mits =>
    simp only [subList] at h
    cases hb : P.find mi p with
    | none => simp [hb] at h
    | some b =>
      simp only [hb] at h
      cases hw : walk1 S b (.agg mi mf mits) with
      | none => simp [hw] at h
      | some r =>
        cases r with
        | node n => simp [hw] at h
        | list l' =>
          simp only [hw, Option.some.injEq] at h
          subst h
          exact walk1_list_empty S b _ _ hw he

theorem truthy_false_cases (m : Node) (h : truthy m = false) (hn : notNone m = true) :
    itemsOf m = [] ∨ ∃ v, m = .val v := by
  cases m with
  | val v => exact Or.inr ⟨v, rfl⟩
  | agg mi mf mits =>
    left
    simp only [truthy, Bool.not_eq_eq_eq_not, Bool.not_false, List.isEmpty_iff] at h
    simpa [itemsOf] using h

theorem concatLoop_eq (S : Schema) (P : Props) (ci : Nat) (c : Cls) (fields : List (Str × Node))
    (items : List Node) (p : Str) :
    ∀ (names : List Str) (l : List Node), (∀ n, n ∈ names → definesStored c n = true) →
    (∀ n m, n ∈ names → Agg.lookup n fields = some m → notNone m = true → SubOk S P p m) →
    concatWalk S P.find p (.agg ci fields items) names = some l →
    concatLoop c (fieldSubs S P fields) p names = .ok l
  | [], l, _, _, h => by simp [concatWalk] at h; simp [concatLoop, h]
  | n :: rest, l, hs, hsub, h => by
    have ih := fun l' => concatLoop_eq S P ci c fields items p rest l'
      (fun x hx => hs x (List.mem_cons_of_mem _ hx)) (fun x m hx => hsub x m (List.mem_cons_of_mem _ hx))
    simp only [concatWalk, fieldOf] at h
    cases hv : Agg.lookup n fields with
    | none => simp [hv] at h
    | some m =>
      simp only [hv] at h
      simp only [concatLoop, readSelf_stored S P c fields n m (hs n List.mem_cons_self) hv, bind, Except.bind]
      cases hp : present (some m) with
      | none =>
        have hnn := present_none hp
        simp only [hp] at h
        have ht : truthy m = false := by
          cases m with
          | val v => cases v <;> simp_all [notNone, truthy]
          | agg _ _ _ => simp [notNone] at hnn
        simp [ht, ih l h, pure, Except.pure]
      | some m' =>
        obtain ⟨h1, h2⟩ := present_some hp
        have hm : m' = m := by injection h1 with h1; exact h1.symm
        subst hm
        simp only [hp] at h
        have h' : ∃ here, subList S P.find p m' = some here ∧ ∃ more,
            concatWalk S P.find p (.agg ci fields items) rest = some more ∧ here ++ more = l := by
          simpa [bind, Option.bind_eq_some_iff, pure] using h
        obtain ⟨here, hh, more, hmore, rfl⟩ := h'
        by_cases ht : truthy m' = true
        · have := hsub n m' List.mem_cons_self hv h2 here hh
          simp [ht, this, extendWith, ih more hmore, pure, Except.pure]
        · have ht' : truthy m' = false := by simpa using ht
          rcases truthy_false_cases m' ht' h2 with he | ⟨v, rfl⟩
          · have := subList_empty S P p m' here hh he
            subst this
            simp [ht', ih more hmore, pure, Except.pure]
          · simp [subList] at hh

/-- `OFX.statements`: the statements of the six statement message sets in the fixed order (requests: bank, credit
    card, investment; then responses), each set's statements in document order -/
theorem C16_shortcut_concat (S : Schema) (P : Props) (ci : Nat) (fields : List (Str × Node)) (items : List Node)
    (name p : Str) (names : List Str) (c : Cls) (r : Res)
    (hc : S.cls? ci = some c) (hb : P.find ci name = some (.concat names p))
    (hok : bodyOk c ⟨ci, name, .concat names p⟩ = true)
    (hsub : ∀ n m, n ∈ names → Agg.lookup n fields = some m → notNone m = true → SubOk S P p m)
    (hw : walk S P.find (.concat names p) (.agg ci fields items) = some r) :
    getattr S P (.agg ci fields items) name = .ok r := by
  simp only [bodyOk, selfReads, Bool.and_eq_true, List.all_eq_true, Option.isNone_iff_eq_none] at hok
  simp only [walk, Option.map_eq_some_iff] at hw
  obtain ⟨l, hl, rfl⟩ := hw
  apply getattr_of_runBody S P ci fields items name c _ _ hc hb hok.2
  simp [runBody, concatLoop_eq S P ci c fields items p names l hok.1 hsub hl, bind, Except.bind, pure, Except.pure]

/-- `OFX.securities`: the securities of the security-list message set, if there is one -/
theorem C16_shortcut_optList (S : Schema) (P : Props) (ci : Nat) (fields : List (Str × Node)) (items : List Node)
    (name a p : Str) (c : Cls) (r : Res)
    (hc : S.cls? ci = some c) (hb : P.find ci name = some (.optList a p))
    (hok : bodyOk c ⟨ci, name, .optList a p⟩ = true)
    (hsub : ∀ m, Agg.lookup a fields = some m → notNone m = true → SubOk S P p m)
    (hw : walk S P.find (.optList a p) (.agg ci fields items) = some r) :
    getattr S P (.agg ci fields items) name = .ok r := by
  simp only [bodyOk, selfReads, List.all_cons, List.all_nil, Bool.and_true, Bool.and_eq_true,
    Option.isNone_iff_eq_none] at hok
  apply getattr_of_runBody S P ci fields items name c _ _ hc hb hok.2
  simp only [walk, fieldOf] at hw
  cases hv : Agg.lookup a fields with
  | none => simp [hv] at hw
  | some m =>
    simp only [hv] at hw
    simp only [runBody, readSelf_stored S P c fields a m hok.1 hv, bind, Except.bind]
    cases hp : present (some m) with
    | none =>
      have hnn := present_none hp
      simp only [hp, Option.some.injEq] at hw
      have ht : truthy m = false := by
        cases m with
        | val v => cases v <;> simp_all [notNone, truthy]
        | agg _ _ _ => simp [notNone] at hnn
      simp [ht, ← hw, pure, Except.pure]
    | some m' =>
      obtain ⟨h1, h2⟩ := present_some hp
      have hm : m' = m := by injection h1 with h1; exact h1.symm
      subst hm
      simp only [hp, Option.map_eq_some_iff] at hw
      obtain ⟨l, hl, rfl⟩ := hw
      by_cases ht : truthy m' = true
      · simp [ht, hsub m' hv h2 l hl]
      · have ht' : truthy m' = false := by simpa using ht
        rcases truthy_false_cases m' ht' h2 with he | ⟨v, rfl⟩
        · have := subList_empty S P p m' l hl he
          subst this
          simp [ht', pure, Except.pure]
        · simp [subList] at hl

/-- discharging `SubOk` for a message set whose own shortcut is a `members` walk -/
theorem SubOk_members (S : Schema) (P : Props) (p : Str) (mi : Nat) (mf : List (Str × Node)) (mits : List Node)
    (cm : Cls) (br : List (Nat × Str)) (ea : Bool) (stp : List (Str × Str))
    (hc : S.cls? mi = some cm) (hb : P.find mi p = some (.members br ea stp)) (hn : cm.attr? p = none)
    (hm : ∀ w, w ∈ mits → memberOk S br ea stp w) : SubOk S P p (.agg mi mf mits) := by
  intro l hl
  simp only [subList, hb, walk1, itemsOf, Option.some.injEq] at hl
  subst hl
  exact C16_shortcut_members S P mi mf mits p br ea stp cm hc hb hn hm

/-- … and for one whose shortcut flattens its `SECLIST` members -/
theorem SubOk_extend (S : Schema) (P : Props) (p : Str) (mi : Nat) (mf : List (Str × Node)) (mits : List Node)
    (cm : Cls) (t : Nat)
    (hc : S.cls? mi = some cm) (hb : P.find mi p = some (.extendMembers t)) (hn : cm.attr? p = none) :
    SubOk S P p (.agg mi mf mits) := by
  intro l hl
  simp only [subList, hb, walk1, itemsOf, Option.some.injEq] at hl
  subst hl
  exact C16_shortcut_extend S P mi mf mits p t cm hc hb hn

/-! ### the guards are satisfiable (a two-class schema: `A {x, b : B, ms : list of B}`, `B {y}`) -/
namespace Example

def mkCls (name : String) (spec : List Attr) : Cls :=
  { name := name.toList, exported := true, abstract := false, ancestors := [], spec := spec, optMutex := [],
    reqMutex := [], declOptMutex := [], declReqMutex := [], elementList := false, extra := .none, groom := none,
    ungroom := none }

def S0 : Schema :=
  ⟨[mkCls "A" [⟨"x".toList, .string none false, false⟩, ⟨"b".toList, .sub 1, false⟩, ⟨"ms".toList, .listAgg 1, false⟩],
    mkCls "B" [⟨"y".toList, .string none false, false⟩]], []⟩
def P0 : Props := [⟨0, "ys".toList, .members [(1, "y".toList)] false []⟩, ⟨0, "mine".toList, .alias "b".toList⟩]
def iB : Node := .agg 1 [("y".toList, .val (.str "v".toList))] []
def iA : Node := .agg 0 [("x".toList, .val (.str "u".toList)), ("b".toList, iB)] [iB, iB]

/-- C16_proxy: `y` is defined only at path `b`; the guards hold and the value is the stored one -/
example : clean S0 P0 iA "y".toList = true ∧ definers S0 iA "y".toList = [["b".toList]] := by decide +kernel
example : valueAt S0 iA ["b".toList] "y".toList = some (.val (.str "v".toList)) := by rfl
/-- C16_miss: on the full instance and on the half-built one (empty dict, members present) -/
example : undefined S0 P0 iA "nope".toList = true := by decide +kernel
example : undefined S0 P0 (.agg 0 [] [iB, iB]) "__setstate__".toList = true := by decide +kernel
/-- a name declared only inside list members is undefined on the instance (no proxying into repeated children) -/
example : undefined S0 P0 (.agg 0 [("x".toList, .val .none), ("b".toList, .val .none)] [iB]) "y".toList = true := by
  decide +kernel
/-- C16_copy_probes: its premise on a nested instance -/
example : copyProbes.all (fun ne => undefined S0 P0 (.agg 0 (if ne.2 then [] else iA.fields) iA.items) ne.1) = true := by
  decide +kernel
/-- the shortcut guards -/
example : bodyOk (mkCls "A" [⟨"x".toList, .string none false, false⟩, ⟨"b".toList, .sub 1, false⟩,
    ⟨"ms".toList, .listAgg 1, false⟩]) ⟨0, "mine".toList, .alias "b".toList⟩ = true := by decide +kernel
example : getattr S0 P0 iA "ys".toList = .ok (.list [.val (.str "v".toList), .val (.str "v".toList)]) := by rfl
example : getattr S0 P0 iA "mine".toList = .ok (.node iB) := by rfl

end Example

end Ofx.C16
