/-
C18, persistence clause, as an IFF: exactly which saved runs read back.

Spec: `OfxModel/Spec/PersistOk.lean` (`View`, `saves`, `savedReadsBack`, `keptReads`, `PersistOk`, `lossClass`);
lemmas: `OfxProofs/Lemmas/C18Persist.lean`.

Domain of `C18_persist_iff` (all explicit hypotheses): tables with `Tables.WF` and distinct CONFIGURABLE names
(both proved of the generated tables); the nickname is not configparser's reserved `DEFAULT`; the saving run got
through `mk_server_cfg`; the option is CONFIGURABLE and has a value in effect; the next run names the same nickname,
sets `--dryrun`, does not give the option and gets through `merge_config`.
-/
import OfxProofs.Lemmas.C18Persist
import OfxProofs.Props.C18

namespace Ofx.Ofxget
open Ofx Ofx.Spec.Ofxget Ofx.Spec.Persist

/-- **C18_persist_iff.**  Save (`ofxget … s --write`, any command line, any ofxget.cfg, any FI database, any OFX
    Home table), then run again without the option: the value in effect for a CONFIGURABLE option `k` is the same
    **if and only if** `PersistOk` holds of the option's view — for every outcome of `test_cfg_val` (written; written
    because stored; skipped as empty; skipped as the global CLIENTUID; skipped as the library default) and every
    kind of value.  `low` is what ranks below the files at the second run: the OFX Home record under the id in
    effect then, else `DEFAULTS[k]`. -/
theorem C18_persist_iff (T : Tables) (hwf : T.WF = true) (hnd : (T.configurable.map (·.1)).Nodup)
    (lookup : Str → Option OhRec) (ns1 : Map) (lowSave : Option CfgVal)
    (fidb user : FileC) (c1 : Chain) (uuid : Str) (cfg' : Ini) (s : Str)
    (hs : s ≠ defaultSect) (hnick : serverNick c1 = .ok s)
    (hmk : mkServerCfg T c1 (loadUser fidb user) (loadLib fidb) user uuid = .ok cfg')
    (k : Name) (ty : CfgTy) (hkt : (k, ty) ∈ T.configurable) (v : CfgVal) (hv : effective c1 k = some v)
    (libCfg : Map) (hlib : readConfig T (loadLib fidb) s = .ok libCfg)
    (d : CfgVal) (hd : T.defaults.lookup k = some d)
    (ns2 : Map) (c2 : Chain) (dr : CfgVal)
    (hsrv2 : (extractns ns2).lookup "server".toList = some (.str s))
    (hdry2 : (extractns ns2).lookup "dryrun".toList = some dr) (htd : truthy dr = true)
    (hk2 : (extractns ns2).lookup k = none)
    (h2 : mergeConfig T lookup ns2 (loadUser fidb cfg'.toFile) = .ok c2) :
    effective c2 k = effective c1 k ↔
      PersistOk T (viewOf ns1 fidb user uuid s k ty v ((libCfg.lookup k).getD d) lowSave
        (lowOf T lookup (effective c2 "ofxhome".toList) k)) = true := by
  have hlow : ∀ ot ∈ T.configurable, lower ot.1 = ot.1 := by
    simp only [Tables.WF, Bool.and_eq_true] at hwf
    intro ot hot
    have := List.all_eq_true.mp hwf.1.1.1.1.2 ot hot
    simpa using this
  have hmem := canon_loadUser fidb user
  obtain ⟨hdef, hcanon, hhas⟩ := mkServerCfg_defaults T c1 _ _ hmem user uuid cfg' s hs hnick hmk
  have huid := reloadCfg_has_uid (loadUser fidb user) user uuid
  cases hg : (reloadCfg (loadUser fidb user) user uuid).defaults.lookup "clientuid".toList with
  | none => rw [hg] at huid; cases huid
  | some g =>
    have hlook := mkServerCfg_look T hlow hnd c1 _ _ hmem user uuid cfg' s hs hnick hmk k ty hkt v hv libCfg hlib d hd g hg
    have hr := rerun_effective T hwf hnd lookup fidb cfg' hcanon s hs hhas k ty hkt ns2 c2 dr hsrv2 hdry2 htd hk2 h2
    rw [hv]
    unfold PersistOk
    rw [saves_viewOf ns1 fidb user uuid s hs k ty v d libCfg lowSave _ g hg]
    cases hsv : turnSaves (reloadCfg (loadUser fidb user) user uuid) libCfg s k v d g with
    | true =>
      obtain ⟨txt, htxt, hlk⟩ := hlook.1 hsv
      rw [hlk] at hr
      simp only [Option.map_some, Option.some_or] at hr
      obtain ⟨tv, htv, heff⟩ := hr
      simp only [if_true, savedReadsBack, viewOf, htxt, htv, heff, Option.some.injEq, beq_iff_eq]
    | false =>
      have hlk := hlook.2 hsv
      have hdl : cfg'.look defaultSect k = (reloadCfg (loadUser fidb user) user uuid).look defaultSect k := by
        rw [look_default, look_default, hdef]
      rw [hlk, hdl, ← keptText_viewOf ns1 fidb user uuid s hs k ty v ((libCfg.lookup k).getD d) lowSave
        (lowOf T lookup (effective c2 "ofxhome".toList) k)] at hr
      simp only [Bool.false_eq_true, if_false, keptReads]
      split at hr
      · rename_i t ht
        obtain ⟨tv, htv, heff⟩ := hr
        rw [ht]
        have hty : (viewOf ns1 fidb user uuid s k ty v ((libCfg.lookup k).getD d) lowSave
          (lowOf T lookup (effective c2 "ofxhome".toList) k)).ty = ty := rfl
        have hvv : (viewOf ns1 fidb user uuid s k ty v ((libCfg.lookup k).getD d) lowSave
          (lowOf T lookup (effective c2 "ofxhome".toList) k)).v = v := rfl
        simp only [hty, hvv, htv, heff, Option.some.injEq, beq_iff_eq]
      · rename_i ht
        rw [ht]
        have hvv : (viewOf ns1 fidb user uuid s k ty v ((libCfg.lookup k).getD d) lowSave
          (lowOf T lookup (effective c2 "ofxhome".toList) k)).v = v := rfl
        have hll : (viewOf ns1 fidb user uuid s k ty v ((libCfg.lookup k).getD d) lowSave
          (lowOf T lookup (effective c2 "ofxhome".toList) k)).low =
            lowOf T lookup (effective c2 "ofxhome".toList) k := rfl
        simp only [hvv, hll, hr, beq_iff_eq]

/-! ### value kinds: which saved texts read back -/

/-- the two spellings `arg2config` writes for booleans are in `BOOLEAN_STATES` with their meaning -/
def Tables.BoolOk (T : Tables) : Bool :=
  pyBoolOfStr T "true".toList == some true && pyBoolOfStr T "false".toList == some false

/-- a saved string reads back **iff** it has no edge blanks -/
theorem savedReadsBack_str (T : Tables) (s : Str) : savedReadsBack T .str (.str s) = true ↔ strip s = s := by
  simp [savedReadsBack, arg2config, typedOfStr]

/-- a saved integer always reads back -/
theorem savedReadsBack_int (T : Tables) (i : Int) : savedReadsBack T .int (.int i) = true := by
  simp [savedReadsBack, arg2config, pyStr, typedOfStr, pyInt_roundtrip]

/-- a saved boolean always reads back -/
theorem savedReadsBack_bool (T : Tables) (hb : T.BoolOk = true) (b : Bool) :
    savedReadsBack T .bool (.bool b) = true := by
  simp only [Tables.BoolOk, Bool.and_eq_true, beq_iff_eq] at hb
  have h1 : strip ['t', 'r', 'u', 'e'] = ['t', 'r', 'u', 'e'] := by decide
  have h2 : strip ['f', 'a', 'l', 's', 'e'] = ['f', 'a', 'l', 's', 'e'] := by decide
  have hb1 : pyBoolOfStr T ['t', 'r', 'u', 'e'] = some true := hb.1
  have hb2 : pyBoolOfStr T ['f', 'a', 'l', 's', 'e'] = some false := hb.2
  cases b
  · simp [savedReadsBack, arg2config, typedOfStr, h2, hb2]
  · simp [savedReadsBack, arg2config, typedOfStr, h1, hb1]

/-- a saved list of clean account numbers reads back (sufficient) -/
theorem savedReadsBack_list (T : Tables) (l : List Str) (hne : l ≠ []) (h : ∀ m ∈ l, CleanMember m) :
    savedReadsBack T .list (.list l) = true := by
  simp [savedReadsBack, arg2config, pyStr, typedOfStr, list_roundtrip l hne h]

/-- the spec's value-level guard is the one `C18_persist_partial` uses -/
theorem savedReadsBack_eq_readsBack (T : Tables) (ty : CfgTy) (v : CfgVal) :
    savedReadsBack T ty v = readsBack T ty v := rfl

/-! ### the classes of the known findings lie outside `PersistOk` -/

/-- known finding `string-edge-blanks-lost`, as a class: a saved string option with a blank at either end does not
    persist — and a saved string option without one does -/
theorem C18_strEdgeBlank_iff (T : Tables) (w : View) (s : Str) (hsv : saves w = true) (hty : w.ty = .str)
    (hv : w.v = .str s) : PersistOk T w = true ↔ strip s = s := by
  unfold PersistOk
  rw [hsv, hty, hv]
  simp only [if_true]
  exact savedReadsBack_str T s

theorem C18_strEdgeBlank_not_PersistOk (T : Tables) (w : View) (s : Str) (hsv : saves w = true) (hty : w.ty = .str)
    (hv : w.v = .str s) (hblank : strip s ≠ s) : PersistOk T w = false := by
  have := C18_strEdgeBlank_iff T w s hsv hty hv
  cases hp : PersistOk T w with
  | false => rfl
  | true => exact absurd (this.mp hp) hblank

/-- an empty value is never saved -/
theorem saves_null (w : View) (h : isNullArg w.v = true) : saves w = false := by
  simp [saves, h]

/-- known finding `cli-null-value-not-saved`, as a class: an empty string in effect (`--user ''`) while the files
    hold a non-empty text for the option — the stored text is back on the next run -/
theorem C18_cliNull_not_PersistOk (T : Tables) (w : View) (t : Str) (hty : w.ty = .str) (hv : w.v = .str [])
    (hkept : keptText w = some t) (hne : t ≠ []) : PersistOk T w = false := by
  unfold PersistOk
  rw [saves_null w (by rw [hv]; rfl)]
  simp only [Bool.false_eq_true, if_false, keptReads, hkept, hty, typedOfStr, hv]
  simpa using hne

/-- the same for an empty account list (`[]`) against any stored text -/
theorem C18_cliNullList_not_PersistOk (T : Tables) (w : View) (t : Str) (hty : w.ty = .list) (hv : w.v = .list [])
    (hkept : keptText w = some t) : PersistOk T w = false := by
  unfold PersistOk
  rw [saves_null w (by rw [hv]; rfl)]
  simp only [Bool.false_eq_true, if_false, keptReads, hkept, hty, typedOfStr, hv]
  have : convertList t ≠ [] := by
    intro h
    have := convertList_length t
    rw [h] at this
    simp at this
  simpa using this

/-- known finding `default-section-ignored-for-new-server`, as a class: an empty string value in effect at the
    saving run (the DEFAULT section was not consulted: no section yet), nothing in either server section, and a
    non-empty text in the DEFAULT section — in effect from the next run on -/
theorem C18_defaultSection_not_PersistOk (T : Tables) (w : View) (t : Str) (hty : w.ty = .str) (hv : w.v = .str [])
    (hsect : w.sect = none) (hfi : w.fiSect = none) (hd : w.dflt = some t) (hne : strip t ≠ []) :
    PersistOk T w = false :=
  C18_cliNull_not_PersistOk T w (strip t) hty hv (by simp [keptText, hsect, hfi, hd]) hne

/-- known finding `clientuid-equal-to-global-not-saved`, as a class: `--clientuid` equal to the global one is not
    written, so a different CLIENTUID held by the server's section (of ofxget.cfg, or else of fi.cfg) wins again -/
theorem C18_uidEqualsGlobal_not_PersistOk (T : Tables) (w : View) (g t : Str) (huid : w.isUid = true)
    (hty : w.ty = .str) (hg : w.globalUid = some g) (hv : w.v = .str g)
    (hkept : keptText w = some t) (hne : t ≠ g) : PersistOk T w = false := by
  have hsk : uidSkip w = true := by
    simp only [uidSkip, huid, hg, hv, pyEq, Bool.true_and, beq_self_eq_true]
  have hsv : saves w = false := by simp [saves, hsk]
  unfold PersistOk
  rw [hsv]
  simp only [Bool.false_eq_true, if_false, keptReads, hkept, hty, typedOfStr, hv]
  simpa using hne

/-- known finding `list-member-characters-lost`, as a class (the `,` part, exact direction): a saved account list
    with a member containing `,` does not persist — the reader splits that member.  (The other members of the class
    — `'`, `\\`, control characters, edge blanks — are `savedReadsBack … = false` as well, shown on witnesses below;
    `savedReadsBack_list` is the converse for clean members.) -/
theorem C18_listComma_not_PersistOk (T : Tables) (w : View) (l : List Str) (hsv : saves w = true) (hty : w.ty = .list)
    (hv : w.v = .list l) (hcomma : ∃ m ∈ l, ',' ∈ m) : PersistOk T w = false := by
  unfold PersistOk
  rw [hsv, hty, hv]
  simp only [if_true]
  exact savedReadsBack_list_comma T l hcomma

/-- and conversely a saved list of clean account numbers persists -/
theorem C18_listClean_PersistOk (T : Tables) (w : View) (l : List Str) (hsv : saves w = true) (hty : w.ty = .list)
    (hv : w.v = .list l) (hne : l ≠ []) (h : ∀ m ∈ l, CleanMember m) : PersistOk T w = true := by
  unfold PersistOk
  rw [hsv, hty, hv]
  simp only [if_true]
  exact savedReadsBack_list T l hne h

/-- the other characters of the class, on witnesses: a quote, a backslash, an edge blank, a control character -/
theorem savedReadsBack_list_tables (T T' : Tables) (v : CfgVal) :
    savedReadsBack T .list v = savedReadsBack T' .list v := by
  unfold savedReadsBack
  cases arg2config .list v <;> rfl

theorem C18_listMember_witnesses (T : Tables) :
    savedReadsBack T .list (.list ["it's".toList]) = false ∧
    savedReadsBack T .list (.list ["a\\b".toList]) = false ∧
    savedReadsBack T .list (.list [" a".toList]) = false ∧
    savedReadsBack T .list (.list ["a\tb".toList]) = false := by
  simp only [savedReadsBack_list_tables T Generated.ofxgetTables]
  refine ⟨?_, ?_, ?_, ?_⟩ <;> decide +kernel

/-! ### no sixth way -/

theorem pyEq_eq_of_typed (a b : CfgVal) (t : CfgTy) (ha : typeOfVal a = some t) (hb : typeOfVal b = some t)
    (h : pyEq a b = true) : a = b := by
  cases a <;> cases b <;> simp only [typeOfVal, Option.some.injEq, reduceCtorEq] at ha hb <;>
    first
    | (rw [← ha] at hb; cases hb; done)
    | (simp_all [pyEq])

/-- what holds of the view of any run of the real program on typed values (proved of `viewOf` by
    `viewOf_consistent`) -/
structure ViewConsistent (T : Tables) (w : View) : Prop where
  /-- the value in effect has the option's type, or is `None` -/
  typed : typeOfVal w.v = some w.ty ∨ w.v = .null
  libTyped : typeOfVal w.libDefault = some w.ty
  /-- `clear()` keeps DEFAULT: what fi.cfg's DEFAULT section says is in the re-read configuration's DEFAULT -/
  dfltIncl : w.dflt = none → w.fiDflt = none
  /-- the library default is the typed fi.cfg entry when there is one … -/
  fiLib : ∀ t, w.fiSect = some t → typedOfStr T w.ty t = .ok w.libDefault
  /-- … else the built-in default, which is also what ranks lowest at the next run (OFX Home only sets options
      whose built-in default is empty) -/
  lowLib : w.fiSect = none → w.fiDflt = none → isNullArg w.libDefault = false → w.low = some w.libDefault
  /-- what the saving run read: an option the command line does not give — the nickname having a section, or the
      DEFAULT section being silent, and the DEFAULT-section CLIENTUID not being a fresh one — has the typed reading
      of the text the files hold for it in effect, else what ranked below the files at that run -/
  saveRead : w.cliSet = false → (w.known = true ∨ w.dflt = none) → freshUid w = false →
    match keptText w with
    | some t => typedOfStr T w.ty t = .ok w.v
    | none => w.lowSave = some w.v

/-- an option skipped as "equal to the library default, nothing stored" always persists -/
theorem skipDefault_PersistOk (T : Tables) (w : View) (hc : ViewConsistent T w) (hnull : isNullArg w.v = false)
    (hp : pyEq w.v w.libDefault = true) (hst : stored w = false) : keptReads T w = true := by
  have hvt : typeOfVal w.v = some w.ty := by
    rcases hc.typed with h | h
    · exact h
    · rw [h] at hnull; cases hnull
  have hveq : w.v = w.libDefault := pyEq_eq_of_typed _ _ _ hvt hc.libTyped hp
  simp only [stored, Bool.or_eq_false_iff, Option.isSome_eq_false_iff, Option.isNone_iff_eq_none] at hst
  have hfd := hc.dfltIncl hst.2
  unfold keptReads keptText
  rw [hst.1, hst.2, hfd]
  cases hfs : w.fiSect with
  | some t =>
    simp only [Option.map_none, Option.none_or, Option.or_none, hc.fiLib t hfs, hveq, beq_self_eq_true]
  | none =>
    simp only [Option.map_none, Option.or_none]
    rw [hc.lowLib hfs hfd (by rw [← hveq]; exact hnull), hveq]
    simp

/-- **C18_no_sixth_way.**  (Every label of `lossClass` has a test of its own; `unexpected` is what passes none: it is
    excluded here by proof, from `ViewConsistent`, not by the shape of the classifier.)
    Inside the typed domain an option that does not persist is lost in one of the seven
    named ways — the five known findings (`cliNull`, `defaultSectionIgnored`, `uidEqualsGlobal`, `strEdgeBlank`,
    `listMember`), the designed first global CLIENTUID (`freshGlobalUid`), or an empty value whose lower-ranking
    places changed under it (`emptyFollows`) — never otherwise: integers and booleans always read back, and an
    option left out as "equal to the library default" is always back by itself. -/
theorem C18_no_sixth_way (T : Tables) (hb : T.BoolOk = true) (w : View) (hc : ViewConsistent T w) :
    lossClass T w ≠ some .unexpected := by
  unfold lossClass
  cases hok : PersistOk T w with
  | true => simp
  | false =>
    simp only [Bool.false_eq_true, if_false]
    cases hsv : saves w with
    | true =>
      simp only [if_true]
      have hnn : isNullArg w.v = false := by
        cases hn : isNullArg w.v with
        | false => rfl
        | true => rw [saves_null w hn] at hsv; cases hsv
      have hvt : typeOfVal w.v = some w.ty := by
        rcases hc.typed with h | h
        · exact h
        · rw [h] at hnn; cases hnn
      unfold PersistOk at hok
      rw [hsv] at hok
      simp only [if_true] at hok
      cases hty : w.ty with
      | str => simp
      | list => simp
      | int =>
        rw [hty] at hvt hok
        cases hv : w.v with
        | int i => rw [hv, savedReadsBack_int] at hok; cases hok
        | null => rw [hv] at hvt; cases hvt
        | str _ => rw [hv] at hvt; cases hvt
        | bool _ => rw [hv] at hvt; cases hvt
        | list _ => rw [hv] at hvt; cases hvt
      | bool =>
        rw [hty] at hvt hok
        cases hv : w.v with
        | bool b => rw [hv, savedReadsBack_bool T hb] at hok; cases hok
        | null => rw [hv] at hvt; cases hvt
        | str _ => rw [hv] at hvt; cases hvt
        | int _ => rw [hv] at hvt; cases hvt
        | list _ => rw [hv] at hvt; cases hvt
    | false =>
      simp only [Bool.false_eq_true, if_false]
      cases hn : isNullArg w.v with
      | true =>
        simp only [if_true]
        by_cases h1 : w.cliSet = true
        · simp [h1]
        · by_cases h2 : freshUid w = true
          · simp [h1, h2]
          · by_cases h3 : (!w.known && w.dflt.isSome) = true
            · simp only [h1, h2, h3, if_true, if_false, Bool.false_eq_true]; simp
            · by_cases h4 : (w.low != w.lowSave) = true
              · simp only [h1, h2, h3, h4, if_true, if_false, Bool.false_eq_true]; simp
              · exfalso
                have hcs : w.cliSet = false := Bool.eq_false_iff.mpr h1
                have hfu : freshUid w = false := Bool.eq_false_iff.mpr h2
                have hkn : w.known = true ∨ w.dflt = none := by
                  cases hk : w.known with
                  | true => exact Or.inl rfl
                  | false =>
                    right
                    cases hd : w.dflt with
                    | none => rfl
                    | some x => simp [hk, hd] at h3
                have hlo : w.low = w.lowSave := by
                  cases hq : (w.low != w.lowSave) with
                  | true => exact absurd hq h4
                  | false => simpa using hq
                have hsr := hc.saveRead hcs hkn hfu
                unfold PersistOk at hok
                rw [hsv] at hok
                simp only [Bool.false_eq_true, if_false] at hok
                unfold keptReads at hok
                cases hkt : keptText w with
                | some t =>
                  rw [hkt] at hsr hok
                  simp only [hsr, beq_self_eq_true] at hok
                  cases hok
                | none =>
                  rw [hkt] at hsr hok
                  simp only at hsr hok
                  rw [hlo, hsr] at hok
                  simp at hok
      | false =>
        simp only [Bool.false_eq_true, if_false]
        cases hu : uidSkip w with
        | true => simp
        | false =>
          exfalso
          simp only [saves, hn, hu, Bool.not_false, Bool.true_and] at hsv
          simp only [Bool.or_eq_false_iff, Bool.not_eq_false'] at hsv
          have := skipDefault_PersistOk T w hc hn hsv.1 hsv.2
          unfold PersistOk at hok
          simp only [saves, hn, hu, hsv.1, hsv.2, Bool.not_false, Bool.not_true, Bool.false_or, Bool.and_false,
            Bool.false_eq_true, if_false] at hok
          rw [this] at hok
          cases hok

/-! ### the view of every real run is consistent -/

/-- the options an OFX Home record can set -/
def ohKeys : List Name := ["url".toList, "org".toList, "fid".toList, "brokerid".toList]

/-- OFX Home only fills options whose built-in default is empty -/
def Tables.OhDefaultsEmpty (T : Tables) : Bool :=
  ohKeys.all fun k => match T.defaults.lookup k with | some d => isNullArg d | none => true

theorem ohRecord_lookup_some (lookup : Str → Option OhRec) (id : Option CfgVal) (k : Name) (x : CfgVal)
    (h : (ohRecord lookup id).lookup k = some x) : k ∈ ohKeys := by
  unfold ohRecord at h
  split at h
  · split at h
    · cases h
    · split at h
      · simp only [OhRec.toMap, List.lookup_cons, List.lookup_nil] at h
        unfold ohKeys
        by_cases h1 : k = "url".toList
        · simp [h1]
        · by_cases h2 : k = "org".toList
          · simp [h2]
          · by_cases h3 : k = "fid".toList
            · simp [h3]
            · by_cases h4 : k = "brokerid".toList
              · simp [h4]
              · have b1 : (k == "url".toList) = false := by simpa using h1
                have b2 : (k == "org".toList) = false := by simpa using h2
                have b3 : (k == "fid".toList) = false := by simpa using h3
                have b4 : (k == "brokerid".toList) = false := by simpa using h4
                rw [b1, b2, b3, b4] at h
                cases h
      · cases h
  · cases h

theorem typedOfStr_type (T : Tables) (ty : CfgTy) (t : Str) (tv : CfgVal) (h : typedOfStr T ty t = .ok tv) :
    typeOfVal tv = some ty := by
  cases ty with
  | str => simp only [typedOfStr, Except.ok.injEq] at h; rw [← h]; rfl
  | int =>
    simp only [typedOfStr] at h
    split at h
    · simp only [Except.ok.injEq] at h; rw [← h]; rfl
    · cases h
  | bool =>
    simp only [typedOfStr] at h
    split at h
    · simp only [Except.ok.injEq] at h; rw [← h]; rfl
    · cases h
  | list => simp only [typedOfStr, Except.ok.injEq] at h; rw [← h]; rfl

theorem configurable_lookup_of_mem (T : Tables) (hnd : (T.configurable.map (·.1)).Nodup) (k : Name) (ty : CfgTy)
    (hkt : (k, ty) ∈ T.configurable) : T.configurable.lookup k = some ty := by
  apply lookup_of_mem_unique _ _ _ hkt
  intro ty' hmem
  have : ∀ (l : List (Name × CfgTy)), (l.map (·.1)).Nodup → (k, ty) ∈ l → (k, ty') ∈ l → ty' = ty := by
    intro l
    induction l with
    | nil => intro _ h; cases h
    | cons a l ih =>
      intro hn h1 h2
      have hn' : (a.1 :: l.map (·.1)).Nodup := hn
      rw [List.nodup_cons] at hn'
      rcases List.mem_cons.mp h1 with e1 | e1
      · rcases List.mem_cons.mp h2 with e2 | e2
        · rw [← e1] at e2; exact (Prod.mk.inj e2).2
        · exact absurd (List.mem_map_of_mem (f := (·.1)) e2) (by have := hn'.1; rw [← e1] at this; exact this)
      · rcases List.mem_cons.mp h2 with e2 | e2
        · exact absurd (List.mem_map_of_mem (f := (·.1)) e1) (by have := hn'.1; rw [← e2] at this; exact this)
        · exact ih hn'.2 e1 e2
  exact this _ hnd hkt hmem

/-- what `read_config(LIBCFG, s)` says for one option, in terms of fi.cfg's two sections -/
theorem libCfg_lookup (T : Tables) (hnd : (T.configurable.map (·.1)).Nodup) (fidb : FileC) (s : Str)
    (hs : s ≠ defaultSect) (libCfg : Map) (hlib : readConfig T (loadLib fidb) s = .ok libCfg)
    (k : Name) (ty : CfgTy) (hkt : (k, ty) ∈ T.configurable) :
    (∀ t, ((loadLib fidb).sect s).lookup k = some t → ∃ tv, typedOfStr T ty t = .ok tv ∧ libCfg.lookup k = some tv) ∧
    (((loadLib fidb).sect s).lookup k = none → (loadLib fidb).defaults.lookup k = none → libCfg.lookup k = none) ∧
    (∀ tv, libCfg.lookup k = some tv → typeOfVal tv = some ty) := by
  have hty := configurable_lookup_of_mem T hnd k ty hkt
  by_cases hc : (loadLib fidb).contains s = true
  · have hl := readConfig_lookup T _ s libCfg hs hc hlib k ty hty
    have hraw : (loadLib fidb).raw s k =
        match ((loadLib fidb).sect s).lookup k with
        | some v => some v
        | none => (loadLib fidb).defaults.lookup k := rfl
    refine ⟨fun t ht => ?_, fun h1 h2 => ?_, fun tv htv => ?_⟩
    · rw [hraw, ht] at hl
      exact hl
    · rw [hraw, h1, h2] at hl
      exact hl
    · cases hr : (loadLib fidb).raw s k with
      | none => rw [hr] at hl; rw [hl] at htv; cases htv
      | some t =>
        rw [hr] at hl
        obtain ⟨tv', h1, h2⟩ := hl
        rw [h2] at htv
        cases htv
        exact typedOfStr_type T ty t _ h1
  · have hcf : (loadLib fidb).contains s = false := Bool.eq_false_iff.mpr hc
    have hempty : libCfg = [] := by
      unfold readConfig at hlib
      simp only [hcf, Bool.not_false, if_true, Except.ok.injEq] at hlib
      exact hlib.symm
    have hnosec : (loadLib fidb).sections.lookup s = none := by
      simp only [Ini.contains, Ini.hasSection, Bool.or_eq_false_iff] at hcf
      cases hl : (loadLib fidb).sections.lookup s with
      | none => rfl
      | some x => rw [hl] at hcf; cases hcf.2
    refine ⟨fun t ht => ?_, fun _ _ => by rw [hempty]; rfl, fun tv htv => by rw [hempty] at htv; cases htv⟩
    simp only [Ini.sect, hnosec, Option.getD_none, List.lookup_nil] at ht
    cases ht

theorem reloadCfg_default_incl (fidb user : FileC) (uuid : Str) (k : Name)
    (h : (reloadCfg (loadUser fidb user) user uuid).defaults.lookup k = none) :
    (loadLib fidb).defaults.lookup k = none := by
  have hbase : (({ loadUser fidb user with sections := [] } : Ini).loadFile user).defaults.lookup k = none := by
    unfold reloadCfg at h
    simp only at h
    split at h
    · exact h
    · simp only [Ini.set, BEq.rfl, if_true, lookup_mapSet] at h
      split at h
      · cases h
      · exact h
  rw [← look_default, loadFile_look] at hbase
  have h2 : ({ loadUser fidb user with sections := [] } : Ini).look defaultSect k = (loadUser fidb user).look defaultSect k := by
    simp [Ini.look]
  rw [h2] at hbase
  unfold loadUser at hbase
  rw [loadFile_look, loadFile_look, empty_look] at hbase
  rw [← look_default, loadLib_look]
  cases hf : fileLookup fidb defaultSect k with
  | none => rfl
  | some x =>
    rw [hf] at hbase
    cases h1 : fileLookup user defaultSect k <;> simp [h1] at hbase

/-- a successful `serverNick` excludes the "URL given as the server positional" detour of `merge_config`: the
    command-line source is the namespace without its `None` entries -/
theorem saveRun_sources (T : Tables) (hwf : T.WF = true) (lookup : Str → Option OhRec) (ns1 : Map) (cfg : Ini)
    (c1 : Chain) (s : Str) (hnick : serverNick c1 = .ok s) (h1 : mergeConfig T lookup ns1 cfg = .ok c1) :
    ∃ userCfg1, userCfgOf T cfg (extractns ns1) = .ok userCfg1 ∧
      (∀ k, effective c1 k =
        firstSetter [extractns ns1, userCfg1, ohSource lookup [extractns ns1, userCfg1, T.defaults], T.defaults] k) ∧
      effective c1 "ofxhome".toList = Chain.get? [extractns ns1, userCfg1, T.defaults] "ofxhome".toList := by
  obtain ⟨cli, userCfg1, hu1, hcliEq, he1⟩ := mergeConfig_effective T hwf lookup ns1 _ c1 h1
  have hcli' : cli = extractns ns1 := by
    rcases hcliEq with h | ⟨server, _, h⟩
    · exact h
    · exfalso
      have hsn : c1.get? "server".toList = some .null := by
        have := he1 "server".toList
        simp only [effective] at this
        rw [this, h]
        simp [firstSetter, sloppy, lookup_mapSet]
      unfold serverNick at hnick
      rw [hsn] at hnick
      simp [truthy, bind, Except.bind, pure, Except.pure] at hnick
  subst hcli'
  refine ⟨userCfg1, hu1, he1, ?_⟩
  rw [he1, ohSource_eq_ohRecord, firstSetter_skip _ _ _ _ _ (ohRecord_lookup_ofxhome _ _), firstSetter_eq_get?]

/-- **what the saving run has in effect for an option its command line does not give**: the typed reading of the
    first text the two files hold for it (server sections, then DEFAULT sections) — provided the nickname has a
    section, or the DEFAULT sections are silent — else what ranks below the files at that run -/
theorem saveRun_reads (T : Tables) (hwf : T.WF = true) (hnd : (T.configurable.map (·.1)).Nodup)
    (lookup : Str → Option OhRec) (fidb user : FileC) (ns1 : Map) (c1 : Chain) (s : Str)
    (hs : s ≠ defaultSect) (hnick : serverNick c1 = .ok s)
    (h1 : mergeConfig T lookup ns1 (loadUser fidb user) = .ok c1)
    (hsrv1 : (extractns ns1).lookup "server".toList = some (.str s))
    (k : Name) (ty : CfgTy) (hkt : (k, ty) ∈ T.configurable) (v : CfgVal) (hv : effective c1 k = some v)
    (hcli : (extractns ns1).lookup k = none)
    (hknown : (fileHasSection fidb s || fileHasSection user s) = true ∨
      (fileLookup user defaultSect k).or (fileLookup fidb defaultSect k) = none) :
    match ((fileLookup user s k).or (fileLookup fidb s k)).or
        ((fileLookup user defaultSect k).or (fileLookup fidb defaultSect k)) with
    | some t => typedOfStr T ty t = .ok v
    | none => lowOf T lookup (effective c1 "ofxhome".toList) k = some v := by
  obtain ⟨userCfg1, hu1, he1, hoh1⟩ := saveRun_sources T hwf lookup ns1 _ c1 s hnick h1
  have hrc1 : readConfig T (loadUser fidb user) s = .ok userCfg1 := by
    unfold userCfgOf at hu1
    rw [hsrv1] at hu1
    exact hu1
  have hty := configurable_lookup_of_mem T hnd k ty hkt
  have hl1 : match ((fileLookup user s k).or (fileLookup fidb s k)).or
        ((fileLookup user defaultSect k).or (fileLookup fidb defaultSect k)) with
      | none => userCfg1.lookup k = none
      | some t => ∃ tv, typedOfStr T ty t = .ok tv ∧ userCfg1.lookup k = some tv := by
    by_cases hkn : (fileHasSection fidb s || fileHasSection user s) = true
    · have hcont1 : (loadUser fidb user).contains s = true := by rw [loadUser_contains _ _ _ hs]; exact hkn
      have := readConfig_lookup T _ s userCfg1 hs hcont1 hrc1 k ty hty
      rw [raw_layering fidb user s k hs] at this
      exact this
    · have hknf : (fileHasSection fidb s || fileHasSection user s) = false := Bool.eq_false_iff.mpr hkn
      have hdn : (fileLookup user defaultSect k).or (fileLookup fidb defaultSect k) = none := by
        rcases hknown with h | h
        · exact absurd h hkn
        · exact h
      have hcont1 : (loadUser fidb user).contains s = false := by rw [loadUser_contains _ _ _ hs]; exact hknf
      have hempty : userCfg1 = [] := by
        unfold readConfig at hrc1
        simp only [hcont1, Bool.not_false, if_true, Except.ok.injEq] at hrc1
        exact hrc1.symm
      simp only [Bool.or_eq_false_iff] at hknf
      rw [fileLookup_no_section user s k hknf.2, fileLookup_no_section fidb s k hknf.1, hdn, hempty]
      rfl
  split
  · rename_i t ht
    rw [ht] at hl1
    obtain ⟨tv, htv, hlk⟩ := hl1
    rw [he1 k] at hv
    simp only [firstSetter, hcli, hlk, Option.some.injEq] at hv
    rw [← hv]; exact htv
  · rename_i ht
    rw [ht] at hl1
    simp only at hl1
    rw [← hv, hoh1, he1 k]
    simp only [firstSetter, hcli, hl1, lowOf, ohSource_eq_ohRecord]

theorem known_viewOf (fidb user : FileC) (s : Str) (hs : s ≠ defaultSect) :
    (loadUser fidb user).hasSection s = (fileHasSection fidb s || fileHasSection user s) := by
  have := loadUser_contains fidb user s hs
  have hsf : (s == defaultSect) = false := by simpa using hs
  simpa [Ini.contains, hsf] using this

/-- **every real run is inside the domain of `C18_no_sixth_way`**: for well-formed tables, a saving run
    `merge_config(ns1)` under the nickname `s`, a value in effect of the option's type (or `None`), the library
    configuration `read_config(LIBCFG, s)` returned, `lowSave` what ranked below the files at the saving run, and
    whatever OFX Home id is in effect at the next run, the view of the option — with `cliSet` and `known` read off
    the command line and the two files — is consistent -/
theorem viewOf_consistent (T : Tables) (hwf : T.WF = true) (hnd : (T.configurable.map (·.1)).Nodup)
    (hoh : T.OhDefaultsEmpty = true) (lookup : Str → Option OhRec) (ns1 : Map) (fidb user : FileC) (c1 : Chain)
    (uuid s : Str) (hs : s ≠ defaultSect) (hnick : serverNick c1 = .ok s)
    (h1 : mergeConfig T lookup ns1 (loadUser fidb user) = .ok c1)
    (hsrv1 : (extractns ns1).lookup "server".toList = some (.str s))
    (k : Name) (ty : CfgTy) (hkt : (k, ty) ∈ T.configurable) (v : CfgVal) (hv : effective c1 k = some v)
    (hvt : typeOfVal v = some ty ∨ v = .null)
    (libCfg : Map) (hlib : readConfig T (loadLib fidb) s = .ok libCfg)
    (d : CfgVal) (hd : T.defaults.lookup k = some d) (id : Option CfgVal) :
    ViewConsistent T (viewOf ns1 fidb user uuid s k ty v ((libCfg.lookup k).getD d)
      (lowOf T lookup (effective c1 "ofxhome".toList) k) (lowOf T lookup id k)) := by
  obtain ⟨hsome, hnone, htyped⟩ := libCfg_lookup T hnd fidb s hs libCfg hlib k ty hkt
  have hdty : typeOfVal d = some ty := by
    simp only [Tables.WF, Bool.and_eq_true] at hwf
    have := List.all_eq_true.mp hwf.1.1.1.2 (k, ty) hkt
    simp only [hd, Option.bind_some, beq_iff_eq] at this
    exact this
  refine ⟨hvt, ?_, ?_, ?_, ?_, ?_⟩
  · show typeOfVal ((libCfg.lookup k).getD d) = some ty
    cases hl : libCfg.lookup k with
    | none => exact hdty
    | some tv => exact htyped tv hl
  · intro h
    exact reloadCfg_default_incl fidb user uuid k h
  · intro t ht
    obtain ⟨tv, h1, h2⟩ := hsome t ht
    show typedOfStr T ty t = .ok ((libCfg.lookup k).getD d)
    rw [h2]
    exact h1
  · intro h1 h2 h3
    have hl : libCfg.lookup k = none := hnone h1 h2
    show lowOf T lookup id k = some ((libCfg.lookup k).getD d)
    have h3' : isNullArg d = false := by
      have : isNullArg ((libCfg.lookup k).getD d) = false := h3
      rw [hl] at this
      exact this
    rw [hl]
    simp only [lowOf, firstSetter, Option.getD_none]
    cases ho : (ohRecord lookup id).lookup k with
    | none => simp only [hd]
    | some x =>
      have hk := ohRecord_lookup_some lookup id k x ho
      have := List.all_eq_true.mp hoh k hk
      simp only [hd] at this
      rw [this] at h3'
      cases h3'
  · -- what the saving run read
    intro hcs hkn hfu
    have hcli : (extractns ns1).lookup k = none := by
      have : ((extractns ns1).lookup k).isSome = false := hcs
      cases hl : (extractns ns1).lookup k with
      | none => rfl
      | some x => rw [hl] at this; cases this
    have hkn' : (loadUser fidb user).hasSection s = true ∨
        (reloadCfg (loadUser fidb user) user uuid).defaults.lookup k = none := hkn
    rw [known_viewOf fidb user s hs] at hkn'
    have hfu' : ((k == "clientuid".toList) &&
        ((reloadCfg (loadUser fidb user) user uuid).look s k).isNone &&
        ((loadLib fidb).look s k).isNone &&
        ((reloadCfg (loadUser fidb user) user uuid).defaults.lookup k).isSome &&
        ((reloadCfg (loadUser fidb user) user uuid).defaults.lookup k ==
          (reloadCfg (loadUser fidb user) user uuid).defaults.lookup "clientuid".toList)) = false := by
      have := hfu
      simpa only [freshUid, viewOf, Ini.look, hs, if_false] using this
    rw [reloadCfg_look_sect _ user uuid s hs k, loadLib_look] at hfu'
    rw [keptText_viewOf ns1 fidb user uuid s hs k ty v _ _ _, reloadCfg_look_sect _ user uuid s hs k,
      fileLookup_strip]
    show match ((fileLookup user s k).or (fileLookup fidb s k)).or
          ((((reloadCfg (loadUser fidb user) user uuid).look defaultSect k).map strip).or
            (fileLookup fidb defaultSect k)) with
      | some t => typedOfStr T ty t = .ok v
      | none => lowOf T lookup (effective c1 "ofxhome".toList) k = some v
    cases hA : (fileLookup user s k).or (fileLookup fidb s k) with
    | some t0 =>
      -- a server section holds the option: both runs read it there; the nickname is known
      have hknown : (fileHasSection fidb s || fileHasSection user s) = true := by
        cases hkk : (fileHasSection fidb s || fileHasSection user s) with
        | true => rfl
        | false =>
          simp only [Bool.or_eq_false_iff] at hkk
          rw [fileLookup_no_section user s k hkk.2, fileLookup_no_section fidb s k hkk.1] at hA
          cases hA
      have := saveRun_reads T hwf hnd lookup fidb user ns1 c1 s hs hnick h1 hsrv1 k ty hkt v hv hcli (Or.inl hknown)
      rw [hA] at this
      simpa using this
    | none =>
      have hu : fileLookup user s k = none := by cases h : fileLookup user s k <;> simp_all
      have hf : fileLookup fidb s k = none := by cases h : fileLookup fidb s k <;> simp_all
      by_cases hkc : k = "clientuid".toList
      · -- `clientuid` with nothing in a server section: the DEFAULT-section id is the (possibly fresh) global one
        exfalso
        subst hkc
        have hsome := reloadCfg_has_uid (loadUser fidb user) user uuid
        cases hl : (reloadCfg (loadUser fidb user) user uuid).defaults.lookup "clientuid".toList with
        | none => rw [hl] at hsome; cases hsome
        | some g =>
          rw [hu, hf, hl] at hfu'
          simp at hfu'
      · have hD := reloadCfg_look_default fidb user uuid k hkc
        have hknown : (fileHasSection fidb s || fileHasSection user s) = true ∨
            (fileLookup user defaultSect k).or (fileLookup fidb defaultSect k) = none := by
          rcases hkn' with h | h
          · exact Or.inl h
          · right; rw [← hD]; exact h
        have := saveRun_reads T hwf hnd lookup fidb user ns1 c1 s hs hnick h1 hsrv1 k ty hkt v hv hcli hknown
        rw [hA] at this
        rw [look_default, hD, map_strip_or, fileLookup_strip, fileLookup_strip]
        have hB : (((fileLookup user defaultSect k).or (fileLookup fidb defaultSect k)).or
            (fileLookup fidb defaultSect k)) =
            (fileLookup user defaultSect k).or (fileLookup fidb defaultSect k) := by
          cases fileLookup user defaultSect k <;> cases fileLookup fidb defaultSect k <;> rfl
        rw [hB]
        simpa using this

/-! ### `emptyFollows` only occurs together with a lost OFX Home id -/

/-- **an option the save leaves alone follows nothing but the OFX Home id.**  Saving run `ofxget … s --write` from
    the command line `ns1` on a nickname that already has a section (in ofxget.cfg or fi.cfg) — or a new one while
    the DEFAULT sections say nothing for the option; `k` (not `clientuid`) is CONFIGURABLE, not given on that
    command line and not saved (`saves = false`: empty, or equal to the library
    default with nothing stored).  If the OFX Home id in effect at the next run is the one in effect at the saving
    run, `k` keeps its value.  So the loss class `emptyFollows` only occurs together with a lost `ofxhome`. -/
theorem C18_kept_follows_ofxhome (T : Tables) (hwf : T.WF = true) (hnd : (T.configurable.map (·.1)).Nodup)
    (lookup : Str → Option OhRec) (fidb user : FileC) (ns1 : Map) (c1 : Chain) (uuid : Str) (cfg' : Ini) (s : Str)
    (hs : s ≠ defaultSect) (hnick : serverNick c1 = .ok s)
    (h1 : mergeConfig T lookup ns1 (loadUser fidb user) = .ok c1)
    (hsrv1 : (extractns ns1).lookup "server".toList = some (.str s))
    (hmk : mkServerCfg T c1 (loadUser fidb user) (loadLib fidb) user uuid = .ok cfg')
    (k : Name) (ty : CfgTy) (hkt : (k, ty) ∈ T.configurable) (hkuid : k ≠ "clientuid".toList)
    (hknown : (fileHasSection fidb s || fileHasSection user s) = true ∨
      (fileLookup user defaultSect k).or (fileLookup fidb defaultSect k) = none)
    (v : CfgVal) (hv : effective c1 k = some v)
    (libCfg : Map) (hlib : readConfig T (loadLib fidb) s = .ok libCfg)
    (d : CfgVal) (hd : T.defaults.lookup k = some d)
    (hcli : (extractns ns1).lookup k = none)
    (lowSave low : Option CfgVal)
    (hns : saves (viewOf ns1 fidb user uuid s k ty v ((libCfg.lookup k).getD d) lowSave low) = false)
    (ns2 : Map) (c2 : Chain) (dr : CfgVal)
    (hsrv2 : (extractns ns2).lookup "server".toList = some (.str s))
    (hdry2 : (extractns ns2).lookup "dryrun".toList = some dr) (htd : truthy dr = true)
    (hk2 : (extractns ns2).lookup k = none)
    (h2 : mergeConfig T lookup ns2 (loadUser fidb cfg'.toFile) = .ok c2)
    (hoh : effective c2 "ofxhome".toList = effective c1 "ofxhome".toList) :
    effective c2 k = effective c1 k := by
  have hlow : ∀ ot ∈ T.configurable, lower ot.1 = ot.1 := by
    simp only [Tables.WF, Bool.and_eq_true] at hwf
    intro ot hot
    have := List.all_eq_true.mp hwf.1.1.1.1.2 ot hot
    simpa using this
  have hmem := canon_loadUser fidb user
  obtain ⟨hdef, hcanon, hhas⟩ := mkServerCfg_defaults T c1 _ _ hmem user uuid cfg' s hs hnick hmk
  -- the saving run
  obtain ⟨cli, userCfg1, hu1, hcliEq, he1⟩ := mergeConfig_effective T hwf lookup ns1 _ c1 h1
  have hcli' : cli = extractns ns1 := by
    rcases hcliEq with h | ⟨server, _, h⟩
    · exact h
    · exfalso
      have hsn : c1.get? "server".toList = some .null := by
        have := he1 "server".toList
        simp only [effective] at this
        rw [this, h]
        simp [firstSetter, sloppy, lookup_mapSet]
      unfold serverNick at hnick
      rw [hsn] at hnick
      simp [truthy, bind, Except.bind, pure, Except.pure] at hnick
  subst hcli'
  have hrc1 : readConfig T (loadUser fidb user) s = .ok userCfg1 := by
    unfold userCfgOf at hu1
    rw [hsrv1] at hu1
    exact hu1
  have hty := configurable_lookup_of_mem T hnd k ty hkt
  have hl1 : match ((fileLookup user s k).or (fileLookup fidb s k)).or
        ((fileLookup user defaultSect k).or (fileLookup fidb defaultSect k)) with
      | none => userCfg1.lookup k = none
      | some t => ∃ tv, typedOfStr T ty t = .ok tv ∧ userCfg1.lookup k = some tv := by
    by_cases hkn : (fileHasSection fidb s || fileHasSection user s) = true
    · have hcont1 : (loadUser fidb user).contains s = true := by rw [loadUser_contains _ _ _ hs]; exact hkn
      have := readConfig_lookup T _ s userCfg1 hs hcont1 hrc1 k ty hty
      rw [raw_layering fidb user s k hs] at this
      exact this
    · have hknf : (fileHasSection fidb s || fileHasSection user s) = false := Bool.eq_false_iff.mpr hkn
      have hdn : (fileLookup user defaultSect k).or (fileLookup fidb defaultSect k) = none := by
        rcases hknown with h | h
        · exact absurd h hkn
        · exact h
      have hcont1 : (loadUser fidb user).contains s = false := by rw [loadUser_contains _ _ _ hs]; exact hknf
      have hempty : userCfg1 = [] := by
        unfold readConfig at hrc1
        simp only [hcont1, Bool.not_false, if_true, Except.ok.injEq] at hrc1
        exact hrc1.symm
      simp only [Bool.or_eq_false_iff] at hknf
      rw [fileLookup_no_section user s k hknf.2, fileLookup_no_section fidb s k hknf.1, hdn, hempty]
      rfl
  -- the save leaves the option alone
  have huid := reloadCfg_has_uid (loadUser fidb user) user uuid
  cases hg : (reloadCfg (loadUser fidb user) user uuid).defaults.lookup "clientuid".toList with
  | none => rw [hg] at huid; cases huid
  | some g =>
    have hlook := mkServerCfg_look T hlow hnd c1 _ _ hmem user uuid cfg' s hs hnick hmk k ty hkt v hv libCfg hlib d hd g hg
    rw [saves_viewOf ns1 fidb user uuid s hs k ty v d libCfg lowSave low g hg] at hns
    have hlk := hlook.2 hns
    rw [reloadCfg_look_sect _ user uuid s hs k] at hlk
    have hdl : cfg'.look defaultSect k = (fileLookup user defaultSect k).or (fileLookup fidb defaultSect k) := by
      rw [look_default, hdef, reloadCfg_look_default fidb user uuid k hkuid]
    -- the next run
    have hr := rerun_effective T hwf hnd lookup fidb cfg' hcanon s hs hhas k ty hkt ns2 c2 dr hsrv2 hdry2 htd hk2 h2
    rw [hlk, hdl, map_strip_or, fileLookup_strip, fileLookup_strip, fileLookup_strip] at hr
    have hraw : ((fileLookup user s k).or (fileLookup fidb s k)).or
          (((fileLookup user defaultSect k).or (fileLookup fidb defaultSect k)).or (fileLookup fidb defaultSect k)) =
        ((fileLookup user s k).or (fileLookup fidb s k)).or
          ((fileLookup user defaultSect k).or (fileLookup fidb defaultSect k)) := by
      cases fileLookup user s k <;> cases fileLookup fidb s k <;> cases fileLookup user defaultSect k <;>
        cases fileLookup fidb defaultSect k <;> rfl
    rw [hraw] at hr
    cases hraw1 : ((fileLookup user s k).or (fileLookup fidb s k)).or
        ((fileLookup user defaultSect k).or (fileLookup fidb defaultSect k)) with
    | some t =>
      rw [hraw1] at hl1 hr
      obtain ⟨tv1, ht1, hlk1⟩ := hl1
      obtain ⟨tv2, ht2, heff2⟩ := hr
      rw [heff2, he1 k]
      simp only [firstSetter, hcli, hlk1]
      rw [ht1] at ht2
      exact congrArg some (Except.ok.inj ht2).symm
    | none =>
      rw [hraw1] at hl1 hr
      simp only at hl1 hr
      have hoh1 : effective c1 "ofxhome".toList = Chain.get? [extractns ns1, userCfg1, T.defaults] "ofxhome".toList := by
        rw [he1, ohSource_eq_ohRecord, firstSetter_skip _ _ _ _ _ (ohRecord_lookup_ofxhome _ _), firstSetter_eq_get?]
      rw [hr, hoh, hoh1, he1 k]
      simp only [firstSetter, hcli, hl1, lowOf, ohSource_eq_ohRecord]

/-! ### what each loss label says (soundness of `lossClass`, label by label) -/

theorem lossClass_none_iff (T : Tables) (w : View) : lossClass T w = none ↔ PersistOk T w = true := by
  unfold lossClass
  cases hp : PersistOk T w with
  | true => simp
  | false =>
    simp only [Bool.false_eq_true, if_false]
    repeat' split
    all_goals simp

theorem lossClass_cliNull (T : Tables) (w : View) (h : lossClass T w = some .cliNull) :
    PersistOk T w = false ∧ saves w = false ∧ isNullArg w.v = true ∧ w.cliSet = true := by
  unfold lossClass at h
  repeat' split at h
  all_goals simp_all

theorem lossClass_freshGlobalUid (T : Tables) (w : View) (h : lossClass T w = some .freshGlobalUid) :
    PersistOk T w = false ∧ saves w = false ∧ isNullArg w.v = true ∧ w.cliSet = false ∧ freshUid w = true := by
  unfold lossClass at h
  repeat' split at h
  all_goals simp_all

theorem lossClass_defaultSectionIgnored (T : Tables) (w : View) (h : lossClass T w = some .defaultSectionIgnored) :
    PersistOk T w = false ∧ saves w = false ∧ isNullArg w.v = true ∧ w.cliSet = false ∧ w.known = false ∧
      w.dflt.isSome = true := by
  unfold lossClass at h
  repeat' split at h
  all_goals simp_all

theorem lossClass_emptyFollows (T : Tables) (w : View) (h : lossClass T w = some .emptyFollows) :
    PersistOk T w = false ∧ saves w = false ∧ isNullArg w.v = true ∧ w.cliSet = false ∧ w.low ≠ w.lowSave := by
  unfold lossClass at h
  repeat' split at h
  all_goals simp_all

theorem lossClass_uidEqualsGlobal (T : Tables) (w : View) (h : lossClass T w = some .uidEqualsGlobal) :
    PersistOk T w = false ∧ saves w = false ∧ isNullArg w.v = false ∧ uidSkip w = true := by
  unfold lossClass at h
  repeat' split at h
  all_goals simp_all

theorem lossClass_strEdgeBlank (T : Tables) (w : View) (h : lossClass T w = some .strEdgeBlank) :
    PersistOk T w = false ∧ saves w = true ∧ w.ty = .str := by
  unfold lossClass at h
  repeat' split at h
  all_goals simp_all

theorem lossClass_listMember (T : Tables) (w : View) (h : lossClass T w = some .listMember) :
    PersistOk T w = false ∧ saves w = true ∧ w.ty = .list ∧ savedReadsBack T .list w.v = false := by
  unfold lossClass at h
  repeat' split at h
  all_goals simp_all [PersistOk]

/-- `strEdgeBlank`, for a value of the option's type: it is a string with a blank at either end -/
theorem C18_strEdgeBlank_sound (T : Tables) (w : View) (hvt : typeOfVal w.v = some w.ty ∨ w.v = .null)
    (h : lossClass T w = some .strEdgeBlank) : ∃ s, w.v = .str s ∧ strip s ≠ s := by
  obtain ⟨hp, hsv, hty⟩ := lossClass_strEdgeBlank T w h
  have hnn : isNullArg w.v = false := by
    cases hn : isNullArg w.v with
    | false => rfl
    | true => rw [saves_null w hn] at hsv; cases hsv
  rw [hty] at hvt
  cases hv : w.v with
  | str s =>
    refine ⟨s, rfl, fun hs => ?_⟩
    have := (C18_strEdgeBlank_iff T w s hsv hty hv).mpr hs
    rw [hp] at this; cases this
  | null => rw [hv] at hnn; cases hnn
  | int _ => rw [hv] at hvt; rcases hvt with h | h <;> cases h
  | bool _ => rw [hv] at hvt; rcases hvt with h | h <;> cases h
  | list _ => rw [hv] at hvt; rcases hvt with h | h <;> cases h

/-- **`emptyFollows` means the OFX Home id in effect differs between the two runs** — for the view of a run, whose
    `lowSave` / `low` are what OFX Home (under the id in effect at the saving / at the next run) and DEFAULTS say -/
theorem C18_emptyFollows_sound (T : Tables) (lookup : Str → Option OhRec) (ns1 : Map) (fidb user : FileC)
    (uuid s : Str) (k : Name) (ty : CfgTy) (v ld : CfgVal) (id1 id2 : Option CfgVal)
    (h : lossClass T (viewOf ns1 fidb user uuid s k ty v ld (lowOf T lookup id1 k) (lowOf T lookup id2 k))
      = some .emptyFollows) :
    id2 ≠ id1 ∧ isNullArg v = true ∧ (extractns ns1).lookup k = none := by
  obtain ⟨_, _, hn, hc, hl⟩ := lossClass_emptyFollows T _ h
  refine ⟨fun e => ?_, hn, ?_⟩
  · subst e
    exact hl rfl
  · have : ((extractns ns1).lookup k).isSome = false := hc
    cases hk : (extractns ns1).lookup k with
    | none => rfl
    | some x => rw [hk] at this; cases this

/-- **`cliNull` means the saving command line gave the option, with an empty value** (the value in effect) -/
theorem C18_cliNull_sound (T : Tables) (hwf : T.WF = true) (lookup : Str → Option OhRec) (ns1 : Map)
    (fidb user : FileC) (c1 : Chain) (uuid s : Str) (hnick : serverNick c1 = .ok s)
    (h1 : mergeConfig T lookup ns1 (loadUser fidb user) = .ok c1)
    (k : Name) (ty : CfgTy) (v ld : CfgVal) (hv : effective c1 k = some v) (lowSave low : Option CfgVal)
    (h : lossClass T (viewOf ns1 fidb user uuid s k ty v ld lowSave low) = some .cliNull) :
    (extractns ns1).lookup k = some v ∧ isNullArg v = true := by
  obtain ⟨_, _, hn, hc⟩ := lossClass_cliNull T _ h
  refine ⟨?_, hn⟩
  have hc' : ((extractns ns1).lookup k).isSome = true := hc
  obtain ⟨userCfg1, _, he1, _⟩ := saveRun_sources T hwf lookup ns1 _ c1 s hnick h1
  cases hk : (extractns ns1).lookup k with
  | none => rw [hk] at hc'; cases hc'
  | some x =>
    have := he1 k
    rw [hv] at this
    simp only [firstSetter, hk, Option.some.injEq] at this
    rw [this]

/-- **`defaultSectionIgnored` means the nickname had no section in either file, the command line did not give the
    option, its value in effect was empty, and the DEFAULT section the save re-read holds the option** -/
theorem C18_defaultSectionIgnored_sound (T : Tables) (ns1 : Map) (fidb user : FileC) (uuid s : Str)
    (hs : s ≠ defaultSect) (k : Name) (ty : CfgTy) (v ld : CfgVal) (lowSave low : Option CfgVal)
    (h : lossClass T (viewOf ns1 fidb user uuid s k ty v ld lowSave low) = some .defaultSectionIgnored) :
    (fileHasSection fidb s || fileHasSection user s) = false ∧ (extractns ns1).lookup k = none ∧
      isNullArg v = true ∧ ((reloadCfg (loadUser fidb user) user uuid).defaults.lookup k).isSome = true := by
  obtain ⟨_, _, hn, hc, hk, hd⟩ := lossClass_defaultSectionIgnored T _ h
  refine ⟨?_, ?_, hn, hd⟩
  · rw [← known_viewOf fidb user s hs]; exact hk
  · have : ((extractns ns1).lookup k).isSome = false := hc
    cases hl : (extractns ns1).lookup k with
    | none => rfl
    | some x => rw [hl] at this; cases this

/-- **`freshGlobalUid` means the option is `clientuid`, not given on the command line, empty in effect, held by no
    server section, and the DEFAULT section the save wrote holds the global one** -/
theorem C18_freshGlobalUid_sound (T : Tables) (ns1 : Map) (fidb user : FileC) (uuid s : Str)
    (k : Name) (ty : CfgTy) (v ld : CfgVal) (lowSave low : Option CfgVal)
    (h : lossClass T (viewOf ns1 fidb user uuid s k ty v ld lowSave low) = some .freshGlobalUid) :
    k = "clientuid".toList ∧ isNullArg v = true ∧ ((extractns ns1).lookup k).isSome = false := by
  obtain ⟨_, _, hn, hc, hf⟩ := lossClass_freshGlobalUid T _ h
  refine ⟨?_, hn, hc⟩
  simp only [freshUid, viewOf, Bool.and_eq_true, beq_iff_eq] at hf
  exact hf.1.1.1.1

/-- **`uidEqualsGlobal` means the option is `clientuid` and its (non-empty) value in effect equals the global one** -/
theorem C18_uidEqualsGlobal_sound (T : Tables) (ns1 : Map) (fidb user : FileC) (uuid s : Str)
    (k : Name) (ty : CfgTy) (v ld : CfgVal) (lowSave low : Option CfgVal)
    (h : lossClass T (viewOf ns1 fidb user uuid s k ty v ld lowSave low) = some .uidEqualsGlobal) :
    k = "clientuid".toList ∧ isNullArg v = false ∧
      ∃ g, (reloadCfg (loadUser fidb user) user uuid).defaults.lookup "clientuid".toList = some g ∧
        pyEq v (.str g) = true := by
  obtain ⟨_, _, hn, hu⟩ := lossClass_uidEqualsGlobal T _ h
  simp only [uidSkip, viewOf, Bool.and_eq_true, beq_iff_eq] at hu
  refine ⟨hu.1, hn, ?_⟩
  cases hg : (reloadCfg (loadUser fidb user) user uuid).defaults.lookup "clientuid".toList with
  | none => rw [hg] at hu; cases hu.2
  | some g => rw [hg] at hu; exact ⟨g, rfl, hu.2⟩

/-! ### the generated tables; the whole characterisation in one statement -/

theorem C18_generated_boolOk : Generated.ofxgetTables.BoolOk = true := by decide +kernel

theorem C18_generated_ohDefaultsEmpty : Generated.ofxgetTables.OhDefaultsEmpty = true := by decide +kernel

/-- **C18_persist_characterised** — `ofxget` as generated from the source.  For every saving run
    `merge_config(ns1)` that gets through `mk_server_cfg` under a nickname other than `DEFAULT`, every CONFIGURABLE
    option whose value in effect has the option's type (or is `None`), and every next run `ofxget … s --dryrun` that
    does not give the option: the value is the same **iff** `PersistOk` holds of the option's view; when it does not
    hold `lossClass` names the way it is lost, and the label is never `unexpected` — by proof (every label has its own
    test; `cliSet`, `known`, `lowSave` are read off `ns1`, the two files and the saving run, not free);
    `emptyFollows` implies that the OFX Home id in effect differs between the two runs.  What the other labels say
    of the run: `C18_cliNull_sound`, `C18_defaultSectionIgnored_sound`, `C18_freshGlobalUid_sound`,
    `C18_uidEqualsGlobal_sound`, `C18_strEdgeBlank_sound`, `lossClass_listMember`. -/
theorem C18_persist_characterised (lookup : Str → Option OhRec) (ns1 : Map) (fidb user : FileC) (c1 : Chain)
    (uuid : Str) (cfg' : Ini) (s : Str) (hs : s ≠ defaultSect) (hnick : serverNick c1 = .ok s)
    (h1 : mergeConfig Generated.ofxgetTables lookup ns1 (loadUser fidb user) = .ok c1)
    (hsrv1 : (extractns ns1).lookup "server".toList = some (.str s))
    (hmk : mkServerCfg Generated.ofxgetTables c1 (loadUser fidb user) (loadLib fidb) user uuid = .ok cfg')
    (k : Name) (ty : CfgTy) (hkt : (k, ty) ∈ Generated.ofxgetTables.configurable) (v : CfgVal)
    (hv : effective c1 k = some v) (hvt : typeOfVal v = some ty ∨ v = .null)
    (libCfg : Map) (hlib : readConfig Generated.ofxgetTables (loadLib fidb) s = .ok libCfg)
    (d : CfgVal) (hd : Generated.ofxgetTables.defaults.lookup k = some d)
    (ns2 : Map) (c2 : Chain) (dr : CfgVal)
    (hsrv2 : (extractns ns2).lookup "server".toList = some (.str s))
    (hdry2 : (extractns ns2).lookup "dryrun".toList = some dr) (htd : truthy dr = true)
    (hk2 : (extractns ns2).lookup k = none)
    (h2 : mergeConfig Generated.ofxgetTables lookup ns2 (loadUser fidb cfg'.toFile) = .ok c2) :
    let w := viewOf ns1 fidb user uuid s k ty v ((libCfg.lookup k).getD d)
      (lowOf Generated.ofxgetTables lookup (effective c1 "ofxhome".toList) k)
      (lowOf Generated.ofxgetTables lookup (effective c2 "ofxhome".toList) k)
    (effective c2 k = effective c1 k ↔ PersistOk Generated.ofxgetTables w = true) ∧
    (effective c2 k = effective c1 k ↔ lossClass Generated.ofxgetTables w = none) ∧
    lossClass Generated.ofxgetTables w ≠ some .unexpected ∧
    (lossClass Generated.ofxgetTables w = some .emptyFollows →
      effective c2 "ofxhome".toList ≠ effective c1 "ofxhome".toList) := by
  intro w
  have hiff := C18_persist_iff Generated.ofxgetTables Gen.ofxgetTables_wf Gen.configurable_nodup lookup ns1
    (lowOf Generated.ofxgetTables lookup (effective c1 "ofxhome".toList) k) fidb user c1 uuid
    cfg' s hs hnick hmk k ty hkt v hv libCfg hlib d hd ns2 c2 dr hsrv2 hdry2 htd hk2 h2
  have hcons := viewOf_consistent Generated.ofxgetTables Gen.ofxgetTables_wf Gen.configurable_nodup
    C18_generated_ohDefaultsEmpty lookup ns1 fidb user c1 uuid s hs hnick h1 hsrv1 k ty hkt v hv hvt libCfg hlib d hd
    (effective c2 "ofxhome".toList)
  refine ⟨hiff, ?_, C18_no_sixth_way _ C18_generated_boolOk w hcons, fun h => ?_⟩
  · rw [hiff, lossClass_none_iff]
  · exact (C18_emptyFollows_sound _ lookup ns1 fidb user uuid s k ty v _ _ _ h).1

/-! ### the hypotheses are satisfiable, and two of them follow from the others -/

/-- every CONFIGURABLE option has a built-in default (`Tables.WF`): the hypothesis `hd` of `C18_persist_iff` can
    always be met -/
theorem configurable_has_default (T : Tables) (hwf : T.WF = true) (k : Name) (ty : CfgTy)
    (hkt : (k, ty) ∈ T.configurable) : ∃ d, T.defaults.lookup k = some d := by
  simp only [Tables.WF, Bool.and_eq_true] at hwf
  have := List.all_eq_true.mp hwf.1.1.1.2 (k, ty) hkt
  cases hl : T.defaults.lookup k with
  | some d => exact ⟨d, rfl⟩
  | none => simp [hl] at this

/-- a save that got through `mk_server_cfg` has read the library configuration: the hypothesis `hlib` of
    `C18_persist_iff` can always be met -/
theorem mkServerCfg_libCfg (T : Tables) (args : Chain) (mem lib : Ini) (disk : FileC) (uuid : Str) (cfg' : Ini)
    (s : Str) (hnick : serverNick args = .ok s) (h : mkServerCfg T args mem lib disk uuid = .ok cfg') :
    ∃ libCfg, readConfig T lib s = .ok libCfg := by
  unfold mkServerCfg at h
  simp only [bind, Except.bind, hnick] at h
  cases hl : readConfig T lib s with
  | ok libCfg => exact ⟨libCfg, rfl⟩
  | error e => rw [hl] at h; cases h

/-- the domain of `C18_persist_iff` is inhabited: `ofxget stmt srv1 --write --url https://h/ --version 102` on empty
    files gets through `merge_config` and `mk_server_cfg` under the nickname `srv1`, and the next run
    `ofxget stmt srv1 --dryrun` gets through `merge_config` (and has 102 in effect) -/
example :
    (match mergeConfig Generated.ofxgetTables (fun _ => none)
        (nsWrite [("url".toList, .str "https://h/".toList), ("version".toList, .int 102)]) (loadUser [] []) with
     | .ok c1 =>
       (match serverNick c1, mkServerCfg Generated.ofxgetTables c1 (loadUser [] []) (loadLib []) [] "U".toList with
        | .ok s, .ok cfg' =>
          s == "srv1".toList &&
          (match mergeConfig Generated.ofxgetTables (fun _ => none) (probeNs (.str s)) (loadUser [] cfg'.toFile) with
           | .ok c2 => effective c2 "version".toList == some (.int 102)
           | .error _ => false)
        | _, _ => false)
     | .error _ => false) = true := by decide +kernel

/-! ### deciding persistence from the saving run alone: first `ofxhome`, then every option -/

theorem lowOf_ofxhome (T : Tables) (lookup : Str → Option OhRec) (id : Option CfgVal) :
    lowOf T lookup id "ofxhome".toList = T.defaults.lookup "ofxhome".toList := by
  simp only [lowOf, firstSetter, ohRecord_lookup_ofxhome]
  cases T.defaults.lookup "ofxhome".toList <;> rfl

/-- **C18_persist_iff_from_first_run.**  `C18_persist_iff` feeds `PersistOk` with `low`, which depends on the OFX
    Home id in effect at the NEXT run.  In two steps everything is decided from the saving run and its environment:
    (1) for the option `ofxhome` itself `low` does not depend on any id (an OFX Home record never sets `ofxhome`), so
    "`ofxhome` persists" is `PersistOk` of a view computed from the saving run only;
    (2) if it holds, then for every CONFIGURABLE option the iff holds with `low` computed from the id in effect at
    the SAVING run. -/
theorem C18_persist_iff_from_first_run (T : Tables) (hwf : T.WF = true) (hnd : (T.configurable.map (·.1)).Nodup)
    (lookup : Str → Option OhRec) (ns1 : Map) (fidb user : FileC) (c1 : Chain) (uuid : Str) (cfg' : Ini) (s : Str)
    (hs : s ≠ defaultSect) (hnick : serverNick c1 = .ok s)
    (hmk : mkServerCfg T c1 (loadUser fidb user) (loadLib fidb) user uuid = .ok cfg')
    (libCfg : Map) (hlib : readConfig T (loadLib fidb) s = .ok libCfg)
    (tyO : CfgTy) (hktO : ("ofxhome".toList, tyO) ∈ T.configurable) (vO : CfgVal)
    (hvO : effective c1 "ofxhome".toList = some vO) (dO : CfgVal) (hdO : T.defaults.lookup "ofxhome".toList = some dO)
    (ns2 : Map) (c2 : Chain) (dr : CfgVal)
    (hsrv2 : (extractns ns2).lookup "server".toList = some (.str s))
    (hdry2 : (extractns ns2).lookup "dryrun".toList = some dr) (htd : truthy dr = true)
    (hkO2 : (extractns ns2).lookup "ofxhome".toList = none)
    (h2 : mergeConfig T lookup ns2 (loadUser fidb cfg'.toFile) = .ok c2) :
    let wO := viewOf ns1 fidb user uuid s "ofxhome".toList tyO vO ((libCfg.lookup "ofxhome".toList).getD dO)
      (some dO) (some dO)
    (effective c2 "ofxhome".toList = effective c1 "ofxhome".toList ↔ PersistOk T wO = true) ∧
    (PersistOk T wO = true →
      ∀ (k : Name) (ty : CfgTy), (k, ty) ∈ T.configurable → ∀ v, effective c1 k = some v →
        ∀ d, T.defaults.lookup k = some d → (extractns ns2).lookup k = none →
        (effective c2 k = effective c1 k ↔
          PersistOk T (viewOf ns1 fidb user uuid s k ty v ((libCfg.lookup k).getD d)
            (lowOf T lookup (effective c1 "ofxhome".toList) k)
            (lowOf T lookup (effective c1 "ofxhome".toList) k)) = true)) := by
  intro wO
  have hO := C18_persist_iff T hwf hnd lookup ns1 (some dO) fidb user c1 uuid cfg' s hs hnick hmk
    "ofxhome".toList tyO hktO vO hvO libCfg hlib dO hdO ns2 c2 dr hsrv2 hdry2 htd hkO2 h2
  rw [lowOf_ofxhome, hdO] at hO
  refine ⟨hO, fun hp k ty hkt v hv d hd hk2 => ?_⟩
  have hoh := hO.mpr hp
  have := C18_persist_iff T hwf hnd lookup ns1 (lowOf T lookup (effective c1 "ofxhome".toList) k) fidb user c1 uuid
    cfg' s hs hnick hmk k ty hkt v hv libCfg hlib d hd ns2 c2 dr hsrv2 hdry2 htd hk2 h2
  rw [hoh] at this
  exact this

/-! ### the five known findings, on their recorded witnesses (known_findings.json), fall in their classes -/

private abbrev GT := Generated.ofxgetTables

/-- `cli-null-value-not-saved`: `--user ''` while ofxget.cfg holds `user = bob` -/
theorem C18_witness_cliNull :
    lossClass GT (viewOf [("user".toList, .str [])] [] [("srv1".toList, [("user".toList, "bob".toList)])]
      "U".toList "srv1".toList "user".toList .str (.str []) (.str []) (some (.str [])) (some (.str [])))
      = some .cliNull := by decide +kernel

/-- the same view with the option NOT on the command line is not the view of any run (an empty `user` cannot be in
    effect while the section says `bob`): it passes no label's test and is `unexpected` — the classifier has no
    catch-all any more -/
theorem C18_witness_not_a_run :
    lossClass GT (viewOf [] [] [("srv1".toList, [("user".toList, "bob".toList)])]
      "U".toList "srv1".toList "user".toList .str (.str []) (.str []) (some (.str [])) (some (.str [])))
      = some .unexpected := by decide +kernel

/-- `list-member-characters-lost`: `--checking a,b` -/
theorem C18_witness_listMember :
    lossClass GT (viewOf [("checking".toList, .list ["a,b".toList])] [] [] "U".toList "srv1".toList
      "checking".toList .list (.list ["a,b".toList]) (.list []) (some (.list [])) (some (.list [])))
      = some .listMember := by decide +kernel

/-- `string-edge-blanks-lost`: `--user ' bob'` -/
theorem C18_witness_strEdgeBlank :
    lossClass GT (viewOf [("user".toList, .str " bob".toList)] [] [] "U".toList "srv1".toList "user".toList .str
      (.str " bob".toList) (.str []) (some (.str [])) (some (.str []))) = some .strEdgeBlank := by decide +kernel

/-- `clientuid-equal-to-global-not-saved`: `--clientuid G`, DEFAULT holds `G`, the server's section `S` -/
theorem C18_witness_uidEqualsGlobal :
    lossClass GT (viewOf [("clientuid".toList, .str "G".toList)] []
      [("DEFAULT".toList, [("clientuid".toList, "G".toList)]),
        ("srv1".toList, [("clientuid".toList, "S".toList)])] "U".toList "srv1".toList "clientuid".toList .str
      (.str "G".toList) (.str []) (some (.str [])) (some (.str []))) = some .uidEqualsGlobal := by decide +kernel

/-- `default-section-ignored-for-new-server`: DEFAULT holds `bankid = 123`, the nickname is new -/
theorem C18_witness_defaultSectionIgnored :
    lossClass GT (viewOf [] []
      [("DEFAULT".toList, [("clientuid".toList, "G".toList), ("bankid".toList, "123".toList)])]
      "U".toList "new".toList "bankid".toList .str (.str []) (.str []) (some (.str [])) (some (.str [])))
      = some .defaultSectionIgnored := by decide +kernel

/-- `emptyFollows`: `org` empty at the saving run (no OFX Home id in effect), an OFX Home record says `ORG` at the
    next run -/
theorem C18_witness_emptyFollows :
    lossClass GT (viewOf [] [] [("srv1".toList, [])] "U".toList "srv1".toList "org".toList .str (.str []) (.str [])
      (some (.str [])) (some (.str "ORG".toList))) = some .emptyFollows := by decide +kernel

/-- and a plain saved value persists: `--version 102` -/
theorem C18_witness_ok :
    lossClass GT (viewOf [("version".toList, .int 102)] [] [] "U".toList "srv1".toList "version".toList .int
      (.int 102) (.int 203) (some (.int 203)) (some (.int 203))) = none := by decide +kernel

/-- joint non-vacuity of `C18_kept_follows_ofxhome`: `ofxget stmt srv1 --write --url https://h/ --version 102` on
    an ofxget.cfg that has the section, `k = user` (empty, not given, not saved), next run `ofxget stmt srv1
    --dryrun`: every decidable hypothesis holds together (both `merge_config`s and the save succeed, the nickname is
    `srv1` and known, `user` is CONFIGURABLE, not `clientuid`, not on either command line, `saves = false`, the OFX
    Home id is the same at both runs) — and so does the conclusion -/
theorem C18_kept_follows_ofxhome_witness :
    (match mergeConfig GT (fun _ => none)
        (nsWrite [("url".toList, .str "https://h/".toList), ("version".toList, .int 102)])
        (loadUser [] [("srv1".toList, [])]) with
     | .ok c1 =>
       (match serverNick c1,
          mkServerCfg GT c1 (loadUser [] [("srv1".toList, [])]) (loadLib []) [("srv1".toList, [])] "U".toList,
          readConfig GT (loadLib []) "srv1".toList, effective c1 "user".toList, GT.defaults.lookup "user".toList with
        | .ok s, .ok cfg', .ok libCfg, some v, some d =>
          s == "srv1".toList && (fileHasSection [] s || fileHasSection [("srv1".toList, [])] s) &&
          GT.configurable.contains ("user".toList, .str) &&
          ((extractns (nsWrite [("url".toList, .str "https://h/".toList), ("version".toList, .int 102)])).lookup
            "user".toList).isNone &&
          !saves (viewOf (nsWrite [("url".toList, .str "https://h/".toList), ("version".toList, .int 102)]) []
            [("srv1".toList, [])] "U".toList s "user".toList .str v ((libCfg.lookup "user".toList).getD d) none none) &&
          (match mergeConfig GT (fun _ => none) (probeNs (.str s)) (loadUser [] cfg'.toFile) with
           | .ok c2 =>
             ((extractns (probeNs (.str s))).lookup "user".toList).isNone &&
             (effective c2 "ofxhome".toList == effective c1 "ofxhome".toList) &&
             (effective c2 "user".toList == effective c1 "user".toList)
           | .error _ => false)
        | _, _, _, _, _ => false)
     | .error _ => false) = true := by decide +kernel

end Ofx.Ofxget
