/-
C18, persistence clause, as an IFF: exactly which saved runs read back.

Spec: `OfxModel/Spec/PersistOk.lean` (`View`, `saves`, `savedReadsBack`, `keptReads`, `PersistOk`, `lossClass`);
lemmas: `OfxProofs/Lemmas/C18Persist.lean`.

Domain of `C18_persist_iff` (all explicit hypotheses): tables with `Tables.WF` and distinct CONFIGURABLE names
(both proved of the generated tables); the nickname is not configparser's reserved `DEFAULT`; the saving run got
through `mk_server_cfg`; the option is CONFIGURABLE and has a value in effect; the next run names the same nickname,
sets `--dryrun`, does not give the option and gets through `merge_config`.
-/
import OfxProofs.Lemmas.C18Persist
import OfxProofs.Props.C18

namespace Ofx.Ofxget
open Ofx Ofx.Spec.Ofxget Ofx.Spec.Persist

/-- **C18_persist_iff.**  Save (`ofxget … s --write`, any command line, any ofxget.cfg, any FI database, any OFX
    Home table), then run again without the option: the value in effect for a CONFIGURABLE option `k` is the same
    **if and only if** `PersistOk` holds of the option's view — for every outcome of `test_cfg_val` (written; written
    because stored; skipped as empty; skipped as the global CLIENTUID; skipped as the library default) and every
    kind of value.  `low` is what ranks below the files at the second run: the OFX Home record under the id in
    effect then, else `DEFAULTS[k]`. -/
theorem C18_persist_iff (T : Tables) (hwf : T.WF = true) (hnd : (T.configurable.map (·.1)).Nodup)
    (lookup : Str → Option OhRec) (fidb user : FileC) (c1 : Chain) (uuid : Str) (cfg' : Ini) (s : Str)
    (hs : s ≠ defaultSect) (hnick : serverNick c1 = .ok s)
    (hmk : mkServerCfg T c1 (loadUser fidb user) (loadLib fidb) user uuid = .ok cfg')
    (k : Name) (ty : CfgTy) (hkt : (k, ty) ∈ T.configurable) (v : CfgVal) (hv : effective c1 k = some v)
    (libCfg : Map) (hlib : readConfig T (loadLib fidb) s = .ok libCfg)
    (d : CfgVal) (hd : T.defaults.lookup k = some d)
    (ns2 : Map) (c2 : Chain) (dr : CfgVal)
    (hsrv2 : (extractns ns2).lookup "server".toList = some (.str s))
    (hdry2 : (extractns ns2).lookup "dryrun".toList = some dr) (htd : truthy dr = true)
    (hk2 : (extractns ns2).lookup k = none)
    (h2 : mergeConfig T lookup ns2 (loadUser fidb cfg'.toFile) = .ok c2) :
    effective c2 k = effective c1 k ↔
      PersistOk T (viewOf fidb user uuid s k ty v ((libCfg.lookup k).getD d)
        (lowOf T lookup (effective c2 "ofxhome".toList) k)) = true := by
  have hlow : ∀ ot ∈ T.configurable, lower ot.1 = ot.1 := by
    simp only [Tables.WF, Bool.and_eq_true] at hwf
    intro ot hot
    have := List.all_eq_true.mp hwf.1.1.1.1.2 ot hot
    simpa using this
  have hmem := canon_loadUser fidb user
  obtain ⟨hdef, hcanon, hhas⟩ := mkServerCfg_defaults T c1 _ _ hmem user uuid cfg' s hs hnick hmk
  have huid := reloadCfg_has_uid (loadUser fidb user) user uuid
  cases hg : (reloadCfg (loadUser fidb user) user uuid).defaults.lookup "clientuid".toList with
  | none => rw [hg] at huid; cases huid
  | some g =>
    have hlook := mkServerCfg_look T hlow hnd c1 _ _ hmem user uuid cfg' s hs hnick hmk k ty hkt v hv libCfg hlib d hd g hg
    have hr := rerun_effective T hwf hnd lookup fidb cfg' hcanon s hs hhas k ty hkt ns2 c2 dr hsrv2 hdry2 htd hk2 h2
    rw [hv]
    unfold PersistOk
    rw [saves_viewOf fidb user uuid s hs k ty v d libCfg _ g hg]
    cases hsv : turnSaves (reloadCfg (loadUser fidb user) user uuid) libCfg s k v d g with
    | true =>
      obtain ⟨txt, htxt, hlk⟩ := hlook.1 hsv
      rw [hlk] at hr
      simp only [Option.map_some, Option.some_or] at hr
      obtain ⟨tv, htv, heff⟩ := hr
      simp only [if_true, savedReadsBack, viewOf, htxt, htv, heff, Option.some.injEq, beq_iff_eq]
    | false =>
      have hlk := hlook.2 hsv
      have hdl : cfg'.look defaultSect k = (reloadCfg (loadUser fidb user) user uuid).look defaultSect k := by
        rw [look_default, look_default, hdef]
      rw [hlk, hdl, ← keptText_viewOf fidb user uuid s hs k ty v ((libCfg.lookup k).getD d)
        (lowOf T lookup (effective c2 "ofxhome".toList) k)] at hr
      simp only [Bool.false_eq_true, if_false, keptReads]
      split at hr
      · rename_i t ht
        obtain ⟨tv, htv, heff⟩ := hr
        rw [ht]
        have hty : (viewOf fidb user uuid s k ty v ((libCfg.lookup k).getD d)
          (lowOf T lookup (effective c2 "ofxhome".toList) k)).ty = ty := rfl
        have hvv : (viewOf fidb user uuid s k ty v ((libCfg.lookup k).getD d)
          (lowOf T lookup (effective c2 "ofxhome".toList) k)).v = v := rfl
        simp only [hty, hvv, htv, heff, Option.some.injEq, beq_iff_eq]
      · rename_i ht
        rw [ht]
        have hvv : (viewOf fidb user uuid s k ty v ((libCfg.lookup k).getD d)
          (lowOf T lookup (effective c2 "ofxhome".toList) k)).v = v := rfl
        have hll : (viewOf fidb user uuid s k ty v ((libCfg.lookup k).getD d)
          (lowOf T lookup (effective c2 "ofxhome".toList) k)).low =
            lowOf T lookup (effective c2 "ofxhome".toList) k := rfl
        simp only [hvv, hll, hr, beq_iff_eq]

/-! ### value kinds: which saved texts read back -/

/-- the two spellings `arg2config` writes for booleans are in `BOOLEAN_STATES` with their meaning -/
def Tables.BoolOk (T : Tables) : Bool :=
  pyBoolOfStr T "true".toList == some true && pyBoolOfStr T "false".toList == some false

/-- a saved string reads back **iff** it has no edge blanks -/
theorem savedReadsBack_str (T : Tables) (s : Str) : savedReadsBack T .str (.str s) = true ↔ strip s = s := by
  simp [savedReadsBack, arg2config, typedOfStr]

/-- a saved integer always reads back -/
theorem savedReadsBack_int (T : Tables) (i : Int) : savedReadsBack T .int (.int i) = true := by
  simp [savedReadsBack, arg2config, pyStr, typedOfStr, pyInt_roundtrip]

/-- a saved boolean always reads back -/
theorem savedReadsBack_bool (T : Tables) (hb : T.BoolOk = true) (b : Bool) :
    savedReadsBack T .bool (.bool b) = true := by
  simp only [Tables.BoolOk, Bool.and_eq_true, beq_iff_eq] at hb
  have h1 : strip ['t', 'r', 'u', 'e'] = ['t', 'r', 'u', 'e'] := by decide
  have h2 : strip ['f', 'a', 'l', 's', 'e'] = ['f', 'a', 'l', 's', 'e'] := by decide
  have hb1 : pyBoolOfStr T ['t', 'r', 'u', 'e'] = some true := hb.1
  have hb2 : pyBoolOfStr T ['f', 'a', 'l', 's', 'e'] = some false := hb.2
  cases b
  · simp [savedReadsBack, arg2config, typedOfStr, h2, hb2]
  · simp [savedReadsBack, arg2config, typedOfStr, h1, hb1]

/-- a saved list of clean account numbers reads back (sufficient) -/
theorem savedReadsBack_list (T : Tables) (l : List Str) (hne : l ≠ []) (h : ∀ m ∈ l, CleanMember m) :
    savedReadsBack T .list (.list l) = true := by
  simp [savedReadsBack, arg2config, pyStr, typedOfStr, list_roundtrip l hne h]

/-- the spec's value-level guard is the one `C18_persist_partial` uses -/
theorem savedReadsBack_eq_readsBack (T : Tables) (ty : CfgTy) (v : CfgVal) :
    savedReadsBack T ty v = readsBack T ty v := rfl

/-! ### the classes of the known findings lie outside `PersistOk` -/

/-- known finding `string-edge-blanks-lost`, as a class: a saved string option with a blank at either end does not
    persist — and a saved string option without one does -/
theorem C18_strEdgeBlank_iff (T : Tables) (w : View) (s : Str) (hsv : saves w = true) (hty : w.ty = .str)
    (hv : w.v = .str s) : PersistOk T w = true ↔ strip s = s := by
  unfold PersistOk
  rw [hsv, hty, hv]
  simp only [if_true]
  exact savedReadsBack_str T s

theorem C18_strEdgeBlank_not_PersistOk (T : Tables) (w : View) (s : Str) (hsv : saves w = true) (hty : w.ty = .str)
    (hv : w.v = .str s) (hblank : strip s ≠ s) : PersistOk T w = false := by
  have := C18_strEdgeBlank_iff T w s hsv hty hv
  cases hp : PersistOk T w with
  | false => rfl
  | true => exact absurd (this.mp hp) hblank

/-- an empty value is never saved -/
theorem saves_null (w : View) (h : isNullArg w.v = true) : saves w = false := by
  simp [saves, h]

/-- known finding `cli-null-value-not-saved`, as a class: an empty string in effect (`--user ''`) while the files
    hold a non-empty text for the option — the stored text is back on the next run -/
theorem C18_cliNull_not_PersistOk (T : Tables) (w : View) (t : Str) (hty : w.ty = .str) (hv : w.v = .str [])
    (hkept : keptText w = some t) (hne : t ≠ []) : PersistOk T w = false := by
  unfold PersistOk
  rw [saves_null w (by rw [hv]; rfl)]
  simp only [Bool.false_eq_true, if_false, keptReads, hkept, hty, typedOfStr, hv]
  simpa using hne

/-- the same for an empty account list (`[]`) against any stored text -/
theorem C18_cliNullList_not_PersistOk (T : Tables) (w : View) (t : Str) (hty : w.ty = .list) (hv : w.v = .list [])
    (hkept : keptText w = some t) : PersistOk T w = false := by
  unfold PersistOk
  rw [saves_null w (by rw [hv]; rfl)]
  simp only [Bool.false_eq_true, if_false, keptReads, hkept, hty, typedOfStr, hv]
  have : convertList t ≠ [] := by
    intro h
    have := convertList_length t
    rw [h] at this
    simp at this
  simpa using this

/-- known finding `default-section-ignored-for-new-server`, as a class: an empty string value in effect at the
    saving run (the DEFAULT section was not consulted: no section yet), nothing in either server section, and a
    non-empty text in the DEFAULT section — in effect from the next run on -/
theorem C18_defaultSection_not_PersistOk (T : Tables) (w : View) (t : Str) (hty : w.ty = .str) (hv : w.v = .str [])
    (hsect : w.sect = none) (hfi : w.fiSect = none) (hd : w.dflt = some t) (hne : strip t ≠ []) :
    PersistOk T w = false :=
  C18_cliNull_not_PersistOk T w (strip t) hty hv (by simp [keptText, hsect, hfi, hd]) hne

/-- known finding `clientuid-equal-to-global-not-saved`, as a class: `--clientuid` equal to the global one is not
    written, so a different CLIENTUID held by the server's section (of ofxget.cfg, or else of fi.cfg) wins again -/
theorem C18_uidEqualsGlobal_not_PersistOk (T : Tables) (w : View) (g t : Str) (huid : w.isUid = true)
    (hty : w.ty = .str) (hg : w.globalUid = some g) (hv : w.v = .str g)
    (hkept : keptText w = some t) (hne : t ≠ g) : PersistOk T w = false := by
  have hsk : uidSkip w = true := by
    simp only [uidSkip, huid, hg, hv, pyEq, Bool.true_and, beq_self_eq_true]
  have hsv : saves w = false := by simp [saves, hsk]
  unfold PersistOk
  rw [hsv]
  simp only [Bool.false_eq_true, if_false, keptReads, hkept, hty, typedOfStr, hv]
  simpa using hne

/-- known finding `list-member-characters-lost`, as a class (the `,` part, exact direction): a saved account list
    with a member containing `,` does not persist — the reader splits that member.  (The other members of the class
    — `'`, `\\`, control characters, edge blanks — are `savedReadsBack … = false` as well, shown on witnesses below;
    `savedReadsBack_list` is the converse for clean members.) -/
theorem C18_listComma_not_PersistOk (T : Tables) (w : View) (l : List Str) (hsv : saves w = true) (hty : w.ty = .list)
    (hv : w.v = .list l) (hcomma : ∃ m ∈ l, ',' ∈ m) : PersistOk T w = false := by
  unfold PersistOk
  rw [hsv, hty, hv]
  simp only [if_true]
  exact savedReadsBack_list_comma T l hcomma

/-- and conversely a saved list of clean account numbers persists -/
theorem C18_listClean_PersistOk (T : Tables) (w : View) (l : List Str) (hsv : saves w = true) (hty : w.ty = .list)
    (hv : w.v = .list l) (hne : l ≠ []) (h : ∀ m ∈ l, CleanMember m) : PersistOk T w = true := by
  unfold PersistOk
  rw [hsv, hty, hv]
  simp only [if_true]
  exact savedReadsBack_list T l hne h

/-- the other characters of the class, on witnesses: a quote, a backslash, an edge blank, a control character -/
theorem savedReadsBack_list_tables (T T' : Tables) (v : CfgVal) :
    savedReadsBack T .list v = savedReadsBack T' .list v := by
  unfold savedReadsBack
  cases arg2config .list v <;> rfl

theorem C18_listMember_witnesses (T : Tables) :
    savedReadsBack T .list (.list ["it's".toList]) = false ∧
    savedReadsBack T .list (.list ["a\\b".toList]) = false ∧
    savedReadsBack T .list (.list [" a".toList]) = false ∧
    savedReadsBack T .list (.list ["a\tb".toList]) = false := by
  simp only [savedReadsBack_list_tables T Generated.ofxgetTables]
  refine ⟨?_, ?_, ?_, ?_⟩ <;> decide +kernel

/-! ### no sixth way -/

theorem pyEq_eq_of_typed (a b : CfgVal) (t : CfgTy) (ha : typeOfVal a = some t) (hb : typeOfVal b = some t)
    (h : pyEq a b = true) : a = b := by
  cases a <;> cases b <;> simp only [typeOfVal, Option.some.injEq, reduceCtorEq] at ha hb <;>
    first
    | (rw [← ha] at hb; cases hb; done)
    | (simp_all [pyEq])

/-- what holds of the view of any run of the real program on typed values (proved of `viewOf` by
    `viewOf_consistent`) -/
structure ViewConsistent (T : Tables) (w : View) : Prop where
  /-- the value in effect has the option's type, or is `None` -/
  typed : typeOfVal w.v = some w.ty ∨ w.v = .null
  libTyped : typeOfVal w.libDefault = some w.ty
  /-- `clear()` keeps DEFAULT: what fi.cfg's DEFAULT section says is in the re-read configuration's DEFAULT -/
  dfltIncl : w.dflt = none → w.fiDflt = none
  /-- the library default is the typed fi.cfg entry when there is one … -/
  fiLib : ∀ t, w.fiSect = some t → typedOfStr T w.ty t = .ok w.libDefault
  /-- … else the built-in default, which is also what ranks lowest at the next run (OFX Home only sets options
      whose built-in default is empty) -/
  lowLib : w.fiSect = none → w.fiDflt = none → isNullArg w.libDefault = false → w.low = some w.libDefault

/-- an option skipped as "equal to the library default, nothing stored" always persists -/
theorem skipDefault_PersistOk (T : Tables) (w : View) (hc : ViewConsistent T w) (hnull : isNullArg w.v = false)
    (hp : pyEq w.v w.libDefault = true) (hst : stored w = false) : keptReads T w = true := by
  have hvt : typeOfVal w.v = some w.ty := by
    rcases hc.typed with h | h
    · exact h
    · rw [h] at hnull; cases hnull
  have hveq : w.v = w.libDefault := pyEq_eq_of_typed _ _ _ hvt hc.libTyped hp
  simp only [stored, Bool.or_eq_false_iff, Option.isSome_eq_false_iff, Option.isNone_iff_eq_none] at hst
  have hfd := hc.dfltIncl hst.2
  unfold keptReads keptText
  rw [hst.1, hst.2, hfd]
  cases hfs : w.fiSect with
  | some t =>
    simp only [Option.map_none, Option.none_or, Option.or_none, hc.fiLib t hfs, hveq, beq_self_eq_true]
  | none =>
    simp only [Option.map_none, Option.or_none]
    rw [hc.lowLib hfs hfd (by rw [← hveq]; exact hnull), hveq]
    simp

/-- **C18_no_sixth_way.**  Inside the typed domain an option that does not persist is lost in one of the seven
    named ways — the five known findings (`cliNull`, `defaultSectionIgnored`, `uidEqualsGlobal`, `strEdgeBlank`,
    `listMember`), the designed first global CLIENTUID (`freshGlobalUid`), or an empty value whose lower-ranking
    places changed under it (`emptyFollows`) — never otherwise: integers and booleans always read back, and an
    option left out as "equal to the library default" is always back by itself. -/
theorem C18_no_sixth_way (T : Tables) (hb : T.BoolOk = true) (w : View) (hc : ViewConsistent T w) (cliSet known : Bool) :
    lossClass T w cliSet known ≠ some .unexpected := by
  unfold lossClass
  cases hok : PersistOk T w with
  | true => simp
  | false =>
    simp only [Bool.false_eq_true, if_false]
    cases hsv : saves w with
    | true =>
      simp only [if_true]
      have hnn : isNullArg w.v = false := by
        cases hn : isNullArg w.v with
        | false => rfl
        | true => rw [saves_null w hn] at hsv; cases hsv
      have hvt : typeOfVal w.v = some w.ty := by
        rcases hc.typed with h | h
        · exact h
        · rw [h] at hnn; cases hnn
      unfold PersistOk at hok
      rw [hsv] at hok
      simp only [if_true] at hok
      cases hty : w.ty with
      | str => simp
      | list => simp
      | int =>
        rw [hty] at hvt hok
        cases hv : w.v with
        | int i => rw [hv, savedReadsBack_int] at hok; cases hok
        | null => rw [hv] at hvt; cases hvt
        | str _ => rw [hv] at hvt; cases hvt
        | bool _ => rw [hv] at hvt; cases hvt
        | list _ => rw [hv] at hvt; cases hvt
      | bool =>
        rw [hty] at hvt hok
        cases hv : w.v with
        | bool b => rw [hv, savedReadsBack_bool T hb] at hok; cases hok
        | null => rw [hv] at hvt; cases hvt
        | str _ => rw [hv] at hvt; cases hvt
        | int _ => rw [hv] at hvt; cases hvt
        | list _ => rw [hv] at hvt; cases hvt
    | false =>
      simp only [Bool.false_eq_true, if_false]
      cases hn : isNullArg w.v with
      | true =>
        simp only [if_true]
        split
        · simp
        · split
          · simp
          · split <;> simp
      | false =>
        simp only [Bool.false_eq_true, if_false]
        cases hu : uidSkip w with
        | true => simp
        | false =>
          exfalso
          simp only [saves, hn, hu, Bool.not_false, Bool.true_and] at hsv
          simp only [Bool.or_eq_false_iff, Bool.not_eq_false'] at hsv
          have := skipDefault_PersistOk T w hc hn hsv.1 hsv.2
          unfold PersistOk at hok
          simp only [saves, hn, hu, hsv.1, hsv.2, Bool.not_false, Bool.not_true, Bool.false_or, Bool.and_false,
            Bool.false_eq_true, if_false] at hok
          rw [this] at hok
          cases hok

/-! ### the view of every real run is consistent -/

/-- the options an OFX Home record can set -/
def ohKeys : List Name := ["url".toList, "org".toList, "fid".toList, "brokerid".toList]

/-- OFX Home only fills options whose built-in default is empty -/
def Tables.OhDefaultsEmpty (T : Tables) : Bool :=
  ohKeys.all fun k => match T.defaults.lookup k with | some d => isNullArg d | none => true

theorem ohRecord_lookup_some (lookup : Str → Option OhRec) (id : Option CfgVal) (k : Name) (x : CfgVal)
    (h : (ohRecord lookup id).lookup k = some x) : k ∈ ohKeys := by
  unfold ohRecord at h
  split at h
  · split at h
    · cases h
    · split at h
      · simp only [OhRec.toMap, List.lookup_cons, List.lookup_nil] at h
        unfold ohKeys
        by_cases h1 : k = "url".toList
        · simp [h1]
        · by_cases h2 : k = "org".toList
          · simp [h2]
          · by_cases h3 : k = "fid".toList
            · simp [h3]
            · by_cases h4 : k = "brokerid".toList
              · simp [h4]
              · have b1 : (k == "url".toList) = false := by simpa using h1
                have b2 : (k == "org".toList) = false := by simpa using h2
                have b3 : (k == "fid".toList) = false := by simpa using h3
                have b4 : (k == "brokerid".toList) = false := by simpa using h4
                rw [b1, b2, b3, b4] at h
                cases h
      · cases h
  · cases h

theorem typedOfStr_type (T : Tables) (ty : CfgTy) (t : Str) (tv : CfgVal) (h : typedOfStr T ty t = .ok tv) :
    typeOfVal tv = some ty := by
  cases ty with
  | str => simp only [typedOfStr, Except.ok.injEq] at h; rw [← h]; rfl
  | int =>
    simp only [typedOfStr] at h
    split at h
    · simp only [Except.ok.injEq] at h; rw [← h]; rfl
    · cases h
  | bool =>
    simp only [typedOfStr] at h
    split at h
    · simp only [Except.ok.injEq] at h; rw [← h]; rfl
    · cases h
  | list => simp only [typedOfStr, Except.ok.injEq] at h; rw [← h]; rfl

theorem configurable_lookup_of_mem (T : Tables) (hnd : (T.configurable.map (·.1)).Nodup) (k : Name) (ty : CfgTy)
    (hkt : (k, ty) ∈ T.configurable) : T.configurable.lookup k = some ty := by
  apply lookup_of_mem_unique _ _ _ hkt
  intro ty' hmem
  have : ∀ (l : List (Name × CfgTy)), (l.map (·.1)).Nodup → (k, ty) ∈ l → (k, ty') ∈ l → ty' = ty := by
    intro l
    induction l with
    | nil => intro _ h; cases h
    | cons a l ih =>
      intro hn h1 h2
      have hn' : (a.1 :: l.map (·.1)).Nodup := hn
      rw [List.nodup_cons] at hn'
      rcases List.mem_cons.mp h1 with e1 | e1
      · rcases List.mem_cons.mp h2 with e2 | e2
        · rw [← e1] at e2; exact (Prod.mk.inj e2).2
        · exact absurd (List.mem_map_of_mem (f := (·.1)) e2) (by have := hn'.1; rw [← e1] at this; exact this)
      · rcases List.mem_cons.mp h2 with e2 | e2
        · exact absurd (List.mem_map_of_mem (f := (·.1)) e1) (by have := hn'.1; rw [← e2] at this; exact this)
        · exact ih hn'.2 e1 e2
  exact this _ hnd hkt hmem

/-- what `read_config(LIBCFG, s)` says for one option, in terms of fi.cfg's two sections -/
theorem libCfg_lookup (T : Tables) (hnd : (T.configurable.map (·.1)).Nodup) (fidb : FileC) (s : Str)
    (hs : s ≠ defaultSect) (libCfg : Map) (hlib : readConfig T (loadLib fidb) s = .ok libCfg)
    (k : Name) (ty : CfgTy) (hkt : (k, ty) ∈ T.configurable) :
    (∀ t, ((loadLib fidb).sect s).lookup k = some t → ∃ tv, typedOfStr T ty t = .ok tv ∧ libCfg.lookup k = some tv) ∧
    (((loadLib fidb).sect s).lookup k = none → (loadLib fidb).defaults.lookup k = none → libCfg.lookup k = none) ∧
    (∀ tv, libCfg.lookup k = some tv → typeOfVal tv = some ty) := by
  have hty := configurable_lookup_of_mem T hnd k ty hkt
  by_cases hc : (loadLib fidb).contains s = true
  · have hl := readConfig_lookup T _ s libCfg hs hc hlib k ty hty
    have hraw : (loadLib fidb).raw s k =
        match ((loadLib fidb).sect s).lookup k with
        | some v => some v
        | none => (loadLib fidb).defaults.lookup k := rfl
    refine ⟨fun t ht => ?_, fun h1 h2 => ?_, fun tv htv => ?_⟩
    · rw [hraw, ht] at hl
      exact hl
    · rw [hraw, h1, h2] at hl
      exact hl
    · cases hr : (loadLib fidb).raw s k with
      | none => rw [hr] at hl; rw [hl] at htv; cases htv
      | some t =>
        rw [hr] at hl
        obtain ⟨tv', h1, h2⟩ := hl
        rw [h2] at htv
        cases htv
        exact typedOfStr_type T ty t _ h1
  · have hcf : (loadLib fidb).contains s = false := Bool.eq_false_iff.mpr hc
    have hempty : libCfg = [] := by
      unfold readConfig at hlib
      simp only [hcf, Bool.not_false, if_true, Except.ok.injEq] at hlib
      exact hlib.symm
    have hnosec : (loadLib fidb).sections.lookup s = none := by
      simp only [Ini.contains, Ini.hasSection, Bool.or_eq_false_iff] at hcf
      cases hl : (loadLib fidb).sections.lookup s with
      | none => rfl
      | some x => rw [hl] at hcf; cases hcf.2
    refine ⟨fun t ht => ?_, fun _ _ => by rw [hempty]; rfl, fun tv htv => by rw [hempty] at htv; cases htv⟩
    simp only [Ini.sect, hnosec, Option.getD_none, List.lookup_nil] at ht
    cases ht

theorem reloadCfg_default_incl (fidb user : FileC) (uuid : Str) (k : Name)
    (h : (reloadCfg (loadUser fidb user) user uuid).defaults.lookup k = none) :
    (loadLib fidb).defaults.lookup k = none := by
  have hbase : (({ loadUser fidb user with sections := [] } : Ini).loadFile user).defaults.lookup k = none := by
    unfold reloadCfg at h
    simp only at h
    split at h
    · exact h
    · simp only [Ini.set, BEq.rfl, if_true, lookup_mapSet] at h
      split at h
      · cases h
      · exact h
  rw [← look_default, loadFile_look] at hbase
  have h2 : ({ loadUser fidb user with sections := [] } : Ini).look defaultSect k = (loadUser fidb user).look defaultSect k := by
    simp [Ini.look]
  rw [h2] at hbase
  unfold loadUser at hbase
  rw [loadFile_look, loadFile_look, empty_look] at hbase
  rw [← look_default, loadLib_look]
  cases hf : fileLookup fidb defaultSect k with
  | none => rfl
  | some x =>
    rw [hf] at hbase
    cases h1 : fileLookup user defaultSect k <;> simp [h1] at hbase

/-- **every real run is inside the typed domain of `C18_no_sixth_way`**: for well-formed tables, a value in effect
    of the option's type (or `None`), the library configuration `read_config(LIBCFG, s)` returned, and whatever OFX
    Home id is in effect at the next run, the view of the option is consistent -/
theorem viewOf_consistent (T : Tables) (hwf : T.WF = true) (hnd : (T.configurable.map (·.1)).Nodup)
    (hoh : T.OhDefaultsEmpty = true) (lookup : Str → Option OhRec) (fidb user : FileC) (uuid s : Str)
    (hs : s ≠ defaultSect) (k : Name) (ty : CfgTy) (hkt : (k, ty) ∈ T.configurable) (v : CfgVal)
    (hvt : typeOfVal v = some ty ∨ v = .null)
    (libCfg : Map) (hlib : readConfig T (loadLib fidb) s = .ok libCfg)
    (d : CfgVal) (hd : T.defaults.lookup k = some d) (id : Option CfgVal) :
    ViewConsistent T (viewOf fidb user uuid s k ty v ((libCfg.lookup k).getD d) (lowOf T lookup id k)) := by
  obtain ⟨hsome, hnone, htyped⟩ := libCfg_lookup T hnd fidb s hs libCfg hlib k ty hkt
  have hdty : typeOfVal d = some ty := by
    simp only [Tables.WF, Bool.and_eq_true] at hwf
    have := List.all_eq_true.mp hwf.1.1.1.2 (k, ty) hkt
    simp only [hd, Option.bind_some, beq_iff_eq] at this
    exact this
  refine ⟨hvt, ?_, ?_, ?_, ?_⟩
  · show typeOfVal ((libCfg.lookup k).getD d) = some ty
    cases hl : libCfg.lookup k with
    | none => exact hdty
    | some tv => exact htyped tv hl
  · intro h
    exact reloadCfg_default_incl fidb user uuid k h
  · intro t ht
    obtain ⟨tv, h1, h2⟩ := hsome t ht
    show typedOfStr T ty t = .ok ((libCfg.lookup k).getD d)
    rw [h2]
    exact h1
  · intro h1 h2 h3
    have hl : libCfg.lookup k = none := hnone h1 h2
    show lowOf T lookup id k = some ((libCfg.lookup k).getD d)
    have h3' : isNullArg d = false := by
      have : isNullArg ((libCfg.lookup k).getD d) = false := h3
      rw [hl] at this
      exact this
    rw [hl]
    simp only [lowOf, firstSetter, Option.getD_none]
    cases ho : (ohRecord lookup id).lookup k with
    | none => simp only [hd]
    | some x =>
      have hk := ohRecord_lookup_some lookup id k x ho
      have := List.all_eq_true.mp hoh k hk
      simp only [hd] at this
      rw [this] at h3'
      cases h3'

/-! ### `emptyFollows` only occurs together with a lost OFX Home id -/

/-- **an option the save leaves alone follows nothing but the OFX Home id.**  Saving run `ofxget … s --write` from
    the command line `ns1` on a nickname that already has a section (in ofxget.cfg or fi.cfg) — or a new one while
    the DEFAULT sections say nothing for the option; `k` (not `clientuid`) is CONFIGURABLE, not given on that
    command line and not saved (`saves = false`: empty, or equal to the library
    default with nothing stored).  If the OFX Home id in effect at the next run is the one in effect at the saving
    run, `k` keeps its value.  So the loss class `emptyFollows` only occurs together with a lost `ofxhome`. -/
theorem C18_kept_follows_ofxhome (T : Tables) (hwf : T.WF = true) (hnd : (T.configurable.map (·.1)).Nodup)
    (lookup : Str → Option OhRec) (fidb user : FileC) (ns1 : Map) (c1 : Chain) (uuid : Str) (cfg' : Ini) (s : Str)
    (hs : s ≠ defaultSect) (hnick : serverNick c1 = .ok s)
    (h1 : mergeConfig T lookup ns1 (loadUser fidb user) = .ok c1)
    (hsrv1 : (extractns ns1).lookup "server".toList = some (.str s))
    (hmk : mkServerCfg T c1 (loadUser fidb user) (loadLib fidb) user uuid = .ok cfg')
    (k : Name) (ty : CfgTy) (hkt : (k, ty) ∈ T.configurable) (hkuid : k ≠ "clientuid".toList)
    (hknown : (fileHasSection fidb s || fileHasSection user s) = true ∨
      (fileLookup user defaultSect k).or (fileLookup fidb defaultSect k) = none)
    (v : CfgVal) (hv : effective c1 k = some v)
    (libCfg : Map) (hlib : readConfig T (loadLib fidb) s = .ok libCfg)
    (d : CfgVal) (hd : T.defaults.lookup k = some d)
    (hcli : (extractns ns1).lookup k = none)
    (low : Option CfgVal)
    (hns : saves (viewOf fidb user uuid s k ty v ((libCfg.lookup k).getD d) low) = false)
    (ns2 : Map) (c2 : Chain) (dr : CfgVal)
    (hsrv2 : (extractns ns2).lookup "server".toList = some (.str s))
    (hdry2 : (extractns ns2).lookup "dryrun".toList = some dr) (htd : truthy dr = true)
    (hk2 : (extractns ns2).lookup k = none)
    (h2 : mergeConfig T lookup ns2 (loadUser fidb cfg'.toFile) = .ok c2)
    (hoh : effective c2 "ofxhome".toList = effective c1 "ofxhome".toList) :
    effective c2 k = effective c1 k := by
  have hlow : ∀ ot ∈ T.configurable, lower ot.1 = ot.1 := by
    simp only [Tables.WF, Bool.and_eq_true] at hwf
    intro ot hot
    have := List.all_eq_true.mp hwf.1.1.1.1.2 ot hot
    simpa using this
  have hmem := canon_loadUser fidb user
  obtain ⟨hdef, hcanon, hhas⟩ := mkServerCfg_defaults T c1 _ _ hmem user uuid cfg' s hs hnick hmk
  -- the saving run
  obtain ⟨cli, userCfg1, hu1, hcliEq, he1⟩ := mergeConfig_effective T hwf lookup ns1 _ c1 h1
  have hcli' : cli = extractns ns1 := by
    rcases hcliEq with h | ⟨server, _, h⟩
    · exact h
    · exfalso
      have hsn : c1.get? "server".toList = some .null := by
        have := he1 "server".toList
        simp only [effective] at this
        rw [this, h]
        simp [firstSetter, sloppy, lookup_mapSet]
      unfold serverNick at hnick
      rw [hsn] at hnick
      simp [truthy, bind, Except.bind, pure, Except.pure] at hnick
  subst hcli'
  have hrc1 : readConfig T (loadUser fidb user) s = .ok userCfg1 := by
    unfold userCfgOf at hu1
    rw [hsrv1] at hu1
    exact hu1
  have hty := configurable_lookup_of_mem T hnd k ty hkt
  have hl1 : match ((fileLookup user s k).or (fileLookup fidb s k)).or
        ((fileLookup user defaultSect k).or (fileLookup fidb defaultSect k)) with
      | none => userCfg1.lookup k = none
      | some t => ∃ tv, typedOfStr T ty t = .ok tv ∧ userCfg1.lookup k = some tv := by
    by_cases hkn : (fileHasSection fidb s || fileHasSection user s) = true
    · have hcont1 : (loadUser fidb user).contains s = true := by rw [loadUser_contains _ _ _ hs]; exact hkn
      have := readConfig_lookup T _ s userCfg1 hs hcont1 hrc1 k ty hty
      rw [raw_layering fidb user s k hs] at this
      exact this
    · have hknf : (fileHasSection fidb s || fileHasSection user s) = false := Bool.eq_false_iff.mpr hkn
      have hdn : (fileLookup user defaultSect k).or (fileLookup fidb defaultSect k) = none := by
        rcases hknown with h | h
        · exact absurd h hkn
        · exact h
      have hcont1 : (loadUser fidb user).contains s = false := by rw [loadUser_contains _ _ _ hs]; exact hknf
      have hempty : userCfg1 = [] := by
        unfold readConfig at hrc1
        simp only [hcont1, Bool.not_false, if_true, Except.ok.injEq] at hrc1
        exact hrc1.symm
      simp only [Bool.or_eq_false_iff] at hknf
      rw [fileLookup_no_section user s k hknf.2, fileLookup_no_section fidb s k hknf.1, hdn, hempty]
      rfl
  -- the save leaves the option alone
  have huid := reloadCfg_has_uid (loadUser fidb user) user uuid
  cases hg : (reloadCfg (loadUser fidb user) user uuid).defaults.lookup "clientuid".toList with
  | none => rw [hg] at huid; cases huid
  | some g =>
    have hlook := mkServerCfg_look T hlow hnd c1 _ _ hmem user uuid cfg' s hs hnick hmk k ty hkt v hv libCfg hlib d hd g hg
    rw [saves_viewOf fidb user uuid s hs k ty v d libCfg low g hg] at hns
    have hlk := hlook.2 hns
    rw [reloadCfg_look_sect _ user uuid s hs k] at hlk
    have hdl : cfg'.look defaultSect k = (fileLookup user defaultSect k).or (fileLookup fidb defaultSect k) := by
      rw [look_default, hdef, reloadCfg_look_default fidb user uuid k hkuid]
    -- the next run
    have hr := rerun_effective T hwf hnd lookup fidb cfg' hcanon s hs hhas k ty hkt ns2 c2 dr hsrv2 hdry2 htd hk2 h2
    rw [hlk, hdl, map_strip_or, fileLookup_strip, fileLookup_strip, fileLookup_strip] at hr
    have hraw : ((fileLookup user s k).or (fileLookup fidb s k)).or
          (((fileLookup user defaultSect k).or (fileLookup fidb defaultSect k)).or (fileLookup fidb defaultSect k)) =
        ((fileLookup user s k).or (fileLookup fidb s k)).or
          ((fileLookup user defaultSect k).or (fileLookup fidb defaultSect k)) := by
      cases fileLookup user s k <;> cases fileLookup fidb s k <;> cases fileLookup user defaultSect k <;>
        cases fileLookup fidb defaultSect k <;> rfl
    rw [hraw] at hr
    cases hraw1 : ((fileLookup user s k).or (fileLookup fidb s k)).or
        ((fileLookup user defaultSect k).or (fileLookup fidb defaultSect k)) with
    | some t =>
      rw [hraw1] at hl1 hr
      obtain ⟨tv1, ht1, hlk1⟩ := hl1
      obtain ⟨tv2, ht2, heff2⟩ := hr
      rw [heff2, he1 k]
      simp only [firstSetter, hcli, hlk1]
      rw [ht1] at ht2
      exact congrArg some (Except.ok.inj ht2).symm
    | none =>
      rw [hraw1] at hl1 hr
      simp only at hl1 hr
      have hoh1 : effective c1 "ofxhome".toList = Chain.get? [extractns ns1, userCfg1, T.defaults] "ofxhome".toList := by
        rw [he1, ohSource_eq_ohRecord, firstSetter_skip _ _ _ _ _ (ohRecord_lookup_ofxhome _ _), firstSetter_eq_get?]
      rw [hr, hoh, hoh1, he1 k]
      simp only [firstSetter, hcli, hl1, lowOf, ohSource_eq_ohRecord]

/-! ### the generated tables; the whole characterisation in one statement -/

theorem C18_generated_boolOk : Generated.ofxgetTables.BoolOk = true := by decide +kernel

theorem C18_generated_ohDefaultsEmpty : Generated.ofxgetTables.OhDefaultsEmpty = true := by decide +kernel

/-- **C18_persist_characterised** — `ofxget` as generated from the source.  For every saving run that gets through
    `mk_server_cfg` under a nickname other than `DEFAULT`, every CONFIGURABLE option whose value in effect has the
    option's type (or is `None`), and every next run `ofxget … s --dryrun` that does not give the option:
    the value is the same **iff** `PersistOk` holds of the option's view, and when it does not hold the loss is one
    of the named classes — the five known findings, the designed first global CLIENTUID, or an empty value following
    a lower-ranking place that changed (the OFX Home id) — never anything else. -/
theorem C18_persist_characterised (lookup : Str → Option OhRec) (fidb user : FileC) (c1 : Chain) (uuid : Str)
    (cfg' : Ini) (s : Str) (hs : s ≠ defaultSect) (hnick : serverNick c1 = .ok s)
    (hmk : mkServerCfg Generated.ofxgetTables c1 (loadUser fidb user) (loadLib fidb) user uuid = .ok cfg')
    (k : Name) (ty : CfgTy) (hkt : (k, ty) ∈ Generated.ofxgetTables.configurable) (v : CfgVal)
    (hv : effective c1 k = some v) (hvt : typeOfVal v = some ty ∨ v = .null)
    (libCfg : Map) (hlib : readConfig Generated.ofxgetTables (loadLib fidb) s = .ok libCfg)
    (d : CfgVal) (hd : Generated.ofxgetTables.defaults.lookup k = some d)
    (ns2 : Map) (c2 : Chain) (dr : CfgVal)
    (hsrv2 : (extractns ns2).lookup "server".toList = some (.str s))
    (hdry2 : (extractns ns2).lookup "dryrun".toList = some dr) (htd : truthy dr = true)
    (hk2 : (extractns ns2).lookup k = none)
    (h2 : mergeConfig Generated.ofxgetTables lookup ns2 (loadUser fidb cfg'.toFile) = .ok c2)
    (cliSet known : Bool) :
    let w := viewOf fidb user uuid s k ty v ((libCfg.lookup k).getD d)
      (lowOf Generated.ofxgetTables lookup (effective c2 "ofxhome".toList) k)
    (effective c2 k = effective c1 k ↔ PersistOk Generated.ofxgetTables w = true) ∧
    (effective c2 k = effective c1 k ↔ lossClass Generated.ofxgetTables w cliSet known = none) ∧
    lossClass Generated.ofxgetTables w cliSet known ≠ some .unexpected := by
  intro w
  have hiff := C18_persist_iff Generated.ofxgetTables Gen.ofxgetTables_wf Gen.configurable_nodup lookup fidb user c1 uuid
    cfg' s hs hnick hmk k ty hkt v hv libCfg hlib d hd ns2 c2 dr hsrv2 hdry2 htd hk2 h2
  have hcons := viewOf_consistent Generated.ofxgetTables Gen.ofxgetTables_wf Gen.configurable_nodup
    C18_generated_ohDefaultsEmpty lookup fidb user uuid s hs k ty hkt v hvt libCfg hlib d hd
    (effective c2 "ofxhome".toList)
  refine ⟨hiff, ?_, C18_no_sixth_way _ C18_generated_boolOk w hcons cliSet known⟩
  rw [hiff]
  show PersistOk Generated.ofxgetTables w = true ↔ lossClass Generated.ofxgetTables w cliSet known = none
  unfold lossClass
  cases hp : PersistOk Generated.ofxgetTables w with
  | true => simp
  | false =>
    simp only [Bool.false_eq_true, if_false, false_iff]
    split
    · split <;> simp
    · split
      · split
        · simp
        · split
          · simp
          · split <;> simp
      · split <;> simp

/-! ### the hypotheses are satisfiable, and two of them follow from the others -/

/-- every CONFIGURABLE option has a built-in default (`Tables.WF`): the hypothesis `hd` of `C18_persist_iff` can
    always be met -/
theorem configurable_has_default (T : Tables) (hwf : T.WF = true) (k : Name) (ty : CfgTy)
    (hkt : (k, ty) ∈ T.configurable) : ∃ d, T.defaults.lookup k = some d := by
  simp only [Tables.WF, Bool.and_eq_true] at hwf
  have := List.all_eq_true.mp hwf.1.1.1.2 (k, ty) hkt
  cases hl : T.defaults.lookup k with
  | some d => exact ⟨d, rfl⟩
  | none => simp [hl] at this

/-- a save that got through `mk_server_cfg` has read the library configuration: the hypothesis `hlib` of
    `C18_persist_iff` can always be met -/
theorem mkServerCfg_libCfg (T : Tables) (args : Chain) (mem lib : Ini) (disk : FileC) (uuid : Str) (cfg' : Ini)
    (s : Str) (hnick : serverNick args = .ok s) (h : mkServerCfg T args mem lib disk uuid = .ok cfg') :
    ∃ libCfg, readConfig T lib s = .ok libCfg := by
  unfold mkServerCfg at h
  simp only [bind, Except.bind, hnick] at h
  cases hl : readConfig T lib s with
  | ok libCfg => exact ⟨libCfg, rfl⟩
  | error e => rw [hl] at h; cases h

/-- the domain of `C18_persist_iff` is inhabited: `ofxget stmt srv1 --write --url https://h/ --version 102` on empty
    files gets through `merge_config` and `mk_server_cfg` under the nickname `srv1`, and the next run
    `ofxget stmt srv1 --dryrun` gets through `merge_config` (and has 102 in effect) -/
example :
    (match mergeConfig Generated.ofxgetTables (fun _ => none)
        (nsWrite [("url".toList, .str "https://h/".toList), ("version".toList, .int 102)]) (loadUser [] []) with
     | .ok c1 =>
       (match serverNick c1, mkServerCfg Generated.ofxgetTables c1 (loadUser [] []) (loadLib []) [] "U".toList with
        | .ok s, .ok cfg' =>
          s == "srv1".toList &&
          (match mergeConfig Generated.ofxgetTables (fun _ => none) (probeNs (.str s)) (loadUser [] cfg'.toFile) with
           | .ok c2 => effective c2 "version".toList == some (.int 102)
           | .error _ => false)
        | _, _ => false)
     | .error _ => false) = true := by decide +kernel

/-! ### the five known findings, on their recorded witnesses (known_findings.json), fall in their classes -/

private abbrev GT := Generated.ofxgetTables

/-- `cli-null-value-not-saved`: `--user ''` while ofxget.cfg holds `user = bob` -/
theorem C18_witness_cliNull :
    lossClass GT (viewOf [] [("srv1".toList, [("user".toList, "bob".toList)])] "U".toList "srv1".toList
      "user".toList .str (.str []) (.str []) (some (.str []))) true true = some .cliNull := by decide +kernel

/-- `list-member-characters-lost`: `--checking a,b` -/
theorem C18_witness_listMember :
    lossClass GT (viewOf [] [] "U".toList "srv1".toList "checking".toList .list (.list ["a,b".toList]) (.list [])
      (some (.list []))) true false = some .listMember := by decide +kernel

/-- `string-edge-blanks-lost`: `--user ' bob'` -/
theorem C18_witness_strEdgeBlank :
    lossClass GT (viewOf [] [] "U".toList "srv1".toList "user".toList .str (.str " bob".toList) (.str [])
      (some (.str []))) true false = some .strEdgeBlank := by decide +kernel

/-- `clientuid-equal-to-global-not-saved`: `--clientuid G`, DEFAULT holds `G`, the server's section `S` -/
theorem C18_witness_uidEqualsGlobal :
    lossClass GT (viewOf [] [("DEFAULT".toList, [("clientuid".toList, "G".toList)]),
        ("srv1".toList, [("clientuid".toList, "S".toList)])] "U".toList "srv1".toList "clientuid".toList .str
      (.str "G".toList) (.str []) (some (.str []))) true true = some .uidEqualsGlobal := by decide +kernel

/-- `default-section-ignored-for-new-server`: DEFAULT holds `bankid = 123`, the nickname is new -/
theorem C18_witness_defaultSectionIgnored :
    lossClass GT (viewOf [] [("DEFAULT".toList, [("clientuid".toList, "G".toList), ("bankid".toList, "123".toList)])]
      "U".toList "new".toList "bankid".toList .str (.str []) (.str []) (some (.str []))) false false
      = some .defaultSectionIgnored := by decide +kernel

/-- and a plain saved value persists: `--version 102` -/
theorem C18_witness_ok :
    lossClass GT (viewOf [] [] "U".toList "srv1".toList "version".toList .int (.int 102) (.int 203)
      (some (.int 203))) true false = none := by decide +kernel

end Ofx.Ofxget
