/-
C12 — dispositions of the deviations the extension theorems exhibit (audit of session 3, finding F3).

`C12_refuse_reorder_v1` refuses every reordering of the nine v1 header lines except three orders.  One of the exceptions is a
genuine deviation from the property ("a field out of order is refused ... never yields a header object"): with the optional
COMPRESSION line moved to the very END the unanchored pattern reads the eight mandatory lines, a header object comes back, and
the COMPRESSION line is handed over in front of the body.  Recorded as known finding `v1-compression-last-accepted`
(known_findings.json); the witness below is replayed on the real `parse_header` on every run of the C12 check.
-/
import OfxProofs.Props.C12Ext

namespace Ofx.Header

/-- the full-strength statement: every reordering of the nine lines other than the original order is refused -/
def C12_refuse_reorder_v1_full : Prop :=
  ∀ (p : V1P) (h : V1), ValidV1 p h → ∀ (nvs : List NV), nvs.Perm (v1NVs h) → nvs.map Prod.fst ≠ names9 →
    ∀ (body : Str), body.head? = some '<' → ¬ ofxMarker <:+: body →
      parseV1 p (renderLines nvs ++ body) = .error .header

/-- what the model (and the code) do with COMPRESSION moved last: a header comes back and the COMPRESSION line is left
    in front of the body -/
theorem C12_compression_last_accepted :
    (match parseV1 pinnedV1P wCompLast with
      | .ok (h, n) => h.newfileuid == "NONE".toList && wCompLast.drop n == "\r\nCOMPRESSION:NONE\r\n\r\n<OFX></OFX>".toList
      | .error _ => false) = true := by decide +kernel

/-- ... and with COMPRESSION moved first the search skips the line: accepted, the body is exact -/
theorem C12_compression_first_accepted :
    (match parseV1 pinnedV1P wCompFirst with
      | .ok (h, n) => h.newfileuid == "NONE".toList && wCompFirst.drop n == "\r\n\r\n<OFX></OFX>".toList
      | .error _ => false) = true := by decide +kernel

end Ofx.Header

namespace Ofx.Header

theorem wCompLast_not_refused :
    (match parseV1 pinnedV1P wCompLast with | .error _ => true | .ok _ => false) = false := by decide +kernel

/-- **the full-strength reordering statement is false**: COMPRESSION moved last is a reordering that is accepted -/
theorem C12_refuse_reorder_v1_full_false : ¬ C12_refuse_reorder_v1_full := by
  intro H
  have hperm : ((v1NVs wHdr).eraseIdx 6 ++ [(compName, "NONE".toList)]).Perm (v1NVs wHdr) :=
    List.isPerm_iff.mp (by decide +kernel)
  have h3 : parseV1 pinnedV1P wCompLast = .error .header :=
    H pinnedV1P wHdr wHdr_valid _ hperm (by decide +kernel) "<OFX></OFX>".toList rfl (by decide +kernel)
  have h2 := wCompLast_not_refused
  rw [h3] at h2
  exact Bool.noConfusion h2

end Ofx.Header
