/-
C11, leaf part — every text an element converter writes is lexically valid OFX for its declared type
(`Ofx.Spec.Lex`), and values that cannot be written that way are refused.

The wire-level part (serialized bytes) and the date-time rules belong to other layers.
-/
import OfxModel.Ofx.Types
import OfxModel.Spec.Lex
import OfxProofs.Lemmas.Types

namespace Ofx.Types
open Ofx Ofx.Spec

/-- the element kinds of this layer: everything that carries text except date-time / time -/
def leafKind : Kind → Bool
  | .bool => true
  | .string _ _ => true
  | .oneOf _ => true
  | .integer _ => true
  | .decimal _ => true
  | .listElem k _ => leafKind k
  | _ => false

theorem enforceRequired_none_ne_str (r : Bool) (t : Str) : enforceRequired r .none ≠ .ok (.str t) := by
  cases r <;> simp [enforceRequired]

theorem boolUnconvert_str (r : Bool) (v : Val) (t : Str) (h : boolUnconvert r v = .ok (.str t)) :
    t = ['Y'] ∨ t = ['N'] := by
  cases v with
  | none => exact absurd h (enforceRequired_none_ne_str r t)
  | bool b =>
    cases b <;> simp [boolUnconvert] at h
    · exact Or.inr h.symm
    · exact Or.inl h.symm
  | _ => simp [boolUnconvert] at h

theorem stringUnconvert_str (l : Option Nat) (st r : Bool) (v : Val) (t : Str)
    (h : stringUnconvert l st r v = .ok (.str t)) : v = .str t ∧ fitsLen l st t = true := by
  cases v with
  | none => exact absurd h (enforceRequired_none_ne_str r t)
  | str s =>
    simp only [stringUnconvert, strEnforceLength_eq] at h
    by_cases hf : fitsLen l st s = true
    · simp [hf, Functor.map, Except.map] at h; subst h; exact ⟨rfl, hf⟩
    · simp [hf, Functor.map, Except.map] at h
  | _ => simp [stringUnconvert] at h

theorem oneOfUnconvert_str (valid : List Str) (r : Bool) (v : Val) (t : Str)
    (h : oneOfUnconvert valid r v = .ok (.str t)) : v = .str t ∧ t ∈ valid := by
  cases v with
  | none => exact absurd h (enforceRequired_none_ne_str r t)
  | str s =>
    simp only [oneOfUnconvert, oneOfDefault] at h
    by_cases hm : s ∈ valid
    · simp [hm] at h; subst h; exact ⟨rfl, hm⟩
    · simp [hm] at h
  | _ => simp [oneOfUnconvert, oneOfDefault] at h

theorem integerUnconvert_str (l : Option Nat) (r : Bool) (v : Val) (t : Str)
    (h : integerUnconvert l r v = .ok (.str t)) : ∃ i, v = .int i ∧ t = pyStrInt i := by
  cases v with
  | none => exact absurd h (enforceRequired_none_ne_str r t)
  | int i =>
    simp only [integerUnconvert] at h
    cases hl : intEnforceLength l i with
    | error e => simp [hl, bind, Except.bind] at h
    | ok u =>
      simp [hl, bind, Except.bind, pure, Except.pure] at h
      exact ⟨i, rfl, h.symm⟩
  | _ => simp [integerUnconvert] at h

theorem decimalUnconvert_str (q : Option Int) (r : Bool) (v : Val) (t : Str)
    (h : decimalUnconvert q r v = .ok (.str t)) : ∃ neg c e, v = .dec (.fin neg c e) ∧ t = decFormatF (.fin neg c e) := by
  cases v with
  | none => exact absurd h (enforceRequired_none_ne_str r t)
  | dec d =>
    cases d with
    | fin neg c e =>
      refine ⟨neg, c, e, rfl, ?_⟩
      cases q with
      | none => simp [decimalUnconvert, Dec.isFinite] at h; exact h.symm
      | some qe =>
        by_cases hq : sameQuantum (.fin neg c e) qe = true
        · simp [decimalUnconvert, Dec.isFinite, hq] at h; exact h.symm
        · simp [decimalUnconvert, Dec.isFinite, hq] at h
    | inf n => cases q <;> simp [decimalUnconvert, Dec.isFinite, sameQuantum] at h
    | nan n sg p => cases q <;> simp [decimalUnconvert, Dec.isFinite, sameQuantum] at h
  | _ => simp [decimalUnconvert] at h

/-- **C11 (leaf), full strength** (no guard left since the Integer and Decimal repairs): for every element kind of
    this layer (Bool, String, NagString, OneOf, Integer, Decimal, and ListElement over them, nested to any depth),
    every parameterisation and **every** value — in particular every value `convert` accepts, i.e. every value a
    model instance can hold — `unconvert` either refuses or writes a text that is lexically valid for the kind. -/
theorem C11_leaf_full (ext : LexExt) (enums : List (List Str)) (k : Kind) (r : Bool) (v : Val) (t : Str)
    (hk : leafKind k = true) (h : unconvert enums k r v = .ok (.str t)) : Lex ext enums k t = true := by
  induction k generalizing r with
  | bool =>
    rcases boolUnconvert_str r v t h with rfl | rfl <;> simp [Lex]
  | string l st =>
    obtain ⟨_, hf⟩ := stringUnconvert_str l st r v t h
    cases l with
    | none => simp [Lex]
    | some n => cases st <;> simp_all [Lex, fitsLen]
  | oneOf e =>
    simp only [unconvert] at h
    cases he : enums[e]? with
    | none => simp [he] at h
    | some valid =>
      simp only [he] at h
      obtain ⟨_, hm⟩ := oneOfUnconvert_str valid r v t h
      simp [Lex, he, hm]
  | integer l =>
    obtain ⟨i, _, rfl⟩ := integerUnconvert_str l r v t h
    simpa [Lex] using lexInteger_pyStrInt i
  | decimal q =>
    obtain ⟨neg, c, e, _, rfl⟩ := decimalUnconvert_str q r v t h
    simpa [Lex] using lexDecimal_formatF neg c e
  | datetime => simp [leafKind] at hk
  | time => simp [leafKind] at hk
  | listElem k ir ih =>
    simp only [leafKind] at hk
    simp only [unconvert] at h
    simpa [Lex] using ih ir hk h
  | sub c => simp [leafKind] at hk
  | listAgg c => simp [leafKind] at hk
  | unsupported => simp [leafKind] at hk

/-- the former witnesses of the defect are now refused or written in plain notation -/
theorem C11_leaf_former_witnesses :
    unconvert [] (.decimal none) false (.dec (.fin false 1 2)) = .ok (.str "100".toList) ∧
    unconvert [] (.decimal none) false (.dec (.fin false 1 (-7))) = .ok (.str "0.0000001".toList) ∧
    unconvert [] (.decimal none) false (.dec (.fin true 0 2)) = .ok (.str "-0".toList) ∧
    unconvert [] (.decimal none) false (.dec (.nan false false 0)) = .error .value ∧
    unconvert [] (.decimal none) false (.dec (.inf true)) = .error .value ∧
    convert [] (.decimal none) false (.str "NaN".toList) = .error .spec ∧
    unconvert [] (.integer none) false (.bool true) = .error .type ∧
    convert [] (.integer none) false (.bool true) = .error .type :=
  ⟨by rfl, by rfl, by rfl, by rfl, by rfl, by rfl, by rfl, by rfl⟩

/-- refusal: an over-long value of a strict string, a token outside the enumeration, a value of a foreign type, a
    non-finite decimal are refused rather than written -/
theorem C11_leaf_refuse (l : Nat) (r : Bool) (s : Str) (valid : List Str) :
    (s.length > l → stringUnconvert (some l) true r (.str s) = .error .spec) ∧
    (s ∉ valid → oneOfUnconvert valid r (.str s) = .error .spec) ∧
    (∀ k, boolUnconvert r (.other k) = .error .spec ∧ stringUnconvert (some l) true r (.other k) = .error .type ∧
      integerUnconvert (some l) r (.other k) = .error .type ∧ decimalUnconvert none r (.other k) = .error .type) ∧
    (∀ d : Dec, d.isFinite = false → decimalUnconvert none r (.dec d) = .error .value) := by
  refine ⟨fun h => ?_, fun h => ?_, fun k => ⟨rfl, rfl, rfl, rfl⟩, fun d hd => by simp [decimalUnconvert, hd]⟩
  · simp [stringUnconvert, strEnforceLength, h, Functor.map, Except.map]
  · simp [oneOfUnconvert, oneOfDefault, h]

end Ofx.Types
