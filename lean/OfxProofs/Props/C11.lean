/-
C11, leaf part — every text an element converter writes is lexically valid OFX for its declared type
(`Ofx.Spec.Lex`), and values that cannot be written that way are refused.

The wire-level part (serialized bytes) and the date-time rules belong to other layers.
-/
import OfxModel.Ofx.Types
import OfxModel.Spec.Lex
import OfxProofs.Lemmas.Types

namespace Ofx.Types
open Ofx Ofx.Spec

/-- the element kinds of this layer: everything that carries text except date-time / time -/
def leafKind : Kind → Bool
  | .bool => true
  | .string _ _ => true
  | .oneOf _ => true
  | .integer _ => true
  | .decimal _ => true
  | .listElem k _ => leafKind k
  | _ => false

/-- guard for the pinned-tree defects: an Integer element does not hold a `bool`, a Decimal element holds a
    finite value that `str()` writes without exponent (exponent ≤ 0, adjusted exponent ≥ −6) -/
def leafGuard : Kind → Val → Bool
  | .integer _, .bool _ => false
  | .decimal _, .dec d => plainDec d
  | .listElem k _, v => leafGuard k v
  | _, _ => true

theorem enforceRequired_none_ne_str (r : Bool) (t : Str) : enforceRequired r .none ≠ .ok (.str t) := by
  cases r <;> simp [enforceRequired]

theorem boolUnconvert_str (r : Bool) (v : Val) (t : Str) (h : boolUnconvert r v = .ok (.str t)) :
    t = ['Y'] ∨ t = ['N'] := by
  cases v with
  | none => exact absurd h (enforceRequired_none_ne_str r t)
  | bool b =>
    cases b <;> simp [boolUnconvert] at h
    · exact Or.inr h.symm
    · exact Or.inl h.symm
  | _ => simp [boolUnconvert] at h

theorem stringUnconvert_str (l : Option Nat) (st r : Bool) (v : Val) (t : Str)
    (h : stringUnconvert l st r v = .ok (.str t)) : v = .str t ∧ fitsLen l st t = true := by
  cases v with
  | none => exact absurd h (enforceRequired_none_ne_str r t)
  | str s =>
    simp only [stringUnconvert, strEnforceLength_eq] at h
    by_cases hf : fitsLen l st s = true
    · simp [hf, Functor.map, Except.map] at h; subst h; exact ⟨rfl, hf⟩
    · simp [hf, Functor.map, Except.map] at h
  | _ => simp [stringUnconvert] at h

theorem oneOfUnconvert_str (valid : List Str) (r : Bool) (v : Val) (t : Str)
    (h : oneOfUnconvert valid r v = .ok (.str t)) : v = .str t ∧ t ∈ valid := by
  cases v with
  | none => exact absurd h (enforceRequired_none_ne_str r t)
  | str s =>
    simp only [oneOfUnconvert, oneOfDefault] at h
    by_cases hm : s ∈ valid
    · simp [hm] at h; subst h; exact ⟨rfl, hm⟩
    · simp [hm] at h
  | _ => simp [oneOfUnconvert, oneOfDefault] at h

theorem integerUnconvert_str (l : Option Nat) (r : Bool) (v : Val) (t : Str)
    (h : integerUnconvert l r v = .ok (.str t)) : (∃ i, v = .int i ∧ t = pyStrInt i) ∨ (∃ b, v = .bool b) := by
  cases v with
  | none => exact absurd h (enforceRequired_none_ne_str r t)
  | bool b => exact Or.inr ⟨b, rfl⟩
  | int i =>
    simp only [integerUnconvert] at h
    cases hl : intEnforceLength l i with
    | error e => simp [hl, bind, Except.bind] at h
    | ok u =>
      simp [hl, bind, Except.bind, pure, Except.pure] at h
      exact Or.inl ⟨i, rfl, h.symm⟩
  | _ => simp [integerUnconvert] at h

theorem decimalUnconvert_str (q : Option Int) (r : Bool) (v : Val) (t : Str)
    (h : decimalUnconvert q r v = .ok (.str t)) : ∃ d, v = .dec d ∧ t = decToStr d := by
  cases v with
  | none => exact absurd h (enforceRequired_none_ne_str r t)
  | dec d =>
    refine ⟨d, rfl, ?_⟩
    cases q with
    | none => simp [decimalUnconvert] at h; exact h.symm
    | some qe =>
      simp only [decimalUnconvert] at h
      split at h
      · simp at h; exact h.symm
      · simp at h
  | _ => simp [decimalUnconvert] at h

/-- **C11 (leaf), partial**: for every element kind and every value (in particular every value `convert` accepts,
    i.e. every value a model instance can hold) that passes the guard, `unconvert` either refuses or writes a text
    that is lexically valid for the kind. -/
theorem C11_leaf_partial (ext : LexExt) (enums : List (List Str)) (k : Kind) (r : Bool) (v : Val) (t : Str)
    (hk : leafKind k = true) (hg : leafGuard k v = true)
    (h : unconvert enums k r v = .ok (.str t)) : Lex ext enums k t = true := by
  induction k generalizing r with
  | bool =>
    rcases boolUnconvert_str r v t h with rfl | rfl <;> simp [Lex]
  | string l st =>
    obtain ⟨_, hf⟩ := stringUnconvert_str l st r v t h
    cases l with
    | none => simp [Lex]
    | some n => cases st <;> simp_all [Lex, fitsLen]
  | oneOf e =>
    simp only [unconvert] at h
    cases he : enums[e]? with
    | none => simp [he] at h
    | some valid =>
      simp only [he] at h
      obtain ⟨_, hm⟩ := oneOfUnconvert_str valid r v t h
      simp [Lex, he, hm]
  | integer l =>
    rcases integerUnconvert_str l r v t h with ⟨i, _, rfl⟩ | ⟨b, rfl⟩
    · simpa [Lex] using lexInteger_pyStrInt i
    · simp [leafGuard] at hg
  | decimal q =>
    obtain ⟨d, rfl, rfl⟩ := decimalUnconvert_str q r v t h
    simp only [leafGuard] at hg
    simpa [Lex] using lexDecimal_plain d hg
  | datetime => simp [leafKind] at hk
  | time => simp [leafKind] at hk
  | listElem k ir ih =>
    simp only [leafKind] at hk
    simp only [leafGuard] at hg
    simp only [unconvert] at h
    simpa [Lex] using ih ir hk hg h
  | sub c => simp [leafKind] at hk
  | listAgg c => simp [leafKind] at hk
  | unsupported => simp [leafKind] at hk

example : leafGuard (.decimal (some (-2))) (.dec (.fin true 15065 (-2))) = true := by decide +kernel
example : leafGuard (.integer (some 3)) (.int (-12)) = true := by decide

/-- **C11 (leaf), full strength**: every value a model instance can hold (anything `convert` returns) is written
    as a lexically valid text or refused -/
def C11_leaf_full : Prop :=
  ∀ (ext : LexExt) (enums : List (List Str)) (k : Kind) (r : Bool) (x v : Val) (t : Str), leafKind k = true →
    convert enums k r x = .ok v → unconvert enums k r v = .ok (.str t) → Lex ext enums k t = true

/-- false on the pinned tree, witness 1: `Decimal().convert("1E+2")` is accepted and written back as `1E+2` -/
theorem C11_leaf_full_false : ¬ C11_leaf_full := by
  intro h
  have := h LexExt.none [] (.decimal none) false (.str "1E+2".toList) (.dec (.fin false 1 2)) "1E+2".toList rfl
    (by rfl) (by rfl)
  exact absurd this (by decide)

/-- witness 2: `Decimal().convert("NaN")` is accepted and written as `NaN` -/
theorem C11_leaf_full_false_nan :
    convert [] (.decimal none) false (.str "NaN".toList) = .ok (.dec (.nan false false 0)) ∧
    unconvert [] (.decimal none) false (.dec (.nan false false 0)) = .ok (.str "NaN".toList) ∧
    Lex LexExt.none [] (.decimal none) "NaN".toList = false := ⟨by rfl, by rfl, by decide⟩

/-- witness 3: `Integer().convert(True)` keeps the `bool`, which is written as `True` -/
theorem C11_leaf_full_false_bool :
    convert [] (.integer none) false (.bool true) = .ok (.bool true) ∧
    unconvert [] (.integer none) false (.bool true) = .ok (.str "True".toList) ∧
    Lex LexExt.none [] (.integer none) "True".toList = false := ⟨by rfl, by rfl, by decide⟩

/-- witness 4: a small normalised value: `Decimal('1E-7')` is written with an exponent -/
theorem C11_leaf_full_false_small :
    unconvert [] (.decimal none) false (.dec (.fin false 1 (-7))) = .ok (.str "1E-7".toList) ∧
    Lex LexExt.none [] (.decimal none) "1E-7".toList = false := ⟨by rfl, by decide⟩

/-- refusal: an over-long value of a strict string, a token outside the enumeration, a value of a foreign type
    are refused rather than written -/
theorem C11_leaf_refuse (l : Nat) (r : Bool) (s : Str) (valid : List Str) :
    (s.length > l → stringUnconvert (some l) true r (.str s) = .error .spec) ∧
    (s ∉ valid → oneOfUnconvert valid r (.str s) = .error .spec) ∧
    (∀ k, boolUnconvert r (.other k) = .error .spec ∧ stringUnconvert (some l) true r (.other k) = .error .type ∧
      integerUnconvert (some l) r (.other k) = .error .type ∧ decimalUnconvert none r (.other k) = .error .type) := by
  refine ⟨fun h => ?_, fun h => ?_, fun k => ⟨rfl, rfl, rfl, rfl⟩⟩
  · simp [stringUnconvert, strEnforceLength, h, Functor.map, Except.map]
  · simp [oneOfUnconvert, oneOfDefault, h]

end Ofx.Types
