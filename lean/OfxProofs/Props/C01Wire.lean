/-
C01 — serialize-then-parse returns the same model: the body-level composition.

For every schema, converter family and valid instance (of plain aggregates):
   from_etree (parse (write (to_etree i))) = i
for the closed writer (`ET.tostring(method="html")`: OFXv2 XML and OFXv1 SGML with end tags) plain or
pretty-printed, and for the unclosed SGML writer (`tostring_unclosed_elements`) when the written tree has no
childless aggregate (known finding `unclosed-empty-aggregate-no-end-tag`).

Composition of  C01_agg_roundtrip_partial (aggregate layer, with esc = _escape_cdata),
`written_wire` (the written tree meets the wire premises), SER_*_renders_parser (the writers render
the escaped tree in the parser's grammar) and C02_complete_doc (the tokenizer/builder reads every
rendering back).  The header half (make_header / parse_header, utf-8) is C12_roundtrip.
-/
import OfxProofs.Lemmas.Written
import OfxProofs.Props.C02
import OfxModel.Ofx.Pipeline

namespace Ofx.Pipeline
open Ofx Ofx.Agg Ofx.Spec.Wire Ofx.Serialize

theorem escapeTree_eq_mapText : ∀ t, escapeTree t = mapText escapeCdata t := by
  intro t
  induction t using Tree.rec (motive_2 := fun cs => escapeTreeList cs = mapTextList escapeCdata cs) with
  | node tag x tl cs ih => simp [escapeTree, mapText, ih]
  | nil => rfl
  | cons c cs ih1 ih2 => simp [escapeTreeList, mapTextList, ih1, ih2]

/-- what `OFXTree.parse` + `convert` do with a message body -/
def readBody (S : Schema) (cv : Conv) (body : Str) : PyM Node :=
  Builder.parse body >>= fun r =>
    match r with
    | none => .error .value
    | some t => fromEtree S cv t

section
variable (S : Schema) (cv : Conv) (he : List Str) (Dom : Kind → Bool → Val → Prop)

/-- **C01, closed forms** (XML / SGML with end tags; plain and pretty-printed): the body the library writes
    for a valid instance reads back to that instance. -/
theorem C01_body_roundtrip_closed (laws : ConvLaws cv S.enums escapeCdata Dom) (htext : TextOk S cv Dom)
    (htag : ∀ ci c, S.cls? ci = some c → c.abstract = false → TagWF he c)
    (i : Node) (hv : Valid S cv escapeCdata Dom i) (pretty : Bool) :
    ∃ t, toEtree S cv i = .ok t ∧ readBody S cv (serializeBody he true pretty t) = .ok i := by
  obtain ⟨t, ht, hback⟩ := C01_agg_roundtrip_partial S cv escapeCdata Dom laws i hv
  obtain ⟨hw, hs, hg⟩ := written_wire S cv escapeCdata Dom he laws htext htag i hv t ht
  refine ⟨t, ht, ?_⟩
  have hr := SER_html_renders_parser_strict he t pretty hw hs hg
  have hp := C02.C02_complete_doc _ _ hr
  simp only [readBody, hp, bind, Except.bind]
  rw [escapeTree_eq_mapText]
  exact hback

/-- **C01, unclosed SGML form** (`close_elements=False`; plain and pretty-printed), for instances whose
    written tree has no childless aggregate. -/
theorem C01_body_roundtrip_unclosed_partial (laws : ConvLaws cv S.enums escapeCdata Dom)
    (htext : TextOk S cv Dom) (htag : ∀ ci c, S.cls? ci = some c → c.abstract = false → TagWF he c)
    (i : Node) (hv : Valid S cv escapeCdata Dom i) (pretty : Bool) :
    ∃ t, toEtree S cv i = .ok t ∧
      (unclosedGuard t = true → readBody S cv (serializeBody he false pretty t) = .ok i) := by
  obtain ⟨t, ht, hback⟩ := C01_agg_roundtrip_partial S cv escapeCdata Dom laws i hv
  obtain ⟨hw, hs, hg⟩ := written_wire S cv escapeCdata Dom he laws htext htag i hv t ht
  refine ⟨t, ht, ?_⟩
  intro hu
  have hr := SER_unclosed_renders_parser_partial he t pretty true hw hu (fun _ => hg)
  have hp := C02.C02_complete_doc _ _ hr
  simp only [readBody, hp, bind, Except.bind]
  rw [escapeTree_eq_mapText]
  exact hback

end
end Ofx.Pipeline
