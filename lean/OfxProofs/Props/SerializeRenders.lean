/-
The serializer theorems restated against the parser layer's wire grammar `Ofx.Spec.Renders`
(C01 step 4, `serialize_renders`): ready to compose with `C02_complete`.
-/
import OfxProofs.Props.Serialize
import OfxProofs.Lemmas.SerializeRenders

namespace Ofx.Serialize
open Ofx Ofx.Spec.Wire

/-- html forms (OFXv2 XML, OFXv1 SGML with end tags), plain and pretty: the body is a document of the full grammar
    for the tree with escaped texts -/
theorem SER_html_renders_parser (he : List Str) (t : Tree) (pretty : Bool)
    (hw : wireTree t = true) (hs : htmlSafe he t = true) :
    Spec.RendersDoc false (escapeTree t) (serializeBody he true pretty t) := by
  cases pretty with
  | false => exact renderingDoc_rendersDoc (SER_html_renders he t hw hs)
  | true => exact renderingDoc_rendersDoc (SER_html_pretty_renders he t hw hs)

/-- … and of the strict grammar (the side conditions the pinned parser needs) when no aggregate ends with a data
    element bearing the aggregate's own tag -/
theorem SER_html_renders_parser_strict (he : List Str) (t : Tree) (pretty : Bool)
    (hw : wireTree t = true) (hs : htmlSafe he t = true) (hg : g3Ok t = true) :
    Spec.RendersDoc true (escapeTree t) (serializeBody he true pretty t) := by
  have hg' : g3Ok (escapeTree t) = true := (g3Ok_escapeTree_both.1 t).trans hg
  cases pretty with
  | false => exact renderingDoc_rendersDoc_strict (SER_html_renders he t hw hs) hg'
  | true => exact renderingDoc_rendersDoc_strict (SER_html_pretty_renders he t hw hs) hg'

/-- unclosed form (OFXv1 SGML without end tags), plain and pretty, all leaf data; guard: no childless aggregate -/
theorem SER_unclosed_renders_parser_partial (he : List Str) (t : Tree) (pretty strict : Bool)
    (hw : wireTree t = true) (hg : unclosedGuard t = true) (h3 : strict = true → g3Ok t = true) :
    Spec.RendersDoc strict (escapeTree t) (serializeBody he false pretty t) := by
  have h := SER_unclosed_renders_partial he t pretty hw hg
  cases strict with
  | false => exact renderingDoc_rendersDoc h
  | true => exact renderingDoc_rendersDoc_strict h ((g3Ok_escapeTree_both.1 t).trans (h3 rfl))

example : g3Ok exTree = true ∧ g3Ok exTreeU = true := by decide

end Ofx.Serialize
