/-
C07 — unknown and vendor-specific tags never change or break the converted result.

Generic in the schema `S` and the converters `cv`: no well-formedness premise is needed.
The model `Agg.fromEtree` is tied to `Aggregate.from_etree` by `harness/corr/C07.py`.
-/
import OfxProofs.Lemmas.Agg
namespace Ofx.Agg
open Ofx

/-- `t'` is `t` with one extra subtree, unknown to the enclosing aggregate's class, inserted at some
    child position of some aggregate node. -/
inductive InsertUnknown (S : Schema) : Tree → Tree → Prop
  | here (tag : Str) (x tl : Option Str) (pre : List Tree) (u : Tree) (post : List Tree) :
      (∀ ci c, S.findIdx? tag = some ci → S.cls? ci = some c → Unknown c u.tag) →
      InsertUnknown S (.node tag x tl (pre ++ post)) (.node tag x tl (pre ++ u :: post))
  | deeper (tag : Str) (x tl : Option Str) (pre : List Tree) (ch ch' : Tree) (post : List Tree) :
      InsertUnknown S ch ch' →
      InsertUnknown S (.node tag x tl (pre ++ ch :: post)) (.node tag x tl (pre ++ ch' :: post))

theorem InsertUnknown.tag_text {S : Schema} {t t' : Tree} (h : InsertUnknown S t t') :
    t'.tag = t.tag ∧ t'.text = t.text := by
  cases h <;> exact ⟨rfl, rfl⟩

theorem C07_invariant (S : Schema) (cv : Conv) (t t' : Tree) (h : InsertUnknown S t t') :
    fromEtree S cv t' = fromEtree S cv t := by
  induction h with
  | here tag x tl pre u post hu =>
    simp only [fromEtree, convertNode]
    cases hf : S.findIdx? tag with
    | none => rfl
    | some ci =>
      cases hc : S.cls? ci with
      | none => simp only [hc]
      | some c =>
        have hun := hu ci c hf hc
        simp only [hc, childInsts_append, childInsts]
        rw [foldChildren_insert c u _ hun pre post _ _ _ (childInsts_length S cv pre)]
        have hne : (pre ++ u :: post).isEmpty = false := by cases pre <;> rfl
        simp only [hne]
        by_cases hemp : (pre ++ post).isEmpty = true
        · have : pre = [] ∧ post = [] := by
            cases pre <;> cases post <;> simp_all
          obtain ⟨rfl, rfl⟩ := this
          simp [foldChildren, childInsts, Accum.init, bind, Except.bind]
        · simp [hemp]
  | deeper tag x tl pre ch ch' post hin ih =>
    obtain ⟨ht, hx⟩ := hin.tag_text
    simp only [fromEtree, convertNode]
    cases hf : S.findIdx? tag with
    | none => rfl
    | some ci =>
      cases hc : S.cls? ci with
      | none => simp only [hc]
      | some c =>
        simp only [hc, childInsts_append, childInsts, ih]
        rw [foldChildren_replace c ch ch' _ ht hx pre post _ _ _ (childInsts_length S cv pre)]
        have h1 : (pre ++ ch' :: post).isEmpty = false := by cases pre <;> rfl
        have h2 : (pre ++ ch :: post).isEmpty = false := by cases pre <;> rfl
        simp only [h1, h2]

/-- any number of insertions, anywhere -/
inductive InsertUnknowns (S : Schema) : Tree → Tree → Prop
  | refl (t : Tree) : InsertUnknowns S t t
  | step (t t' t'' : Tree) : InsertUnknowns S t t' → InsertUnknown S t' t'' → InsertUnknowns S t t''

/-- C07: a document with any number of unknown / vendor-prefixed elements or subtrees inserted at any
    positions converts exactly as the document without them (same instance, or the same error). -/
theorem C07_invariant_many (S : Schema) (cv : Conv) (t t' : Tree) (h : InsertUnknowns S t t') :
    fromEtree S cv t' = fromEtree S cv t := by
  induction h with
  | refl => rfl
  | step _ _ _ hstep ih => rw [C07_invariant S cv _ _ hstep, ih]

/-- a vendor-prefixed tag is unknown to every class whose `groom` does not rename exactly that tag -/
theorem C07_dotted_unknown (c : Cls) (tag : Str) (hd : '.' ∈ tag)
    (hg : ∀ r, c.groom = some r → tag ≠ r.fromTag) : Unknown c tag := ⟨hg, Or.inl hd⟩

-- non-vacuity: with a one-class schema, a vendor element inserted into a childless aggregate
private def tinyCls : Cls :=
  { name := "A".toList, exported := true, abstract := false, ancestors := [], spec := [],
    optMutex := [], reqMutex := [], declOptMutex := [], declReqMutex := [], elementList := false,
    extra := .none, groom := none, ungroom := none }
private def tinySchema : Schema := { classes := [tinyCls], enums := [] }

example : InsertUnknown tinySchema (.node "A".toList none none [])
    (.node "A".toList none none [.node "INTU.BID".toList (some "1".toList) none []]) :=
  InsertUnknown.here "A".toList none none [] _ [] (fun ci c hf hc => by
    have : ci = 0 := by
      simp [Schema.findIdx?, tinySchema, tinyCls] at hf
      omega
    subst this
    simp [Schema.cls?, tinySchema] at hc
    subst hc
    exact ⟨fun r h => by simp [tinyCls] at h, Or.inl (by decide)⟩)

end Ofx.Agg
