/-
C14, cookie clauses — "cookies a server sets are replayed on later requests of the same client and never appear in
requests of another client instance" — for the policy of CPython's `http.cookiejar` as `ofxtools/Client.py:post_request`
uses it (model and scope: `OfxModel/Ofx/CookieJar.lean`; tie: `harness/corr/C14.py`, which drives the real
`http.cookiejar` through the real `OFXClient.post_request`).

Every theorem quantifies over **every** network (`Net`: the clock and the answer to the n-th request, which may depend on
everything on the wire), every number of client instances, and every history of posts by them.  A history of whole
operations of `ClientSM` is such a history (each operation is at most two posts by one client: `C14c_clientSM_posts`).

The master statement is `C14c_header_iff`: the items of the `Cookie:` header of a request are **exactly** the
name/value pairs of the cookies that are *live* for the sending instance — set by the response to an earlier request of
that same instance, accepted by the policy, not overwritten or deleted since by a response to that instance, not expired
at any request of that instance since — and that match the request (domain, path, scheme, clock).  Isolation, replay,
"never to a non-matching host / path / over http when Secure", expiry, `Max-Age=0` deletion and `persist_cookies=False`
are corollaries.
-/
import OfxProofs.Lemmas.CookieJar
import OfxModel.Ofx.ClientSM

namespace Ofx.CookieJar

/-! ### what one response does to a jar -/

/-- `x` is stored by a response: it is made from one of its headers, the policy accepts it, and no later header of the
    same response stores the same key -/
def Stores (req : Req) (made : List Made) (x : Cookie) : Prop :=
  ∃ ma mb, made = ma ++ Made.cookie x :: mb ∧ setOk req x = true ∧
    ∀ c', Made.cookie c' ∈ mb → setOk req c' = true → c'.key ≠ x.key

/-- a response touches key `k`: one of its headers deletes it, or stores a cookie under it -/
def Touches (req : Req) (made : List Made) (k : Key) : Prop :=
  Made.expired k ∈ made ∨ ∃ c', Made.cookie c' ∈ made ∧ setOk req c' = true ∧ c'.key = k

theorem cons_delFold (made : List Made) {jar : Jar} (h : Cons jar) : Cons (made.foldl delStep jar) := by
  induction made generalizing jar with
  | nil => exact h
  | cons m rest ih =>
    apply ih
    cases m with
    | cookie c => exact h
    | expired k => exact cons_clear h k

theorem cons_setFold (req : Req) (made : List Made) {jar : Jar} (h : Cons jar) : Cons (made.foldl (setStep req) jar) := by
  induction made generalizing jar with
  | nil => exact h
  | cons m rest ih =>
    apply ih
    cases m with
    | cookie c =>
      simp only [setStep]
      split
      · exact cons_setCookie h c
      · exact h
    | expired k => exact h

theorem cons_extractMade {jar : Jar} (h : Cons jar) (req : Req) (made : List Made) : Cons (extractMade jar req made) :=
  cons_setFold req made (cons_delFold made h)

theorem mem_delFold (made : List Made) {jar : Jar} (h : Cons jar) {x : Cookie} :
    x ∈ cookies (made.foldl delStep jar) ↔ x ∈ cookies jar ∧ Made.expired x.key ∉ made := by
  induction made generalizing jar with
  | nil => simp
  | cons m rest ih =>
    simp only [List.foldl_cons, List.mem_cons, not_or]
    cases m with
    | cookie c =>
      rw [ih (show Cons (delStep jar (.cookie c)) from h)]
      simp [delStep]
    | expired k =>
      rw [ih (show Cons (delStep jar (.expired k)) from cons_clear h k)]
      simp only [delStep, mem_cookies_clear h, Made.expired.injEq]
      constructor
      · rintro ⟨⟨h1, h2⟩, h3⟩; exact ⟨h1, fun h => h2 h, h3⟩
      · rintro ⟨h1, h2, h3⟩; exact ⟨⟨h1, fun h => h2 h⟩, h3⟩

theorem mem_setFold (req : Req) (made : List Made) {jar : Jar} (h : Cons jar) {x : Cookie} :
    x ∈ cookies (made.foldl (setStep req) jar) ↔
      Stores req made x ∨
      (x ∈ cookies jar ∧ ∀ c', Made.cookie c' ∈ made → setOk req c' = true → c'.key ≠ x.key) := by
  induction made generalizing jar with
  | nil =>
    simp only [List.foldl_nil, List.not_mem_nil, false_imp_iff, implies_true, and_true, Stores]
    constructor
    · exact .inr
    · rintro (⟨ma, mb, hm, _⟩ | h)
      · cases ma <;> cases hm
      · exact h
  | cons m rest ih =>
    have hstep : Cons (setStep req jar m) := by
      cases m with
      | cookie c => simp only [setStep]; split; exact cons_setCookie h c; exact h
      | expired k => exact h
    rw [List.foldl_cons, ih hstep]
    constructor
    · rintro (⟨ma, mb, hm, hok, hlast⟩ | ⟨hx, hno⟩)
      · exact .inl ⟨m :: ma, mb, by rw [hm]; rfl, hok, hlast⟩
      · cases m with
        | expired k =>
          refine .inr ⟨hx, ?_⟩
          intro c' hc'
          rcases List.mem_cons.mp hc' with hc' | hc'
          · cases hc'
          · exact hno c' hc'
        | cookie c =>
          simp only [setStep] at hx
          by_cases hok : setOk req c = true
          · rw [if_pos hok, mem_cookies_setCookie h] at hx
            rcases hx with rfl | ⟨hx, hk⟩
            · exact .inl ⟨[], rest, rfl, hok, hno⟩
            · refine .inr ⟨hx, ?_⟩
              intro c' hc' hok'
              rcases List.mem_cons.mp hc' with hc' | hc'
              · cases hc'; exact fun hkk => hk hkk.symm
              · exact hno c' hc' hok'
          · rw [if_neg hok] at hx
            refine .inr ⟨hx, ?_⟩
            intro c' hc' hok'
            rcases List.mem_cons.mp hc' with hc' | hc'
            · cases hc'; exact absurd hok' hok
            · exact hno c' hc' hok'
    · rintro (⟨ma, mb, hm, hok, hlast⟩ | ⟨hx, hno⟩)
      · cases ma with
        | nil =>
          simp only [List.nil_append, List.cons.injEq] at hm
          obtain ⟨rfl, rfl⟩ := hm
          refine .inr ⟨?_, hlast⟩
          simp only [setStep, hok, if_true]
          exact (mem_cookies_setCookie h).mpr (.inl rfl)
        | cons m' ma' =>
          simp only [List.cons_append, List.cons.injEq] at hm
          exact .inl ⟨ma', mb, hm.2, hok, hlast⟩
      · refine .inr ⟨?_, fun c' hc' => hno c' (List.mem_cons_of_mem _ hc')⟩
        cases m with
        | expired k => exact hx
        | cookie c =>
          simp only [setStep]
          split
          · rename_i hok
            exact (mem_cookies_setCookie h).mpr (.inr ⟨hx, fun hk => hno c (List.mem_cons_self ..) hok hk.symm⟩)
          · exact hx

/-- **`extract_cookies`**: afterwards the jar holds exactly what the response stores, and what was there and the response
    does not touch -/
theorem mem_extractMade {jar : Jar} (h : Cons jar) (req : Req) (made : List Made) {x : Cookie} :
    x ∈ cookies (extractMade jar req made) ↔
      Stores req made x ∨ (x ∈ cookies jar ∧ ¬ Touches req made x.key) := by
  unfold extractMade
  rw [mem_setFold req made (cons_delFold made h), mem_delFold made h]
  unfold Touches
  constructor
  · rintro (h1 | ⟨⟨hx, hdel⟩, hno⟩)
    · exact .inl h1
    · refine .inr ⟨hx, ?_⟩
      rintro (hd | ⟨c', hc', hok, hk⟩)
      · exact hdel hd
      · exact hno c' hc' hok hk
  · rintro (h1 | ⟨hx, hno⟩)
    · exact .inl h1
    · exact .inr ⟨⟨hx, fun hd => hno (.inl hd)⟩, fun c' hc' hok hk => hno (.inr ⟨c', hc', hok, hk⟩)⟩

/-! ### what one request gets -/

/-- the three gates of `_cookies_for_domain` for one stored cookie -/
def sendable (req : Req) (now : Int) (c : Cookie) : Bool :=
  domainReturnOk c.domain req && pathReturnOk c.path req && returnOk req now c

/-- **`add_cookie_header`**: the header carries exactly the name/value pairs of the stored cookies that pass the gates -/
theorem mem_cookieHeader {jar : Jar} (h : Cons jar) {req : Req} {now : Int} {nv : Str × Str} :
    nv ∈ cookieHeader jar req now ↔ ∃ c ∈ cookies jar, sendable req now c = true ∧ (c.name, c.value) = nv := by
  simp only [cookieHeader, List.mem_map, mem_sortByPath, cookiesForRequest, List.mem_flatMap, cookiesForDomain]
  constructor
  · rintro ⟨c, ⟨⟨d, ps⟩, hd, hc⟩, rfl⟩
    simp only at hc
    split at hc
    · rename_i hdom
      simp only [List.mem_flatMap] at hc
      obtain ⟨⟨p, ns⟩, hp, hc⟩ := hc
      simp only at hc
      split at hc
      · rename_i hpath
        simp only [List.mem_filter] at hc
        have hat : At jar d p c := ⟨ps, hd, ns, hp, hc.1⟩
        obtain ⟨rfl, rfl⟩ := h d p c hat
        exact ⟨c, mem_cookies.mpr ⟨_, _, hat⟩, by simp [sendable, hdom, hpath, hc.2], rfl⟩
      · cases hc
    · cases hc
  · rintro ⟨c, hc, hs, rfl⟩
    obtain ⟨ps, hd, ns, hp, hcn⟩ := (mem_cookies_cons h).mp hc
    simp only [sendable, Bool.and_eq_true] at hs
    refine ⟨c, ⟨(c.domain, ps), hd, ?_⟩, rfl⟩
    simp only [hs.1.1, if_true, List.mem_flatMap]
    refine ⟨(c.path, ns), hp, ?_⟩
    simp only [hs.1.2, if_true, List.mem_filter]
    exact ⟨hcn, hs.2⟩

/-- **path specificity first**: the header lists cookies with longer paths before cookies with shorter ones -/
theorem cookieHeader_ordered (jar : Jar) (req : Req) (now : Int) :
    ∃ cs : List Cookie, PathOrdered cs ∧ cookieHeader jar req now = cs.map fun c => (c.name, c.value) :=
  ⟨_, sortByPath_ordered _, rfl⟩

/-! ### the gates, declaratively -/

/-- the request's effective host is the cookie's domain or ends with `"." ++` it -/
def HostMatch (req : Req) (c : Cookie) : Prop := ∃ pre, '.' :: erhn req = pre ++ dotDomain c.domain

/-- the request path is the cookie's path, or continues it at a `/` -/
def PathMatch (req : Req) (c : Cookie) : Prop :=
  ∃ rest, requestPath req = c.path ++ rest ∧
    (rest = [] ∨ (∃ pre, c.path = pre ++ ['/']) ∨ ∃ rest', rest = '/' :: rest')

theorem isExpired_false {c : Cookie} {now : Int} : c.isExpired now = false ↔ ∀ t, c.expires = some t → now < t := by
  unfold Cookie.isExpired
  cases c.expires with
  | none => simp
  | some t => simp [Int.not_le]

theorem pathReturnOk_iff {req : Req} {c : Cookie} : pathReturnOk c.path req = true ↔ PathMatch req c := by
  unfold pathReturnOk PathMatch
  simp only [Bool.or_eq_true, Bool.and_eq_true, beq_iff_eq, startsWith_iff, endsWith_iff]
  constructor
  · rintro (h | ⟨⟨rest, h⟩, hh⟩)
    · exact ⟨[], by simp [h], .inl rfl⟩
    · refine ⟨rest, h, ?_⟩
      rcases hh with hh | hh
      · exact .inr (.inl hh)
      · rw [h] at hh
        simp only [List.drop_left] at hh
        cases rest with
        | nil => exact .inl rfl
        | cons a rest' =>
          simp only [List.take_succ_cons, List.take_zero, List.cons.injEq, and_true] at hh
          exact .inr (.inr ⟨rest', by rw [hh]⟩)
  · rintro ⟨rest, h, hh⟩
    rcases hh with rfl | hh | ⟨rest', rfl⟩
    · left; simpa using h
    · exact .inr ⟨⟨rest, h⟩, .inl hh⟩
    · refine .inr ⟨⟨_, h⟩, .inr ?_⟩
      rw [h]; simp

/-- what a cookie that is sent satisfies: **never to a non-matching host, a non-matching path, over http when `Secure`,
    or when expired** -/
theorem sendable_sound {req : Req} {now : Int} {c : Cookie} (h : sendable req now c = true) :
    HostMatch req c ∧ PathMatch req c ∧ (c.secure = true → req.https = true) ∧
      (∀ t, c.expires = some t → now < t) := by
  simp only [sendable, returnOk, returnOkSecure, returnOkDomain, Bool.and_eq_true, Bool.not_eq_true',
    Bool.and_eq_false_iff, Bool.not_eq_false'] at h
  obtain ⟨⟨_, hp⟩, ⟨hs, he⟩, hd⟩ := h
  refine ⟨endsWith_iff.mp hd, pathReturnOk_iff.mp hp, ?_, isExpired_false.mp he⟩
  intro hsec
  rcases hs with hs | hs
  · rw [hs] at hsec; cases hsec
  · exact hs

/-- … and for a host that does not begin with a dot these four conditions are all there is -/
theorem sendable_iff {req : Req} {now : Int} {c : Cookie} (hdot : startsWith dot (erhn req) = false) :
    sendable req now c = true ↔
      HostMatch req c ∧ PathMatch req c ∧ (c.secure = true → req.https = true) ∧
        (∀ t, c.expires = some t → now < t) := by
  refine ⟨sendable_sound, ?_⟩
  rintro ⟨hh, hp, hs, he⟩
  have hd : endsWith (dotDomain c.domain) ('.' :: erhn req) = true := endsWith_iff.mpr hh
  simp only [sendable, returnOk, returnOkSecure, returnOkDomain, domainReturnOk, withDot, hdot, Bool.and_eq_true,
    Bool.or_eq_true, Bool.not_eq_true', Bool.and_eq_false_iff, Bool.not_eq_false', hd, pathReturnOk_iff.mpr hp,
    isExpired_false.mpr he, and_true, or_true, true_and, Bool.false_eq_true, if_false]
  cases hsec : c.secure with
  | false => exact .inl rfl
  | true => exact .inr (hs hsec)

/-! ### the system: invariants of a history -/

/-- the cookies a response makes (`none`: there was no response) -/
def Ev.made (e : Ev) : List Made :=
  match e.reply.set with
  | some scs => scs.map (mkCookie e.req e.reply.tResp)
  | none => []

/-- `x` is live for client `i` after the requests `pre`: stored by the response to one of its requests, and at every
    later request of `i` neither expired (`clear_expired_cookies`) nor touched by the response -/
def Live (i : Nat) (pre : List Ev) (x : Cookie) : Prop :=
  ∃ a e0 mid, pre = a ++ e0 :: mid ∧ e0.who = i ∧ Stores e0.req e0.made x ∧
    ∀ e1 ∈ mid, e1.who = i → x.isExpired e1.now = false ∧ ¬ Touches e1.req e1.made x.key

structure Inv (persist : Nat → Bool) (s : Sys) (pre : List Ev) : Prop where
  persist_eq : ∀ i, (s i).persist = persist i
  cons : ∀ i, Cons (s i).jar
  live : ∀ i, persist i = true → ∀ x, x ∈ cookies (s i).jar ↔ Live i pre x

theorem live_snoc_other {i : Nat} {pre : List Ev} {e : Ev} {x : Cookie} (hw : e.who ≠ i) :
    Live i (pre ++ [e]) x ↔ Live i pre x := by
  constructor
  · rintro ⟨a, e0, mid, hpre, hw0, hst, hmid⟩
    rcases List.eq_nil_or_concat mid with rfl | ⟨mid', e', rfl⟩
    · have := List.append_inj' (show pre ++ [e] = a ++ [e0] from hpre) rfl
      simp only [List.cons.injEq, and_true] at this
      obtain ⟨_, rfl⟩ := this
      exact absurd hw0 hw
    · have := List.append_inj' (show pre ++ [e] = (a ++ e0 :: mid') ++ [e'] by simpa using hpre) rfl
      simp only [List.cons.injEq, and_true] at this
      obtain ⟨rfl, rfl⟩ := this
      exact ⟨a, e0, mid', rfl, hw0, hst, fun e1 he1 => hmid e1 (by simp [he1])⟩
  · rintro ⟨a, e0, mid, rfl, hw0, hst, hmid⟩
    refine ⟨a, e0, mid ++ [e], by simp, hw0, hst, ?_⟩
    intro e1 he1 hw1
    rcases List.mem_append.mp he1 with he1 | he1
    · exact hmid e1 he1 hw1
    · simp only [List.mem_singleton] at he1; subst he1; exact absurd hw1 hw

theorem live_snoc_self {pre : List Ev} {e : Ev} {x : Cookie} :
    Live e.who (pre ++ [e]) x ↔
      Stores e.req e.made x ∨ (Live e.who pre x ∧ x.isExpired e.now = false ∧ ¬ Touches e.req e.made x.key) := by
  constructor
  · rintro ⟨a, e0, mid, hpre, hw0, hst, hmid⟩
    rcases List.eq_nil_or_concat mid with rfl | ⟨mid', e', rfl⟩
    · have := List.append_inj' (show pre ++ [e] = a ++ [e0] from hpre) rfl
      simp only [List.cons.injEq, and_true] at this
      obtain ⟨_, rfl⟩ := this
      exact .inl hst
    · have := List.append_inj' (show pre ++ [e] = (a ++ e0 :: mid') ++ [e'] by simpa using hpre) rfl
      simp only [List.cons.injEq, and_true] at this
      obtain ⟨rfl, rfl⟩ := this
      have hlast := hmid e (by simp) rfl
      exact .inr ⟨⟨a, e0, mid', rfl, hw0, hst, fun e1 he1 => hmid e1 (by simp [he1])⟩, hlast⟩
  · rintro (hst | ⟨⟨a, e0, mid, rfl, hw0, hst, hmid⟩, hexp, hto⟩)
    · exact ⟨pre, e, [], rfl, rfl, hst, fun _ h => by cases h⟩
    · refine ⟨a, e0, mid ++ [e], by simp, hw0, hst, ?_⟩
      intro e1 he1 hw1
      rcases List.mem_append.mp he1 with he1 | he1
      · exact hmid e1 he1 hw1
      · simp only [List.mem_singleton] at he1; subst he1; exact ⟨hexp, hto⟩

theorem stores_nil {req : Req} {x : Cookie} : ¬ Stores req [] x := by
  rintro ⟨ma, mb, hm, _⟩; cases ma <;> cases hm

theorem touches_nil {req : Req} {k : Key} : ¬ Touches req [] k := by
  rintro (h | ⟨_, h, _⟩) <;> cases h

variable (net : Net)

theorem step_header (s : Sys) (n who : Nat) (req : Req) :
    (step net s n who req).2.header =
      if (s who).persist then cookieHeader (s who).jar req (net.tReq n) else [] := by
  simp only [step, Client.send]
  split <;> rfl

theorem step_ev (s : Sys) (n who : Nat) (req : Req) :
    (step net s n who req).2.who = who ∧ (step net s n who req).2.req = req ∧
      (step net s n who req).2.now = net.tReq n := ⟨rfl, rfl, rfl⟩

theorem step_other (s : Sys) (n who : Nat) (req : Req) {i : Nat} (h : i ≠ who) :
    (step net s n who req).1 i = s i := by
  simp [step, Sys.set, h]

theorem step_self_persist (s : Sys) (n who : Nat) (req : Req) :
    ((step net s n who req).1 who).persist = (s who).persist := by
  simp only [step, Sys.set, if_true, Client.send, Client.recv]
  split <;> split <;> simp_all

theorem step_self_jar (s : Sys) (n who : Nat) (req : Req) (hp : (s who).persist = true) :
    ((step net s n who req).1 who).jar =
      extractMade (clearExpired (s who).jar (net.tReq n)) req (step net s n who req).2.made := by
  simp only [step, Sys.set, if_true, Client.send, Client.recv, hp, Ev.made, extract]
  split <;> simp_all [extractMade]

theorem step_self_jar_nopersist (s : Sys) (n who : Nat) (req : Req) (hp : (s who).persist = false) :
    ((step net s n who req).1 who).jar = (s who).jar := by
  simp only [step, Sys.set, if_true, Client.send, Client.recv, hp]
  split <;> simp_all

theorem inv_step {persist : Nat → Bool} {s : Sys} {pre : List Ev} (h : Inv persist s pre) (n who : Nat) (req : Req) :
    Inv persist (step net s n who req).1 (pre ++ [(step net s n who req).2]) := by
  have hwho : (step net s n who req).2.who = who := rfl
  refine ⟨fun i => ?_, fun i => ?_, fun i hpi x => ?_⟩
  · by_cases hi : i = who
    · subst hi; rw [step_self_persist]; exact h.persist_eq i
    · rw [step_other net s n who req hi]; exact h.persist_eq i
  · by_cases hi : i = who
    · subst hi
      cases hp : (s i).persist with
      | true => rw [step_self_jar net s n i req hp]; exact cons_extractMade (cons_clearExpired (h.cons i) _) _ _
      | false => rw [step_self_jar_nopersist net s n i req hp]; exact h.cons i
    · rw [step_other net s n who req hi]; exact h.cons i
  · by_cases hi : i = who
    · subst hi
      have hp : (s i).persist = true := by rw [h.persist_eq]; exact hpi
      rw [step_self_jar net s n i req hp, mem_extractMade (cons_clearExpired (h.cons i) _), mem_cookies_clearExpired,
        h.live i hpi]
      have := @live_snoc_self pre (step net s n i req).2 x
      rw [hwho] at this
      rw [this]
      constructor
      · rintro (h1 | ⟨⟨h1, h2⟩, h3⟩)
        · exact .inl h1
        · exact .inr ⟨h1, h2, h3⟩
      · rintro (h1 | ⟨h1, h2, h3⟩)
        · exact .inl h1
        · exact .inr ⟨⟨h1, h2⟩, h3⟩
    · rw [step_other net s n who req hi, h.live i hpi]
      exact (live_snoc_other (by rw [hwho]; exact fun hh => hi hh.symm)).symm

/-- the characterisation, from any state satisfying the invariant -/
theorem run_header_iff {persist : Nat → Bool} (hist : List (Nat × Req)) (s : Sys) (n : Nat) (pre : List Ev)
    (h : Inv persist s pre) (mid : List Ev) (e : Ev) (post : List Ev)
    (hrun : run net s n hist = mid ++ e :: post) (nv : Str × Str) :
    nv ∈ e.header ↔
      persist e.who = true ∧ ∃ x, Live e.who (pre ++ mid) x ∧ sendable e.req e.now x = true ∧ (x.name, x.value) = nv := by
  induction hist generalizing s n pre mid with
  | nil => cases mid <;> cases hrun
  | cons wr rest ih =>
    obtain ⟨who, req⟩ := wr
    simp only [run] at hrun
    cases mid with
    | nil =>
      simp only [List.nil_append, List.cons.injEq] at hrun
      obtain ⟨rfl, _⟩ := hrun
      rw [step_header]
      simp only [List.append_nil]
      have hpe := h.persist_eq who
      show nv ∈ (if (s who).persist then _ else _) ↔ persist who = true ∧ ∃ x, Live who pre x ∧ sendable req (net.tReq n) x = true ∧ _
      cases hp : (s who).persist with
      | false =>
        rw [hp] at hpe
        simp [← hpe]
      | true =>
        rw [hp] at hpe
        simp only [if_true, mem_cookieHeader (h.cons who), ← hpe, true_and]
        constructor
        · rintro ⟨c, hc, hs, hnv⟩
          exact ⟨c, (h.live who hpe.symm c).mp hc, hs, hnv⟩
        · rintro ⟨c, hc, hs, hnv⟩
          exact ⟨c, (h.live who hpe.symm c).mpr hc, hs, hnv⟩
    | cons m mid' =>
      simp only [List.cons_append, List.cons.injEq] at hrun
      obtain ⟨rfl, hrun⟩ := hrun
      have := ih _ (n + 1) _ (inv_step net h n who req) mid' hrun
      simpa using this

theorem inv_init (s0 : Sys) (hjar : ∀ i, (s0 i).jar = []) : Inv (fun i => (s0 i).persist) s0 [] := by
  refine ⟨fun _ => rfl, fun i => by rw [hjar]; exact cons_nil, fun i _ x => ?_⟩
  rw [hjar]
  constructor
  · intro h; cases h
  · rintro ⟨a, e0, mid, h, _⟩; cases a <;> cases h

/-! ### the property theorems -/

theorem stores_origin {req : Req} {now : Int} {scs : List SetCookie} {x : Cookie}
    (h : Stores req (scs.map (mkCookie req now)) x) :
    setOk req x = true ∧ ∃ sc ∈ scs, mkCookie req now sc = .cookie x ∧ sc.name = x.name ∧ sc.value = x.value := by
  obtain ⟨ma, mb, hm, hok, _⟩ := h
  have hx : Made.cookie x ∈ scs.map (mkCookie req now) := by rw [hm]; simp
  obtain ⟨sc, hsc, hmk⟩ := List.mem_map.mp hx
  refine ⟨hok, sc, hsc, hmk, ?_⟩
  unfold mkCookie at hmk
  simp only at hmk
  split at hmk
  · cases hmk; exact ⟨rfl, rfl⟩
  · split at hmk
    · cases hmk
    · cases hmk; exact ⟨rfl, rfl⟩


section Props
variable (s0 : Sys) (hjar : ∀ i, (s0 i).jar = []) (hist : List (Nat × Req))
include hjar

/-- **C14c_header_iff.**  Start any number of client instances with empty jars (as `OFXClient.__init__` creates them)
    and let them post any history of requests against any network on any clock.  Look at any request `e` on the wire and
    the requests `pre` before it.  The items of its `Cookie:` header are exactly the name/value pairs of the cookies
    that are live for the sending instance after `pre` and pass the policy's gates for this request — and there are
    none when the instance does not keep cookies. -/
theorem C14c_header_iff (pre : List Ev) (e : Ev) (post : List Ev) (h : run net s0 0 hist = pre ++ e :: post)
    (nv : Str × Str) :
    nv ∈ e.header ↔
      (s0 e.who).persist = true ∧ ∃ x, Live e.who pre x ∧ sendable e.req e.now x = true ∧ (x.name, x.value) = nv := by
  have := run_header_iff net hist s0 0 [] (inv_init s0 hjar) pre e post h nv
  simpa using this

/-- **C14c_persist_false.** `persist_cookies=False`: no request of that instance ever carries a cookie. -/
theorem C14c_persist_false (pre : List Ev) (e : Ev) (post : List Ev) (h : run net s0 0 hist = pre ++ e :: post)
    (hp : (s0 e.who).persist = false) : e.header = [] := by
  apply List.eq_nil_iff_forall_not_mem.mpr
  intro nv hnv
  have := ((C14c_header_iff net s0 hjar hist pre e post h nv).mp hnv).1
  rw [hp] at this; cases this

/-- **C14c_origin (isolation).**  Every cookie a request carries was set by the response to an earlier request **of the
    same client instance**, whose `Set-Cookie` header the policy accepted for that request; it has not expired, and the
    request goes to a host and a path the cookie belongs to, over https if the cookie is `Secure`. -/
theorem C14c_origin (pre : List Ev) (e : Ev) (post : List Ev) (h : run net s0 0 hist = pre ++ e :: post)
    (nv : Str × Str) (hnv : nv ∈ e.header) :
    ∃ e0 ∈ pre, e0.who = e.who ∧ ∃ scs, e0.reply.set = some scs ∧ ∃ sc ∈ scs, sc.name = nv.1 ∧ sc.value = nv.2 ∧
      ∃ x, mkCookie e0.req e0.reply.tResp sc = .cookie x ∧ setOk e0.req x = true ∧
        HostMatch e.req x ∧ PathMatch e.req x ∧ (x.secure = true → e.req.https = true) ∧
        (∀ t, x.expires = some t → e.now < t) := by
  obtain ⟨_, x, ⟨a, e0, mid, rfl, hw0, hst, _⟩, hs, rfl⟩ := (C14c_header_iff net s0 hjar hist pre e post h nv).mp hnv
  refine ⟨e0, by simp, hw0, ?_⟩
  unfold Ev.made at hst
  cases hset : e0.reply.set with
  | none => rw [hset] at hst; exact absurd hst stores_nil
  | some scs =>
    rw [hset] at hst
    obtain ⟨hok, sc, hsc, hmk, hn, hv⟩ := stores_origin hst
    exact ⟨scs, rfl, sc, hsc, hn, hv, x, hmk, hok, sendable_sound hs⟩

/-- **C14c_isolation.**  A name/value pair that no response to this client's own earlier requests set is never sent —
    whatever the servers gave to other client instances. -/
theorem C14c_isolation (pre : List Ev) (e : Ev) (post : List Ev) (h : run net s0 0 hist = pre ++ e :: post)
    (nv : Str × Str)
    (hforeign : ∀ e0 ∈ pre, e0.who = e.who → ∀ scs, e0.reply.set = some scs → ∀ sc ∈ scs, (sc.name, sc.value) ≠ nv) :
    nv ∉ e.header := by
  intro hnv
  obtain ⟨e0, he0, hw, scs, hset, sc, hsc, hn, hv, _⟩ := C14c_origin net s0 hjar hist pre e post h nv hnv
  exact hforeign e0 he0 hw scs hset sc hsc (by rw [hn, hv])

/-- **C14c_replay.**  A cookie `x` that the response to request `e0` of a client stored (made from one of its
    `Set-Cookie` headers, accepted, last of its key in that response) is sent on **every** later request `e` of the same
    client that it matches — as long as the client keeps cookies, no response to that client in between touched its key
    (overwrote or deleted it), and it was not expired at any of the client's requests in between. -/
theorem C14c_replay (a : List Ev) (e0 : Ev) (mid : List Ev) (e : Ev) (post : List Ev)
    (h : run net s0 0 hist = a ++ e0 :: (mid ++ e :: post)) (hw : e0.who = e.who)
    (hp : (s0 e.who).persist = true) (x : Cookie) (hst : Stores e0.req e0.made x)
    (hmid : ∀ e1 ∈ mid, e1.who = e.who → x.isExpired e1.now = false ∧ ¬ Touches e1.req e1.made x.key)
    (hs : sendable e.req e.now x = true) : (x.name, x.value) ∈ e.header := by
  have h' : run net s0 0 hist = (a ++ e0 :: mid) ++ e :: post := by simpa using h
  exact (C14c_header_iff net s0 hjar hist _ e post h' _).mpr ⟨hp, x, ⟨a, e0, mid, rfl, hw, hst, hmid⟩, hs, rfl⟩

end Props

/-- **C14c_deleted.**  After a response to client `e.who` deleted key `k` (a `Set-Cookie` for it that is already expired:
    `Max-Age=0`, a negative `Max-Age`, an `Expires` in the past) and did not itself store `k` again, no cookie with key
    `k` is live for that client until a later response to it stores `k` again — so none is sent. -/
theorem C14c_deleted {i : Nat} (a : List Ev) (ed : Ev) (mid : List Ev) (k : Key) (hw : ed.who = i)
    (hdel : Made.expired k ∈ ed.made) (hnot : ∀ x, Stores ed.req ed.made x → x.key ≠ k)
    (hmid : ∀ e1 ∈ mid, e1.who = i → ∀ x, Stores e1.req e1.made x → x.key ≠ k)
    (x : Cookie) (hl : Live i (a ++ ed :: mid) x) : x.key ≠ k := by
  obtain ⟨a', e0, mid', hpre, hw0, hst, hmid'⟩ := hl
  rcases List.append_eq_append_iff.mp hpre with ⟨t, rfl, ht⟩ | ⟨t, rfl, ht⟩
  · -- a' = a ++ t
    cases t with
    | nil =>
      simp only [List.nil_append, List.cons.injEq] at ht
      obtain ⟨rfl, rfl⟩ := ht
      exact hnot x hst
    | cons t0 t' =>
      simp only [List.cons_append, List.cons.injEq] at ht
      obtain ⟨rfl, rfl⟩ := ht
      exact hmid e0 (by simp) hw0 x hst
  · -- a = a' ++ t
    cases t with
    | nil =>
      simp only [List.nil_append, List.cons.injEq] at ht
      obtain ⟨rfl, rfl⟩ := ht
      exact hnot x hst
    | cons t0 t' =>
      simp only [List.cons_append, List.cons.injEq] at ht
      obtain ⟨rfl, rfl⟩ := ht
      intro hk
      exact (hmid' ed (by simp) hw).2 (.inl (hk ▸ hdel))


/-! ### `Max-Age=0` and friends: which headers delete -/

theorem normStep_keep {now : Int} {s : Std} {a : Attr} {t : Int} (h : s.expires = some t) (ha : ∀ w, a ≠ .maxAge w) :
    (normStep now s a).expires = some t := by
  cases a with
  | domain v => simp only [normStep]; split <;> exact h
  | path v => simp only [normStep]; split <;> exact h
  | secure => exact h
  | maxAge w => exact absurd rfl (ha w)
  | expires v => simp only [normStep, h]
  | other => exact h

theorem foldl_normStep_keep {now : Int} (post : List Attr) {s : Std} {t : Int} (h : s.expires = some t)
    (hpost : ∀ a ∈ post, ∀ w, a ≠ .maxAge w) : (post.foldl (normStep now) s).expires = some t := by
  induction post generalizing s with
  | nil => exact h
  | cons a rest ih =>
    exact ih (normStep_keep h (hpost a (List.mem_cons_self ..))) (fun b hb => hpost b (List.mem_cons_of_mem _ hb))

/-- `Max-Age` beats `Expires` wherever it stands, and the last `Max-Age` counts -/
theorem normalize_lastMaxAge (now v : Int) (pre post : List Attr) (hpost : ∀ a ∈ post, ∀ w, a ≠ .maxAge w) :
    (normalize now (pre ++ .maxAge v :: post)).expires = some (now + v) := by
  unfold normalize
  rw [List.foldl_append, List.foldl_cons]
  exact foldl_normStep_keep post rfl hpost

/-- a header whose expiry is not in the future is a deletion of its key, nothing else -/
theorem mkCookie_expired {req : Req} {now t : Int} {sc : SetCookie} (h : (normalize now sc.attrs).expires = some t)
    (ht : t ≤ now) : ∃ k, mkCookie req now sc = .expired k ∧ k.name = sc.name := by
  unfold mkCookie
  simp only [h, ht, if_true]
  exact ⟨_, rfl, rfl⟩

/-- … in particular one with `Max-Age=0` or a negative `Max-Age` (the last one in the header) -/
theorem mkCookie_maxAge_nonpos (req : Req) (now v : Int) (name value : Str) (pre post : List Attr)
    (hpost : ∀ a ∈ post, ∀ w, a ≠ .maxAge w) (hv : v ≤ 0) :
    ∃ k, mkCookie req now ⟨name, value, pre ++ .maxAge v :: post⟩ = .expired k ∧ k.name = name :=
  mkCookie_expired (normalize_lastMaxAge now v pre post hpost) (by omega)

/-- … and one whose expiry is in the future is a cookie with that expiry -/
theorem mkCookie_live {req : Req} {now t : Int} {sc : SetCookie} (h : (normalize now sc.attrs).expires = some t)
    (ht : now < t) : ∃ x, mkCookie req now sc = .cookie x ∧ x.expires = some t ∧ x.name = sc.name ∧ x.value = sc.value := by
  unfold mkCookie
  simp only [h, Int.not_le.mpr ht, if_false]
  exact ⟨_, rfl, rfl, rfl, rfl⟩

/-- **C14c_maxage0_removes** (one jar): a response whose only header for key `k` is already expired leaves no cookie
    with key `k` in the jar -/
theorem C14c_maxage0_removes {jar : Jar} (hc : Cons jar) (req : Req) (now : Int) (scs : List SetCookie) (k : Key)
    (hdel : ∃ sc ∈ scs, mkCookie req now sc = .expired k)
    (honly : ∀ sc ∈ scs, ∀ x, mkCookie req now sc = .cookie x → x.key ≠ k) :
    ∀ x ∈ cookies (extract jar req now scs), x.key ≠ k := by
  intro x hx
  rcases (mem_extractMade hc req _).mp hx with ⟨ma, mb, hm, _⟩ | ⟨_, hno⟩
  · have : Made.cookie x ∈ scs.map (mkCookie req now) := by rw [hm]; simp
    obtain ⟨sc, hsc, hmk⟩ := List.mem_map.mp this
    exact honly sc hsc x hmk
  · intro hk
    obtain ⟨sc, hsc, hmk⟩ := hdel
    exact hno (.inl (by rw [hk, ← hmk]; exact List.mem_map_of_mem hsc))

/-! ### host-only cookies -/

/-- a cookie set without a `Domain` attribute by host `r0` goes to `r0`'s effective host and to its sub-domains — and to
    no other host -/
theorem hostMatch_hostOnly {r r0 : Req} {x : Cookie} (hx : x.domain = erhn r0) (hne : erhn r0 ≠ [])
    (hdot : startsWith dot (erhn r0) = false) :
    HostMatch r x ↔ erhn r = erhn r0 ∨ ∃ sub, erhn r = sub ++ '.' :: erhn r0 := by
  unfold HostMatch dotDomain
  rw [hx, hdot]
  have : (erhn r0).isEmpty = false := by cases h : erhn r0 with | nil => exact absurd h hne | cons _ _ => rfl
  simp only [this, Bool.not_false, Bool.and_self, if_true]
  constructor
  · rintro ⟨pre, h⟩
    cases pre with
    | nil => simp only [List.nil_append, List.cons.injEq, true_and] at h; exact .inl h
    | cons c pre' =>
      simp only [List.cons_append, List.cons.injEq] at h
      exact .inr ⟨pre', h.2⟩
  · rintro (h | ⟨sub, h⟩)
    · exact ⟨[], by simp [h]⟩
    · exact ⟨'.' :: sub, by simp [h]⟩

/-- the domain of a cookie made from a header without `Domain` is the effective host of the request -/
theorem mkCookie_hostOnly {req : Req} {now : Int} {sc : SetCookie} {x : Cookie} (h : mkCookie req now sc = .cookie x)
    (hd : (normalize now sc.attrs).domain = none) : x.domain = erhn req ∧ x.domainSpecified = false := by
  unfold mkCookie at h
  simp only [hd] at h
  split at h
  · cases h; exact ⟨rfl, rfl⟩
  · split at h
    · cases h
    · cases h; exact ⟨rfl, rfl⟩

/-- … and the policy always accepts it -/
theorem setOk_hostOnly {req : Req} {x : Cookie} (h : x.domainSpecified = false) : setOk req x = true := by
  simp [setOk, setOkDomain, h]

/-! ### the wire: who posts where -/

/-- the requests on the wire are the posts of the history, one each, in order, numbered from `n` -/
theorem run_posts (net : Net) (hist : List (Nat × Req)) (s : Sys) (n : Nat) :
    (run net s n hist).map (fun e => (e.who, e.req)) = hist := by
  induction hist generalizing s n with
  | nil => rfl
  | cons wr rest ih =>
    obtain ⟨who, req⟩ := wr
    simp only [run, List.map_cons, ih]
    rfl

/-- the posts a history of whole `ClientSM` operations puts on the wire, given how its abstract URLs are spelled -/
def postsOf (urlOf : ClientSM.Url → Req) (tr : List ClientSM.Ev) : List (Nat × Req) :=
  tr.map fun e => (e.who, urlOf e.req.url)

/-- **C14c_clientSM_posts.**  Lay the cookie jar of `http.cookiejar` under any history of whole operations of the client
    state machine of `ClientSM.lean` (any world, any configuration): request for request the wire shows the same client
    posting to the same URL, and the `Cookie:` header of each is characterised as in `C14c_header_iff`. -/
theorem C14c_clientSM_posts (w : ClientSM.World) (sys : ClientSM.Sys) (ops : List (Nat × ClientSM.Op))
    (urlOf : ClientSM.Url → Req) (net : Net) (s0 : Sys) (hjar : ∀ i, (s0 i).jar = []) :
    (run net s0 0 (postsOf urlOf (ClientSM.Sys.trace w sys ops))).map (fun e => (e.who, e.req)) =
        (ClientSM.Sys.trace w sys ops).map (fun e => (e.who, urlOf e.req.url)) ∧
    ∀ pre e post, run net s0 0 (postsOf urlOf (ClientSM.Sys.trace w sys ops)) = pre ++ e :: post → ∀ nv,
      (nv ∈ e.header ↔
        (s0 e.who).persist = true ∧ ∃ x, Live e.who pre x ∧ sendable e.req e.now x = true ∧ (x.name, x.value) = nv) :=
  ⟨run_posts .., fun pre e post h nv => C14c_header_iff net s0 hjar _ pre e post h nv⟩

/-! ### the default path, and the clause for plain cookies -/

theorem all_of_dropWhile_nil {p : Char → Bool} {l : List Char} (h : l.dropWhile p = []) : ∀ x ∈ l, p x = true := by
  induction l with
  | nil => intro x hx; cases hx
  | cons a l ih =>
    simp only [List.dropWhile_cons] at h
    split at h
    · rename_i ha
      intro x hx
      rcases List.mem_cons.mp hx with rfl | hx
      · exact ha
      · exact ih h x hx
    · cases h

theorem beforeLastSlash_spec {s : Str} (h : '/' ∈ s) : ∃ tail, s = beforeLastSlash s ++ '/' :: tail := by
  unfold beforeLastSlash
  have hc : s.contains '/' = true := by simpa using h
  rw [if_pos hc]
  have hr : '/' ∈ s.reverse := by simpa using h
  have hsplit := List.takeWhile_append_dropWhile (p := fun c => decide (c ≠ '/')) (l := s.reverse)
  cases hd : s.reverse.dropWhile (fun c => decide (c ≠ '/')) with
  | nil =>
    have := all_of_dropWhile_nil hd '/' hr
    simp at this
  | cons c rest =>
    have hne : s.reverse.dropWhile (fun c => decide (c ≠ '/')) ≠ [] := by rw [hd]; simp
    have hhead := List.head_dropWhile_not (fun c => decide (c ≠ '/')) hne
    simp only [hd, List.head_cons, decide_eq_false_iff_not, ne_eq, Decidable.not_not] at hhead
    subst hhead
    rw [hd] at hsplit
    refine ⟨(s.reverse.takeWhile (fun c => decide (c ≠ '/'))).reverse, ?_⟩
    have := congrArg List.reverse hsplit
    simp only [List.reverse_append, List.reverse_cons, List.reverse_reverse, List.append_assoc] at this
    exact this.symm.trans (by simp)

theorem pathReturnOk_default (r : Req) : pathReturnOk (defaultPath r) r = true := by
  have hp : ∃ rest, requestPath r = '/' :: rest := by
    unfold requestPath
    simp only
    split
    · rename_i h
      obtain ⟨rest, h⟩ := startsWith_iff.mp h
      exact ⟨rest, by simpa using h⟩
    · exact ⟨_, rfl⟩
  obtain ⟨rest0, hp0⟩ := hp
  obtain ⟨tail, ht⟩ := beforeLastSlash_spec (s := requestPath r) (by rw [hp0]; simp)
  have hpm : PathMatch r ⟨[], [], [], false, defaultPath r, false, false, none⟩ := by
    unfold PathMatch defaultPath
    simp only
    cases hb : beforeLastSlash (requestPath r) with
    | nil =>
      rw [hb] at ht
      exact ⟨tail, by simpa using ht, .inr (.inl ⟨[], rfl⟩)⟩
    | cons c cs =>
      rw [hb] at ht
      exact ⟨'/' :: tail, by simpa using ht, .inr (.inr ⟨tail, rfl⟩)⟩
  exact pathReturnOk_iff.mpr hpm


theorem mkCookie_key_name (req : Req) (now : Int) (sc : SetCookie) : (mkCookie req now sc).key.name = sc.name := by
  unfold mkCookie
  simp only
  split
  · rfl
  · split <;> rfl

/-- what a bare `name=value` header makes: a host-only session cookie for the directory of the request path -/
theorem mkCookie_plain (req : Req) (now : Int) (n v : Str) :
    mkCookie req now ⟨n, v, []⟩ = .cookie ⟨n, v, erhn req, false, defaultPath req, false, false, none⟩ := rfl

/-- … which the URL that set it gets back, whatever the scheme and the clock -/
theorem sendable_plain_same (r : Req) (now : Int) (n v : Str) (hne : erhn r ≠ []) (hdot : startsWith dot (erhn r) = false) :
    sendable r now ⟨n, v, erhn r, false, defaultPath r, false, false, none⟩ = true := by
  rw [sendable_iff hdot]
  refine ⟨?_, pathReturnOk_iff.mp (pathReturnOk_default r), by simp, by simp⟩
  refine ⟨[], ?_⟩
  have : (erhn r).isEmpty = false := by cases h : erhn r with | nil => exact absurd h hne | cons _ _ => rfl
  simp [dotDomain, hdot, this]

theorem made_name_mem {e : Ev} {m : Made} (hm : m ∈ e.made) :
    ∃ scs, e.reply.set = some scs ∧ ∃ sc ∈ scs, m.key.name = sc.name := by
  unfold Ev.made at hm
  cases hset : e.reply.set with
  | none => rw [hset] at hm; cases hm
  | some scs =>
    rw [hset] at hm
    obtain ⟨sc, hsc, rfl⟩ := List.mem_map.mp hm
    exact ⟨scs, rfl, sc, hsc, mkCookie_key_name ..⟩

section
variable (net : Net) (s0 : Sys) (hjar : ∀ i, (s0 i).jar = []) (hist : List (Nat × Req))
include hjar

/-- **C14c_replay_plain** — the clause of C14 as the property text has it, for the cookies OFX servers typically set.
    A bare `name=value` cookie in the response to a request of a client that keeps cookies is sent on **every** later
    request of the same client to the same URL, as long as no response to that client in between (nor a later header of
    the same response) carried a `Set-Cookie` of that name. -/
theorem C14c_replay_plain (a : List Ev) (e0 : Ev) (mid : List Ev) (e : Ev) (post : List Ev)
    (h : run net s0 0 hist = a ++ e0 :: (mid ++ e :: post)) (hw : e0.who = e.who)
    (hp : (s0 e.who).persist = true) (scs1 scs2 : List SetCookie) (n v : Str)
    (hset : e0.reply.set = some (scs1 ++ ⟨n, v, []⟩ :: scs2)) (hlast : ∀ sc ∈ scs2, sc.name ≠ n)
    (hmid : ∀ e1 ∈ mid, e1.who = e.who → ∀ scs, e1.reply.set = some scs → ∀ sc ∈ scs, sc.name ≠ n)
    (hreq : e.req = e0.req) (hne : erhn e0.req ≠ []) (hdot : startsWith dot (erhn e0.req) = false) :
    (n, v) ∈ e.header := by
  let x : Cookie := ⟨n, v, erhn e0.req, false, defaultPath e0.req, false, false, none⟩
  have hst : Stores e0.req e0.made x := by
    refine ⟨scs1.map (mkCookie e0.req e0.reply.tResp), scs2.map (mkCookie e0.req e0.reply.tResp), ?_, setOk_hostOnly rfl, ?_⟩
    · simp [Ev.made, hset, mkCookie_plain, x]
    · intro c' hc' _ hk
      obtain ⟨sc, hsc, hmk⟩ := List.mem_map.mp hc'
      have h1 := mkCookie_key_name e0.req e0.reply.tResp sc
      rw [hmk] at h1
      have h2 : c'.key.name = n := by rw [hk]; rfl
      exact hlast sc hsc (by rw [← h1]; exact h2)
  have := C14c_replay net s0 hjar hist a e0 mid e post h hw hp x hst ?_ (by rw [hreq]; exact sendable_plain_same _ _ _ _ hne hdot)
  · exact this
  · intro e1 he1 hw1
    refine ⟨rfl, ?_⟩
    rintro (hd | ⟨c', hc', _, hk⟩)
    · obtain ⟨scs, hs, sc, hsc, hn⟩ := made_name_mem hd
      exact hmid e1 he1 hw1 scs hs sc hsc hn.symm
    · obtain ⟨scs, hs, sc, hsc, hn⟩ := made_name_mem hc'
      refine hmid e1 he1 hw1 scs hs sc hsc ?_
      rw [← hn]
      show c'.key.name = n
      rw [hk]; rfl
end

/-! ### the guards are satisfiable: a concrete history -/

section Examples

private def rq (https : Bool) (host path : String) : Req := ⟨https, host.toList, path.toList⟩
private def ck (n v : String) (attrs : List Attr) : SetCookie := ⟨n.toList, v.toList, attrs⟩

/-- the n-th request leaves at the first time and is answered at the second with these `Set-Cookie` headers -/
def exScript : List (Int × Int × Option (List SetCookie)) :=
  [ (1000, 1000, some [ck "sid" "A" [.path "/ofx".toList, .secure, .other],
                       ck "pref" "B" [.domain "bank.example".toList, .maxAge 100], ck "t" "C" []]),
    (1001, 1001, some [ck "sid" "D" []]),
    (1010, 1010, some []), (1020, 1020, some []), (1030, 1030, some []),
    (1040, 1041, some [ck "sid" "X" [.maxAge 0, .path "/ofx".toList]]),
    (1050, 1050, some []), (1200, 1200, some []), (1201, 1201, none),
    (1202, 1202, some [ck "sid" "E" []]), (1203, 1203, some []) ]

def exNet : Net :=
  { tReq := fun n => match exScript[n]? with | some e => e.1 | none => 0,
    reply := fun n _ _ => match exScript[n]? with | some e => ⟨e.2.1, e.2.2⟩ | none => ⟨0, none⟩ }

/-- instances 0 and 1 keep cookies, instance 2 does not -/
def exSys : Sys := fun i => ⟨i != 2, []⟩

def exHist : List (Nat × Req) :=
  [ (0, rq true "bank.example" "/ofx/v1"), (1, rq true "bank.example" "/ofx/v1"),
    (0, rq true "www.bank.example" "/ofx/v1/x"), (0, rq false "bank.example" "/ofx"),
    (0, rq true "notbank.example" "/ofx"), (0, rq true "bank.example" "/ofx/v1"), (0, rq true "bank.example" "/ofx/v1"),
    (0, rq true "bank.example" "/ofx/v1"), (1, rq true "bank.example" "/other"),
    (2, rq true "bank.example" "/ofx/v1"), (2, rq true "bank.example" "/ofx/v1") ]

private def nv (n v : String) : Str × Str := (n.toList, v.toList)

/-- what goes over the wire: instance 0 gets its three cookies back on a sub-domain (host-only cookies go to
    sub-domains under the default policy), not the `Secure` one over http, none at a look-alike host; `Max-Age=0`
    removes `sid`; `pref` is gone after its 100 seconds; instance 1 never sees instance 0's cookies nor sends its own to
    a foreign path; instance 2 (`persist_cookies=False`) sends nothing although the server set a cookie for it -/
example : (run exNet exSys 0 exHist).map (fun e => (e.who, e.header)) =
    [ (0, []), (1, []),
      (0, [nv "sid" "A", nv "t" "C", nv "pref" "B"]), (0, [nv "t" "C", nv "pref" "B"]), (0, []),
      (0, [nv "sid" "A", nv "t" "C", nv "pref" "B"]), (0, [nv "t" "C", nv "pref" "B"]), (0, [nv "t" "C"]),
      (1, []), (2, []), (2, []) ] := by decide +kernel

-- `C14c_replay` / `C14c_header_iff`: a live, matching cookie exists (the third request of the history carries one)
example : ∃ pre e post, run exNet exSys 0 exHist = pre ++ e :: post ∧
    ∃ x, Live e.who pre x ∧ sendable e.req e.now x = true ∧ (x.name, x.value) = nv "sid" "A" := by
  have hne : ∃ e ∈ run exNet exSys 0 exHist, nv "sid" "A" ∈ e.header := by decide +kernel
  obtain ⟨e, he, hnv⟩ := hne
  obtain ⟨pre, post, hrun⟩ := List.append_of_mem he
  exact ⟨pre, e, post, hrun, ((C14c_header_iff exNet exSys (fun _ => rfl) exHist pre e post hrun _).mp hnv).2⟩

-- `C14c_deleted` / `C14c_maxage0_removes` / `mkCookie_maxAge_nonpos`: the sixth response deletes exactly one key
example : mkCookie (rq true "bank.example" "/ofx/v1") 1041 (ck "sid" "X" [.maxAge 0, .path "/ofx".toList]) =
    .expired ⟨"bank.example".toList, "/ofx".toList, "sid".toList⟩ := by decide +kernel

-- `sendable_iff`, `hostMatch_hostOnly`: ordinary hosts do not begin with a dot and are not empty
example : startsWith dot (erhn (rq true "bank.example" "/ofx")) = false ∧ erhn (rq true "bank.example" "/ofx") ≠ [] ∧
    erhn (rq true "localhost" "/") = "localhost.local".toList := by decide +kernel

-- `set_ok_domain`: a parent domain is accepted, a foreign or dot-less one is not
example : (["bank.example", ".bank.example", "www.bank.example", "example", "other.test", "k.example"].map fun d =>
      match mkCookie (rq true "www.bank.example" "/") 0 (ck "a" "b" [.domain d.toList]) with
      | .cookie c => setOk (rq true "www.bank.example" "/") c
      | .expired _ => false) = [true, true, true, false, false, false] := by decide +kernel

-- `escape_path`
example : escapePath "/a b/%7euser/é".toList = "/a%20b/%7Euser/%C3%A9".toList := by decide +kernel


-- `C14c_replay_plain`: the first response carries the bare cookie `t=C` last, and instance 0 posts to the same URL again
example : ∃ e ∈ run exNet exSys 0 exHist, e.n = 5 ∧ e.req = rq true "bank.example" "/ofx/v1" ∧ nv "t" "C" ∈ e.header := by
  decide +kernel

end Examples

end Ofx.CookieJar
