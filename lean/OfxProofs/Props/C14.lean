/-
C14 — the client sends only what it should, where it should, and nothing on a dry run.
Property theorems only; helper lemmas live in `OfxProofs/Lemmas/ClientSM.lean`.

Every statement is about the state machine `OfxModel/Ofx/ClientSM.lean` (tied to ofxtools/Client.py by
`harness/corr/C14.py`, which runs the real methods against an in-process fake HTTP layer) and holds for
**every** network (`World.net`: any function of the request number and the request), every profile content
(`World.adv`), every cache directory `fs`, every client state and every operation.

Partial: `http.cookiejar`'s domain / path / secure / expiry / public-suffix policy, urllib's header
normalisation and redirect handling, and the `requests` branch of `post_request` are not modelled; the
model's cookie policy is "host-only session cookies with Path=/".
-/
import OfxProofs.Lemmas.ClientSM

namespace Ofx.ClientSM
open Ofx Ofx.Cache Ofx.Spec.Client

variable (w : World) (clock who : Nat) (fs : FS) (st : ClientSt) (op : Op)

/-- **C14_dryrun.** A dry run performs no network request (whatever the kind of call, the cache and the network). -/
theorem C14_dryrun (h : op.mode = .dryrun) : (step w clock who fs st op).evs = [] := by
  unfold step
  cases hk : op.kind <;> simp [h]
  rcases requestProfile_cases w clock who fs st true with ⟨h0, _⟩ | ⟨hd, _⟩
  · exact h0
  · cases hd

/-- the Accept header the client sends admits application/x-ofx -/
theorem accept_admits : acceptAdmits acceptValue ofxMime = true := by decide

/-- **C14_shape.** Every request of every call is one POST by the calling client, with the headers of
    `http_headers` — content type `application/x-ofx`, an Accept header admitting it, the configured user agent —
    and its body is the serialised request of that call: a PROFRQ with the date held, or the call's own request
    with the configured user id and the given password. -/
theorem C14_shape (e : Ev) (he : e ∈ (step w clock who fs st op).evs) :
    e.who = who ∧ e.req.method = .POST ∧ e.req.headers = httpHeaders st.cfg ∧
      shapeOk st.cfg.effUseragent e.req = true ∧
      ((∃ h, e.req.body = profileBody h) ∨ e.req.body = mainBody st op) := by
  have hshape : ∀ (st' : ClientSt) (url : Url) (body : Body), st'.cfg = st.cfg →
      shapeOk st.cfg.effUseragent (mkReq st' url body) = true := by
    intro st' url body hc
    simp [shapeOk, mkReq, httpHeaders, hc, accept_admits]
  rcases step_origin w clock who fs st op e he with ⟨h, _, rfl, _⟩ | ⟨_, _, rfl⟩ | ⟨_, _, p, url, st', clock', _, hst, _, rfl⟩
  · refine ⟨post_who .., ?_, ?_, ?_, .inl ⟨h.map Profile.date, ?_⟩⟩ <;> simp only [profileEv, post_req]
    · rfl
    · rfl
    · exact hshape st _ _ rfl
    · rfl
  · refine ⟨post_who .., ?_, ?_, ?_, .inr ?_⟩ <;> simp only [post_req]
    · rfl
    · rfl
    · exact hshape st _ _ rfl
    · rfl
  · have hc : st'.cfg = st.cfg := by rw [hst]; exact requestProfile_cfg ..
    refine ⟨post_who .., ?_, ?_, ?_, .inr ?_⟩ <;> simp only [post_req]
    · rfl
    · simp [mkReq, hc]
    · exact hshape st' _ _ hc
    · simp [mkReq, mainBody, Cfg.effUserid, hc]

/-- **C14_profile.** A profile request goes to the configured URL and carries only the anonymous placeholder
    credentials. -/
theorem C14_profile (e : Ev) (he : e ∈ (step w clock who fs st op).evs) (hk : e.req.body.kind = .profile) :
    e.req.url = st.cfg.url ∧ e.req.body.user = authPlaceholder ∧ e.req.body.pass = authPlaceholder := by
  rcases step_origin w clock who fs st op e he with ⟨h, _, rfl, _⟩ | ⟨hk', _, rfl⟩ | ⟨hk', _, p, url, st', clock', _, _, _, rfl⟩
  · simp [profileEv, post_req, mkReq, profileBody]
  · simp [post_req, mkReq, mainBody] at hk; exact absurd hk hk'
  · simp [post_req, mkReq, mainBody] at hk; exact absurd hk hk'

/-- … and conversely the only requests that are PROFRQs are those: the placeholder pair is never replaced. -/
theorem C14_profile_creds (e : Ev) (he : e ∈ (step w clock who fs st op).evs) (hk : e.req.body.kind = .profile) :
    isPlaceholderCreds e.req.body = true := by
  obtain ⟨_, hu, hp⟩ := C14_profile w clock who fs st op e he hk
  simp [isPlaceholderCreds, hu, hp]

/-- **C14_creds.** A request that carries anything else than the placeholder pair — the user's id or password — is
    the main request of a statement / account-info / tax call, and goes

    * under `skip_profile`: to the configured URL;
    * otherwise: to the URL advertised by the profile that `request_profile` returned in this very call — every
      statement message set of that profile names this URL and no other. -/
theorem C14_creds (e : Ev) (he : e ∈ (step w clock who fs st op).evs)
    (hc : isPlaceholderCreds e.req.body = false) :
    op.kind ≠ .profile ∧ e.req.body.kind = op.kind ∧
    ((op.mode = .skipProfile ∧ e.req.url = st.cfg.url) ∨
     (op.mode = .normal ∧ ∃ p, (requestProfile w clock who fs st false).res = .ok (.prof p) ∧
        e.req.url ∈ w.adv p.body ∧ ∀ u ∈ w.adv p.body, u = e.req.url)) := by
  rcases step_origin w clock who fs st op e he with ⟨h, _, rfl, _⟩ | ⟨hk', hm, rfl⟩ | ⟨hk', hm, p, url, st', clock', hp, _, hu, rfl⟩
  · simp [profileEv, post_req, mkReq, profileBody, isPlaceholderCreds] at hc
  · exact ⟨hk', by simp [post_req, mkReq, mainBody], .inl ⟨hm, by simp [post_req, mkReq]⟩⟩
  · obtain ⟨h1, h2⟩ := serviceUrl_ok hu
    exact ⟨hk', by simp [post_req, mkReq, mainBody], .inr ⟨hm, p, hp, by simpa [post_req, mkReq] using h1,
      by simpa [post_req, mkReq] using h2⟩⟩

/-- At most two requests per call, and when there are two the first is the PROFRQ. -/
theorem C14_count : (step w clock who fs st op).evs.length ≤ 2 := by
  unfold step
  cases hk : op.kind with
  | profile =>
    simp only
    rcases requestProfile_cases w clock who fs st (decide (op.mode = .dryrun)) with ⟨h0, _⟩ | ⟨_, h, _, hevs, _⟩
    · rw [h0]; simp
    · rw [hevs]; simp
  | statements | accounts | tax =>
    simp only
    cases hm : op.mode with
    | dryrun => simp
    | skipProfile => simp [postMain]
    | normal =>
      simp only
      have hl : (requestProfile w clock who fs st false).evs.length ≤ 1 := by
        rcases requestProfile_cases w clock who fs st false with ⟨h0, _⟩ | ⟨_, h, _, hevs, _⟩
        · rw [h0]; simp
        · rw [hevs]; simp
      cases hr : (requestProfile w clock who fs st false).res with
      | error err => simp only; omega
      | ok o =>
        cases o with
        | prof p =>
          simp only
          cases hu : serviceUrl w p with
          | error err => simp only; omega
          | ok url => simp only [postMain, List.length_append, List.length_singleton]; omega
        | dryRequest => simp only; omega
        | raw b => simp only; omega

/-! ### cookies: any number of client instances, any history of whole operations -/

/-- **C14_cookies.**  Start any number of client instances with empty jars (as `__init__` creates them) over any
    cache directory, and let them perform **any history** of public calls in any order against any network.  Look
    at any request `e` on the wire and the requests `pre` before it.  Then

    1. *origin / isolation:* every cookie `e` carries was set by the response to an earlier request **of the same
       client instance** at the same host — so a cookie a server gave to one instance never shows up in a request
       of another;
    2. *replay:* if that client keeps cookies (`persist_cookies`), every cookie name that a response to one of its
       earlier requests at this host set is present in `e`.

    (The model's cookie policy: host-only session cookies with `Path=/`; see the file header.) -/
theorem C14_cookies (w : World) (s0 : Sys) (hjar : ∀ who, (s0.clients who).jar = []) (hist : List (Nat × Op))
    (pre : List Ev) (e : Ev) (post : List Ev) (h : Sys.trace w s0 hist = pre ++ e :: post) :
    (∀ nv ∈ e.req.cookies, ∃ e0 ∈ pre, e0.who = e.who ∧ e0.req.url.host = e.req.url.host ∧ nv ∈ e0.set) ∧
    ((s0.clients e.who).cfg.persistCookies = true →
      ∀ e0 ∈ pre, e0.who = e.who → e0.req.url.host = e.req.url.host →
        ∀ nv ∈ e0.set, ∃ v', (nv.1, v') ∈ e.req.cookies) := by
  have hinv : SysInv (fun who => (s0.clients who).cfg.persistCookies) s0 [] := by
    refine ⟨fun who => ⟨?_, ?_⟩, fun _ => rfl, traceOK_nil _⟩
    · intro c hc; rw [hjar who] at hc; cases hc
    · intro _ e0 he0; cases he0
  have := sys_run_inv w _ hist s0 [] hinv pre e post (by simpa using h)
  exact this

/-- Isolation, spelled out: a cookie that no response to this client's own earlier requests set is not sent. -/
theorem C14_cookies_isolation (w : World) (s0 : Sys) (hjar : ∀ who, (s0.clients who).jar = [])
    (hist : List (Nat × Op)) (pre : List Ev) (e : Ev) (post : List Ev)
    (h : Sys.trace w s0 hist = pre ++ e :: post) (nv : Nat × Nat)
    (hforeign : ∀ e0 ∈ pre, e0.who = e.who → nv ∉ e0.set) : nv ∉ e.req.cookies := by
  intro hin
  obtain ⟨e0, he0, hw, _, hs⟩ := (C14_cookies w s0 hjar hist pre e post h).1 nv hin
  exact hforeign e0 he0 hw hs

/-- The requests of a history are those of its operations, each by the client that performed it. -/
theorem C14_trace_who (w : World) (s : Sys) (hist : List (Nat × Op)) :
    ∀ r ∈ Sys.run w s hist, ∀ e ∈ r.evs, e.who = r.who := by
  induction hist generalizing s with
  | nil => simp [Sys.run]
  | cons x rest ih =>
    obtain ⟨who, op⟩ := x
    intro r hr
    simp only [Sys.run, List.mem_cons] at hr
    rcases hr with rfl | hr
    · intro e he
      exact (C14_shape w s.clock who s.fs (s.clients who) op e he).1
    · exact ih _ r hr

/-! ### the `Bool` oracles of `Spec/CacheSpec.lean` (what `spec.c14` evaluates on the real trace) hold of the model -/

/-- the URL to which this call may send the user's credentials -/
def allowedUrl : Option Url :=
  match op.mode with
  | .dryrun => none
  | .skipProfile => some st.cfg.url
  | .normal =>
    match (requestProfile w clock who fs st false).res with
    | .ok (.prof p) => match serviceUrl w p with | .ok u => some u | .error _ => none
    | _ => none

theorem C14_oracle_profile (e : Ev) (he : e ∈ (step w clock who fs st op).evs) :
    profileOk st.cfg.url e.req = true := by
  by_cases hk : e.req.body.kind = .profile
  · obtain ⟨h1, h2, h3⟩ := C14_profile w clock who fs st op e he hk
    simp [profileOk, isPlaceholderCreds, h1, h2, h3]
  · simp [profileOk, hk]

theorem C14_oracle_creds (e : Ev) (he : e ∈ (step w clock who fs st op).evs) :
    credsOk (allowedUrl w clock who fs st op) e.req = true := by
  rcases step_origin w clock who fs st op e he with ⟨h, _, rfl, _⟩ | ⟨hk', hm, rfl⟩ | ⟨hk', hm, p, url, st', clock', hp, _, hu, rfl⟩
  · simp [credsOk, profileEv, post_req, mkReq, profileBody, isPlaceholderCreds]
  · simp [credsOk, allowedUrl, hm, post_req, mkReq]
  · simp [credsOk, allowedUrl, hm, hp, hu, post_req, mkReq]

theorem mem_setBy {who : Nat} {pre : List Ev} {c : Cookie} :
    c ∈ setBy who pre ↔ ∃ e0 ∈ pre, e0.who = who ∧ e0.req.url.host = c.host ∧ (c.name, c.value) ∈ e0.set := by
  induction pre with
  | nil => simp [setBy]
  | cons e es ih =>
    simp only [setBy, List.mem_append, ih, List.mem_cons, exists_eq_or_imp]
    constructor
    · rintro (h | h)
      · left
        split at h
        · rename_i hw
          simp only [List.mem_map] at h
          obtain ⟨nv, hnv, rfl⟩ := h
          exact ⟨hw, rfl, hnv⟩
        · cases h
      · exact .inr h
    · rintro (⟨hw, hh, hs⟩ | h)
      · left
        rw [if_pos hw]
        simp only [List.mem_map]
        exact ⟨(c.name, c.value), hs, by cases c; simp_all⟩
      · exact .inr h

theorem originOk_iff (pre tr : List Ev) :
    originOk pre tr = true ↔
      ∀ a e post, tr = a ++ e :: post → ∀ nv ∈ e.req.cookies,
        (⟨e.req.url.host, nv.1, nv.2⟩ : Cookie) ∈ setBy e.who (pre ++ a) := by
  induction tr generalizing pre with
  | nil => simp [originOk]
  | cons x xs ih =>
    simp only [originOk, Bool.and_eq_true, List.all_eq_true, List.contains_iff_mem, ih]
    constructor
    · rintro ⟨h1, h2⟩ a e post heq nv hnv
      cases a with
      | nil =>
        simp at heq; obtain ⟨rfl, rfl⟩ := heq
        simpa using h1 nv hnv
      | cons y ys =>
        simp at heq; obtain ⟨rfl, rfl⟩ := heq
        simpa using h2 ys e post rfl nv hnv
    · intro h
      refine ⟨fun nv hnv => by simpa using h [] x xs rfl nv hnv, ?_⟩
      intro a e post heq nv hnv
      subst heq
      simpa using h (x :: a) e post rfl nv hnv

/-- the origin oracle the harness evaluates on the real trace is always true of the model's trace -/
theorem C14_oracle_origin (s0 : Sys) (hjar : ∀ who, (s0.clients who).jar = []) (hist : List (Nat × Op)) :
    originOk [] (Sys.trace w s0 hist) = true := by
  rw [originOk_iff]
  intro a e post heq nv hnv
  obtain ⟨e0, he0, hw, hh, hs⟩ := (C14_cookies w s0 hjar hist a e post heq).1 nv hnv
  exact mem_setBy.mpr ⟨e0, by simpa using he0, hw, hh, hs⟩

-- the guards are satisfiable: a normal statements call against a server whose profile advertises another host
-- issues the PROFRQ to the configured URL and the statement request, with the user's credentials, to the advertised one
section Example
def exWorld : World :=
  { net := fun n _ => if n = 0 then ⟨[(1, 7)], false, .profile ⟨3, 1, 0⟩⟩ else ⟨[], false, .garbage⟩,
    adv := fun _ => [⟨1, 0⟩, ⟨1, 0⟩] }
def exClient : ClientSt := ⟨⟨⟨0, 0⟩, some "alice".toList, none, none, none, true⟩, []⟩
-- two instances talking to the same host: each gets back only its own cookie
def exSys : Sys := ⟨fun _ => exClient, FS.empty, 0⟩
def exCookieWorld : World :=
  { net := fun n _ => ⟨[(1, 100 + n)], false, .garbage⟩, adv := fun _ => [] }
example : ((Sys.trace exCookieWorld exSys
      [(0, ⟨.tax, .skipProfile, []⟩), (1, ⟨.tax, .skipProfile, []⟩), (0, ⟨.tax, .skipProfile, []⟩),
       (1, ⟨.tax, .skipProfile, []⟩)]).map fun e => (e.who, e.req.cookies, e.set)) =
    [(0, [], [(1, 100)]), (1, [], [(1, 101)]), (0, [(1, 100)], [(1, 102)]), (1, [(1, 101)], [(1, 103)])] := by
  decide
example : ((step exWorld 0 0 FS.empty exClient ⟨.statements, .normal, "pw".toList⟩).evs.map
      fun e => (e.req.url, e.req.body.kind, decide (e.req.body.user = authPlaceholder), e.req.cookies)) =
    [((⟨0, 0⟩ : Url), Kind.profile, true, []), (⟨1, 0⟩, Kind.statements, false, [])] := by decide
end Example

end Ofx.ClientSM
