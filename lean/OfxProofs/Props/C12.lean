/-
C12 — headers round-trip for every supported version; invalid headers are refused.
-/
import OfxProofs.Props.C05

namespace Ofx.Header
open Ofx Ofx.Codec Ofx.Spec.HeaderLayout

theorem bind_ok {α β : Type} (x : PyM α) (f : α → PyM β) (b : β) :
    (x >>= f) = .ok b ↔ ∃ a, x = .ok a ∧ f a = .ok b := by
  cases x with
  | error e => simp [bind, Except.bind]
  | ok a => simp [bind, Except.bind]

theorem wrap_ok {α : Type} (x : PyM α) (a : α) : wrapValueError x = .ok a ↔ x = .ok a := by
  cases x with
  | error e => cases e <;> simp [wrapValueError]
  | ok b => simp [wrapValueError]

theorem oneOfStr_ok (valid : List Str) (s v : Str) (h : oneOfStr valid s = .ok v) : s ∈ valid ∧ v = s := by
  unfold oneOfStr at h
  split at h
  · rename_i hm; cases h; exact ⟨hm, rfl⟩
  · cases h

theorem oneOfInt_ok (valid : List Str) (i v : Int) (h : oneOfInt valid i = .ok v) : pyStrInt i ∈ valid ∧ v = i := by
  unfold oneOfInt at h
  split at h
  · rename_i hm; cases h; exact ⟨hm, rfl⟩
  · cases h

theorem integerConv_ok (len : Option Nat) (i v : Int) (h : integerConv len i = .ok v) :
    v = i ∧ ∀ n, len = some n → i < (10 : Int) ^ n := by
  unfold integerConv at h
  split at h
  · split at h
    · cases h
    · rename_i n hn; cases h; exact ⟨rfl, fun m hm => by cases hm; omega⟩
  · cases h; exact ⟨rfl, fun m hm => by cases hm⟩

theorem stringConv_ok (len : Option Nat) (s v : Str) (h : stringConv len s = .ok v) :
    v = unescape s ∧ ∀ n, len = some n → v.length ≤ n := by
  unfold stringConv at h
  simp only at h
  split at h
  · split at h
    · cases h
    · rename_i n hn; cases h; exact ⟨rfl, fun m hm => by cases hm; omega⟩
  · cases h; exact ⟨rfl, fun m hm => by cases hm⟩

/-- whatever `OFXHeaderV1(...)` returns has every field inside its domain -/
theorem ctorV1_sound (p : V1P) (v oh : Arg) (d s e c cm o n : Option Str) (h : V1)
    (hk : ctorV1 p v oh d s e c cm o n = .ok h) :
    pyStrInt h.ofxheader ∈ p.ofxheader ∧ h.data ∈ p.data ∧ (∀ k, p.versionLen = some k → h.version < (10 : Int) ^ k) ∧
    h.security ∈ p.security ∧ h.encoding ∈ p.encoding ∧ h.charset ∈ p.charset ∧ h.compression ∈ p.compression ∧
    (∀ k, p.oldLen = some k → h.oldfileuid.length ≤ k) ∧ (∀ k, p.newLen = some k → h.newfileuid.length ≤ k) ∧
    h.data = orStr d "OFXSGML".toList ∧ h.security = orStr s "NONE".toList ∧ h.encoding = orStr e "USASCII".toList ∧
    h.charset = orStr c "NONE".toList ∧ h.compression = orStr cm "NONE".toList := by
  unfold ctorV1 at hk
  rw [wrap_ok] at hk
  simp only [bind_ok] at hk
  obtain ⟨a1, h1, a2, h2, a3, h3, a4, h4, a5, h5, a6, h6, a7, h7, a8, h8, a9, h9, a10, h10, a11, h11, hr⟩ := hk
  cases hr
  obtain ⟨m2, e2⟩ := oneOfInt_ok _ _ _ h2
  obtain ⟨m3, e3⟩ := oneOfStr_ok _ _ _ h3
  obtain ⟨e5, m5⟩ := integerConv_ok _ _ _ h5
  obtain ⟨m6, e6⟩ := oneOfStr_ok _ _ _ h6
  obtain ⟨m7, e7⟩ := oneOfStr_ok _ _ _ h7
  obtain ⟨m8, e8⟩ := oneOfStr_ok _ _ _ h8
  obtain ⟨m9, e9⟩ := oneOfStr_ok _ _ _ h9
  obtain ⟨e10, m10⟩ := stringConv_ok _ _ _ h10
  obtain ⟨e11, m11⟩ := stringConv_ok _ _ _ h11
  subst e2 e3 e5 e6 e7 e8 e9
  exact ⟨m2, m3, m5, m6, m7, m8, m9, m10, m11, rfl, rfl, rfl, rfl, rfl⟩

/-- whatever `OFXHeaderV2(...)` returns has every field inside its domain -/
theorem ctorV2_sound (p : V2P) (v oh : Arg) (s o n : Option Str) (h : V2)
    (hk : ctorV2 p v oh s o n = .ok h) :
    pyStrInt h.version ∈ p.version ∧ pyStrInt h.ofxheader ∈ p.ofxheader ∧ h.security ∈ p.security ∧
    (∀ k, p.oldLen = some k → h.oldfileuid.length ≤ k) ∧ (∀ k, p.newLen = some k → h.newfileuid.length ≤ k) ∧
    h.security = orStr s "NONE".toList := by
  unfold ctorV2 at hk
  rw [wrap_ok] at hk
  simp only [bind_ok] at hk
  obtain ⟨a1, h1, a2, h2, a3, h3, a4, h4, a5, h5, a6, h6, a7, h7, hr⟩ := hk
  cases hr
  obtain ⟨m2, e2⟩ := oneOfInt_ok _ _ _ h2
  obtain ⟨m4, e4⟩ := oneOfInt_ok _ _ _ h4
  obtain ⟨m5, e5⟩ := oneOfStr_ok _ _ _ h5
  obtain ⟨e6, m6⟩ := stringConv_ok _ _ _ h6
  obtain ⟨e7, m7⟩ := stringConv_ok _ _ _ h7
  subst e2 e4 e5
  exact ⟨m2, m4, m5, m6, m7, rfl⟩

/-- **C12_refuse_ctor** (v1): a header object comes back only if every field — after the constructor's own
    defaulting — lies in its domain; so any field outside its domain yields no header object -/
theorem C12_refuse_ctor_v1 (p : V1P) (v oh : Arg) (d s e c cm o n : Option Str)
    (hbad : orStr d "OFXSGML".toList ∉ p.data ∨ orStr s "NONE".toList ∉ p.security ∨
      orStr e "USASCII".toList ∉ p.encoding ∨ orStr c "NONE".toList ∉ p.charset ∨
      orStr cm "NONE".toList ∉ p.compression) :
    ∀ h, ctorV1 p v oh d s e c cm o n ≠ .ok h := by
  intro h hk
  obtain ⟨_, m2, _, m4, m5, m6, m7, _, _, e2, e4, e5, e6, e7⟩ := ctorV1_sound p v oh d s e c cm o n h hk
  rw [e2] at m2; rw [e4] at m4; rw [e5] at m5; rw [e6] at m6; rw [e7] at m7
  rcases hbad with hb | hb | hb | hb | hb
  · exact hb m2
  · exact hb m4
  · exact hb m5
  · exact hb m6
  · exact hb m7

/-- **C12_refuse_ctor** (v2) -/
theorem C12_refuse_ctor_v2 (p : V2P) (v oh : Arg) (s o n : Option Str)
    (hbad : orStr s "NONE".toList ∉ p.security) : ∀ h, ctorV2 p v oh s o n ≠ .ok h := by
  intro h hk
  obtain ⟨_, _, m3, _, _, e3⟩ := ctorV2_sound p v oh s o n h hk
  rw [e3] at m3
  exact hbad m3

/-- **C12_refuse_text**: a v1 header object returned for a text has every field inside its domain (numeric
    OFXHEADER/VERSION within the validator's bounds, tokens in their lists, UIDs within length) — a text with a
    field outside its domain is never turned into a header object -/
theorem C12_refuse_text_v1 (p : V1P) (raw : Str) (h : V1) (e : Nat) (hk : parseV1 p raw = .ok (h, e)) :
    pyStrInt h.ofxheader ∈ p.ofxheader ∧ h.data ∈ p.data ∧ (∀ k, p.versionLen = some k → h.version < (10 : Int) ^ k) ∧
    h.security ∈ p.security ∧ h.encoding ∈ p.encoding ∧ h.charset ∈ p.charset ∧ h.compression ∈ p.compression ∧
    (∀ k, p.oldLen = some k → h.oldfileuid.length ≤ k) ∧ (∀ k, p.newLen = some k → h.newfileuid.length ≤ k) := by
  unfold parseV1 at hk
  split at hk
  · simp only [bind_ok] at hk
    obtain ⟨a, ha, hr⟩ := hk
    cases hr
    obtain ⟨m1, m2, m3, m4, m5, m6, m7, m8, m9, _⟩ := ctorV1_sound _ _ _ _ _ _ _ _ _ _ _ ha
    exact ⟨m1, m2, m3, m4, m5, m6, m7, m8, m9⟩
  · cases hk

theorem C12_refuse_text_v2 (p : V2P) (raw : Str) (h : V2) (e : Nat) (hk : parseV2 p raw = .ok (h, e)) :
    pyStrInt h.version ∈ p.version ∧ pyStrInt h.ofxheader ∈ p.ofxheader ∧ h.security ∈ p.security ∧
    (∀ k, p.oldLen = some k → h.oldfileuid.length ≤ k) ∧ (∀ k, p.newLen = some k → h.newfileuid.length ≤ k) := by
  unfold parseV2 at hk
  split at hk
  · simp only [bind_ok] at hk
    obtain ⟨a, ha, hr⟩ := hk
    cases hr
    obtain ⟨m1, m2, m3, m4, m5, _⟩ := ctorV2_sound _ _ _ _ _ _ _ ha
    exact ⟨m1, m2, m3, m4, m5⟩
  · cases hk

/-- a text in which the pattern does not match (a mandatory field missing, fields transposed, a value outside
    the field's character class) is refused with the header error -/
theorem C12_refuse_text_nomatch_v1 (p : V1P) (raw : Str) (h : reSearch v1Regex raw = none) :
    parseV1 p raw = .error .header := by
  unfold parseV1; rw [h]; rfl

theorem C12_refuse_text_nomatch_v2 (p : V2P) (raw : Str) (h : reSearch v2Regex raw = none) :
    parseV2 p raw = .error .header := by
  unfold parseV2; rw [h]; rfl

/-- **C12_version**: a version that is not numeric, or neither 1xx nor 2xx, is refused with the header error -/
theorem C12_version_nonnumeric (p1 : V1P) (p2 : V2P) (v : Arg) (s o n : Option Str)
    (h : toInt v = .error .value) : makeHeader p1 p2 v s o n = .error .header := by
  simp [makeHeader, h, bind, Except.bind, throw, throwThe, MonadExceptOf.throw]

theorem C12_version (p1 : V1P) (p2 : V2P) (v : Arg) (i : Int) (s o n : Option Str)
    (h : toInt v = .ok i) (h1 : i / 100 ≠ 1) (h2 : i / 100 ≠ 2) :
    makeHeader p1 p2 v s o n = .error .header := by
  simp [makeHeader, h, bind, Except.bind, h1, h2, throw, throwThe, MonadExceptOf.throw]

/-- the guard of `C12_version` is satisfiable -/
example : toInt (.str "300".toList) = .ok 300 ∧ (300 : Int) / 100 ≠ 1 ∧ (300 : Int) / 100 ≠ 2 :=
  ⟨rfl, by decide, by decide⟩

/-! ### round trip -/

/-- the layout `OFXHeaderV1.__str__` writes: CRLF after every field, a blank line before the body -/
def strLayV1 : V1Lay :=
  { leading := [], indent := [], ofxheader := {}, data := {}, version := {}, security := {}, encoding := {},
    charset := {}, compression := {}, oldfileuid := {}, newBlank := [], gap := "\r\n\r\n".toList }

theorem strV1_eq (h : V1) : strV1 h = v1Text strLayV1 { h := h, withCompression := true } := by
  simp [strV1, join, crlf, v1Text, v1Fields, fieldText, leadingText, strLayV1, Sep.str]

/-- the layout `OFXHeaderV2.__str__` writes -/
def strLayV2 : V2Lay :=
  { leading := [], xmlVersion := some .dq, xmlEncoding := some .dq, xmlStandalone := some .dq,
    xs1 := [' '], xs2 := [' '], xs3 := [' '], xs4 := [], afterXml := "\r\n".toList,
    s0 := [' '], s1 := [' '], s2 := [' '], s3 := [' '], s4 := [' '],
    q0 := .dq, q1 := .dq, q2 := .dq, q3 := .dq, q4 := .dq, beforeClose := [], gap := "\r\n".toList }

theorem xmlDecl_eq : xmlDecl = v2Xml strLayV2 := by decide

theorem strV2_eq (h : V2) : strV2 h = v2Text strLayV2 h := by
  rw [strV2, xmlDecl_eq]
  simp [attr, join, crlf, v2Text, v2Ofx, qattr, leadingText, strLayV2, Quote.ch,
    show "<?OFX ".toList = "<?OFX".toList ++ [' '] by decide, show "=\"".toList = ['=', '"'] by decide,
    show "\"".toList = ['"'] by decide, show " ".toList = [' '] by decide]

/-- **C12_roundtrip** (v1): the text of every valid v1 header object, followed by a body encoded in the declared
    character set, parses back to that header and that body -/
theorem C12_roundtrip_v1 (p1 : V1P) (p2 : V2P) (tbl : List (Option Nat)) (h : V1) (body : Str) (bb : Bytes)
    (cs : Name) (hv : ValidV1 p1 h) (hcodec : codecV1 p1 h = .ok cs) (henc : encode tbl cs body = .ok bb)
    (hb0 : body.head? = some '<') (hb1 : body.getLast? = some '>') :
    parseHeader p1 p2 tbl (asciiBytes (strV1 h) ++ bb) = .ok (.v1 h, body) := by
  rw [strV1_eq]
  exact parse_v1 p1 p2 tbl strLayV1 _ body bb cs hv (by intro h; cases h) hcodec henc hb0 hb1 (by decide)

/-- **C12_roundtrip** (v2) -/
theorem C12_roundtrip_v2 (p1 : V1P) (p2 : V2P) (tbl : List (Option Nat)) (h : V2) (body : Str) (bb : Bytes)
    (hv : ValidV2 p2 h) (henc : encode tbl .utf8 body = .ok bb)
    (hb0 : body.head? = some '<') (hb1 : body.getLast? = some '>') :
    parseHeader p1 p2 tbl (asciiBytes (strV2 h) ++ bb) = .ok (.v2 h, body) := by
  rw [strV2_eq]
  exact parse_v2 p1 p2 tbl strLayV2 h body bb hv henc hb0 hb1 (by decide)

/-- the kind matches the version: 1xx gives a flat-text header object, 2xx an XML one (or the header error) -/
theorem C12_kind (p1 : V1P) (p2 : V2P) (v : Arg) (i : Int) (s o n : Option Str) (hd : Hdr)
    (hi : toInt v = .ok i) (hk : makeHeader p1 p2 v s o n = .ok hd) :
    (i / 100 = 1 ∧ ∃ h, hd = .v1 h) ∨ (i / 100 = 2 ∧ ∃ h, hd = .v2 h) := by
  simp only [makeHeader, hi, bind, Except.bind] at hk
  by_cases h1 : i / 100 = 1
  · simp only [h1, if_true] at hk
    cases hc : ctorV1 p1 v .none none s none none none o n with
    | error e => rw [hc] at hk; cases hk
    | ok h => rw [hc] at hk; cases hk; exact Or.inl ⟨h1, h, rfl⟩
  · simp only [h1, if_false] at hk
    by_cases h2 : i / 100 = 2
    · simp only [h2, if_true] at hk
      cases hc : ctorV2 p2 v .none s o n with
      | error e => rw [hc] at hk; cases hk
      | ok h => rw [hc] at hk; cases hk; exact Or.inr ⟨h2, h, rfl⟩
    · simp only [h2, if_false] at hk
      cases hk


/-! ### what a match consumed: the mandatory literals occur, in pattern order -/

/-- the strings occur in `s` one after the other (not necessarily adjacent) -/
def occ : List Str → Str → Prop
  | [], _ => True
  | l :: ls, s => ∃ a b, s = a ++ (l ++ b) ∧ occ ls b

theorem occ_weaken (ls : List Str) (c s : Str) (h : occ ls s) : occ ls (c ++ s) := by
  cases ls with
  | nil => trivial
  | cons l ls =>
    obtain ⟨a, b, hs, hb⟩ := h
    exact ⟨c ++ a, b, by rw [hs]; simp, hb⟩

theorem tryDown_some (f : Nat → Option α) (n : Nat) (r : α) (h : tryDown f n = some r) : ∃ m, f m = some r := by
  induction n with
  | zero => simp [tryDown] at h
  | succ n ih =>
    rw [tryDown] at h
    split at h
    · rename_i r' hr; cases h; exact ⟨_, hr⟩
    · exact ih h

/-- every item consumes a prefix and hands the rest to its continuation; a literal consumes itself -/
theorem stepItem_sound (i : Item) (k : St → Str → Option Res) (st : St) (s : Str) (r : Res)
    (h : stepItem i k st s = some r) :
    ∃ c s' st', s = c ++ s' ∧ k st' s' = some r ∧ ∀ l, i = .lit l → c = l := by
  cases i with
  | lit l =>
    simp only [stepItem] at h
    split at h
    · rename_i hp
      obtain ⟨t, ht⟩ := List.isPrefixOf_iff_prefix.1 hp
      refine ⟨l, s.drop l.length, st, ?_, h, fun l' e => by cases e; rfl⟩
      rw [← ht]; simp
    · cases h
  | ws0 => exact ⟨s.takeWhile isSpace, s.dropWhile isSpace, st, by simp, h, fun l e => by cases e⟩
  | ws1 =>
    cases s with
    | nil => simp [stepItem] at h
    | cons c cs =>
      simp only [stepItem] at h
      split at h
      · exact ⟨c :: cs.takeWhile isSpace, cs.dropWhile isSpace, st, by simp, h, fun l e => by cases e⟩
      · cases h
  | cap p =>
    simp only [stepItem] at h
    obtain ⟨m, hm⟩ := tryDown_some _ _ _ h
    exact ⟨s.take m, s.drop m, _, by simp, hm, fun l e => by cases e⟩
  | openq =>
    cases s with
    | nil => simp [stepItem] at h
    | cons c cs =>
      simp only [stepItem] at h
      split at h
      · exact ⟨[c], cs, _, rfl, h, fun l e => by cases e⟩
      · cases h
  | closeq =>
    cases s with
    | nil => simp [stepItem] at h
    | cons c cs =>
      simp only [stepItem] at h
      split at h
      · exact ⟨[c], cs, _, rfl, h, fun l e => by cases e⟩
      · cases h

theorem matchItems_sound (is : List Item) (k : St → Str → Option Res) (st : St) (s : Str) (r : Res)
    (h : matchItems is k st s = some r) : ∃ c s' st', s = c ++ s' ∧ k st' s' = some r := by
  induction is generalizing st s with
  | nil => exact ⟨[], s, st, rfl, h⟩
  | cons i is ih =>
    obtain ⟨c, s', st', hs, hk, _⟩ := stepItem_sound i (matchItems is k) st s r h
    obtain ⟨c2, s2, st2, hs2, hk2⟩ := ih st' s' hk
    exact ⟨c ++ c2, s2, st2, by rw [hs, hs2]; simp, hk2⟩

/-- the mandatory literals of a pattern, in order -/
def litsOf : List Seg → List Str
  | [] => []
  | .item (.lit l) :: segs => l :: litsOf segs
  | _ :: segs => litsOf segs

theorem matchSegs_sound (segs : List Seg) (st : St) (s : Str) (r : Res) (h : matchSegs segs st s = some r) :
    occ (litsOf segs) s := by
  induction segs generalizing st s r with
  | nil => trivial
  | cons sg segs ih =>
    cases sg with
    | item i =>
      rw [matchSegs_item] at h
      obtain ⟨c, s', st', hs, hk, hl⟩ := stepItem_sound i (matchSegs segs) st s r h
      have := ih st' s' r hk
      cases i with
      | lit l =>
        have hc := hl l rfl
        subst hc
        exact ⟨[], s', by rw [hs]; rfl, this⟩
      | ws0 => rw [hs]; exact occ_weaken _ _ _ this
      | ws1 => rw [hs]; exact occ_weaken _ _ _ this
      | cap p => rw [hs]; exact occ_weaken _ _ _ this
      | openq => rw [hs]; exact occ_weaken _ _ _ this
      | closeq => rw [hs]; exact occ_weaken _ _ _ this
    | opt is =>
      rw [matchSegs_opt] at h
      show occ (litsOf segs) s
      cases hm : matchItems is (matchSegs segs) st s with
      | some r' =>
        obtain ⟨c, s', st', hs, hk⟩ := matchItems_sound is (matchSegs segs) st s r' hm
        rw [hs]; exact occ_weaken _ _ _ (ih st' s' r' hk)
      | none =>
        rw [hm] at h
        exact ih _ s r h

theorem reSearch_sound (segs : List Seg) (s : Str) (r : Res) (h : reSearch segs s = some r) :
    occ (litsOf segs) s := by
  induction s with
  | nil => exact matchSegs_sound segs {} [] r (by simpa [reSearch, reMatch] using h)
  | cons c cs ih =>
    rw [reSearch] at h
    split at h
    · rename_i r' hr; exact matchSegs_sound segs {} _ r' hr
    · exact occ_weaken _ [c] cs (ih h)

/-- the eight mandatory field names of a v1 header, each with its colon -/
def v1Lits : List Str :=
  ["OFXHEADER:".toList, "DATA:".toList, "VERSION:".toList, "SECURITY:".toList, "ENCODING:".toList,
   "CHARSET:".toList, "OLDFILEUID:".toList, "NEWFILEUID:".toList]

def v2Lits : List Str :=
  ["<?OFX".toList, "OFXHEADER=".toList, "VERSION=".toList, "SECURITY=".toList, "OLDFILEUID=".toList,
   "NEWFILEUID=".toList, "?>".toList]

theorem litsOf_v1 : litsOf v1Regex = v1Lits := by rfl
theorem litsOf_v2 : litsOf v2Regex = v2Lits := by rfl

/-- **C12_refuse_text** (omission / transposition, v1): unless the eight mandatory `NAME:` markers occur in the
    text in the prescribed order, the text is refused with the header error.  (The side condition is the
    hypothesis itself: a text with a field missing or two fields transposed fails it as long as the missing /
    displaced marker does not occur again later in the scanned lines, e.g. inside the body.) -/
theorem C12_refuse_text_order_v1 (p : V1P) (raw : Str) (h : ¬ occ v1Lits raw) : parseV1 p raw = .error .header := by
  apply C12_refuse_text_nomatch_v1
  cases hs : reSearch v1Regex raw with
  | none => rfl
  | some r => exact absurd (litsOf_v1 ▸ reSearch_sound v1Regex raw r hs) h

theorem C12_refuse_text_order_v2 (p : V2P) (raw : Str) (h : ¬ occ v2Lits raw) : parseV2 p raw = .error .header := by
  apply C12_refuse_text_nomatch_v2
  cases hs : reSearch v2Regex raw with
  | none => rfl
  | some r => exact absurd (litsOf_v2 ▸ reSearch_sound v2Regex raw r hs) h

theorem occ_mem_infix (ls : List Str) (s : Str) (h : occ ls s) : ∀ l ∈ ls, ∃ a b, s = a ++ (l ++ b) := by
  induction ls generalizing s with
  | nil => intro l hl; cases hl
  | cons l0 ls ih =>
    obtain ⟨a, b, hs, hb⟩ := h
    intro l hl
    rcases List.mem_cons.1 hl with e | e
    · subst e; exact ⟨a, b, hs⟩
    · obtain ⟨a2, b2, h2⟩ := ih b hb l e
      exact ⟨a ++ (l0 ++ a2), b2, by rw [hs, h2]; simp⟩

/-- omission of a mandatory field: if some `NAME:` marker occurs nowhere in the text, the header error -/
theorem C12_refuse_text_omit_v1 (p : V1P) (raw l : Str) (hl : l ∈ v1Lits) (h : ¬ ∃ a b, raw = a ++ (l ++ b)) :
    parseV1 p raw = .error .header :=
  C12_refuse_text_order_v1 p raw (fun ho => h (occ_mem_infix _ _ ho l hl))

theorem C12_refuse_text_omit_v2 (p : V2P) (raw l : Str) (hl : l ∈ v2Lits) (h : ¬ ∃ a b, raw = a ++ (l ++ b)) :
    parseV2 p raw = .error .header :=
  C12_refuse_text_order_v2 p raw (fun ho => h (occ_mem_infix _ _ ho l hl))


/-- the guard of `C12_refuse_text_omit_v1` is satisfiable: a header text with the DATA field left out -/
example : ¬ ∃ a b, "OFXHEADER:100VERSION:102SECURITY:NONE<OFX>".toList = a ++ ("DATA:".toList ++ b) := by
  intro ⟨a, b, h⟩
  have : "DATA:".toList <:+: "OFXHEADER:100VERSION:102SECURITY:NONE<OFX>".toList := ⟨a, b, by rw [h]; simp⟩
  revert this
  decide +kernel

/-! ### the pinned tree accepts v1 versions that are not 1xx -/

/-- the statement the property asks for: a v1 header object always carries a 1xx version -/
def C12_refuse_text_full : Prop :=
  ∀ (raw : Str) (h : V1) (e : Nat), parseV1 pinnedV1P raw = .ok (h, e) → 100 ≤ h.version ∧ h.version ≤ 199

theorem C12_refuse_text_full_false : ¬ C12_refuse_text_full := by
  intro hf
  have hw : (match parseV1 pinnedV1P (strV1 { wHdr with version := 220 }) with
      | .ok (h, _) => h.version == 220
      | .error _ => false) = true := by decide +kernel
  cases hp : parseV1 pinnedV1P (strV1 { wHdr with version := 220 }) with
  | error e => rw [hp] at hw; cases hw
  | ok r =>
    obtain ⟨h, e⟩ := r
    rw [hp] at hw
    have := hf _ h e hp
    simp only [beq_iff_eq] at hw
    omega

end Ofx.Header
