/-
C01 — the whole-file theorem: `readFile (writeFile …) = (header, instance)`.
Composition of the body-level theorem (Props/C01Wire.lean) with the header layer
(make_header yields a valid object; parse_header returns exactly the body, also when the pretty-printed
body ends in white space; utf-8 encoding is total and splits).
-/
import OfxProofs.Props.C01Wire
import OfxProofs.Lemmas.HeaderPipeline
namespace Ofx.Pipeline
open Ofx Ofx.Agg Ofx.Spec.Wire Ofx.Serialize Ofx.Header Ofx.Codec

theorem rendering_agg_ends (tag : Str) (tl : Option Str) (cs : List Tree) (r : Str)
    (h : Rendering (.node tag none tl cs) r) : r.head? = some '<' ∧ r.getLast? = some '>' := by
  cases h with
  | agg t cs w s h1 h2 h3 =>
    refine ⟨rfl, ?_⟩
    have : Spec.Wire.startTag tag ++ (w ++ (s ++ Spec.Wire.endTag tag)) =
        (Spec.Wire.startTag tag ++ (w ++ (s ++ '<' :: '/' :: tag))) ++ ['>'] := by
      simp [Spec.Wire.startTag, Spec.Wire.endTag]
    rw [this, List.getLast?_append]; simp

section
variable (E : Env) (Dom : Kind → Bool → Val → Prop)

/-- the body read-back step shared by both header kinds -/
theorem readFile_of_header (file : Bytes) (hdr : Hdr) (body : Str) (i : Node)
    (hp : parseHeader E.p1 E.p2 E.cp1252 file = .ok (hdr, body))
    (hb : readBody E.S E.cv body = .ok i) : readFile E file = .ok (hdr, i) := by
  unfold readBody at hb
  simp only [readFile, hp, bind, Except.bind]
  cases hpar : Builder.parse body with
  | error e => simp [hpar, bind, Except.bind] at hb
  | ok r =>
    simp only [hpar, bind, Except.bind] at hb
    cases r with
    | none => simp at hb
    | some t => simp only at hb ⊢; simp [hb, bind, Except.bind, pure, Except.pure]

/-- **C01, whole file, closed forms**: `OFXClient.serialize` (header + `ET.tostring(method="html")` body, plain
    or pretty, utf-8) followed by `OFXTree.parse` + `convert` returns the header written and the instance —
    for every supported version (`makeHeader` succeeded), every valid instance of plain aggregates. -/
theorem C01_file_roundtrip_closed (laws : ConvLaws E.cv E.S.enums escapeCdata Dom)
    (htext : TextOk E.S E.cv Dom)
    (htag : ∀ ci c, E.S.cls? ci = some c → c.abstract = false → TagWF E.htmlEmpty c)
    (wf1 : WFV1 E.p1) (wf2 : WFV2 E.p2) (v : Nat) (old new : Option Str)
    (ho1 : UidOk E.p1.oldLen old) (hn1 : UidOk E.p1.newLen new)
    (ho2 : UidOk E.p2.oldLen old) (hn2 : UidOk E.p2.newLen new)
    (pretty : Bool) (i : Node) (hv : Valid E.S E.cv escapeCdata Dom i) (hdr : Hdr)
    (hmk : makeHeader E.p1 E.p2 (.int v) none old new = .ok hdr) :
    ∃ file, writeFile E v old new pretty true i = .ok file ∧ readFile E file = .ok (hdr, i) := by
  obtain ⟨t, ht, hback⟩ := C01_agg_roundtrip_partial E.S E.cv escapeCdata Dom laws i hv
  obtain ⟨hw, hs, hg⟩ := written_wire E.S E.cv escapeCdata Dom E.htmlEmpty laws htext htag i hv t ht
  -- the body and its decomposition  core ++ trailing whitespace
  have hdoc : RenderingDoc (escapeTree t) (serializeBody E.htmlEmpty true pretty t) := by
    cases pretty with
    | false => exact SER_html_renders E.htmlEmpty t hw hs
    | true => exact SER_html_pretty_renders E.htmlEmpty t hw hs
  obtain ⟨r, w, hr, hws, hbody⟩ := hdoc
  have hg' : g3Ok (escapeTree t) = true := (g3Ok_escapeTree_both.1 t).trans hg
  -- shape of the written tree: an aggregate
  have hshape : ∃ tag tl cs, escapeTree t = .node tag none tl cs := by
    cases i with
    | val x => simp [Valid] at hv
    | agg ci f its =>
      obtain ⟨⟨c, ok⟩, _, _⟩ := hv
      obtain ⟨_, htx⟩ := toEtree_shape E.S E.cv ci f its c t ok.hc ht
      cases t with
      | node tg x tl cs =>
        simp only [Tree.text] at htx; subst htx
        exact ⟨tg, tl, escapeTreeList cs, by simp [escapeTree]⟩
  obtain ⟨tag, tl, cs, hesc⟩ := hshape
  rw [hesc] at hr
  obtain ⟨hr0, hr1⟩ := rendering_agg_ends tag tl cs r hr
  rw [← hesc] at hr
  obtain ⟨bb, hbb⟩ := encode_utf8_total E.cp1252 (r ++ w)
  have hread : readBody E.S E.cv r = .ok i ∧ readBody E.S E.cv (r ++ w) = .ok i := by
    have h1 := C02.C02_complete_partial _ _ (rendering_renders_strict hr hg')
    have h2 := C02.C02_complete_doc _ _ (renderingDoc_rendersDoc_strict ⟨r, w, hr, hws, rfl⟩ hg')
    simp only [readBody, h1, h2, bind, Except.bind]
    rw [escapeTree_eq_mapText]
    exact ⟨hback, hback⟩
  cases hdr with
  | v1 h =>
    obtain ⟨hval, hcodec, _⟩ := makeHeader_v1_valid E.p1 E.p2 wf1 v none old new h trivial ho1 hn1 hmk
    have henc : encode E.cp1252 .utf8 (strV1 h ++ (r ++ w)) = .ok (asciiBytes (strV1 h) ++ bb) :=
      encode_append _ _ _ _ _ _ (encode_utf8_ascii _ _ (strV1_ascii E.p1 h hval)) hbb
    refine ⟨asciiBytes (strV1 h) ++ bb, ?_, ?_⟩
    · simp [writeFile, hmk, ht, Serialize.serialize, strHdr, hbody, henc, bind, Except.bind]
    · exact readFile_of_header E _ _ r i
        (C12_roundtrip_v1_ws E.p1 E.p2 E.cp1252 h r w bb .utf8 hval hcodec hbb hr0 hr1 hws) hread.1
  | v2 h =>
    obtain ⟨hval, _⟩ := makeHeader_v2_valid E.p1 E.p2 wf2 v none old new h trivial ho2 hn2 hmk
    have henc : encode E.cp1252 .utf8 (strV2 h ++ (r ++ w)) = .ok (asciiBytes (strV2 h) ++ bb) :=
      encode_append _ _ _ _ _ _ (encode_utf8_ascii _ _ (strV2_ascii E.p2 h hval)) hbb
    refine ⟨asciiBytes (strV2 h) ++ bb, ?_, ?_⟩
    · simp [writeFile, hmk, ht, Serialize.serialize, strHdr, hbody, henc, bind, Except.bind]
    · exact readFile_of_header E _ _ (r ++ w) i
        (C12_roundtrip_v2_ws E.p1 E.p2 E.cp1252 h r w bb hval hbb hr0) hread.2

/-- **C01, whole file, unclosed SGML form** (`close_elements=False`, versions below 200; plain or pretty), for
    instances whose written tree has no childless aggregate (known finding). -/
theorem C01_file_roundtrip_unclosed_partial (laws : ConvLaws E.cv E.S.enums escapeCdata Dom)
    (htext : TextOk E.S E.cv Dom)
    (htag : ∀ ci c, E.S.cls? ci = some c → c.abstract = false → TagWF E.htmlEmpty c)
    (wf1 : WFV1 E.p1) (wf2 : WFV2 E.p2) (v : Nat) (old new : Option Str)
    (ho1 : UidOk E.p1.oldLen old) (hn1 : UidOk E.p1.newLen new)
    (ho2 : UidOk E.p2.oldLen old) (hn2 : UidOk E.p2.newLen new)
    (pretty : Bool) (i : Node) (hv : Valid E.S E.cv escapeCdata Dom i) (hdr : Hdr)
    (hmk : makeHeader E.p1 E.p2 (.int v) none old new = .ok hdr) (hv200 : v < 200)
    (hguard : ∀ t, toEtree E.S E.cv i = .ok t → unclosedGuard t = true) :
    ∃ file, writeFile E v old new pretty false i = .ok file ∧ readFile E file = .ok (hdr, i) := by
  obtain ⟨t, ht, hback⟩ := C01_agg_roundtrip_partial E.S E.cv escapeCdata Dom laws i hv
  obtain ⟨hw, hs, hg⟩ := written_wire E.S E.cv escapeCdata Dom E.htmlEmpty laws htext htag i hv t ht
  -- the body and its decomposition  core ++ trailing whitespace
  have hdoc : RenderingDoc (escapeTree t) (serializeBody E.htmlEmpty false pretty t) :=
    SER_unclosed_renders_partial E.htmlEmpty t pretty hw (hguard t ht)
  obtain ⟨r, w, hr, hws, hbody⟩ := hdoc
  have hg' : g3Ok (escapeTree t) = true := (g3Ok_escapeTree_both.1 t).trans hg
  -- shape of the written tree: an aggregate
  have hshape : ∃ tag tl cs, escapeTree t = .node tag none tl cs := by
    cases i with
    | val x => simp [Valid] at hv
    | agg ci f its =>
      obtain ⟨⟨c, ok⟩, _, _⟩ := hv
      obtain ⟨_, htx⟩ := toEtree_shape E.S E.cv ci f its c t ok.hc ht
      cases t with
      | node tg x tl cs =>
        simp only [Tree.text] at htx; subst htx
        exact ⟨tg, tl, escapeTreeList cs, by simp [escapeTree]⟩
  obtain ⟨tag, tl, cs, hesc⟩ := hshape
  rw [hesc] at hr
  obtain ⟨hr0, hr1⟩ := rendering_agg_ends tag tl cs r hr
  rw [← hesc] at hr
  obtain ⟨bb, hbb⟩ := encode_utf8_total E.cp1252 (r ++ w)
  have hread : readBody E.S E.cv r = .ok i ∧ readBody E.S E.cv (r ++ w) = .ok i := by
    have h1 := C02.C02_complete_partial _ _ (rendering_renders_strict hr hg')
    have h2 := C02.C02_complete_doc _ _ (renderingDoc_rendersDoc_strict ⟨r, w, hr, hws, rfl⟩ hg')
    simp only [readBody, h1, h2, bind, Except.bind]
    rw [escapeTree_eq_mapText]
    exact ⟨hback, hback⟩
  cases hdr with
  | v1 h =>
    obtain ⟨hval, hcodec, _⟩ := makeHeader_v1_valid E.p1 E.p2 wf1 v none old new h trivial ho1 hn1 hmk
    have henc : encode E.cp1252 .utf8 (strV1 h ++ (r ++ w)) = .ok (asciiBytes (strV1 h) ++ bb) :=
      encode_append _ _ _ _ _ _ (encode_utf8_ascii _ _ (strV1_ascii E.p1 h hval)) hbb
    refine ⟨asciiBytes (strV1 h) ++ bb, ?_, ?_⟩
    · have hnot : ¬ (200 ≤ v) := by omega
      simp [writeFile, hmk, ht, Serialize.serialize, strHdr, hbody, henc, bind, Except.bind, hnot]
    · exact readFile_of_header E _ _ r i
        (C12_roundtrip_v1_ws E.p1 E.p2 E.cp1252 h r w bb .utf8 hval hcodec hbb hr0 hr1 hws) hread.1
  | v2 h =>
    obtain ⟨hval, _⟩ := makeHeader_v2_valid E.p1 E.p2 wf2 v none old new h trivial ho2 hn2 hmk
    have henc : encode E.cp1252 .utf8 (strV2 h ++ (r ++ w)) = .ok (asciiBytes (strV2 h) ++ bb) :=
      encode_append _ _ _ _ _ _ (encode_utf8_ascii _ _ (strV2_ascii E.p2 h hval)) hbb
    refine ⟨asciiBytes (strV2 h) ++ bb, ?_, ?_⟩
    · have hnot : ¬ (200 ≤ v) := by omega
      simp [writeFile, hmk, ht, Serialize.serialize, strHdr, hbody, henc, bind, Except.bind, hnot]
    · exact readFile_of_header E _ _ (r ++ w) i
        (C12_roundtrip_v2_ws E.p1 E.p2 E.cp1252 h r w bb hval hbb hr0) hread.2


end
end Ofx.Pipeline
