/-
C04, order on the tree route (continues Props/C04.lean; kept apart because it uses the lemmas of Props/C03).
-/
import OfxProofs.Props.C03
namespace Ofx.Agg
open Ofx

theorem specIndex_get (c : Cls) (n : Str) (i : Nat) (h : specIndex c n = some i) :
    ∃ a, c.spec[i]? = some a ∧ a.name = n ∧ a ∈ c.spec := by
  unfold specIndex at h
  rw [List.findIdx?_eq_some_iff_getElem] at h
  obtain ⟨hlt, hp, _⟩ := h
  exact ⟨c.spec[i], by simp [hlt], by simpa using hp, List.getElem_mem hlt⟩

theorem listMember_isList (c : Cls) (a : Attr) (ha : a ∈ c.spec) (hnd : (c.spec.map (·.name)).Nodup)
    (h : isListMember c a.name = true) : a.kind.isList = true := by
  cases hl : a.kind.isList with
  | true => rfl
  | false => rw [not_listMember_of_nonlist c a ha hl hnd] at h; cases h

/-- the reader's position is at or past `lo`, and if it stands on a repeated child that child's attribute
    is a list attribute -/
def PrevGe (c : Cls) (lo : Nat) (acc : Accum) : Prop :=
  ∃ p, acc.prev = some p ∧ lo ≤ p ∧ (acc.prevIsList = true → ∃ ap, c.spec[p]? = some ap ∧ ap.kind.isList = true)

/-- the list block is not interleaved around position `lo` -/
def BlockAt (c : Cls) (lo : Nat) : Prop :=
  ∀ i q ai aq, c.spec[i]? = some ai → ai.kind.isList = true → i < lo →
    c.spec[q]? = some aq → aq.kind.isList = true → q < lo

theorem updateArgs_prevGe (c : Cls) (hg : c.groom = none) (hnd : (c.spec.map (·.name)).Nodup) (lo : Nat)
    (hb : BlockAt c lo) (acc acc' : Accum) (ch : Tree) (sub : PyM Node)
    (h : updateArgs c acc ch sub = .ok acc') (hinv : PrevGe c lo acc) : PrevGe c lo acc' := by
  by_cases hdot : '.' ∈ ch.tag
  · rw [updateArgs_unknown_eq c acc ch sub hg (Or.inl hdot)] at h
    injection h with h; subst h; exact hinv
  · cases hidx : specIndex c (lower ch.tag) with
    | none =>
      rw [updateArgs_unknown_eq c acc ch sub hg (Or.inr hidx)] at h
      injection h with h; subst h; exact hinv
    | some idx =>
      obtain ⟨ai, hai, hain, haim⟩ := specIndex_get c _ idx hidx
      obtain ⟨p, hp, hlo, hpl⟩ := hinv
      rw [updateArgs_eq c acc ch sub idx hg hdot hidx] at h
      split at h
      · simp at h
      · rename_i hord
        -- the new position
        have hnew : lo ≤ idx := by
          cases hoo : outOfOrder acc.prev idx with
          | false =>
            simp only [outOfOrder, hp, decide_eq_false_iff_not] at hoo
            omega
          | true =>
            simp only [hoo, Bool.true_and, Bool.not_eq_true, Bool.not_eq_false', Bool.and_eq_true] at hord
            obtain ⟨hil, hpil⟩ := hord
            obtain ⟨ap, hap, hapl⟩ := hpl hpil
            have hail : ai.kind.isList = true := listMember_isList c ai haim hnd (by rw [hain]; exact hil)
            apply Classical.byContradiction
            intro hlt
            have := hb idx p ai ap hai hail (by omega) hap hapl
            omega
        have hlist : isListMember c (lower ch.tag) = true → ∃ ap, c.spec[idx]? = some ap ∧ ap.kind.isList = true :=
          fun hil => ⟨ai, hai, listMember_isList c ai haim hnd (by rw [hain]; exact hil)⟩
        generalize (if unsupportedAt c idx = true then (Except.ok (Node.val Val.none) : PyM Node)
          else childValue ch sub) = rv at h
        cases rv with
        | error e => simp [bind, Except.bind] at h
        | ok value =>
          simp only [bind, Except.bind] at h
          split at h
          · rename_i hil
            injection h with h; subst h
            exact ⟨idx, rfl, hnew, fun _ => hlist hil⟩
          · split at h
            · simp at h
            · injection h with h; subst h
              exact ⟨idx, rfl, hnew, fun hf => by simp at hf⟩

theorem foldChildren_prevGe (c : Cls) (hg : c.groom = none) (hnd : (c.spec.map (·.name)).Nodup) (lo : Nat)
    (hb : BlockAt c lo) : ∀ (ts : List Tree) (ss : List (PyM Node)) (acc acc' : Accum),
    foldChildren c ts ss acc = .ok acc' → PrevGe c lo acc → PrevGe c lo acc'
  | [], ss, acc, acc', h, hi => by
    cases ss <;> simp [foldChildren] at h <;> subst h <;> exact hi
  | t :: ts, [], acc, acc', h, hi => by simp [foldChildren] at h; subst h; exact hi
  | t :: ts, s :: ss, acc, acc', h, hi => by
    simp only [foldChildren] at h
    cases hu : updateArgs c acc t s with
    | error e => simp [hu, bind, Except.bind] at h
    | ok acc1 =>
      simp only [hu, bind, Except.bind] at h
      exact foldChildren_prevGe c hg hnd lo hb ts ss acc1 acc' h
        (updateArgs_prevGe c hg hnd lo hb acc acc1 t s hu hi)

/-- after a successful step on a known non-repeated child the reader stands on it -/
theorem updateArgs_known_prev (c : Cls) (acc acc' : Accum) (ch : Tree) (sub : PyM Node) (idx : Nat)
    (hg : c.groom = none) (hdot : '.' ∉ ch.tag) (hidx : specIndex c (lower ch.tag) = some idx)
    (hnl : isListMember c (lower ch.tag) = false) (h : updateArgs c acc ch sub = .ok acc') :
    acc'.prev = some idx ∧ acc'.prevIsList = false := by
  rw [updateArgs_eq c acc ch sub idx hg hdot hidx, hnl] at h
  split at h
  · simp at h
  · generalize (if unsupportedAt c idx = true then (Except.ok (Node.val Val.none) : PyM Node)
      else childValue ch sub) = rv at h
    cases rv with
    | error e => simp [bind, Except.bind] at h
    | ok value =>
      simp only [bind, Except.bind, Bool.false_eq_true, if_false] at h
      split at h
      · simp at h
      · injection h with h; subst h; exact ⟨rfl, rfl⟩

/-- C04 (order, tree route): a document in which a known non-repeated child `b` comes anywhere after a known
    non-repeated child `a` whose spec position is not smaller is rejected — whatever stands before, between
    and after them — for every class whose list block is not interleaved around `a`'s position. -/
theorem C04_reject_out_of_order (S : Schema) (cv : Conv) (tag : Str) (x tl : Option Str)
    (pre mid post : List Tree) (a b : Tree) (ci : Nat) (c : Cls) (ia ib : Nat)
    (hf : S.findIdx? tag = some ci) (hc : S.cls? ci = some c) (hg : c.groom = none)
    (hnd : (c.spec.map (·.name)).Nodup) (hblock : BlockAt c ia)
    (hdota : '.' ∉ a.tag) (hia : specIndex c (lower a.tag) = some ia)
    (hnla : isListMember c (lower a.tag) = false)
    (hdotb : '.' ∉ b.tag) (hib : specIndex c (lower b.tag) = some ib)
    (hnlb : isListMember c (lower b.tag) = false) (hle : ib ≤ ia) :
    ∃ e, fromEtree S cv (.node tag x tl (pre ++ a :: (mid ++ b :: post))) = .error e := by
  simp only [fromEtree, convertNode, hf, hc]
  have hne : (pre ++ a :: (mid ++ b :: post)).isEmpty = false := by cases pre <;> rfl
  simp only [hne, Bool.false_eq_true, if_false]
  have key : ∃ e, foldChildren c (pre ++ a :: (mid ++ b :: post))
      (childInsts S cv (pre ++ a :: (mid ++ b :: post))) Accum.init = .error e := by
    have hsplit : pre ++ a :: (mid ++ b :: post) = (pre ++ a :: mid) ++ b :: post := by simp
    rw [hsplit, childInsts_append]
    simp only [childInsts]
    apply foldChildren_error_of_step c (pre ++ a :: mid) _ b _ post _ Accum.init (childInsts_length S cv _)
    intro acc1 hacc1
    rw [childInsts_append] at hacc1
    simp only [childInsts] at hacc1
    rw [foldChildren_append c pre (a :: mid) _ _ Accum.init (childInsts_length S cv pre)] at hacc1
    cases hp : foldChildren c pre (childInsts S cv pre) Accum.init with
    | error e => simp [hp, bind, Except.bind] at hacc1
    | ok acc0 =>
      simp only [hp, bind, Except.bind, foldChildren] at hacc1
      cases hu : updateArgs c acc0 a (fromEtree S cv a) with
      | error e => simp [hu] at hacc1
      | ok acc2 =>
        simp only [hu] at hacc1
        obtain ⟨hp2, hl2⟩ := updateArgs_known_prev c acc0 acc2 a _ ia hg hdota hia hnla hu
        have hinv2 : PrevGe c ia acc2 := ⟨ia, hp2, Nat.le_refl _, fun hf => by rw [hl2] at hf; cases hf⟩
        obtain ⟨p, hp1, hlo, _⟩ := foldChildren_prevGe c hg hnd ia hblock mid _ acc2 acc1 hacc1 hinv2
        apply not_ok_error
        intro acc' h
        rw [updateArgs_eq c acc1 b _ ib hg hdotb hib, hnlb] at h
        have hoo : outOfOrder acc1.prev ib = true := by simp [outOfOrder, hp1]; omega
        simp [hoo] at h
  obtain ⟨e, he⟩ := key
  exact ⟨e, by simp [he, bind, Except.bind]⟩

/-! ### the tree route ends in the keyword route -/

/-- the tree route ends in the keyword route: whatever `from_etree` returns for an aggregate node was returned
    by the class constructor on the positional and keyword arguments collected from the children -/
theorem fromEtree_is_construct (S : Schema) (cv : Conv) (tag : Str) (x tl : Option Str) (children : List Tree)
    (n : Node) (h : fromEtree S cv (.node tag x tl children) = .ok n) :
    ∃ ci args kw, S.findIdx? tag = some ci ∧ construct S cv ci args kw = .ok n := by
  simp only [fromEtree, convertNode] at h
  cases hf : S.findIdx? tag with
  | none => simp [hf] at h
  | some ci =>
    simp only [hf] at h
    cases hc : S.cls? ci with
    | none => simp [hc] at h
    | some c =>
      simp only [hc] at h
      by_cases hemp : children.isEmpty = true
      · simp only [hemp, if_true] at h
        exact ⟨ci, [], [], rfl, h⟩
      · simp only [hemp, Bool.false_eq_true, if_false] at h
        cases hfold : foldChildren c children (childInsts S cv children) Accum.init with
        | error e => simp [hfold, bind, Except.bind] at h
        | ok acc =>
          simp only [hfold, bind, Except.bind] at h
          exact ⟨ci, acc.args, acc.kwargs, rfl, h⟩

/-- C04 (consequence, tree route): every instance `from_etree` returns satisfies the declared groups, holds per
    attribute what its converter accepted, and has only permitted members — because it was built by the
    constructor (`C04_sound_kw`). -/
theorem C04_sound_tree (S : Schema) (cv : Conv) (tag : Str) (x tl : Option Str) (children : List Tree) (n : Node)
    (h : fromEtree S cv (.node tag x tl children) = .ok n) :
    ∃ ci args kw c fields items, S.findIdx? tag = some ci ∧ n = .agg ci fields items ∧ S.cls? ci = some c ∧
      extraRule S c.extra args kw = .ok () ∧
      (∀ g ∈ c.optMutex, mutexCount kw g ≤ 1) ∧ (∀ g ∈ c.reqMutex, mutexCount kw g = 1) ∧
      FieldsMatch (fun a v => setAttr S cv a ((lookup a.name kw).getD (.val .none)) = .ok (some v))
        (specNoList c) fields ∧
      applyArgs S cv c args = .ok items ∧
      (∀ k ∈ kw.map (·.1), k ∈ (specNoList c).map (·.name)) := by
  obtain ⟨ci, args, kw, hf, hc⟩ := fromEtree_is_construct S cv tag x tl children n h
  obtain ⟨c, fields, items, rfl, hcls, h1, h2, h3, h4, h5, h6⟩ := C04_sound_kw S cv ci args kw n hc
  exact ⟨ci, args, kw, c, fields, items, hf, rfl, hcls, h1, h2, h3, h4, h5, h6⟩

end Ofx.Agg
