/-
C04, order on the tree route (continues Props/C04.lean; kept apart because it uses the lemmas of Props/C03).
-/
import OfxProofs.Props.C03
namespace Ofx.Agg
open Ofx

theorem specIndex_get (c : Cls) (n : Str) (i : Nat) (h : specIndex c n = some i) :
    ∃ a, c.spec[i]? = some a ∧ a.name = n ∧ a ∈ c.spec := by
  unfold specIndex at h
  rw [List.findIdx?_eq_some_iff_getElem] at h
  obtain ⟨hlt, hp, _⟩ := h
  exact ⟨c.spec[i], by simp [hlt], by simpa using hp, List.getElem_mem hlt⟩

theorem listMember_isList (c : Cls) (a : Attr) (ha : a ∈ c.spec) (hnd : (c.spec.map (·.name)).Nodup)
    (h : isListMember c a.name = true) : a.kind.isList = true := by
  cases hl : a.kind.isList with
  | true => rfl
  | false => rw [not_listMember_of_nonlist c a ha hl hnd] at h; cases h

/-- the reader's position is at or past `lo`, and if it stands on a repeated child that child's attribute
    is a list attribute -/
def PrevGe (c : Cls) (lo : Nat) (acc : Accum) : Prop :=
  ∃ p, acc.prev = some p ∧ lo ≤ p ∧ (acc.prevIsList = true → ∃ ap, c.spec[p]? = some ap ∧ ap.kind.isList = true)

/-- the list block is not interleaved around position `lo` -/
def BlockAt (c : Cls) (lo : Nat) : Prop :=
  ∀ i q ai aq, c.spec[i]? = some ai → ai.kind.isList = true → i < lo →
    c.spec[q]? = some aq → aq.kind.isList = true → q < lo

theorem updateArgs_prevGe (c : Cls) (hg : c.groom = none) (hnd : (c.spec.map (·.name)).Nodup) (lo : Nat)
    (hb : BlockAt c lo) (acc acc' : Accum) (ch : Tree) (sub : PyM Node)
    (h : updateArgs c acc ch sub = .ok acc') (hinv : PrevGe c lo acc) : PrevGe c lo acc' := by
  by_cases hdot : '.' ∈ ch.tag
  · rw [updateArgs_unknown_eq c acc ch sub hg (Or.inl hdot)] at h
    injection h with h; subst h; exact hinv
  · cases hidx : specIndex c (lower ch.tag) with
    | none =>
      rw [updateArgs_unknown_eq c acc ch sub hg (Or.inr hidx)] at h
      injection h with h; subst h; exact hinv
    | some idx =>
      obtain ⟨ai, hai, hain, haim⟩ := specIndex_get c _ idx hidx
      obtain ⟨p, hp, hlo, hpl⟩ := hinv
      rw [updateArgs_eq c acc ch sub idx hg hdot hidx] at h
      split at h
      · simp at h
      · rename_i hord
        -- the new position
        have hnew : lo ≤ idx := by
          cases hoo : outOfOrder acc.prev idx with
          | false =>
            simp only [outOfOrder, hp, decide_eq_false_iff_not] at hoo
            omega
          | true =>
            simp only [hoo, Bool.true_and, Bool.not_eq_true, Bool.not_eq_false', Bool.and_eq_true] at hord
            obtain ⟨hil, hpil⟩ := hord
            obtain ⟨ap, hap, hapl⟩ := hpl hpil
            have hail : ai.kind.isList = true := listMember_isList c ai haim hnd (by rw [hain]; exact hil)
            apply Classical.byContradiction
            intro hlt
            have := hb idx p ai ap hai hail (by omega) hap hapl
            omega
        have hlist : isListMember c (lower ch.tag) = true → ∃ ap, c.spec[idx]? = some ap ∧ ap.kind.isList = true :=
          fun hil => ⟨ai, hai, listMember_isList c ai haim hnd (by rw [hain]; exact hil)⟩
        generalize (if unsupportedAt c idx = true then (Except.ok (Node.val Val.none) : PyM Node)
          else childValue ch sub) = rv at h
        cases rv with
        | error e => simp [bind, Except.bind] at h
        | ok value =>
          simp only [bind, Except.bind] at h
          split at h
          · rename_i hil
            injection h with h; subst h
            exact ⟨idx, rfl, hnew, fun _ => hlist hil⟩
          · split at h
            · simp at h
            · injection h with h; subst h
              exact ⟨idx, rfl, hnew, fun hf => by simp at hf⟩

theorem foldChildren_prevGe (c : Cls) (hg : c.groom = none) (hnd : (c.spec.map (·.name)).Nodup) (lo : Nat)
    (hb : BlockAt c lo) : ∀ (ts : List Tree) (ss : List (PyM Node)) (acc acc' : Accum),
    foldChildren c ts ss acc = .ok acc' → PrevGe c lo acc → PrevGe c lo acc'
  | [], ss, acc, acc', h, hi => by
    cases ss <;> simp [foldChildren] at h <;> subst h <;> exact hi
  | t :: ts, [], acc, acc', h, hi => by simp [foldChildren] at h; subst h; exact hi
  | t :: ts, s :: ss, acc, acc', h, hi => by
    simp only [foldChildren] at h
    cases hu : updateArgs c acc t s with
    | error e => simp [hu, bind, Except.bind] at h
    | ok acc1 =>
      simp only [hu, bind, Except.bind] at h
      exact foldChildren_prevGe c hg hnd lo hb ts ss acc1 acc' h
        (updateArgs_prevGe c hg hnd lo hb acc acc1 t s hu hi)

/-- after a successful step on a known non-repeated child the reader stands on it -/
theorem updateArgs_known_prev (c : Cls) (acc acc' : Accum) (ch : Tree) (sub : PyM Node) (idx : Nat)
    (hg : c.groom = none) (hdot : '.' ∉ ch.tag) (hidx : specIndex c (lower ch.tag) = some idx)
    (hnl : isListMember c (lower ch.tag) = false) (h : updateArgs c acc ch sub = .ok acc') :
    acc'.prev = some idx ∧ acc'.prevIsList = false := by
  rw [updateArgs_eq c acc ch sub idx hg hdot hidx, hnl] at h
  split at h
  · simp at h
  · generalize (if unsupportedAt c idx = true then (Except.ok (Node.val Val.none) : PyM Node)
      else childValue ch sub) = rv at h
    cases rv with
    | error e => simp [bind, Except.bind] at h
    | ok value =>
      simp only [bind, Except.bind, Bool.false_eq_true, if_false] at h
      split at h
      · simp at h
      · injection h with h; subst h; exact ⟨rfl, rfl⟩

/-- C04 (order, tree route): a document in which a known non-repeated child `b` comes anywhere after a known
    non-repeated child `a` whose spec position is not smaller is rejected — whatever stands before, between
    and after them — for every class whose list block is not interleaved around `a`'s position. -/
theorem C04_reject_out_of_order (S : Schema) (cv : Conv) (tag : Str) (x tl : Option Str)
    (pre mid post : List Tree) (a b : Tree) (ci : Nat) (c : Cls) (ia ib : Nat)
    (hf : S.findIdx? tag = some ci) (hc : S.cls? ci = some c) (hg : c.groom = none)
    (hnd : (c.spec.map (·.name)).Nodup) (hblock : BlockAt c ia)
    (hdota : '.' ∉ a.tag) (hia : specIndex c (lower a.tag) = some ia)
    (hnla : isListMember c (lower a.tag) = false)
    (hdotb : '.' ∉ b.tag) (hib : specIndex c (lower b.tag) = some ib)
    (hnlb : isListMember c (lower b.tag) = false) (hle : ib ≤ ia) :
    ∃ e, fromEtree S cv (.node tag x tl (pre ++ a :: (mid ++ b :: post))) = .error e := by
  simp only [fromEtree, convertNode, hf, hc]
  have hne : (pre ++ a :: (mid ++ b :: post)).isEmpty = false := by cases pre <;> rfl
  simp only [hne, Bool.false_eq_true, if_false]
  have key : ∃ e, foldChildren c (pre ++ a :: (mid ++ b :: post))
      (childInsts S cv (pre ++ a :: (mid ++ b :: post))) Accum.init = .error e := by
    have hsplit : pre ++ a :: (mid ++ b :: post) = (pre ++ a :: mid) ++ b :: post := by simp
    rw [hsplit, childInsts_append]
    simp only [childInsts]
    apply foldChildren_error_of_step c (pre ++ a :: mid) _ b _ post _ Accum.init (childInsts_length S cv _)
    intro acc1 hacc1
    rw [childInsts_append] at hacc1
    simp only [childInsts] at hacc1
    rw [foldChildren_append c pre (a :: mid) _ _ Accum.init (childInsts_length S cv pre)] at hacc1
    cases hp : foldChildren c pre (childInsts S cv pre) Accum.init with
    | error e => simp [hp, bind, Except.bind] at hacc1
    | ok acc0 =>
      simp only [hp, bind, Except.bind, foldChildren] at hacc1
      cases hu : updateArgs c acc0 a (fromEtree S cv a) with
      | error e => simp [hu] at hacc1
      | ok acc2 =>
        simp only [hu] at hacc1
        obtain ⟨hp2, hl2⟩ := updateArgs_known_prev c acc0 acc2 a _ ia hg hdota hia hnla hu
        have hinv2 : PrevGe c ia acc2 := ⟨ia, hp2, Nat.le_refl _, fun hf => by rw [hl2] at hf; cases hf⟩
        obtain ⟨p, hp1, hlo, _⟩ := foldChildren_prevGe c hg hnd ia hblock mid _ acc2 acc1 hacc1 hinv2
        apply not_ok_error
        intro acc' h
        rw [updateArgs_eq c acc1 b _ ib hg hdotb hib, hnlb] at h
        have hoo : outOfOrder acc1.prev ib = true := by simp [outOfOrder, hp1]; omega
        simp [hoo] at h
  obtain ⟨e, he⟩ := key
  exact ⟨e, by simp [he, bind, Except.bind]⟩

/-! ### the tree route ends in the keyword route -/

/-- the tree route ends in the keyword route: whatever `from_etree` returns for an aggregate node was returned
    by the class constructor on the positional and keyword arguments collected from the children -/
theorem fromEtree_is_construct (S : Schema) (cv : Conv) (tag : Str) (x tl : Option Str) (children : List Tree)
    (n : Node) (h : fromEtree S cv (.node tag x tl children) = .ok n) :
    ∃ ci args kw, S.findIdx? tag = some ci ∧ construct S cv ci args kw = .ok n := by
  simp only [fromEtree, convertNode] at h
  cases hf : S.findIdx? tag with
  | none => simp [hf] at h
  | some ci =>
    simp only [hf] at h
    cases hc : S.cls? ci with
    | none => simp [hc] at h
    | some c =>
      simp only [hc] at h
      by_cases hemp : children.isEmpty = true
      · simp only [hemp, if_true] at h
        exact ⟨ci, [], [], rfl, h⟩
      · simp only [hemp, Bool.false_eq_true, if_false] at h
        cases hfold : foldChildren c children (childInsts S cv children) Accum.init with
        | error e => simp [hfold, bind, Except.bind] at h
        | ok acc =>
          simp only [hfold, bind, Except.bind] at h
          exact ⟨ci, acc.args, acc.kwargs, rfl, h⟩

/-- C04 (consequence, tree route): every instance `from_etree` returns satisfies the declared groups, holds per
    attribute what its converter accepted, and has only permitted members — because it was built by the
    constructor (`C04_sound_kw`). -/
theorem C04_sound_tree (S : Schema) (cv : Conv) (tag : Str) (x tl : Option Str) (children : List Tree) (n : Node)
    (h : fromEtree S cv (.node tag x tl children) = .ok n) :
    ∃ ci args kw c fields items, S.findIdx? tag = some ci ∧ n = .agg ci fields items ∧ S.cls? ci = some c ∧
      extraRule S c.extra args kw = .ok () ∧
      (∀ g ∈ c.optMutex, mutexCount kw g ≤ 1) ∧ (∀ g ∈ c.reqMutex, mutexCount kw g = 1) ∧
      FieldsMatch (fun a v => setAttr S cv a ((lookup a.name kw).getD (.val .none)) = .ok (some v))
        (specNoList c) fields ∧
      applyArgs S cv c args = .ok items ∧
      (∀ k ∈ kw.map (·.1), k ∈ (specNoList c).map (·.name)) := by
  obtain ⟨ci, args, kw, hf, hc⟩ := fromEtree_is_construct S cv tag x tl children n h
  obtain ⟨c, fields, items, rfl, hcls, h1, h2, h3, h4, h5, h6⟩ := C04_sound_kw S cv ci args kw n hc
  exact ⟨ci, args, kw, c, fields, items, hf, rfl, hcls, h1, h2, h3, h4, h5, h6⟩

/-! ### the declared constraints on the tree route -/

/-- no child of the node carries the attribute's tag ⇒ the keyword collected for it is absent -/
theorem not_given_of_no_child (S : Schema) (cv : Conv) (c : Cls) (hg : c.groom = none) (children : List Tree)
    (acc : Accum) (n : Str) (hno : ∀ ch ∈ children, lower ch.tag ≠ n)
    (hf : foldChildren c children (childInsts S cv children) Accum.init = .ok acc) : ¬ Present acc.kwargs n := by
  rintro ⟨v, hl, _⟩
  rcases foldChildren_origin c hg children _ Accum.init acc hf n v (lookup_mem hl) with h0 | ⟨ch, sub, idx, hmem, _, hn, _⟩
  · simp [Accum.init] at h0
  · obtain ⟨hch, _⟩ := mem_zip_childInsts S cv children ch sub hmem
    exact hno ch hch hn

/-- C04 (required child omitted, tree route): a document none of whose children carries the tag of a required
    sub-aggregate, or of a required data element whose converter refuses `None`, is rejected. -/
theorem C04_reject_required_omitted_tree (S : Schema) (cv : Conv) (tag : Str) (x tl : Option Str)
    (children : List Tree) (ci : Nat) (c : Cls) (a : Attr)
    (hf : S.findIdx? tag = some ci) (hc : S.cls? ci = some c) (hg : c.groom = none)
    (ha : a ∈ c.spec) (hl : a.kind.isList = false) (hu : a.kind.isUnsupported = false) (hreq : a.required = true)
    (hcv : Kind.subTarget a.kind = none → ∃ e, cv.convert S.enums a.kind true .none = .error e)
    (hno : ∀ ch ∈ children, lower ch.tag ≠ a.name) :
    ∃ e, fromEtree S cv (.node tag x tl children) = .error e := by
  apply not_ok_error
  intro n hn
  -- the keyword route's verdict on whatever was collected
  have key : ∀ args kw, ¬ Present kw a.name → ∃ e, construct S cv ci args kw = .error e := by
    intro args kw hng
    cases hst : Kind.subTarget a.kind with
    | some t =>
      have hk : a.kind = .sub t := by cases hk : a.kind <;> simp_all [Kind.subTarget]
      exact C04_reject_required_sub S cv ci c args kw a t hc ha hk hreq hng
    | none => exact C04_reject_required_elem S cv ci c args kw a hc ha hl hu hst hreq hng (hcv hst)
  simp only [fromEtree, convertNode, hf, hc] at hn
  by_cases hemp : children.isEmpty = true
  · simp only [hemp, if_true] at hn
    obtain ⟨e, he⟩ := key [] [] (by rintro ⟨v, h, _⟩; simp [lookup] at h)
    rw [hn] at he; cases he
  · simp only [hemp, Bool.false_eq_true, if_false] at hn
    cases hfold : foldChildren c children (childInsts S cv children) Accum.init with
    | error e => simp [hfold, bind, Except.bind] at hn
    | ok acc =>
      simp only [hfold, bind, Except.bind] at hn
      obtain ⟨e, he⟩ := key acc.args acc.kwargs (not_given_of_no_child S cv c hg children acc a.name hno hfold)
      rw [hn] at he; cases he


/-- after a successful step on a known, supported, non-repeated child its value is the kwarg -/
theorem updateArgs_known_lookup (c : Cls) (acc acc' : Accum) (ch : Tree) (sub : PyM Node) (idx : Nat) (v : Node)
    (hg : c.groom = none) (hdot : '.' ∉ ch.tag) (hidx : specIndex c (lower ch.tag) = some idx)
    (hnl : isListMember c (lower ch.tag) = false) (hun : unsupportedAt c idx = false)
    (hv : childValue ch sub = .ok v) (h : updateArgs c acc ch sub = .ok acc') :
    lookup (lower ch.tag) acc'.kwargs = some v := by
  rw [updateArgs_eq c acc ch sub idx hg hdot hidx, hnl, hun] at h
  split at h
  · simp at h
  · simp only [Bool.false_eq_true, if_false, hv, bind, Except.bind] at h
    split at h
    · simp at h
    · rename_i hk
      injection h with h; subst h
      have hnone : lookup (lower ch.tag) acc.kwargs = none := by
        cases hl : lookup (lower ch.tag) acc.kwargs with
        | none => rfl
        | some _ => simp [hasKey, hl] at hk
      simp [lookup_append_single, hnone]

/-- a known, supported, non-repeated child with a non-`None` value is *given* to the constructor -/
theorem given_of_child (S : Schema) (cv : Conv) (c : Cls) (hg : c.groom = none) (hnd : (c.spec.map (·.name)).Nodup)
    (pre post : List Tree) (ch : Tree) (acc : Accum) (a : Attr) (v : Node)
    (ha : a ∈ c.spec) (hname : a.name = lower ch.tag) (hdot : '.' ∉ ch.tag)
    (hl : a.kind.isList = false) (hu : a.kind.isUnsupported = false)
    (hv : childValue ch (fromEtree S cv ch) = .ok v) (hnn : given v = true)
    (hf : foldChildren c (pre ++ ch :: post) (childInsts S cv (pre ++ ch :: post)) Accum.init = .ok acc) :
    Given acc.kwargs a.name := by
  rw [childInsts_append] at hf
  simp only [childInsts] at hf
  obtain ⟨acc1, acc2, hstep, hrest⟩ := foldChildren_mid c ch _ pre post _ _ Accum.init acc
    (childInsts_length S cv pre) hf
  obtain ⟨pa, ra, hspec⟩ := List.append_of_mem ha
  have hidx : specIndex c (lower ch.tag) = some pa.length := by
    rw [← hname]; exact specIndex_at c pa ra a hspec hnd
  have hnl : isListMember c (lower ch.tag) = false := by
    rw [← hname]; exact not_listMember_of_nonlist c a ha hl hnd
  have hun : unsupportedAt c pa.length = false := by rw [unsupportedAt_of c pa ra a hspec]; exact hu
  have hk2 := updateArgs_known_lookup c acc1 acc2 ch _ pa.length v hg hdot hidx hnl hun hv hstep
  exact ⟨v, by rw [hname]; exact foldChildren_lookup c hg post _ acc2 acc hrest _ _ hk2, hnn⟩

/-- C04 (at-most-one / exactly-one groups, tree route): a document holding two children, both with a value, that
    carry the tags of two members of one group in force is rejected. -/
theorem C04_reject_mutex_two_tree (S : Schema) (cv : Conv) (tag : Str) (x tl : Option Str)
    (pre mid post : List Tree) (ch1 ch2 : Tree) (ci : Nat) (c : Cls) (a1 a2 : Attr) (v1 v2 : Node) (g : List Str)
    (hf : S.findIdx? tag = some ci) (hc : S.cls? ci = some c) (hg : c.groom = none)
    (hnd : (c.spec.map (·.name)).Nodup) (hgrp : g ∈ c.optMutex ∨ g ∈ c.reqMutex)
    (ha1 : a1 ∈ c.spec) (hn1 : a1.name = lower ch1.tag) (hd1 : '.' ∉ ch1.tag)
    (hl1 : a1.kind.isList = false) (hu1 : a1.kind.isUnsupported = false)
    (hv1 : childValue ch1 (fromEtree S cv ch1) = .ok v1) (hnn1 : given v1 = true)
    (ha2 : a2 ∈ c.spec) (hn2 : a2.name = lower ch2.tag) (hd2 : '.' ∉ ch2.tag)
    (hl2 : a2.kind.isList = false) (hu2 : a2.kind.isUnsupported = false)
    (hv2 : childValue ch2 (fromEtree S cv ch2) = .ok v2) (hnn2 : given v2 = true)
    (hm1 : a1.name ∈ g) (hm2 : a2.name ∈ g) (hne : a1.name ≠ a2.name) :
    ∃ e, fromEtree S cv (.node tag x tl (pre ++ ch1 :: (mid ++ ch2 :: post))) = .error e := by
  apply not_ok_error
  intro n hn
  simp only [fromEtree, convertNode, hf, hc] at hn
  have hne' : (pre ++ ch1 :: (mid ++ ch2 :: post)).isEmpty = false := by cases pre <;> rfl
  simp only [hne', Bool.false_eq_true, if_false] at hn
  cases hfold : foldChildren c (pre ++ ch1 :: (mid ++ ch2 :: post))
      (childInsts S cv (pre ++ ch1 :: (mid ++ ch2 :: post))) Accum.init with
  | error e => simp [hfold, bind, Except.bind] at hn
  | ok acc =>
    simp only [hfold, bind, Except.bind] at hn
    have g1 := given_of_child S cv c hg hnd pre (mid ++ ch2 :: post) ch1 acc a1 v1 ha1 hn1 hd1 hl1 hu1 hv1 hnn1 hfold
    have hsplit : pre ++ ch1 :: (mid ++ ch2 :: post) = (pre ++ ch1 :: mid) ++ ch2 :: post := by simp
    rw [hsplit] at hfold
    have g2 := given_of_child S cv c hg hnd (pre ++ ch1 :: mid) post ch2 acc a2 v2 ha2 hn2 hd2 hl2 hu2 hv2 hnn2 hfold
    rcases hgrp with ho | hr
    · obtain ⟨e, he⟩ := C04_reject_mutex_two S cv ci c acc.args acc.kwargs g a1.name a2.name hc ho hm1 hm2 hne g1 g2
      rw [hn] at he; cases he
    · obtain ⟨e, he⟩ := C04_reject_reqmutex_two S cv ci c acc.args acc.kwargs g a1.name a2.name hc hr hm1 hm2 hne g1 g2
      rw [hn] at he; cases he


/-- C04 (exactly-one groups, tree route): a document none of whose children carries the tag of a member of an
    exactly-one group in force is rejected. -/
theorem C04_reject_reqmutex_none_tree (S : Schema) (cv : Conv) (tag : Str) (x tl : Option Str)
    (children : List Tree) (ci : Nat) (c : Cls) (g : List Str)
    (hf : S.findIdx? tag = some ci) (hc : S.cls? ci = some c) (hg : c.groom = none) (hgrp : g ∈ c.reqMutex)
    (hno : ∀ m ∈ g, ∀ ch ∈ children, lower ch.tag ≠ m) :
    ∃ e, fromEtree S cv (.node tag x tl children) = .error e := by
  apply not_ok_error
  intro n hn
  simp only [fromEtree, convertNode, hf, hc] at hn
  by_cases hemp : children.isEmpty = true
  · simp only [hemp, if_true] at hn
    obtain ⟨e, he⟩ := C04_reject_reqmutex_none S cv ci c [] [] g hc hgrp
      (fun m _ => by rintro ⟨v, h, _⟩; simp [lookup] at h)
    rw [hn] at he; cases he
  · simp only [hemp, Bool.false_eq_true, if_false] at hn
    cases hfold : foldChildren c children (childInsts S cv children) Accum.init with
    | error e => simp [hfold, bind, Except.bind] at hn
    | ok acc =>
      simp only [hfold, bind, Except.bind] at hn
      obtain ⟨e, he⟩ := C04_reject_reqmutex_none S cv ci c acc.args acc.kwargs g hc hgrp
        (fun m hm hgv => not_given_of_no_child S cv c hg children acc m (hno m hm) hfold (Present_of_Given hgv))
      rw [hn] at he; cases he

end Ofx.Agg
