/-
C13 — constructibility as a theorem, and the renamed children written under their tag.

1. `C13_constructible`: for every schema whose table of (class, child) obligations is closed (`Constructible`: a
   decidable predicate, a cover of the class indices by ranges on each of which `rangeOk` evaluates to `true`), every
   supported child `a` declared by a concrete exported class `ci` has the description `Witness.mkWith S fuel ci a`,
   which the constructors accept (`Witness.build`, bottom-up `Agg.construct` with the real converters), giving an
   instance of class `ci` that
     * holds the child (`Witness.holds`),
     * satisfies every constraint of its class all the way down (`ValidFull` — proved generically for *every*
       description the constructors accept, `build_full`, not read off the table),
     * is written by `to_etree` under the class's tag with a child tagged `wireTag c a` (the child's own tag, or the
       renamed one for the three `ungroom` classes), and
     * is read back by `from_etree` (after the text map of serialise ∘ parse) as the very same instance.
   The table itself is a finite obligation over the generated schema, closed by kernel evaluation in
   `Gen/C13Exist*.lean` (the fallback route named in the task: the existence statement is lifted from the table by
   `rangeOk_sound`; only `ValidFull` and the shape facts are generic).

2. `C13_child_written_under_tag`: for every valid instance of a class whose writer renames a child (`ungroom`),
   the element held under the renamed-to attribute is written under the renamed-from tag, and the reader returns the
   same instance (so it is read back into the same attribute).
-/
import OfxProofs.Lemmas.C13Exist
import OfxProofs.Props.C13

namespace Ofx.Agg
open Ofx Ofx.Spec.Witness

/-! ## 1. constructibility -/

/-- the ranges `(lo, n)` cover every class index of the schema -/
def coversB (S : Schema) (cover : List (Nat × Nat)) : Bool :=
  (List.range S.classes.length).all fun ci => cover.any fun p => decide (p.1 ≤ ci) && decide (ci < p.1 + p.2)

/-- **the decidable obligation**: the per-child table is closed on every range of a cover of the class indices -/
def Constructible (S : Schema) (cv : Conv) (esc : Str → Str) (fuel : Nat) (cover : List (Nat × Nat)) : Prop :=
  coversB S cover = true ∧ ∀ p ∈ cover, rangeOk S cv esc fuel p.1 p.2 = true

/-- what "the instance holds the child" says, by kind of child -/
theorem holds_iff (a : Attr) (ci : Nat) (fields : List (Str × Node)) (items : List Node) :
    holds a (.agg ci fields items) = true ↔
      match a.kind with
      | .listAgg t => ∃ m ∈ items, m.cls? = some t
      | .listElem .. => items ≠ []
      | _ => ∃ v, lookup a.name fields = some v ∧ v ≠ .val .none := by
  have hnn : ∀ v : Node, notNone v = true ↔ v ≠ .val .none := by
    intro v
    cases v with
    | val x => cases x <;> simp [notNone]
    | agg => simp [notNone]
  have hplain : (match lookup a.name fields with | some v => notNone v | none => false) = true ↔
      ∃ v, lookup a.name fields = some v ∧ v ≠ .val .none := by
    cases hl : lookup a.name fields with
    | none => simp
    | some v => simp [hnn]
  cases hk : a.kind <;> simp only [holds, hk] <;> first
    | exact hplain
    | simp [List.any_eq_true]
    | (cases items <;> simp)

/-- **C13 (constructibility).** See the header. -/
theorem C13_constructible (S : Schema) (hS : SchemaOk S) (esc : Str → Str) (fuel : Nat) (cover : List (Nat × Nat))
    (h : Constructible S Types.conv esc fuel cover)
    (ci : Nat) (c : Cls) (a : Attr) (hc : S.cls? ci = some c) (hab : c.abstract = false) (hex : c.exported = true)
    (ha : a ∈ c.spec) (hs : a.kind.isUnsupported = false) :
    ∃ d fields items,
      mkWith S fuel ci a = some d ∧
      build S Types.conv d = .ok (.agg ci fields items) ∧
      holds a (.agg ci fields items) = true ∧
      ValidFull S (.agg ci fields items) ∧
      ∃ x tl children,
        toEtree S Types.conv (.agg ci fields items) = .ok (.node c.name x tl children) ∧
        (∃ ch ∈ children, ch.tag = wireTag c a) ∧
        fromEtree S Types.conv (mapText esc (.node c.name x tl children)) = .ok (.agg ci fields items) := by
  obtain ⟨hcov, hall⟩ := h
  have hlt : ci < S.classes.length := by
    unfold Schema.cls? at hc
    exact (List.getElem?_eq_some_iff.mp hc).1
  have hci := (List.all_eq_true.mp hcov) ci (List.mem_range.mpr hlt)
  obtain ⟨p, hp, hin⟩ := List.any_eq_true.mp hci
  simp only [Bool.and_eq_true, decide_eq_true_eq] at hin
  obtain ⟨d, n, hd, hb, hh, t, ht, hch, hf⟩ :=
    rangeOk_sound S Types.conv esc fuel p.1 p.2 (hall p hp) ci hin.1 hin.2 c hc hab hex a ha hs
  -- the description is a call of class `ci`, so the instance is one of class `ci`
  have hdagg : ∃ kw args, d = .agg ci kw args := by
    unfold mkWith at hd
    cases fuel with
    | zero => simp [mk] at hd
    | succ f =>
      simp only [mk, hc] at hd
      split at hd
      · simp at hd
      · split at hd
        · simp at hd
        · simp only [Option.some.injEq] at hd
          exact ⟨_, _, hd.symm⟩
  obtain ⟨kw, args, rfl⟩ := hdagg
  obtain ⟨fields, items, rfl⟩ := build_agg S Types.conv ci kw args n hb
  have hfull : ValidFull S (.agg ci fields items) := build_full S hS _ _ hb rfl
  cases t with
  | node tag x tl children =>
    have hshape := toEtree_shape S Types.conv ci fields items c _ hc ht
    simp only [Tree.tag] at hshape
    obtain ⟨htag, _⟩ := hshape
    subst htag
    exact ⟨_, fields, items, hd, hb, hh, hfull, x, tl, children, ht, hch, hf⟩

/-! ## 2. the renamed children -/

/-- **C13 (a renamed child is written under its tag and read back).**  For a valid instance of a class whose writer
    renames one child (`ungroom`: `u.fromTag` → `u.toTag`; `YLD` → `YIELD` for `MFINFO`/`STOCKINFO`, `FRM` → `FROM`
    for `MAIL`), the element the instance holds under the attribute `lower u.fromTag` is written as a child tagged
    `u.toTag`, and the library's reader converts the written tree back into the very same instance — so the child is
    read back into the same attribute.  (`hup`: the attribute's upper-cased name is the renamed-from tag — a clause
    of the generated obligation, `Gen.schema_ungroom_upper`.) -/
theorem C13_child_written_under_tag (S : Schema) (cv : Conv) (esc : Str → Str)
    (Dom : Kind → Bool → Val → Prop) (laws : ConvLaws cv S.enums esc Dom)
    (ci : Nat) (fields : List (Str × Node)) (items : List Node)
    (hv : Valid S cv esc Dom (.agg ci fields items))
    (c : Cls) (hc : S.cls? ci = some c) (u : Rename) (hu : c.ungroom = some u)
    (hup : upper (lower u.fromTag) = u.fromTag)
    (x : Val) (hx : lookup (lower u.fromTag) fields = some (.val x)) (hxn : x ≠ .none) :
    ∃ tx tl children, toEtree S cv (.agg ci fields items) = .ok (.node c.name tx tl children) ∧
      fromEtree S cv (mapText esc (.node c.name tx tl children)) = .ok (.agg ci fields items) ∧
      ∃ ch ∈ children, ch.tag = u.toTag := by
  obtain ⟨t, ht, hrt⟩ := C01_agg_roundtrip_partial S cv esc Dom laws _ hv
  obtain ⟨⟨c', ok⟩, _, _⟩ := hv
  have hcc : c' = c := by
    have := ok.hc; rw [hc] at this; injection this with this; exact this.symm
  subst hcc
  -- the attribute behind the field
  obtain ⟨a, haL, hname, hunsup, _⟩ := ok.fm.mem _ _ (lookup_mem hx)
  have haL' := List.mem_filter.mp (by simpa [specNoList] using haL : a ∈ c'.spec.filter (fun a => !a.kind.isList))
  have hlist : a.kind.isList = false := by simpa using haL'.2
  -- unfold the writer one level
  have ht' := ht
  simp only [toEtree, assemble, hc, hu, bind, Except.bind] at ht'
  cases hem : emitSpec S cv c' fields (fieldTrees S cv fields) items (itemTrees S cv items) c'.spec true with
  | error e => simp [hem] at ht'
  | ok out =>
    simp only [hem, pure, Except.pure, Except.ok.injEq] at ht'
    subst ht'
    obtain ⟨ch, hch, htag⟩ := emitSpec_emits S cv c' fields _ items _ c'.spec true out hem a haL'.1 hlist hunsup x
      (by rw [hname]; exact hx) hxn
    rw [hname, hup] at htag
    obtain ⟨ch', hch', htag'⟩ := renameFirst_has u out ⟨ch, hch, htag⟩
    exact ⟨none, none, renameFirst u out, ht, hrt, ch', hch', htag'⟩

end Ofx.Agg
