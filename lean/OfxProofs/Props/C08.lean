/-
C08 — improperly nested or truncated markup is never accepted (DESIGN 6.8).

On the pinned tree the full-strength statement is FALSE (`C08_sound_full_false`): the C `TreeBuilder.end`
ignores the tag name and `close()` ignores open elements.  What is true, and proved here for every input:

* `C08_depth`: the builder's verdict depends on the token list only through *depth arithmetic* — `absRun` is the
  loop of `feed` with the builder state replaced by (number of open elements, "a start tag was seen"); names are
  never compared and the final depth is unconstrained.  `parse s` returns a tree iff that run succeeds having
  seen a start tag; returns `None` iff it succeeds without one; raises the same error otherwise.
* `C08_partial_*`: a stray end tag at depth 0, a second top-level element, non-blank tail text and text after an
  end tag are rejected wherever they occur.
-/
import OfxProofs.Lemmas.Builder
import OfxProofs.Props.C02

namespace Ofx.C08
open Ofx Ofx.Lexer Ofx.Builder Ofx.Spec

/-! ### the depth abstraction -/

abbrev Abs := Nat × Bool

/-- (open elements, a start tag has been seen) -/
def absOf (st : St) : Abs := (st.stack.length, st.root.isSome || !st.stack.isEmpty)

def absStart (p : Abs) : PyM Abs := if p.1 = 0 ∧ p.2 = true then .error .parse else .ok (p.1 + 1, true)
def absEnd (p : Abs) : PyM Abs := if p.1 = 0 then .error .index else .ok (p.1 - 1, true)

/-- `_start` on depths -/
def absStartElem (text closetag : Option Str) (p : Abs) : PyM Abs := do
  let p ← absStart p
  match text with
  | some (_ :: _) => absEnd p
  | _ => if truthy closetag then absEnd p else pure p

/-- `_feedmatch` on depths -/
def absFeedMatch (tag : Str) (text closetag : Option Str) (p : Abs) : PyM Abs :=
  if tag.isEmpty then .error .assert
  else if !(closetag == none || closetag == some tag) then .error .assert
  else if isEndTag tag then (if truthy text then .error .parse else absEnd p)
  else absStartElem text closetag p

/-- the loop body on depths -/
def absStep (m : Match) (p : Abs) : PyM Abs :=
  if truthy (groom m.tail) then .error .parse
  else
    let text := groom m.text
    if truthy m.cdata && truthy text then .error .assert
    else absFeedMatch m.tag (if truthy m.cdata then m.cdata else text) m.closetag p

def absRun : List Match → Abs → PyM Abs
  | [], p => .ok p
  | m :: ms, p =>
    match absStep m p with
    | .ok p' => absRun ms p'
    | .error e => .error e

/-! ### simulation -/

theorem start_abs (tag : Str) (st : St) : (st.start tag).map absOf = absStart (absOf st) := by
  obtain ⟨stack, root⟩ := st
  cases stack with
  | nil => cases root <;> simp [St.start, absOf, absStart, Except.map]
  | cons f fs => simp [St.start, absOf, absStart, Except.map]

theorem end_abs (st : St) : st.end_.map absOf = absEnd (absOf st) := by
  obtain ⟨stack, root⟩ := st
  cases stack with
  | nil => simp [St.end_, absOf, absEnd, Except.map]
  | cons f fs =>
    cases fs with
    | nil => simp [St.end_, absOf, absEnd, Except.map]
    | cons g gs => simp [St.end_, absOf, absEnd, Except.map]

theorem data_abs (d : Str) (st : St) : absOf (st.data d) = absOf st := by
  obtain ⟨stack, root⟩ := st
  cases stack <;> simp [St.data, absOf]

theorem startElem_abs (tag : Str) (text closetag : Option Str) (st : St) :
    (startElem tag text closetag st).map absOf = absStartElem text closetag (absOf st) := by
  have hs := start_abs tag st
  unfold startElem absStartElem
  cases h : st.start tag with
  | error e =>
    rw [h] at hs
    simp only [Except.map] at hs
    simp [← hs, bind, Except.bind, Except.map]
  | ok st' =>
    rw [h] at hs
    simp only [Except.map] at hs
    simp only [← hs, bind, Except.bind]
    have hno : (if truthy closetag = true then st'.end_ else pure st').map absOf
        = (if truthy closetag = true then absEnd (absOf st') else pure (absOf st')) := by
      split
      · exact end_abs st'
      · rfl
    cases text with
    | none => exact hno
    | some x =>
      cases x with
      | nil => exact hno
      | cons c cs => simp only []; rw [end_abs, data_abs]

theorem feedMatch_abs (tag : Str) (text closetag : Option Str) (st : St) :
    (feedMatch tag text closetag st).map absOf = absFeedMatch tag text closetag (absOf st) := by
  unfold feedMatch absFeedMatch
  split
  · rfl
  · split
    · rfl
    · split
      · split
        · rfl
        · exact end_abs st
      · exact startElem_abs _ _ _ st

theorem step_abs (m : Match) (st : St) : (step m st).map absOf = absStep m (absOf st) := by
  unfold step absStep
  split
  · rfl
  · simp only
    split
    · rfl
    · exact feedMatch_abs _ _ _ st

theorem feedToks_abs (ms : List Match) (st : St) : (feedToks ms st).map absOf = absRun ms (absOf st) := by
  induction ms generalizing st with
  | nil => rfl
  | cons m ms ih =>
    have hs := step_abs m st
    simp only [feedToks, absRun]
    cases h : step m st with
    | error e => rw [h] at hs; simp only [Except.map] at hs; simp [← hs, Except.map]
    | ok st' => rw [h] at hs; simp only [Except.map] at hs; simp only [← hs]; exact ih st'

theorem close_isSome (st : St) : st.close.isSome = (absOf st).2 := by
  obtain ⟨stack, root⟩ := st
  cases stack <;> simp [St.close, absOf]

/-- **C08_depth**: `parse` is the depth-only run; a tree is returned exactly when that run succeeds after at least one
    start tag — whatever the final depth, whatever the names in the end tags -/
theorem C08_depth (s : Str) :
    (parse s).map Option.isSome = (absRun (toks s) (0, false)).map Prod.snd := by
  have h := feedToks_abs (toks s) St.init
  have hi : absOf St.init = (0, false) := rfl
  rw [hi] at h
  unfold parse feed
  cases hf : feedToks (toks s) St.init with
  | error e => rw [hf] at h; simp only [Except.map] at h; simp [← h, Except.map]
  | ok st =>
    rw [hf] at h; simp only [Except.map] at h
    simp [← h, Except.map, close_isSome]

/-- a tree is returned iff the depth-only run succeeds having seen a start tag -/
theorem C08_depth_tree (s : Str) :
    (∃ t, parse s = .ok (some t)) ↔ ∃ d, absRun (toks s) (0, false) = .ok (d, true) := by
  have h := C08_depth s
  constructor
  · rintro ⟨t, ht⟩
    rw [ht] at h
    cases hr : absRun (toks s) (0, false) with
    | error e => rw [hr] at h; simp [Except.map] at h
    | ok p =>
      rw [hr] at h; simp [Except.map] at h
      obtain ⟨d, b⟩ := p
      simp only at h; subst h; exact ⟨d, rfl⟩
  · rintro ⟨d, hd⟩
    rw [hd] at h
    cases hp : parse s with
    | error e => rw [hp] at h; simp [Except.map] at h
    | ok r =>
      rw [hp] at h; simp [Except.map] at h
      cases r with
      | none => simp at h
      | some t => exact ⟨t, rfl⟩

/-- the builder rejects iff the depth-only run rejects, with the same exception class -/
theorem C08_depth_error (s : Str) (e : Err) : parse s = .error e ↔ absRun (toks s) (0, false) = .error e := by
  have h := C08_depth s
  cases hp : parse s with
  | error e' =>
    rw [hp] at h
    cases hr : absRun (toks s) (0, false) with
    | error e'' => rw [hr] at h; simp [Except.map] at h; simp [h]
    | ok p => rw [hr] at h; simp [Except.map] at h
  | ok r =>
    rw [hp] at h
    cases hr : absRun (toks s) (0, false) with
    | error e'' => rw [hr] at h; simp [Except.map] at h
    | ok p => simp


/-! ### what the pinned builder does reject -/

theorem absRun_append (pre post : List Match) (p : Abs) :
    absRun (pre ++ post) p = (match absRun pre p with | .ok p' => absRun post p' | .error e => .error e) := by
  induction pre generalizing p with
  | nil => rfl
  | cons m ms ih =>
    simp only [List.cons_append, absRun]
    cases absStep m p with
    | error e => rfl
    | ok p' => exact ih p'

theorem absRun_error_of_mem (ms : List Match) (m : Match) (hm : m ∈ ms) (h : ∀ p, ∃ e, absStep m p = .error e) :
    ∀ p, ∃ e, absRun ms p = .error e := by
  induction ms with
  | nil => cases hm
  | cons a as ih =>
    intro p
    simp only [absRun]
    rcases List.mem_cons.mp hm with rfl | hmem
    · obtain ⟨e, he⟩ := h p; exact ⟨e, by rw [he]⟩
    · cases absStep a p with
      | error e => exact ⟨e, rfl⟩
      | ok p' => exact ih hmem p'

theorem parse_error_of_abs (s : Str) (h : ∃ e, absRun (toks s) (0, false) = .error e) : ∃ e, parse s = .error e := by
  obtain ⟨e, he⟩ := h
  exact ⟨e, (C08_depth_error s e).mpr he⟩

/-- **non-blank tail text** (text after a closed element) is rejected wherever it occurs -/
theorem C08_partial_tail (s : Str) (m : Match) (hm : m ∈ toks s) (ht : truthy (groom m.tail) = true) :
    ∃ e, parse s = .error e := by
  apply parse_error_of_abs
  apply absRun_error_of_mem _ m hm
  intro p
  exact ⟨.parse, by simp [absStep, ht]⟩

/-- **text (or a CDATA section) after an end tag** is rejected wherever it occurs -/
theorem C08_partial_text_after_end (s : Str) (m : Match) (hm : m ∈ toks s) (hend : isEndTag m.tag = true)
    (htext : truthy m.cdata = true ∨ truthy (groom m.text) = true) : ∃ e, parse s = .error e := by
  apply parse_error_of_abs
  apply absRun_error_of_mem _ m hm
  intro p
  unfold absStep absFeedMatch
  by_cases hc : truthy m.cdata = true
  · simp only [hc, hend, if_true, Bool.true_and]
    repeat' split
    all_goals exact ⟨_, rfl⟩
  · have ht : truthy (groom m.text) = true := by
      rcases htext with h | h
      · exact absurd h hc
      · exact h
    simp only [hc, ht, hend, if_true, Bool.false_eq_true, if_false, Bool.false_and]
    repeat' split
    all_goals exact ⟨_, rfl⟩

/-- **a stray end tag at depth 0** (before any start tag, or after the root was closed) is rejected -/
theorem C08_partial_stray_end (s : Str) (pre post : List Match) (m : Match) (b : Bool)
    (hs : toks s = pre ++ m :: post) (hpre : absRun pre (0, false) = .ok (0, b)) (hend : isEndTag m.tag = true) :
    ∃ e, parse s = .error e := by
  apply parse_error_of_abs
  rw [hs, absRun_append, hpre]
  simp only [absRun]
  have : ∃ e, absStep m (0, b) = .error e := by
    unfold absStep absFeedMatch
    simp only [hend, if_true, absEnd]
    repeat' split
    all_goals exact ⟨_, rfl⟩
  obtain ⟨e, he⟩ := this
  exact ⟨e, by rw [he]⟩

/-- **a second top-level element** is rejected -/
theorem C08_partial_second_root (s : Str) (pre post : List Match) (m : Match)
    (hs : toks s = pre ++ m :: post) (hpre : absRun pre (0, false) = .ok (0, true)) (hstart : isEndTag m.tag = false) :
    ∃ e, parse s = .error e := by
  apply parse_error_of_abs
  rw [hs, absRun_append, hpre]
  simp only [absRun]
  have : ∃ e, absStep m (0, true) = .error e := by
    unfold absStep absFeedMatch
    simp only [hstart, Bool.false_eq_true, if_false, absStartElem, absStart, and_self, if_true, bind, Except.bind]
    repeat' split
    all_goals exact ⟨_, rfl⟩
  obtain ⟨e, he⟩ := this
  exact ⟨e, by rw [he]⟩

/-! ### the full-strength statement is false on the pinned builder -/

/-- whatever is returned without an error is a tree, and the body's tokens are properly nested and closed -/
def C08_sound_full : Prop := ∀ s r, parse s = .ok r → ∃ t, r = some t ∧ balanced (toks s) = true

/-- `<A><B>1`: truncated before `</A>`, returned as `A[B=1]` -/
theorem C08_truncated_accepted :
    parse "<A><B>1".toList = .ok (some (Tree.agg ['A'] [Tree.leaf ['B'] ['1']])) ∧ balanced (toks "<A><B>1".toList) = false :=
  ⟨by rfl, by decide⟩

/-- `<A><B><C>1</B>`: `</B>` closes... whatever is innermost; `A` is never closed -/
theorem C08_mismatch_accepted :
    parse "<A><B><C>1</B>".toList = .ok (some (Tree.agg ['A'] [Tree.agg ['B'] [Tree.leaf ['C'] ['1']]])) ∧
    balanced (toks "<A><B><C>1</B>".toList) = false :=
  ⟨by rfl, by decide⟩

/-- `<A><B></A></B>`: crossed end tags, all elements closed, accepted -/
theorem C08_crossed_accepted :
    parse "<A><B></A></B>".toList = .ok (some (Tree.agg ['A'] [Tree.agg ['B'] []])) ∧
    balanced (toks "<A><B></A></B>".toList) = false :=
  ⟨by rfl, by decide⟩

/-- the empty body: `None`, no error -/
theorem C08_empty_none : parse [] = .ok none := by rfl

/-- **truncation is never detected**: cut *any* valid aggregate right before its final end tag (after any number of
    complete children, in any rendering) and the pinned parser returns the complete tree, without an error -/
theorem C08_truncation_accepted (t w0 : Str) (cs : List Tree) (body : Str) (ht : tagOk t = true) (h0 : ws w0 = true)
    (hl : RendersList true cs body) (hsafe : cdSafe body = true) :
    parse (startTag t ++ (w0 ++ body)) = .ok (some (Tree.agg t cs)) := by
  open Ofx.C02 in
  obtain ⟨htne, htc⟩ := tagChars ht
  obtain ⟨hshape, -⟩ := rendersList_facts hl
  have haft : After body := by
    rcases hshape with ⟨-, rfl⟩ | ⟨-, hb⟩
    · exact Or.inl rfl
    · exact Or.inr (Or.inl hb)
  have hcl : dropPrefix (endTag t) body = none := by
    rcases hshape with ⟨-, rfl⟩ | ⟨-, hb⟩
    · rfl
    · exact startsName_noEnd t hb
  have hm := matchHere_open t w0 body htne htc (ws_notLt h0) (after_stops haft)
    (dropPrefix_ws_or _ w0 body ⟨_, rfl⟩ h0 (after_nocdata haft)) hcl
  have h1 : run (startTag t ++ (w0 ++ body)) St.init = run body (St.init.push t) :=
    run_tok' _ (startTag t ++ w0) body _ St.init _ (by simp) (by simp [startTag]) hm rfl
      (step_open t _ _ St.init ht (groom_ws w0 h0) (Or.inr rfl))
  have h2 := rendersList_ok hl [] (St.init.push t) (by simp [St.push]) (Or.inl rfl)
    (fun _ _ tg _ => by simp [endTag, dropPrefix]) (by simpa using hsafe)
  simp only [List.append_nil] at h2
  rw [parse_eq, h1, h2, run_nil, addKids_push]
  rfl

theorem C08_sound_full_false : ¬ C08_sound_full := by
  intro h
  obtain ⟨t, _, hb⟩ := h _ _ C08_truncated_accepted.1
  rw [C08_truncated_accepted.2] at hb
  cases hb

/-- the hypotheses of the partial theorems are met by concrete bodies -/
example : ∃ e, parse "<A></A></A>".toList = .error e :=
  C08_partial_stray_end _ [⟨['A'], none, none, some ['A'], none, 7⟩] [] ⟨['/', 'A'], none, none, none, none, 4⟩ true
    (by decide) (by rfl) (by rfl)

example : ∃ e, parse "<A></A><B>1".toList = .error e :=
  C08_partial_second_root _ [⟨['A'], none, none, some ['A'], none, 7⟩] [] ⟨['B'], none, some ['1'], none, none, 4⟩
    (by decide) (by rfl) (by rfl)

example : ∃ e, parse "<A><B>1</B>x</A>".toList = .error e :=
  C08_partial_tail _ ⟨['B'], none, some ['1'], some ['B'], some ['x'], 9⟩ (by decide) (by rfl)

example : ∃ e, parse "<A><B>1</B></A>x".toList = .error e :=
  C08_partial_text_after_end _ ⟨['/', 'A'], none, some ['x'], none, none, 5⟩ (by decide) (by rfl) (Or.inr (by rfl))

/-! ### the same rejections at string level, after any valid body -/

section strings
open Ofx.C02

theorem scanBody_excl (r : Str) : (scanBody r).1 = none ∨ (scanBody r).2.1 = none := by
  unfold scanBody
  split
  · exact Or.inr rfl
  · exact Or.inl rfl

theorem scanClose_fst (tg r : Str) : (scanClose tg r).1 = none ∨ (scanClose tg r).1 = some tg := by
  unfold scanClose
  split
  · exact Or.inr rfl
  · exact Or.inl rfl

/-- the first token raises: so does the run -/
theorem run_first_error (tok : Str) (m : Match) (st : St) (e : Err) (hne : tok ≠ [])
    (hm : matchHere tok = some m) (hs : step m st = .error e) : run tok st = .error e := by
  cases tok with
  | nil => exact absurd rfl hne
  | cons c cs => simp only [run, toks, toksGo, hm, feedToks, hs]

/-- a start tag met when the root is complete raises `ParseError`, whatever follows it -/
theorem start_after_root (t' r : Str) (root : Tree) (ht : tagOk t' = true) :
    run (startTag t' ++ r) ⟨[], some root⟩ = .error .parse := by
  obtain ⟨htne, htc⟩ := tagChars ht
  refine run_first_error _ _ _ _ (by simp [startTag]) (matchHere_tag t' r htne htc) ?_
  unfold step
  simp only
  split
  · rfl
  · have hex := scanBody_excl r
    have hassert : (truthy (scanBody r).1 && truthy (groom (scanBody r).2.1)) = false := by
      rcases hex with h | h
      · simp [h, truthy]
      · simp [h, groom, truthy]
    simp only [hassert, Bool.false_eq_true, if_false]
    rw [feedMatch_name t' _ _ _ ht (scanClose_fst t' _)]
    simp [startElem, St.start, bind, Except.bind]

/-- **second root, at string level**: any strict rendering followed by whitespace and one more start tag — whatever
    comes after it — is rejected with a `ParseError` -/
theorem C08_second_root_rejected (t : Tree) (s w t' r : Str) (h : Renders true t s) (hw : ws w = true)
    (ht : tagOk t' = true) (hsafe : cdSafe (s ++ (w ++ (startTag t' ++ r))) = true) :
    parse (s ++ (w ++ (startTag t' ++ r))) = .error .parse := by
  have hsn := startsName_startTag t' r ht
  have hrun := renders_ok h w (startTag t' ++ r) St.init hw
    ⟨Or.inr (Or.inl hsn), fun tg _ => startsName_noEnd tg hsn⟩ hsafe (Or.inr rfl)
  rw [parse_eq, hrun]
  have : St.init.emit t = ⟨[], some t⟩ := rfl
  rw [this, start_after_root t' r t ht]

/-- **stray end tag after the root, at string level**: a strict rendering of an aggregate followed by whitespace and one
    more end tag is rejected -/
theorem C08_stray_end_rejected (tg : Str) (cs : List Tree) (s w t' r : Str) (h : Renders true (Tree.agg tg cs) s)
    (hw : ws w = true) (ht : tagOk t' = true) (hsafe : cdSafe (s ++ (w ++ (endTag t' ++ r))) = true) :
    ∃ e, parse (s ++ (w ++ (endTag t' ++ r))) = .error e := by
  have hse := startsEnd_endTag t' r ht
  have hrun := renders_ok h w (endTag t' ++ r) St.init hw
    ⟨Or.inr (Or.inr hse), fun tg' h' => by simp [Tree.agg, leafTag] at h'⟩ hsafe (Or.inr rfl)
  obtain ⟨htne, htc⟩ := tagChars ht
  have htc' : ∀ c ∈ '/' :: t', isTagChar c = true := by
    intro c hc
    rcases List.mem_cons.mp hc with rfl | h
    · exact tagChar_slash
    · exact htc c h
  have e3 : endTag t' ++ r = startTag ('/' :: t') ++ r := by simp [endTag, startTag]
  have hstep : ∀ m : Match, m.tag = '/' :: t' → ∃ e, step m (St.init.emit (Tree.agg tg cs)) = .error e := by
    intro m hm
    unfold step feedMatch
    simp only [hm, isEndTag, List.isEmpty_cons, Bool.false_eq_true, if_false, if_true]
    repeat' split
    all_goals exact ⟨_, rfl⟩
  have hmt := matchHere_tag ('/' :: t') r (by simp) htc'
  generalize hM : (Match.mk ('/' :: t') (scanBody r).1 (scanBody r).2.1 (scanClose ('/' :: t') (scanBody r).2.2).1 (scanTail (scanClose ('/' :: t') (scanBody r).2.2).2) (2 + ('/' :: t').length + (r.length - (scanClose ('/' :: t') (scanBody r).2.2).2.length) + optLen (scanTail (scanClose ('/' :: t') (scanBody r).2.2).2))) = M at hmt
  have hMt : M.tag = '/' :: t' := by rw [← hM]
  obtain ⟨e, he⟩ := hstep M hMt
  refine ⟨e, ?_⟩
  rw [parse_eq, hrun, e3,
    run_first_error _ _ _ e (by simp [startTag]) hmt he]

theorem mem_lstrip (l : Str) (c : Char) (hc : c ∈ l) (hs : isSpace c = false) : c ∈ lstrip l := by
  induction l with
  | nil => cases hc
  | cons a as ih =>
    unfold lstrip
    by_cases ha : isSpace a = true
    · simp only [ha, if_true]
      rcases List.mem_cons.mp hc with rfl | h
      · rw [hs] at ha; cases ha
      · exact ih h
    · simp only [ha]; exact hc

/-- `x.strip()` is non-empty as soon as `x` has a non-whitespace character -/
theorem strip_ne_nil (x : Str) (c : Char) (hc : c ∈ x) (hs : isSpace c = false) : strip x ≠ [] := by
  unfold strip rstrip
  have h1 : c ∈ lstrip x := mem_lstrip x c hc hs
  have h2 : c ∈ lstrip (lstrip x).reverse := mem_lstrip _ c (by simpa using h1) hs
  intro e
  have : lstrip (lstrip x).reverse = [] := by simpa using e
  rw [this] at h2; cases h2

theorem groom_nonblank (x : Str) (c : Char) (hc : c ∈ x) (hs : isSpace c = false) : truthy (groom (optStr x)) = true := by
  have hne := strip_ne_nil x c hc hs
  cases x with
  | nil => cases hc
  | cons a as =>
    simp only [optStr, groom]
    cases h : strip (a :: as) with
    | nil => exact absurd h hne
    | cons b bs => rfl

/-- **text after the root's end tag, at string level**: a strict rendering of an aggregate followed by text that is not
    all whitespace is rejected with a `ParseError` -/
theorem C08_text_after_root_rejected (tg : Str) (cs : List Tree) (s x : Str) (c : Char)
    (h : Renders true (Tree.agg tg cs) s) (hx : ∀ a ∈ x, notLt a = true) (hc : c ∈ x) (hs : isSpace c = false)
    (hsafe : cdSafe (s ++ x) = true) : parse (s ++ x) = .error .parse := by
  cases h with
  | agg _ w0 _ body ht h0 hl hself =>
    obtain ⟨htne, htc⟩ := tagChars ht
    obtain ⟨hshape, hlastOk⟩ := rendersList_facts hl
    -- the end tag of the root, with the offending text, as one token
    have htc' : ∀ a ∈ '/' :: tg, isTagChar a = true := by
      intro a ha
      rcases List.mem_cons.mp ha with rfl | h
      · exact tagChar_slash
      · exact htc a h
    have hxne : x ≠ [] := by intro e; subst e; cases hc
    have hm3 := matchHere_open ('/' :: tg) x [] (by simp) htc' hx (stops_nil _)
      (by simpa using dropPrefix_notLt x [] hxne hx) (by simp [endTag, dropPrefix])
    have hend : ∀ st : St, run (endTag tg ++ x) st = .error .parse := by
      intro st
      have e3 : endTag tg ++ x = startTag ('/' :: tg) ++ (x ++ []) := by simp [endTag, startTag]
      rw [e3]
      refine run_first_error _ _ st _ (by simp [startTag]) hm3 ?_
      unfold step feedMatch
      have h1' : truthy (groom none) = false := rfl
      have h2' : truthy (none : Option Str) = false := rfl
      simp [h1', h2', isEndTag, groom_nonblank x c hc hs]
    rcases hshape with ⟨rfl, rfl⟩ | ⟨-, hbody⟩
    · -- `<tg> w0 </tg> x`: one match whose tail is `x`
      have hm := matchHere_closed tg w0 x [] htne htc (ws_notLt h0) hx (stops_nil _)
      have e : (startTag tg ++ (w0 ++ ([] ++ endTag tg))) ++ x = startTag tg ++ (w0 ++ (endTag tg ++ (x ++ []))) := by simp
      rw [parse_eq, e]
      rw [run_first_error _ _ St.init .parse (by simp [startTag]) hm
        (by unfold step; simp [groom_nonblank x c hc hs])]
    · have hR1 : StartsName (body ++ (endTag tg ++ x)) := startsName_append _ hbody
      have hm1 := matchHere_open tg w0 (body ++ (endTag tg ++ x)) htne htc (ws_notLt h0)
        (after_stops (Or.inr (Or.inl hR1)))
        (dropPrefix_ws_or _ w0 _ ⟨_, rfl⟩ h0 (after_nocdata (Or.inr (Or.inl hR1))))
        (startsName_noEnd tg hR1)
      have e : (startTag tg ++ (w0 ++ (body ++ endTag tg))) ++ x = startTag tg ++ (w0 ++ (body ++ (endTag tg ++ x))) := by simp
      have hsafe2 : cdSafe (body ++ (endTag tg ++ x)) = true := by
        apply cdSafe_append_right (startTag tg ++ w0); simpa using hsafe
      have hlast : ∀ c, cs.getLast? = some c → ∀ tg', leafTag c = some tg' →
          dropPrefix (endTag tg') (endTag tg ++ x) = none := by
        intro c' hcl tg' htg'
        apply dropPrefix_endTag_ne tg' tg _ (hlastOk c' hcl tg' htg') ht
        intro e; subst e; exact hself rfl c' hcl htg'
      rw [parse_eq, e,
        run_tok' _ (startTag tg ++ w0) (body ++ (endTag tg ++ x)) _ St.init (St.init.push tg) (by simp) (by simp [startTag])
          hm1 rfl (step_open tg _ _ St.init ht (groom_ws w0 h0) (Or.inr rfl)),
        rendersList_ok hl (endTag tg ++ x) (St.init.push tg) (by simp [St.push])
          (Or.inr (Or.inr (startsEnd_endTag tg _ ht))) hlast hsafe2,
        hend]

end strings

end Ofx.C08
