/-
C08 — improperly nested or truncated markup is never accepted (DESIGN 6.8).

Since /repo's `fix: TreeBuilder rejects improperly nested or unclosed markup` the builder keeps the stack of open tags;
the model follows it and the positive statements are theorems:

* `C08_sound_iff`: `parse s` returns a tree **iff** the token list of `s` is `Balanced` (every start has its matching
  end, data elements and `<T></T>` close themselves, exactly one root, nothing after it, no text after an end tag or a
  closed element); it never returns `None` (`C08_never_none`); `C08_sound` is the direction of DESIGN 6.8.
  Proof: `step_sim` — one loop iteration of `feed` and one `balStep` of the specification simulate each other on
  (names of the open frames, root present), for every well-formed regex match (`toks_wf`).
* `C08_faults_*` (token level, hence for every body whose token list has the stated shape): deleting, duplicating,
  renaming an aggregate end tag, transposing two adjacent end tags of different names, inserting a stray end tag,
  text after an end tag / a closed element, anything after the completed root — each makes the body rejected.
* `C08_prefix_tokens`: every proper prefix of an accepted token sequence is rejected.
* `C08_truncation` (string level): every cut of a valid aggregate-rooted rendering at an element boundary (`OpenPrefix`:
  after the start tag, or after any number of complete children, at any depth, with any part of the whitespace that
  follows) is rejected; `C08_trailing_ws_harmless`: cuts inside the whitespace after the root's end tag are harmless.
  Cut points inside a token are covered by the correspondence (every character of every generated body), not by a theorem.
* string-level `C08_second_root_rejected`, `C08_stray_end_rejected`, `C08_text_after_root_rejected`,
  `C08_text_after_cdata_rejected` (since /repo's `fix: white space may follow a CDATA section` the white space after
  `]]>` belongs to the match and is no tail; text that is not white space after it still is the tail, and is refused).

What remains outside: characters the regex does not match are skipped by `finditer` before any of this applies (known
findings `unmatched-markup-skipped`, `text-before-root-skipped`): `Balanced` speaks about the token list.
-/
import OfxProofs.Lemmas.Builder
import OfxProofs.Props.C02

namespace Ofx.C08
open Ofx Ofx.Lexer Ofx.Builder Ofx.Spec

/-! ### abstraction of the builder state -/

def names (st : St) : List Str := st.stack.map (·.tag)
def done (st : St) : Bool := st.root.isSome

/-- while an element is open there is no finished root -/
def Inv (st : St) : Prop := st.stack ≠ [] → st.root = none

theorem inv_init : Inv St.init := fun h => absurd rfl h

theorem truthy_eq_nonEmpty (o : Option Str) : truthy o = nonEmpty o := by
  cases o with
  | none => rfl
  | some x => cases x <;> rfl

theorem endName_cons_ne (c : Char) (cs : Str) (h : c ≠ '/') : endName (c :: cs) = none := by
  unfold endName
  split
  · rename_i heq; cases heq; exact absurd rfl h
  · rfl

theorem isEndTag_endName (tag : Str) : isEndTag tag = (endName tag).isSome := by
  cases tag with
  | nil => rfl
  | cons c cs =>
    by_cases h : c = '/'
    · subst h; rfl
    · rw [isEndTag_cons_ne c cs h, endName_cons_ne c cs h]; rfl

theorem endName_drop (tag name : Str) (h : endName tag = some name) : tag.drop 1 = name := by
  cases tag with
  | nil => cases h
  | cons c cs =>
    by_cases hc : c = '/'
    · subst hc
      have : endName ('/' :: cs) = some cs := rfl
      rw [this] at h
      injection h with h
    · rw [endName_cons_ne c cs hc] at h; cases h

/-- what the specification sees of a builder result -/
def absR : PyM St → Option (List Str × Bool)
  | .ok st => some (names st, done st)
  | .error _ => none

theorem names_emit (t : Tree) (st : St) : names (st.emit t) = names st := by
  obtain ⟨stack, root⟩ := st
  cases stack <;> simp [St.emit, names, Frame.add]

theorem done_emit (t : Tree) (st : St) (h : Inv st) : done (st.emit t) = ((names st).isEmpty || done st) := by
  obtain ⟨stack, root⟩ := st
  cases stack with
  | nil => simp [St.emit, names, done]
  | cons f fs =>
    have : root = none := h (by simp)
    subst this
    simp [St.emit, names, done]

theorem inv_emit (t : Tree) (st : St) (h : Inv st) : Inv (st.emit t) := by
  obtain ⟨stack, root⟩ := st
  cases stack with
  | nil => intro h'; simp [St.emit] at h'
  | cons f fs => intro _; simpa [St.emit] using h (by simp)

theorem canStart_iff (st : St) : st.CanStart ↔ ((names st).isEmpty && done st) = false := by
  obtain ⟨stack, root⟩ := st
  cases stack with
  | nil => cases root <;> simp [St.CanStart, names, done]
  | cons f fs => simp [St.CanStart, names]

theorem start_error (tag : Str) (st : St) (h : ¬ st.CanStart) : st.start tag = .error .parse := by
  obtain ⟨stack, root⟩ := st
  cases stack with
  | cons f fs => exact absurd (Or.inl (by simp)) h
  | nil =>
    cases root with
    | none => exact absurd (Or.inr rfl) h
    | some r => rfl

/-! #### `end` -/

theorem end_abs (name : Str) (st : St) (hinv : Inv st) :
    absR (st.end_ name) =
      (match names st with
       | top :: rest => if top = name then some (rest, rest.isEmpty) else none
       | [] => none) := by
  obtain ⟨stack, root⟩ := st
  cases stack with
  | nil => rfl
  | cons f fs =>
    by_cases hf : f.tag = name
    · cases fs with
      | nil => simp [St.end_, names, done, hf, absR]
      | cons g gs =>
        have hr : root = none := hinv (by simp)
        subst hr
        simp [St.end_, names, done, hf, absR, Frame.add]
    · simp [St.end_, names, hf, absR]

theorem end_inv (name : Str) (st st' : St) (hinv : Inv st) (h : st.end_ name = .ok st') : Inv st' := by
  obtain ⟨stack, root⟩ := st
  cases stack with
  | nil => cases h
  | cons f fs =>
    by_cases hf : f.tag = name
    · cases fs with
      | nil =>
        simp only [St.end_, hf, ne_eq, not_true_eq_false, if_false] at h
        injection h with h; subst h; intro h'; exact absurd rfl h'
      | cons g gs =>
        simp only [St.end_, hf, ne_eq, not_true_eq_false, if_false] at h
        injection h with h; subst h
        intro _; exact hinv (by simp)
    · simp [St.end_, hf] at h

/-! #### `start` -/

theorem start_abs (tag : Str) (st : St) :
    absR (st.start tag) = if ((names st).isEmpty && done st) = true then none else some (tag :: names st, done st) := by
  by_cases hcs : st.CanStart
  · rw [start_ok tag st hcs, (canStart_iff st).mp hcs]
    simp [absR, St.push, names, done]
  · rw [start_error tag st hcs]
    have : ((names st).isEmpty && done st) = true := by
      cases h : ((names st).isEmpty && done st) with
      | true => rfl
      | false => exact absurd ((canStart_iff st).mpr h) hcs
    simp [absR, this]

theorem start_inv (tag : Str) (st st' : St) (hinv : Inv st) (h : st.start tag = .ok st') : Inv st' := by
  by_cases hcs : st.CanStart
  · rw [start_ok tag st hcs] at h
    injection h with h; subst h
    intro _
    simp only [St.push]
    rcases hcs with h1 | h1
    · exact hinv h1
    · exact h1
  · rw [start_error tag st hcs] at h; cases h

/-! #### `start; [data;] end` -/

/-- a data element or `<T></T>` -/
def startEnd (tag : Str) (d : Option Str) (st : St) : PyM St :=
  match st.start tag with
  | .ok st' => (match d with | some x => st'.data x | none => st').end_ tag
  | .error e => .error e

theorem startEnd_ok (tag : Str) (d : Option Str) (st : St) (hcs : st.CanStart) :
    ∃ tx, startEnd tag d st = .ok (st.emit (.node tag tx none [])) := by
  unfold startEnd
  rw [start_ok tag st hcs]
  cases d with
  | none => exact ⟨none, end_push tag none [] st⟩
  | some x => exact ⟨some x, by simpa [St.push, St.data] using end_push tag (some x) [] st⟩

theorem startEnd_abs (tag : Str) (d : Option Str) (st : St) (hinv : Inv st) :
    absR (startEnd tag d st) =
      if ((names st).isEmpty && done st) = true then none else some (names st, (names st).isEmpty || done st) := by
  by_cases hcs : st.CanStart
  · obtain ⟨tx, h⟩ := startEnd_ok tag d st hcs
    rw [h, (canStart_iff st).mp hcs]
    simp [absR, names_emit, done_emit _ st hinv]
  · have : ((names st).isEmpty && done st) = true := by
      cases h : ((names st).isEmpty && done st) with
      | true => rfl
      | false => exact absurd ((canStart_iff st).mpr h) hcs
    simp [startEnd, start_error tag st hcs, absR, this]

theorem startEnd_inv (tag : Str) (d : Option Str) (st st' : St) (hinv : Inv st) (h : startEnd tag d st = .ok st') :
    Inv st' := by
  by_cases hcs : st.CanStart
  · obtain ⟨tx, h'⟩ := startEnd_ok tag d st hcs
    rw [h'] at h; injection h with h; subst h
    exact inv_emit _ st hinv
  · simp [startEnd, start_error tag st hcs] at h

/-! #### the loop body -/

/-- the element data of a match, as `feed` computes it -/
def dataOf (m : Match) : Option Str := if truthy m.cdata = true then m.cdata else groom m.text

theorem hasData_eq (m : Match) (hw : WfMatch m) : truthy (dataOf m) = hasData m := by
  obtain ⟨-, -, hc⟩ := hw
  unfold hasData dataOf
  have hn : truthy (none : Option Str) = false := rfl
  rcases hc with h | ⟨h1, c, cs, h2⟩
  · simp only [h, hn, Bool.false_eq_true, if_false, truthy_groom, nonEmpty, Bool.false_or]
  · have ht : truthy (some (c :: cs)) = true := rfl
    simp only [h1, h2, ht, if_true, nonEmpty, Bool.true_or]

theorem assert_never (m : Match) (hw : WfMatch m) : (truthy m.cdata && truthy (groom m.text)) = false := by
  obtain ⟨-, -, hc⟩ := hw
  have hn : truthy (none : Option Str) = false := rfl
  rcases hc with h | ⟨h1, -⟩
  · simp [h, hn]
  · have : groom (none : Option Str) = none := rfl
    simp [h1, this, hn]

theorem startElem_data (tag : Str) (d closetag : Option Str) (st : St) (hd : truthy d = true) :
    startElem tag d closetag st = startEnd tag d st := by
  unfold startElem startEnd
  cases d with
  | none => cases hd
  | some x =>
    cases x with
    | nil => cases hd
    | cons c cs => cases st.start tag <;> rfl

theorem startElem_nodata (tag : Str) (d closetag : Option Str) (st : St) (hd : truthy d = false) :
    startElem tag d closetag st = if truthy closetag = true then startEnd tag none st else st.start tag := by
  have key : (do let st' ← st.start tag
                 if truthy closetag = true then st'.end_ tag else pure st' : PyM St)
      = if truthy closetag = true then startEnd tag none st else st.start tag := by
    unfold startEnd
    cases hs : st.start tag with
    | error e => simp [bind, Except.bind]
    | ok st' => simp only [bind, Except.bind]; split <;> rfl
  unfold startElem
  cases d with
  | none => exact key
  | some x =>
    cases x with
    | nil => exact key
    | cons c cs => cases hd

/-- `step` in the shape of the specification -/
theorem step_eq (m : Match) (st : St) (hw : WfMatch m) :
    step m st =
      if blank m.tail = false then .error .parse
      else match endName m.tag with
        | some name => if hasData m = true then .error .parse else st.end_ name
        | none =>
          if hasData m = true then startEnd m.tag (dataOf m) st
          else if m.closetag.isSome = true then startEnd m.tag none st
          else st.start m.tag := by
  have hd := hasData_eq m hw
  have hassert := assert_never m hw
  obtain ⟨htag, hclose, -⟩ := hw
  unfold step
  rw [truthy_groom]
  cases hb : blank m.tail with
  | false => rfl
  | true =>
    simp only [Bool.not_true, Bool.false_eq_true, if_false, hassert]
    unfold feedMatch
    have hne : m.tag.isEmpty = false := by
      cases h : m.tag with
      | nil => exact absurd h htag
      | cons a as => rfl
    have hcl2 : (m.closetag == none || m.closetag == some m.tag) = true := by
      rcases hclose with h | h <;> simp [h]
    have hfold : (if truthy m.cdata = true then m.cdata else groom m.text) = dataOf m := rfl
    simp only [hne, Bool.false_eq_true, if_false, hcl2, Bool.not_true, isEndTag_endName, hfold]
    cases hen : endName m.tag with
    | some name =>
      simp only [Option.isSome_some, if_true, hd, endName_drop _ _ hen, Bool.true_eq_false, if_false]
    | none =>
      simp only [Option.isSome_none, Bool.false_eq_true, if_false]
      cases hdat : hasData m with
      | true =>
        rw [hdat] at hd
        simp only [if_true, Bool.true_eq_false, if_false]
        exact startElem_data _ _ _ st hd
      | false =>
        rw [hdat] at hd
        simp only [Bool.false_eq_true, if_false]
        rw [startElem_nodata _ _ _ st hd]
        have : truthy m.closetag = m.closetag.isSome := by
          rcases hclose with h | h
          · rw [h]; rfl
          · rw [h]
            cases h2 : m.tag with
            | nil => exact absurd h2 htag
            | cons a as => rfl
        rw [this]
        simp only [Bool.true_eq_false, if_false]

/-- **one iteration of `feed` = one step of the specification** -/
theorem step_abs (m : Match) (st : St) (hw : WfMatch m) (hinv : Inv st) :
    absR (step m st) = balStep m (names st) (done st) := by
  rw [step_eq m st hw]
  unfold balStep
  cases hb : blank m.tail with
  | false => rfl
  | true =>
    simp only [Bool.true_eq_false, if_false, Bool.not_true, Bool.false_eq_true]
    cases hen : endName m.tag with
    | some name =>
      simp only
      cases hdat : hasData m with
      | true => rfl
      | false => simp only [Bool.false_eq_true, if_false]; exact end_abs name st hinv
    | none =>
      simp only
      cases hdat : hasData m with
      | true =>
        simp only [if_true, Bool.true_or]
        exact startEnd_abs _ _ st hinv
      | false =>
        simp only [Bool.false_eq_true, if_false, Bool.false_or]
        cases hc : m.closetag.isSome with
        | true => simp only [if_true]; exact startEnd_abs _ _ st hinv
        | false => simp only [Bool.false_eq_true, if_false]; exact start_abs _ st

theorem step_inv (m : Match) (st st' : St) (hw : WfMatch m) (hinv : Inv st) (h : step m st = .ok st') : Inv st' := by
  rw [step_eq m st hw] at h
  cases hb : blank m.tail with
  | false => simp [hb] at h
  | true =>
    simp only [hb, Bool.true_eq_false, if_false] at h
    cases hen : endName m.tag with
    | some name =>
      simp only [hen] at h
      cases hdat : hasData m with
      | true => simp [hdat] at h
      | false => simp only [hdat, Bool.false_eq_true, if_false] at h; exact end_inv name st st' hinv h
    | none =>
      simp only [hen] at h
      cases hdat : hasData m with
      | true => simp only [hdat, if_true] at h; exact startEnd_inv _ _ st st' hinv h
      | false =>
        simp only [hdat, Bool.false_eq_true, if_false] at h
        cases hc : m.closetag.isSome with
        | true => simp only [hc, if_true] at h; exact startEnd_inv _ _ st st' hinv h
        | false => simp only [hc, Bool.false_eq_true, if_false] at h; exact start_inv _ st st' hinv h

/-! ### the whole run -/

/-- the specification's run over a token list -/
def balRun : List Match → List Str → Bool → Option (List Str × Bool)
  | [], s, d => some (s, d)
  | m :: ms, s, d =>
    match balStep m s d with
    | some (s', d') => balRun ms s' d'
    | none => none

theorem balancedGo_eq (ms : List Match) (s : List Str) (d : Bool) :
    balancedGo ms s d = (match balRun ms s d with | some (s', d') => s'.isEmpty && d' | none => false) := by
  induction ms generalizing s d with
  | nil => rfl
  | cons m ms ih =>
    simp only [balancedGo, balRun]
    cases balStep m s d with
    | none => rfl
    | some p => exact ih p.1 p.2

theorem feedToks_abs (ms : List Match) (st : St) (hw : ∀ m ∈ ms, WfMatch m) (hinv : Inv st) :
    absR (feedToks ms st) = balRun ms (names st) (done st) ∧ ∀ st', feedToks ms st = .ok st' → Inv st' := by
  induction ms generalizing st with
  | nil => exact ⟨rfl, fun st' h => by injection h with h; subst h; exact hinv⟩
  | cons m ms ih =>
    have hm := hw m (by simp)
    have ha := step_abs m st hm hinv
    simp only [feedToks, balRun]
    cases hs : step m st with
    | error e =>
      rw [hs] at ha
      simp only [absR] at ha
      rw [← ha]
      exact ⟨rfl, fun st' h => by cases h⟩
    | ok st1 =>
      rw [hs] at ha
      simp only [absR] at ha
      rw [← ha]
      exact ih st1 (fun m' hm' => hw m' (by simp [hm'])) (step_inv m st st1 hm hinv hs)

theorem close_ok_iff (st : St) : (∃ t, st.close = .ok t) ↔ ((names st).isEmpty && done st) = true := by
  obtain ⟨stack, root⟩ := st
  cases stack with
  | nil => cases root <;> simp [St.close, names, done]
  | cons f fs => simp [St.close, names]

/-- `close()` never hands back `None` any more -/
theorem C08_never_none (s : Str) : parse s ≠ .ok none := by
  unfold parse
  cases feed s with
  | error e => intro h; cases h
  | ok st =>
    simp only
    cases st.close with
    | error e => intro h; cases h
    | ok r => intro h; cases h

/-- **C08_sound_iff**: a tree is returned exactly for the bodies whose tokens are properly nested and closed -/
theorem C08_sound_iff (s : Str) : (∃ t, parse s = .ok (some t)) ↔ balanced (toks s) = true := by
  have hf := feedToks_abs (toks s) St.init (toks_wf s) inv_init
  have hn : names St.init = [] := rfl
  have hd : done St.init = false := rfl
  rw [hn, hd] at hf
  unfold balanced
  rw [balancedGo_eq]
  unfold parse feed
  cases hr : feedToks (toks s) St.init with
  | error e =>
    rw [hr] at hf
    simp only [absR] at hf
    rw [← hf.1]
    simp
  | ok st =>
    rw [hr] at hf
    simp only [absR] at hf
    rw [← hf.1]
    simp only
    rw [← close_ok_iff st]
    constructor
    · rintro ⟨t, ht⟩
      cases hc : st.close with
      | error e => rw [hc] at ht; cases ht
      | ok r => exact ⟨r, rfl⟩
    · rintro ⟨t, ht⟩
      exact ⟨t, by rw [ht]⟩

/-- **C08_sound** (DESIGN 6.8): whatever `feed; close` returns is a tree, and the body's tokens are `Balanced` -/
theorem C08_sound (s : Str) (r : Option Tree) (h : parse s = .ok r) : ∃ t, r = some t ∧ balanced (toks s) = true := by
  cases r with
  | none => exact absurd h (C08_never_none s)
  | some t => exact ⟨t, rfl, (C08_sound_iff s).mp ⟨t, h⟩⟩

/-- a body whose tokens are not `Balanced` raises -/
theorem C08_reject_unbalanced (s : Str) (h : balanced (toks s) = false) : ∃ e, parse s = .error e := by
  cases hp : parse s with
  | error e => exact ⟨e, rfl⟩
  | ok r =>
    obtain ⟨t, -, hb⟩ := C08_sound s r hp
    rw [h] at hb; cases hb

/-! ### token-level faults -/

theorem balRun_append (a b : List Match) (s : List Str) (d : Bool) :
    balRun (a ++ b) s d = (match balRun a s d with | some (s', d') => balRun b s' d' | none => none) := by
  induction a generalizing s d with
  | nil => rfl
  | cons m ms ih =>
    simp only [List.cons_append, balRun]
    cases balStep m s d with
    | none => rfl
    | some p => exact ih p.1 p.2

theorem balanced_iff (ms : List Match) : balanced ms = true ↔ balRun ms [] false = some ([], true) := by
  unfold balanced
  rw [balancedGo_eq]
  cases balRun ms [] false with
  | none => simp
  | some p =>
    obtain ⟨s', d'⟩ := p
    cases s' <;> cases d' <;> simp

/-- once the root is complete no token is acceptable -/
theorem balStep_done (m : Match) : balStep m [] true = none := by
  unfold balStep
  split
  · rfl
  · split
    · split <;> rfl
    · rfl

/-- **anything after the completed root** (a second root, a stray end tag, …) makes the body unbalanced -/
theorem C08_faults_after_root (ms ms' : List Match) (h : balanced ms = true) (hne : ms' ≠ []) :
    balanced (ms ++ ms') = false := by
  cases ms' with
  | nil => exact absurd rfl hne
  | cons m rest =>
    have h1 := (balanced_iff ms).mp h
    cases hb : balanced (ms ++ m :: rest) with
    | false => rfl
    | true =>
      have h2 := (balanced_iff _).mp hb
      rw [balRun_append, h1] at h2
      simp only [balRun, balStep_done] at h2
      cases h2

/-- **C08_prefix_tokens**: every proper prefix of an accepted token sequence is rejected -/
theorem C08_prefix_tokens (ms ms' : List Match) (h : balanced (ms ++ ms') = true) (hne : ms' ≠ []) :
    balanced ms = false := by
  cases hb : balanced ms with
  | false => rfl
  | true => rw [C08_faults_after_root ms ms' hb hne] at h; cases h

theorem balRun_none_of_mem (ms : List Match) (m : Match) (hm : m ∈ ms) (h : ∀ s d, balStep m s d = none) :
    ∀ s d, balRun ms s d = none := by
  induction ms with
  | nil => cases hm
  | cons a as ih =>
    intro s d
    simp only [balRun]
    rcases List.mem_cons.mp hm with rfl | hmem
    · rw [h s d]
    · cases balStep a s d with
      | none => rfl
      | some p => exact ih hmem p.1 p.2

theorem not_balanced_of_run_none (ms : List Match) (h : balRun ms [] false = none) : balanced ms = false := by
  cases hb : balanced ms with
  | false => rfl
  | true => rw [(balanced_iff ms).mp hb] at h; cases h

/-- **text after a closed element** (non-blank tail) anywhere -/
theorem C08_faults_tail (ms : List Match) (m : Match) (hm : m ∈ ms) (ht : blank m.tail = false) : balanced ms = false :=
  not_balanced_of_run_none ms (balRun_none_of_mem ms m hm (fun s d => by simp [balStep, ht]) [] false)

set_option linter.unusedSimpArgs false in
/-- **text (or CDATA) after an end tag** anywhere -/
theorem C08_faults_text_after_end (ms : List Match) (m : Match) (name : Str) (hm : m ∈ ms)
    (hend : endName m.tag = some name) (hd : hasData m = true) : balanced ms = false :=
  not_balanced_of_run_none ms (balRun_none_of_mem ms m hm (fun s d => by
    unfold balStep
    split
    · rfl
    · simp [hend, hd]) [] false)

/-- the state of the specification before an end tag that is accepted: its name is on top -/
theorem balStep_end_top (e : Match) (n : Str) (s : List Str) (d : Bool) (p : List Str × Bool)
    (hn : endName e.tag = some n) (h : balStep e s d = some p) : ∃ rest, s = n :: rest := by
  unfold balStep at h
  split at h
  · cases h
  · simp only [hn] at h
    split at h
    · cases h
    · cases s with
      | nil => cases h
      | cons top rest =>
        simp only at h
        split at h
        · rename_i ht; exact ⟨rest, by rw [ht]⟩
        · cases h

theorem balStep_end_mismatch (e : Match) (n n' : Str) (rest : List Str) (d : Bool)
    (hn : endName e.tag = some n') (hne : n' ≠ n) : balStep e (n :: rest) d = none := by
  unfold balStep
  split
  · rfl
  · simp only [hn]
    split
    · rfl
    · simp [Ne.symm hne]

/-- **renamed end tag**: replace an end tag by one with a different name -/
theorem C08_faults_rename (pre post : List Match) (e e' : Match) (n n' : Str)
    (h : balanced (pre ++ e :: post) = true) (hn : endName e.tag = some n) (hn' : endName e'.tag = some n')
    (hne : n' ≠ n) : balanced (pre ++ e' :: post) = false := by
  have h1 := (balanced_iff _).mp h
  rw [balRun_append] at h1
  apply not_balanced_of_run_none
  rw [balRun_append]
  cases hp : balRun pre [] false with
  | none => rfl
  | some p =>
    rw [hp] at h1
    simp only [balRun] at h1 ⊢
    cases he : balStep e p.1 p.2 with
    | none => rw [he] at h1; cases h1
    | some q =>
      obtain ⟨rest, hs⟩ := balStep_end_top e n p.1 p.2 q hn he
      rw [hs, balStep_end_mismatch e' n n' rest p.2 hn' hne]

/-- **transposed end tags**: two adjacent end tags of different names, swapped -/
theorem C08_faults_transpose (pre post : List Match) (e1 e2 : Match) (n1 n2 : Str)
    (h : balanced (pre ++ e1 :: e2 :: post) = true) (h1 : endName e1.tag = some n1) (h2 : endName e2.tag = some n2)
    (hne : n2 ≠ n1) : balanced (pre ++ e2 :: e1 :: post) = false := by
  have hb := (balanced_iff _).mp h
  rw [balRun_append] at hb
  apply not_balanced_of_run_none
  rw [balRun_append]
  cases hp : balRun pre [] false with
  | none => rfl
  | some p =>
    rw [hp] at hb
    simp only [balRun] at hb ⊢
    cases he : balStep e1 p.1 p.2 with
    | none => rw [he] at hb; cases hb
    | some q =>
      obtain ⟨rest, hs⟩ := balStep_end_top e1 n1 p.1 p.2 q h1 he
      rw [hs, balStep_end_mismatch e2 n1 n2 rest p.2 h2 hne]

/-! #### counting: as many end tags as opened aggregates -/

def isEnd (m : Match) : Bool := (endName m.tag).isSome
def opens (m : Match) : Bool := !isEnd m && !(hasData m || m.closetag.isSome)

theorem balStep_count (m : Match) (s s' : List Str) (d d' : Bool) (h : balStep m s d = some (s', d')) :
    s'.length + (if isEnd m = true then 1 else 0) = s.length + (if opens m = true then 1 else 0) := by
  unfold balStep at h
  unfold opens isEnd
  split at h
  · cases h
  · cases hen : endName m.tag with
    | some name =>
      simp only [hen] at h
      split at h
      · cases h
      · cases s with
        | nil => cases h
        | cons top rest =>
          simp only at h
          split at h
          · injection h with h; injection h with h1 h2; subst h1; simp
          · cases h
    | none =>
      simp only [hen] at h
      split at h
      · cases h
      · split at h
        · rename_i hc
          injection h with h; injection h with h1 h2; subst h1
          simp [hc]
        · rename_i hc
          injection h with h; injection h with h1 h2; subst h1
          have : (hasData m || m.closetag.isSome) = false := by simpa using hc
          simp [this]

theorem balRun_count (ms : List Match) (s s' : List Str) (d d' : Bool) (h : balRun ms s d = some (s', d')) :
    s'.length + ms.countP isEnd = s.length + ms.countP opens := by
  induction ms generalizing s d with
  | nil => simp only [balRun] at h; injection h with h; injection h with h1 h2; subst h1; simp
  | cons m ms ih =>
    simp only [balRun] at h
    cases hb : balStep m s d with
    | none => rw [hb] at h; cases h
    | some p =>
      rw [hb] at h
      have h1 := balStep_count m s p.1 d p.2 hb
      have h2 := ih p.1 p.2 h
      simp only [List.countP_cons]
      split at h1 <;> split at h1 <;> simp_all <;> omega

theorem balanced_count (ms : List Match) (h : balanced ms = true) : ms.countP isEnd = ms.countP opens := by
  have := balRun_count ms [] [] false true ((balanced_iff ms).mp h)
  simpa using this

theorem isEnd_not_opens (e : Match) (h : isEnd e = true) : opens e = false := by simp [opens, h]

/-- **deleted end tag** -/
theorem C08_faults_delete (pre post : List Match) (e : Match) (h : balanced (pre ++ e :: post) = true)
    (he : isEnd e = true) : balanced (pre ++ post) = false := by
  cases hb : balanced (pre ++ post) with
  | false => rfl
  | true =>
    have c1 := balanced_count _ h
    have c2 := balanced_count _ hb
    simp only [List.countP_append, List.countP_cons, he, isEnd_not_opens e he, if_true] at c1 c2
    simp at c1
    omega

/-- **duplicated end tag** -/
theorem C08_faults_duplicate (pre post : List Match) (e : Match) (h : balanced (pre ++ e :: post) = true)
    (he : isEnd e = true) : balanced (pre ++ e :: e :: post) = false := by
  cases hb : balanced (pre ++ e :: e :: post) with
  | false => rfl
  | true =>
    have c1 := balanced_count _ h
    have c2 := balanced_count _ hb
    simp only [List.countP_append, List.countP_cons, he, isEnd_not_opens e he, if_true] at c1 c2
    simp at c1 c2
    omega

/-- **stray end tag** inserted anywhere -/
theorem C08_faults_stray_end (pre post : List Match) (e : Match) (h : balanced (pre ++ post) = true)
    (he : isEnd e = true) : balanced (pre ++ e :: post) = false := by
  cases hb : balanced (pre ++ e :: post) with
  | false => rfl
  | true =>
    have c1 := balanced_count _ h
    have c2 := balanced_count _ hb
    simp only [List.countP_append, List.countP_cons, he, isEnd_not_opens e he, if_true] at c1 c2
    simp at c2
    omega

/-- the bridge: a body whose token list is a faulted version of a balanced one is rejected
    (instantiate `hfault` with any of the `C08_faults_*` theorems) -/
theorem C08_faults_rejected (s' : Str) (ms' : List Match) (hs : toks s' = ms') (hfault : balanced ms' = false) :
    ∃ e, parse s' = .error e :=
  C08_reject_unbalanced s' (by rw [hs]; exact hfault)

/-! ### string level -/

section strings
open Ofx.C02

/-- the first token raises: so does the run -/
theorem run_first_error (tok : Str) (m : Match) (st : St) (e : Err) (hne : tok ≠ [])
    (hm : matchHere tok = some m) (hs : step m st = .error e) : run tok st = .error e := by
  cases tok with
  | nil => exact absurd rfl hne
  | cons c cs => simp only [run, toks, toksGo, hm, feedToks, hs]

/-- the bodies obtained by cutting a valid aggregate-rooted rendering at an element boundary: after the start tag (and
    any part of the whitespace behind it), or after any number of complete children (each with any part of the
    whitespace behind it), at any depth -/
inductive OpenPrefix : Str → Prop
  | here (t w0 : Str) (cs : List Tree) (body : Str) : tagOk t = true → ws w0 = true → RendersList true cs body →
      OpenPrefix (startTag t ++ (w0 ++ body))
  | deeper (t w0 : Str) (cs : List Tree) (body p : Str) : tagOk t = true → ws w0 = true → RendersList true cs body →
      OpenPrefix p → OpenPrefix (startTag t ++ (w0 ++ (body ++ p)))

theorem openPrefix_startsName {p : Str} (h : OpenPrefix p) : StartsName p := by
  cases h with
  | here t w0 cs body ht => exact startsName_startTag _ _ ht
  | deeper t w0 cs body p ht => exact startsName_startTag _ _ ht

/-- feeding an open prefix leaves at least one element open -/
theorem openPrefix_run {p : Str} (h : OpenPrefix p) :
    ∀ st : St, st.CanStart → ∃ st', run p st = .ok st' ∧ st'.stack ≠ [] := by
  induction h with
  | here t w0 cs body ht h0 hl =>
    intro st hst
    obtain ⟨htne, htc⟩ := tagChars ht
    obtain ⟨hshape, -⟩ := rendersList_facts hl
    have haft : After body := by
      rcases hshape with ⟨-, rfl⟩ | ⟨-, hb⟩
      · exact Or.inl rfl
      · exact Or.inr (Or.inl hb)
    have hcl : dropPrefix (endTag t) body = none := by
      rcases hshape with ⟨-, rfl⟩ | ⟨-, hb⟩
      · rfl
      · exact startsName_noEnd t hb
    have hm := matchHere_open t w0 body htne htc (ws_notLt h0) (after_stops haft)
      (dropPrefix_ws_or _ w0 body ⟨_, rfl⟩ h0 (after_nocdata haft)) hcl
    have h1 : run (startTag t ++ (w0 ++ body)) st = run body (st.push t) :=
      run_tok' _ (startTag t ++ w0) body _ st _ (by simp) (by simp [startTag]) hm rfl
        (step_open t _ _ st ht (groom_ws w0 h0) hst)
    have h2 := rendersList_ok hl [] (st.push t) (by simp [St.push]) (Or.inl rfl)
      (fun _ _ tg _ => by simp [endTag, dropPrefix])
    simp only [List.append_nil] at h2
    refine ⟨_, by rw [h1, h2, run_nil], ?_⟩
    simp [addKids_push]
  | deeper t w0 cs body p ht h0 hl hp ih =>
    intro st hst
    obtain ⟨htne, htc⟩ := tagChars ht
    have hpn := openPrefix_startsName hp
    have hR : StartsName (body ++ p) := by
      obtain ⟨hshape, -⟩ := rendersList_facts hl
      rcases hshape with ⟨-, rfl⟩ | ⟨-, hb⟩
      · simpa using hpn
      · exact startsName_append _ hb
    have hm := matchHere_open t w0 (body ++ p) htne htc (ws_notLt h0) (after_stops (Or.inr (Or.inl hR)))
      (dropPrefix_ws_or _ w0 _ ⟨_, rfl⟩ h0 (after_nocdata (Or.inr (Or.inl hR)))) (startsName_noEnd t hR)
    have h1 : run (startTag t ++ (w0 ++ (body ++ p))) st = run (body ++ p) (st.push t) :=
      run_tok' _ (startTag t ++ w0) (body ++ p) _ st _ (by simp) (by simp [startTag]) hm rfl
        (step_open t _ _ st ht (groom_ws w0 h0) hst)
    have h2 := rendersList_ok hl p (st.push t) (by simp [St.push]) (Or.inr (Or.inl hpn))
      (fun _ _ tg _ => startsName_noEnd tg hpn)
    obtain ⟨st', hr, hne⟩ := ih (addKids cs (st.push t)) (Or.inl (by simp [addKids_push]))
    exact ⟨st', by rw [h1, h2, hr], hne⟩

/-- **C08_truncation**: every cut of a valid aggregate-rooted body at an element boundary is rejected (`ParseError`:
    missing end tag) -/
theorem C08_truncation (p : Str) (h : OpenPrefix p) : parse p = .error .parse := by
  obtain ⟨st', hr, hne⟩ := openPrefix_run h St.init (Or.inr rfl)
  rw [parse_eq, hr]
  obtain ⟨stack, root⟩ := st'
  cases stack with
  | nil => exact absurd rfl hne
  | cons f fs => rfl

/-- in particular: a valid aggregate without its final end tag -/
theorem C08_truncation_final (t w0 : Str) (cs : List Tree) (body : Str) (ht : tagOk t = true) (h0 : ws w0 = true)
    (hl : RendersList true cs body) : parse (startTag t ++ (w0 ++ body)) = .error .parse :=
  C08_truncation _ (OpenPrefix.here t w0 cs body ht h0 hl)

/-- cut points inside the whitespace after the root's end tag are harmless: the same tree is returned -/
theorem C08_trailing_ws_harmless (t : Tree) (s w : Str) (h : Renders true t s) (hw : ws w = true) :
    parse (s ++ w) = .ok (some t) :=
  C02_complete_doc t (s ++ w) ⟨[], s, w, rfl, hw, h, rfl⟩

theorem scanBody_excl (r : Str) : (scanBody r).1 = none ∨ (scanBody r).2.1 = none := by
  rcases scanBody_wf r with h | ⟨h, -⟩
  · exact Or.inl h
  · exact Or.inr h

/-- a start tag met when the root is complete raises `ParseError`, whatever follows it -/
theorem start_after_root (t' r : Str) (root : Tree) (ht : tagOk t' = true) :
    run (startTag t' ++ r) ⟨[], some root⟩ = .error .parse := by
  obtain ⟨htne, htc⟩ := tagChars ht
  refine run_first_error _ _ _ _ (by simp [startTag]) (matchHere_tag t' r htne htc) ?_
  unfold step
  simp only
  split
  · rfl
  · have hex := scanBody_excl r
    have hassert : (truthy (scanBody r).1 && truthy (groom (scanBody r).2.1)) = false := by
      rcases hex with h | h
      · simp [h, truthy]
      · simp [h, groom, truthy]
    simp only [hassert, Bool.false_eq_true, if_false]
    rw [feedMatch_name t' _ _ _ ht (scanClose_wf t' _)]
    simp [startElem, St.start, bind, Except.bind]

/-- **second root**: any valid body followed by whitespace and one more start tag — whatever comes after it — is
    rejected with a `ParseError` -/
theorem C08_second_root_rejected (t : Tree) (s w t' r : Str) (h : Renders true t s) (hw : ws w = true)
    (ht : tagOk t' = true) : parse (s ++ (w ++ (startTag t' ++ r))) = .error .parse := by
  have hsn := startsName_startTag t' r ht
  have hrun := renders_ok h w (startTag t' ++ r) St.init hw
    ⟨Or.inr (Or.inl hsn), fun tg _ => startsName_noEnd tg hsn⟩ (Or.inr rfl)
  rw [parse_eq, hrun]
  have : St.init.emit t = ⟨[], some t⟩ := rfl
  rw [this, start_after_root t' r t ht]

/-- **stray end tag after the root**: a valid aggregate followed by whitespace and one more end tag is rejected -/
theorem C08_stray_end_rejected (tg : Str) (cs : List Tree) (s w t' r : Str) (h : Renders true (Tree.agg tg cs) s)
    (hw : ws w = true) (ht : tagOk t' = true) : ∃ e, parse (s ++ (w ++ (endTag t' ++ r))) = .error e := by
  have hse := startsEnd_endTag t' r ht
  have hrun := renders_ok h w (endTag t' ++ r) St.init hw
    ⟨Or.inr (Or.inr hse), fun tg' h' => by simp [Tree.agg, leafTag] at h'⟩ (Or.inr rfl)
  obtain ⟨htne, htc⟩ := tagChars ht
  have htc' : ∀ c ∈ '/' :: t', isTagChar c = true := by
    intro c hc
    rcases List.mem_cons.mp hc with rfl | h
    · exact tagChar_slash
    · exact htc c h
  have e3 : endTag t' ++ r = startTag ('/' :: t') ++ r := by simp [endTag, startTag]
  have hstep : ∀ m : Match, m.tag = '/' :: t' → ∃ e, step m (St.init.emit (Tree.agg tg cs)) = .error e := by
    intro m hm
    unfold step feedMatch
    simp only [hm, isEndTag, List.isEmpty_cons, Bool.false_eq_true, if_false, if_true]
    repeat' split
    all_goals exact ⟨_, rfl⟩
  have hmt := matchHere_tag ('/' :: t') r (by simp) htc'
  generalize hM : (Match.mk ('/' :: t') (scanBody r).1 (scanBody r).2.1 (scanClose ('/' :: t') (scanBody r).2.2).1 (scanTail (scanClose ('/' :: t') (scanBody r).2.2).2) (2 + ('/' :: t').length + (r.length - (scanClose ('/' :: t') (scanBody r).2.2).2.length) + optLen (scanTail (scanClose ('/' :: t') (scanBody r).2.2).2))) = M at hmt
  have hMt : M.tag = '/' :: t' := by rw [← hM]
  obtain ⟨e, he⟩ := hstep M hMt
  refine ⟨e, ?_⟩
  rw [parse_eq, hrun, e3, run_first_error _ _ _ e (by simp [startTag]) hmt he]

/-- **text after the root's end tag, at string level**: a strict rendering of an aggregate followed by text that is not
    all whitespace is rejected with a `ParseError` -/
theorem C08_text_after_root_rejected (tg : Str) (cs : List Tree) (s x : Str) (c : Char)
    (h : Renders true (Tree.agg tg cs) s) (hx : ∀ a ∈ x, notLt a = true) (hc : c ∈ x) (hs : isSpace c = false)
    : parse (s ++ x) = .error .parse := by
  cases h with
  | agg _ w0 _ body ht h0 hl hself =>
    obtain ⟨htne, htc⟩ := tagChars ht
    obtain ⟨hshape, hlastOk⟩ := rendersList_facts hl
    -- the end tag of the root, with the offending text, as one token
    have htc' : ∀ a ∈ '/' :: tg, isTagChar a = true := by
      intro a ha
      rcases List.mem_cons.mp ha with rfl | h
      · exact tagChar_slash
      · exact htc a h
    have hxne : x ≠ [] := by intro e; subst e; cases hc
    have hm3 := matchHere_open ('/' :: tg) x [] (by simp) htc' hx (stops_nil _)
      (by simpa using dropPrefix_notLt x [] hxne hx) (by simp [endTag, dropPrefix])
    have hend : ∀ st : St, run (endTag tg ++ x) st = .error .parse := by
      intro st
      have e3 : endTag tg ++ x = startTag ('/' :: tg) ++ (x ++ []) := by simp [endTag, startTag]
      rw [e3]
      refine run_first_error _ _ st _ (by simp [startTag]) hm3 ?_
      unfold step feedMatch
      have h1' : truthy (groom none) = false := rfl
      have h2' : truthy (none : Option Str) = false := rfl
      simp [h1', h2', isEndTag, groom_nonblank x c hc hs]
    rcases hshape with ⟨rfl, rfl⟩ | ⟨-, hbody⟩
    · -- `<tg> w0 </tg> x`: one match whose tail is `x`
      have hm := matchHere_closed tg w0 x [] htne htc (ws_notLt h0) hx (stops_nil _)
      have e : (startTag tg ++ (w0 ++ ([] ++ endTag tg))) ++ x = startTag tg ++ (w0 ++ (endTag tg ++ (x ++ []))) := by simp
      rw [parse_eq, e]
      rw [run_first_error _ _ St.init .parse (by simp [startTag]) hm
        (by unfold step; simp [groom_nonblank x c hc hs])]
    · have hR1 : StartsName (body ++ (endTag tg ++ x)) := startsName_append _ hbody
      have hm1 := matchHere_open tg w0 (body ++ (endTag tg ++ x)) htne htc (ws_notLt h0)
        (after_stops (Or.inr (Or.inl hR1)))
        (dropPrefix_ws_or _ w0 _ ⟨_, rfl⟩ h0 (after_nocdata (Or.inr (Or.inl hR1))))
        (startsName_noEnd tg hR1)
      have e : (startTag tg ++ (w0 ++ (body ++ endTag tg))) ++ x = startTag tg ++ (w0 ++ (body ++ (endTag tg ++ x))) := by simp
      have hlast : ∀ c, cs.getLast? = some c → ∀ tg', leafTag c = some tg' →
          dropPrefix (endTag tg') (endTag tg ++ x) = none := by
        intro c' hcl tg' htg'
        apply dropPrefix_endTag_ne tg' tg _ (hlastOk c' hcl tg' htg') ht
        intro e; subst e; exact hself rfl c' hcl htg'
      rw [parse_eq, e,
        run_tok' _ (startTag tg ++ w0) (body ++ (endTag tg ++ x)) _ St.init (St.init.push tg) (by simp) (by simp [startTag])
          hm1 rfl (step_open tg _ _ St.init ht (groom_ws w0 h0) (Or.inr rfl)),
        rendersList_ok hl (endTag tg ++ x) (St.init.push tg) (by simp [St.push])
          (Or.inr (Or.inr (startsEnd_endTag tg _ ht))) hlast,
        hend]

/-- **text after a CDATA section**: `<t><![CDATA[d]]>`, any white space, then text that is not white space — wherever
    it stands (any builder state), whatever markup follows — raises `ParseError`: the white space is passed over by
    `\s*`, the text is the match's `tail` -/
theorem C08_text_after_cdata_rejected (t d w x rest : Str) (c : Char) (st : St) (ht : tagOk t = true)
    (hd : dataOk d = true) (hcd : cdataOk d = true) (hw : ws w = true) (hc : isSpace c = false)
    (hx : ∀ a ∈ c :: x, notLt a = true) (hrest : Stops notLt rest) :
    run (startTag t ++ (cdataOf d ++ (w ++ (c :: x ++ rest)))) st = .error .parse := by
  obtain ⟨hdne, -, -⟩ := dataOk_parts hd
  obtain ⟨htne, htc⟩ := tagChars ht
  have hm := matchHere_cdata_tail t d w x rest c htne htc hdne (cdataOk_notNl hcd) ((ws_iff w).mp hw) hc hx hrest
    (cdataOk_noClose hcd)
  refine run_first_error _ _ st _ (by simp [startTag]) hm ?_
  unfold step
  have : truthy (groom (some (c :: x))) = true := groom_nonblank (c :: x) c (by simp) hc
  simp [this]

/-- … in particular as a whole body -/
theorem C08_text_after_cdata_rejected_doc (t d w x rest : Str) (c : Char) (ht : tagOk t = true)
    (hd : dataOk d = true) (hcd : cdataOk d = true) (hw : ws w = true) (hc : isSpace c = false)
    (hx : ∀ a ∈ c :: x, notLt a = true) (hrest : Stops notLt rest) :
    parse (startTag t ++ (cdataOf d ++ (w ++ (c :: x ++ rest)))) = .error .parse := by
  rw [parse_eq, C08_text_after_cdata_rejected t d w x rest c St.init ht hd hcd hw hc hx hrest]

end strings

/-! ### the hypotheses are met by concrete bodies -/

example : balanced (toks "<A>\n<B>1\n<C><D>x</D></C>\n</A>\n".toList) = true := by decide

/-- renamed end tag -/
example : ∃ e, parse "<A><B>1</X>".toList = .error e :=
  C08_faults_rejected _ (toks "<A><B>1".toList ++ ⟨['/', 'X'], none, none, none, none, 4⟩ :: []) (by decide)
    (C08_faults_rename (toks "<A><B>1".toList) [] ⟨['/', 'A'], none, none, none, none, 4⟩ _ ['A'] ['X']
      (by decide) rfl rfl (by decide))

/-- deleted end tag -/
example : ∃ e, parse "<A><B><C>1</A>".toList = .error e :=
  C08_faults_rejected _ (toks "<A><B><C>1".toList ++ toks "</A>".toList) (by decide)
    (C08_faults_delete (toks "<A><B><C>1".toList) (toks "</A>".toList) ⟨['/', 'B'], none, none, none, none, 4⟩
      (by decide) rfl)

/-- truncation at an element boundary, two levels deep -/
example : parse "<A><B>1<C>".toList = .error .parse := by
  have e : "<A><B>1<C>".toList = startTag ['A'] ++ ([] ++ (((startTag ['B'] ++ ([] ++ ['1'])) ++ ([] ++ [])) ++
      (startTag ['C'] ++ ([] ++ [])))) := by decide
  rw [e]
  exact C08_truncation _ (OpenPrefix.deeper ['A'] [] _ _ _ (by decide) (by decide)
    (RendersList.cons _ _ _ [] _ (Renders.leafOpen ['B'] ['1'] [] (by decide) (by decide) (by decide)) (by decide)
      RendersList.nil)
    (OpenPrefix.here ['C'] [] [] [] (by decide) (by decide) RendersList.nil))

/-- the hypotheses of `C08_text_after_cdata_rejected_doc` are met: `<B><![CDATA[x]]> junk</B>` -/
example : parse "<B><![CDATA[x]]> junk</B>".toList = .error .parse := by
  have e : "<B><![CDATA[x]]> junk</B>".toList = startTag ['B'] ++ (cdataOf ['x'] ++ ([' '] ++ ('j' :: "unk".toList ++ "</B>".toList))) := by
    decide
  rw [e]
  exact C08_text_after_cdata_rejected_doc ['B'] ['x'] [' '] _ _ 'j' (by decide) (by decide) (by decide) (by decide) (by decide)
    (by decide) (stops_cons _ (by decide))

/-- white space between `]]>` and the end tag (C02's former guard G2) is well nested; text there is not -/
example : balanced (toks "<A><B><![CDATA[x]]> </B></A>".toList) = true := by decide
example : balanced (toks "<A><B><![CDATA[x]]>\n<C>1\n</A>".toList) = true := by decide
example : balanced (toks "<A><B><![CDATA[x]]> junk</A>".toList) = false := by decide
example : parse "<A><B><![CDATA[x]]> junk</A>".toList = .error .parse := by rfl

/-- the witnesses of the repaired findings are now rejected -/
example : parse "<A><B>1".toList = .error .parse := by rfl
example : parse "<A><B><C>1</B>".toList = .error .parse := by rfl
example : parse "<A><B></A></B>".toList = .error .parse := by rfl
example : parse [] = .error .parse := by rfl

end Ofx.C08
