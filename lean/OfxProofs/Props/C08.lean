/-
C08 — improperly nested or truncated markup is never accepted (DESIGN 6.8).

On the pinned tree the full-strength statement is FALSE (`C08_sound_full_false`): the C `TreeBuilder.end`
ignores the tag name and `close()` ignores open elements.  What is true, and proved here for every input:

* `C08_depth`: the builder's verdict depends on the token list only through *depth arithmetic* — `absRun` is the
  loop of `feed` with the builder state replaced by (number of open elements, "a start tag was seen"); names are
  never compared and the final depth is unconstrained.  `parse s` returns a tree iff that run succeeds having
  seen a start tag; returns `None` iff it succeeds without one; raises the same error otherwise.
* `C08_partial_*`: a stray end tag at depth 0, a second top-level element, non-blank tail text and text after an
  end tag are rejected wherever they occur.
-/
import OfxProofs.Lemmas.Builder
import OfxProofs.Props.C02

namespace Ofx.C08
open Ofx Ofx.Lexer Ofx.Builder Ofx.Spec

/-! ### the depth abstraction -/

abbrev Abs := Nat × Bool

/-- (open elements, a start tag has been seen) -/
def absOf (st : St) : Abs := (st.stack.length, st.root.isSome || !st.stack.isEmpty)

def absStart (p : Abs) : PyM Abs := if p.1 = 0 ∧ p.2 = true then .error .parse else .ok (p.1 + 1, true)
def absEnd (p : Abs) : PyM Abs := if p.1 = 0 then .error .index else .ok (p.1 - 1, true)

/-- `_start` on depths -/
def absStartElem (text closetag : Option Str) (p : Abs) : PyM Abs := do
  let p ← absStart p
  match text with
  | some (_ :: _) => absEnd p
  | _ => if truthy closetag then absEnd p else pure p

/-- `_feedmatch` on depths -/
def absFeedMatch (tag : Str) (text closetag : Option Str) (p : Abs) : PyM Abs :=
  if tag.isEmpty then .error .assert
  else if !(closetag == none || closetag == some tag) then .error .assert
  else if isEndTag tag then (if truthy text then .error .parse else absEnd p)
  else absStartElem text closetag p

/-- the loop body on depths -/
def absStep (m : Match) (p : Abs) : PyM Abs :=
  if truthy (groom m.tail) then .error .parse
  else
    let text := groom m.text
    if truthy m.cdata && truthy text then .error .assert
    else absFeedMatch m.tag (if truthy m.cdata then m.cdata else text) m.closetag p

def absRun : List Match → Abs → PyM Abs
  | [], p => .ok p
  | m :: ms, p =>
    match absStep m p with
    | .ok p' => absRun ms p'
    | .error e => .error e

/-! ### simulation -/

theorem start_abs (tag : Str) (st : St) : (st.start tag).map absOf = absStart (absOf st) := by
  obtain ⟨stack, root⟩ := st
  cases stack with
  | nil => cases root <;> simp [St.start, absOf, absStart, Except.map]
  | cons f fs => simp [St.start, absOf, absStart, Except.map]

theorem end_abs (st : St) : st.end_.map absOf = absEnd (absOf st) := by
  obtain ⟨stack, root⟩ := st
  cases stack with
  | nil => simp [St.end_, absOf, absEnd, Except.map]
  | cons f fs =>
    cases fs with
    | nil => simp [St.end_, absOf, absEnd, Except.map]
    | cons g gs => simp [St.end_, absOf, absEnd, Except.map]

theorem data_abs (d : Str) (st : St) : absOf (st.data d) = absOf st := by
  obtain ⟨stack, root⟩ := st
  cases stack <;> simp [St.data, absOf]

theorem startElem_abs (tag : Str) (text closetag : Option Str) (st : St) :
    (startElem tag text closetag st).map absOf = absStartElem text closetag (absOf st) := by
  have hs := start_abs tag st
  unfold startElem absStartElem
  cases h : st.start tag with
  | error e =>
    rw [h] at hs
    simp only [Except.map] at hs
    simp [← hs, bind, Except.bind, Except.map]
  | ok st' =>
    rw [h] at hs
    simp only [Except.map] at hs
    simp only [← hs, bind, Except.bind]
    have hno : (if truthy closetag = true then st'.end_ else pure st').map absOf
        = (if truthy closetag = true then absEnd (absOf st') else pure (absOf st')) := by
      split
      · exact end_abs st'
      · rfl
    cases text with
    | none => exact hno
    | some x =>
      cases x with
      | nil => exact hno
      | cons c cs => simp only []; rw [end_abs, data_abs]

theorem feedMatch_abs (tag : Str) (text closetag : Option Str) (st : St) :
    (feedMatch tag text closetag st).map absOf = absFeedMatch tag text closetag (absOf st) := by
  unfold feedMatch absFeedMatch
  split
  · rfl
  · split
    · rfl
    · split
      · split
        · rfl
        · exact end_abs st
      · exact startElem_abs _ _ _ st

theorem step_abs (m : Match) (st : St) : (step m st).map absOf = absStep m (absOf st) := by
  unfold step absStep
  split
  · rfl
  · simp only
    split
    · rfl
    · exact feedMatch_abs _ _ _ st

theorem feedToks_abs (ms : List Match) (st : St) : (feedToks ms st).map absOf = absRun ms (absOf st) := by
  induction ms generalizing st with
  | nil => rfl
  | cons m ms ih =>
    have hs := step_abs m st
    simp only [feedToks, absRun]
    cases h : step m st with
    | error e => rw [h] at hs; simp only [Except.map] at hs; simp [← hs, Except.map]
    | ok st' => rw [h] at hs; simp only [Except.map] at hs; simp only [← hs]; exact ih st'

theorem close_isSome (st : St) : st.close.isSome = (absOf st).2 := by
  obtain ⟨stack, root⟩ := st
  cases stack <;> simp [St.close, absOf]

/-- **C08_depth**: `parse` is the depth-only run; a tree is returned exactly when that run succeeds after at least one
    start tag — whatever the final depth, whatever the names in the end tags -/
theorem C08_depth (s : Str) :
    (parse s).map Option.isSome = (absRun (toks s) (0, false)).map Prod.snd := by
  have h := feedToks_abs (toks s) St.init
  have hi : absOf St.init = (0, false) := rfl
  rw [hi] at h
  unfold parse feed
  cases hf : feedToks (toks s) St.init with
  | error e => rw [hf] at h; simp only [Except.map] at h; simp [← h, Except.map]
  | ok st =>
    rw [hf] at h; simp only [Except.map] at h
    simp [← h, Except.map, close_isSome]

/-- a tree is returned iff the depth-only run succeeds having seen a start tag -/
theorem C08_depth_tree (s : Str) :
    (∃ t, parse s = .ok (some t)) ↔ ∃ d, absRun (toks s) (0, false) = .ok (d, true) := by
  have h := C08_depth s
  constructor
  · rintro ⟨t, ht⟩
    rw [ht] at h
    cases hr : absRun (toks s) (0, false) with
    | error e => rw [hr] at h; simp [Except.map] at h
    | ok p =>
      rw [hr] at h; simp [Except.map] at h
      obtain ⟨d, b⟩ := p
      simp only at h; subst h; exact ⟨d, rfl⟩
  · rintro ⟨d, hd⟩
    rw [hd] at h
    cases hp : parse s with
    | error e => rw [hp] at h; simp [Except.map] at h
    | ok r =>
      rw [hp] at h; simp [Except.map] at h
      cases r with
      | none => simp at h
      | some t => exact ⟨t, rfl⟩

/-- the builder rejects iff the depth-only run rejects, with the same exception class -/
theorem C08_depth_error (s : Str) (e : Err) : parse s = .error e ↔ absRun (toks s) (0, false) = .error e := by
  have h := C08_depth s
  cases hp : parse s with
  | error e' =>
    rw [hp] at h
    cases hr : absRun (toks s) (0, false) with
    | error e'' => rw [hr] at h; simp [Except.map] at h; simp [h]
    | ok p => rw [hr] at h; simp [Except.map] at h
  | ok r =>
    rw [hp] at h
    cases hr : absRun (toks s) (0, false) with
    | error e'' => rw [hr] at h; simp [Except.map] at h
    | ok p => simp


/-! ### what the pinned builder does reject -/

theorem absRun_append (pre post : List Match) (p : Abs) :
    absRun (pre ++ post) p = (match absRun pre p with | .ok p' => absRun post p' | .error e => .error e) := by
  induction pre generalizing p with
  | nil => rfl
  | cons m ms ih =>
    simp only [List.cons_append, absRun]
    cases absStep m p with
    | error e => rfl
    | ok p' => exact ih p'

theorem absRun_error_of_mem (ms : List Match) (m : Match) (hm : m ∈ ms) (h : ∀ p, ∃ e, absStep m p = .error e) :
    ∀ p, ∃ e, absRun ms p = .error e := by
  induction ms with
  | nil => cases hm
  | cons a as ih =>
    intro p
    simp only [absRun]
    rcases List.mem_cons.mp hm with rfl | hmem
    · obtain ⟨e, he⟩ := h p; exact ⟨e, by rw [he]⟩
    · cases absStep a p with
      | error e => exact ⟨e, rfl⟩
      | ok p' => exact ih hmem p'

theorem parse_error_of_abs (s : Str) (h : ∃ e, absRun (toks s) (0, false) = .error e) : ∃ e, parse s = .error e := by
  obtain ⟨e, he⟩ := h
  exact ⟨e, (C08_depth_error s e).mpr he⟩

/-- **non-blank tail text** (text after a closed element) is rejected wherever it occurs -/
theorem C08_partial_tail (s : Str) (m : Match) (hm : m ∈ toks s) (ht : truthy (groom m.tail) = true) :
    ∃ e, parse s = .error e := by
  apply parse_error_of_abs
  apply absRun_error_of_mem _ m hm
  intro p
  exact ⟨.parse, by simp [absStep, ht]⟩

/-- **text (or a CDATA section) after an end tag** is rejected wherever it occurs -/
theorem C08_partial_text_after_end (s : Str) (m : Match) (hm : m ∈ toks s) (hend : isEndTag m.tag = true)
    (htext : truthy m.cdata = true ∨ truthy (groom m.text) = true) : ∃ e, parse s = .error e := by
  apply parse_error_of_abs
  apply absRun_error_of_mem _ m hm
  intro p
  unfold absStep absFeedMatch
  by_cases hc : truthy m.cdata = true
  · simp only [hc, hend, if_true, Bool.true_and]
    repeat' split
    all_goals exact ⟨_, rfl⟩
  · have ht : truthy (groom m.text) = true := by
      rcases htext with h | h
      · exact absurd h hc
      · exact h
    simp only [hc, ht, hend, if_true, Bool.false_eq_true, if_false, Bool.false_and]
    repeat' split
    all_goals exact ⟨_, rfl⟩

/-- **a stray end tag at depth 0** (before any start tag, or after the root was closed) is rejected -/
theorem C08_partial_stray_end (s : Str) (pre post : List Match) (m : Match) (b : Bool)
    (hs : toks s = pre ++ m :: post) (hpre : absRun pre (0, false) = .ok (0, b)) (hend : isEndTag m.tag = true) :
    ∃ e, parse s = .error e := by
  apply parse_error_of_abs
  rw [hs, absRun_append, hpre]
  simp only [absRun]
  have : ∃ e, absStep m (0, b) = .error e := by
    unfold absStep absFeedMatch
    simp only [hend, if_true, absEnd]
    repeat' split
    all_goals exact ⟨_, rfl⟩
  obtain ⟨e, he⟩ := this
  exact ⟨e, by rw [he]⟩

/-- **a second top-level element** is rejected -/
theorem C08_partial_second_root (s : Str) (pre post : List Match) (m : Match)
    (hs : toks s = pre ++ m :: post) (hpre : absRun pre (0, false) = .ok (0, true)) (hstart : isEndTag m.tag = false) :
    ∃ e, parse s = .error e := by
  apply parse_error_of_abs
  rw [hs, absRun_append, hpre]
  simp only [absRun]
  have : ∃ e, absStep m (0, true) = .error e := by
    unfold absStep absFeedMatch
    simp only [hstart, Bool.false_eq_true, if_false, absStartElem, absStart, and_self, if_true, bind, Except.bind]
    repeat' split
    all_goals exact ⟨_, rfl⟩
  obtain ⟨e, he⟩ := this
  exact ⟨e, by rw [he]⟩

/-! ### the full-strength statement is false on the pinned builder -/

/-- whatever is returned without an error is a tree, and the body's tokens are properly nested and closed -/
def C08_sound_full : Prop := ∀ s r, parse s = .ok r → ∃ t, r = some t ∧ balanced (toks s) = true

/-- `<A><B>1`: truncated before `</A>`, returned as `A[B=1]` -/
theorem C08_truncated_accepted :
    parse "<A><B>1".toList = .ok (some (Tree.agg ['A'] [Tree.leaf ['B'] ['1']])) ∧ balanced (toks "<A><B>1".toList) = false :=
  ⟨by rfl, by decide⟩

/-- `<A><B><C>1</B>`: `</B>` closes... whatever is innermost; `A` is never closed -/
theorem C08_mismatch_accepted :
    parse "<A><B><C>1</B>".toList = .ok (some (Tree.agg ['A'] [Tree.agg ['B'] [Tree.leaf ['C'] ['1']]])) ∧
    balanced (toks "<A><B><C>1</B>".toList) = false :=
  ⟨by rfl, by decide⟩

/-- `<A><B></A></B>`: crossed end tags, all elements closed, accepted -/
theorem C08_crossed_accepted :
    parse "<A><B></A></B>".toList = .ok (some (Tree.agg ['A'] [Tree.agg ['B'] []])) ∧
    balanced (toks "<A><B></A></B>".toList) = false :=
  ⟨by rfl, by decide⟩

/-- the empty body: `None`, no error -/
theorem C08_empty_none : parse [] = .ok none := by rfl

/-- **truncation is never detected**: cut *any* valid aggregate right before its final end tag (after any number of
    complete children, in any rendering) and the pinned parser returns the complete tree, without an error -/
theorem C08_truncation_accepted (t w0 : Str) (cs : List Tree) (body : Str) (ht : tagOk t = true) (h0 : ws w0 = true)
    (hl : RendersList true cs body) (hsafe : cdSafe body = true) :
    parse (startTag t ++ (w0 ++ body)) = .ok (some (Tree.agg t cs)) := by
  open Ofx.C02 in
  obtain ⟨htne, htc⟩ := tagChars ht
  obtain ⟨hshape, -⟩ := rendersList_facts hl
  have haft : After body := by
    rcases hshape with ⟨-, rfl⟩ | ⟨-, hb⟩
    · exact Or.inl rfl
    · exact Or.inr (Or.inl hb)
  have hcl : dropPrefix (endTag t) body = none := by
    rcases hshape with ⟨-, rfl⟩ | ⟨-, hb⟩
    · rfl
    · exact startsName_noEnd t hb
  have hm := matchHere_open t w0 body htne htc (ws_notLt h0) (after_stops haft)
    (dropPrefix_ws_or _ w0 body ⟨_, rfl⟩ h0 (after_nocdata haft)) hcl
  have h1 : run (startTag t ++ (w0 ++ body)) St.init = run body (St.init.push t) :=
    run_tok' _ (startTag t ++ w0) body _ St.init _ (by simp) (by simp [startTag]) hm rfl
      (step_open t _ _ St.init ht (groom_ws w0 h0) (Or.inr rfl))
  have h2 := rendersList_ok hl [] (St.init.push t) (by simp [St.push]) (Or.inl rfl)
    (fun _ _ tg _ => by simp [endTag, dropPrefix]) (by simpa using hsafe)
  simp only [List.append_nil] at h2
  rw [parse_eq, h1, h2, run_nil, addKids_push]
  rfl

theorem C08_sound_full_false : ¬ C08_sound_full := by
  intro h
  obtain ⟨t, _, hb⟩ := h _ _ C08_truncated_accepted.1
  rw [C08_truncated_accepted.2] at hb
  cases hb

/-- the hypotheses of the partial theorems are met by concrete bodies -/
example : ∃ e, parse "<A></A></A>".toList = .error e :=
  C08_partial_stray_end _ [⟨['A'], none, none, some ['A'], none, 7⟩] [] ⟨['/', 'A'], none, none, none, none, 4⟩ true
    (by decide) (by rfl) (by rfl)

example : ∃ e, parse "<A></A><B>1".toList = .error e :=
  C08_partial_second_root _ [⟨['A'], none, none, some ['A'], none, 7⟩] [] ⟨['B'], none, some ['1'], none, none, 4⟩
    (by decide) (by rfl) (by rfl)

example : ∃ e, parse "<A><B>1</B>x</A>".toList = .error e :=
  C08_partial_tail _ ⟨['B'], none, some ['1'], some ['B'], some ['x'], 9⟩ (by decide) (by rfl)

example : ∃ e, parse "<A><B>1</B></A>x".toList = .error e :=
  C08_partial_text_after_end _ ⟨['/', 'A'], none, some ['x'], none, none, 5⟩ (by decide) (by rfl) (Or.inr (by rfl))

end Ofx.C08
