/-
C18 — ofxget settings obey CLI > user file > FI db > OFX Home > defaults, and persist.

Model: `OfxModel/Ofx/Ofxget.lean`; spec: `OfxModel/Spec/Ofxget.lean`; tables generated from the source.
-/
import OfxProofs.Lemmas.Ofxget
import OfxProofs.Lemmas.OfxgetFiles
import OfxProofs.Lemmas.OfxgetWrite
import OfxProofs.Lemmas.OfxgetValues
import OfxProofs.Lemmas.OfxgetPersist
import OfxProofs.Gen.Ofxget

namespace Ofx.Ofxget
open Ofx Ofx.Spec.Ofxget

/-! ### precedence -/

/-- **C18_precedence.**  Whenever `merge_config` returns, then for every option `k` — independently of all other
    options — the value in effect is what the first of
    [command line, configuration files (the server's section as `read_config` types it), OFX Home record, DEFAULTS]
    that sets `k` says; nobody setting it means no value.  `cli` is the namespace without its `None` entries
    (`extractns`), or, on the documented "URL given as the server positional" path, that map with
    `url := server, server := None`.  For any tables satisfying `Tables.WF` (checked for the generated ones by
    `Gen.ofxgetTables_wf`). -/
theorem C18_precedence (T : Tables) (hwf : T.WF = true) (lookup : Str → Option OhRec) (ns : Map) (cfg : Ini)
    (c : Chain) (h : mergeConfig T lookup ns cfg = .ok c) :
    ∃ cli userCfg, userCfgOf T cfg (extractns ns) = .ok userCfg ∧
      (cli = extractns ns ∨ ∃ server, (extractns ns).lookup "server".toList = some (.str server) ∧
          cli = sloppy (extractns ns) server) ∧
      ∀ k, (∀ v, effective c k = some v ↔
              IsFirstSetter [cli, userCfg, ohSource lookup [extractns ns, userCfg, T.defaults], T.defaults] k v) ∧
           (effective c k = none ↔
              NoSetter [cli, userCfg, ohSource lookup [extractns ns, userCfg, T.defaults], T.defaults] k) := by
  obtain ⟨cli, userCfg, hu, hcli, he⟩ := mergeConfig_effective T hwf lookup ns cfg c h
  refine ⟨cli, userCfg, hu, hcli, fun k => ⟨fun v => ?_, ?_⟩⟩
  · rw [he k, firstSetter_some_iff]
  · rw [he k, firstSetter_none_iff]

/-- **C18_precedence_sources** — the five places, with the two configuration files as separate sources.
    For a server nickname `s` that has a section in either file, and every CONFIGURABLE option `k` (independently):
    * if the command line sets `k`, that value is in effect;
    * otherwise, if the files say anything for `k` — the user's section for `s`, else the FI database's section for
      `s`, else the DEFAULT section of the user's file, else that of the FI database (`fileLookup`: what one file
      says, last assignment wins) — the typed reading of *that* text is in effect (and the reading succeeds);
    * otherwise the OFX Home record, and failing that the built-in default. -/
theorem C18_precedence_sources (T : Tables) (hwf : T.WF = true) (lookup : Str → Option OhRec) (ns : Map)
    (fidb user : FileC) (c : Chain) (s : Str) (hs : s ≠ defaultSect)
    (hsrv : (extractns ns).lookup "server".toList = some (.str s))
    (hknown : (fileHasSection fidb s || fileHasSection user s) = true)
    (h : mergeConfig T lookup ns (loadUser fidb user) = .ok c) :
    ∃ cli userCfg,
      (cli = extractns ns ∨ ∃ server, (extractns ns).lookup "server".toList = some (.str server) ∧
          cli = sloppy (extractns ns) server) ∧
      ∀ k ty, T.configurable.lookup k = some ty →
        (∀ v, cli.lookup k = some v → effective c k = some v) ∧
        (cli.lookup k = none → ∀ raw,
          ((fileLookup user s k).or (fileLookup fidb s k)).or
            ((fileLookup user defaultSect k).or (fileLookup fidb defaultSect k)) = some raw →
          ∃ tv, typedOfStr T ty raw = .ok tv ∧ effective c k = some tv) ∧
        (cli.lookup k = none →
          ((fileLookup user s k).or (fileLookup fidb s k)).or
            ((fileLookup user defaultSect k).or (fileLookup fidb defaultSect k)) = none →
          effective c k = firstSetter [ohSource lookup [extractns ns, userCfg, T.defaults], T.defaults] k) := by
  obtain ⟨cli, userCfg, hu, hcli, he⟩ := mergeConfig_effective T hwf lookup ns _ c h
  refine ⟨cli, userCfg, hcli, ?_⟩
  have hrc : readConfig T (loadUser fidb user) s = .ok userCfg := by
    unfold userCfgOf at hu
    rw [hsrv] at hu
    exact hu
  have hcont : (loadUser fidb user).contains s = true := by rw [loadUser_contains _ _ _ hs]; exact hknown
  intro k ty hty
  have hl := readConfig_lookup T _ s userCfg hs hcont hrc k ty hty
  rw [raw_layering fidb user s k hs] at hl
  refine ⟨?_, ?_, ?_⟩
  · intro v hv
    rw [he k]
    simp only [firstSetter, hv]
  · intro hnone raw hraw
    rw [hraw] at hl
    obtain ⟨tv, htv, hlook⟩ := hl
    refine ⟨tv, htv, ?_⟩
    rw [he k]
    simp only [firstSetter, hnone, hlook]
  · intro hnone hraw
    rw [hraw] at hl
    rw [he k]
    simp only [firstSetter, hnone, hl]

/-- `extractns` drops exactly the `None` entries: an option the command line does not set cannot shadow anything -/
theorem C18_extractns (ns : Map) (k : Name) (v : CfgVal) :
    (k, v) ∈ extractns ns ↔ (k, v) ∈ ns ∧ v ≠ .null := by
  simp [extractns, List.mem_filter]

/-- the layering inside the configuration files, one raw lookup: the server's own section first, DEFAULT after -/
theorem C18_section_over_default (c : Ini) (sect : Str) (k : Name) :
    c.raw sect k = match (c.sect sect).lookup k with
      | some v => some v
      | none => c.defaults.lookup k := rfl

/-! ### dry run -/

/-- **C18_dryrun_writes_nothing.**  With a truthy `dryrun` in effect, `write_config` returns before touching
    `USERCFG` or the file, whatever else is configured. -/
theorem C18_dryrun_writes_nothing (T : Tables) (args : Chain) (mem lib : Ini) (disk : FileC) (uuid : Str)
    (v : CfgVal) (hv : args.get? "dryrun".toList = some v) (ht : truthy v = true) :
    writeConfig T args mem lib disk uuid = .ok none := by
  unfold writeConfig
  generalize "dryrun".toList = key at hv ⊢
  simp [Chain.getItem, hv, ht, bind, Except.bind, pure, Except.pure]

/-- and `runOnce` then reports no write -/
example : truthy (.bool true) = true := rfl

/-! ### no password -/

/-- `cfg[section][k] = v` changes the option `optionxform(k)` only -/
theorem set_other_untouched (c : Ini) (sect : Str) (k : Name) (v : Str)
    (sect' : Str) (k' : Name) (hk : k' ≠ lower k) :
    (c.set sect k v).raw sect' k' = c.raw sect' k' := by
  unfold Ini.set
  split
  · simp [Ini.raw, Ini.sect, lookup_mapSet, hk]
  · simp only [Ini.raw, Ini.sect, lookup_mapSet]
    by_cases hs : sect' = sect
    · subst hs
      simp [lookup_mapSet, hk]
    · simp [hs]

/-- **C18_no_password.**  Whatever `--write` leaves under the name `password`, in any section of `ofxget.cfg`
    (DEFAULT included), was already there when the file was re-read at the start of `mk_server_cfg`: saving never
    adds or changes a password option — for every mapping, every prior file content, every table with
    `password ∉ CONFIGURABLE` and lower-case CONFIGURABLE keys (`Tables.WF`). -/
theorem C18_no_password (T : Tables) (hwf : T.WF = true) (args : Chain) (mem lib : Ini) (disk : FileC) (uuid : Str)
    (cfg' : Ini) (h : writeConfig T args mem lib disk uuid = .ok (some cfg')) (sect' : Str) (v : Str)
    (hv : cfg'.look sect' "password".toList = some v) :
    (({ mem with sections := [] } : Ini).loadFile disk).look sect' "password".toList = some v := by
  have hmk : mkServerCfg T args mem lib disk uuid = .ok cfg' := by
    unfold writeConfig at h
    simp only [bind, Except.bind] at h
    split at h
    · cases h
    · split at h
      · cases h
      · cases hm : mkServerCfg T args mem lib disk uuid with
        | error e => rw [hm] at h; cases h
        | ok c =>
          rw [hm] at h
          simp only [pure, Except.pure, Except.ok.injEq, Option.some.injEq] at h
          rw [h]
  simp only [Tables.WF, Bool.and_eq_true] at hwf
  obtain ⟨⟨⟨⟨⟨hpw, hlow⟩, _⟩, _⟩, _⟩, _⟩ := hwf
  refine mkServerCfg_untouched T args mem lib disk uuid cfg' hmk _ ?_ (by decide) sect' v hv
  intro ot hot heq
  have hl : lower ot.1 = ot.1 := by
    have := List.all_eq_true.mp hlow ot hot
    simpa using this
  rw [hl] at heq
  have : "password".toList ∈ T.configurable.map (·.1) := by rw [heq]; exact List.mem_map_of_mem hot
  simp only [Bool.not_eq_true', List.contains_eq_mem, decide_eq_false_iff_not] at hpw
  exact hpw this

/-! ### persistence -/

/-- the command line of "running again without those options" -/
def probeNs (server : CfgVal) : Map :=
  [("request".toList, .str "stmt".toList), ("verbose".toList, .int 0), ("server".toList, server),
   ("dryrun".toList, .bool true)]

/-- one `--write` run followed by a run without the options: does option `k` keep its value in effect?
    (`true` also when the first run does not get as far as saving) -/
def persistHolds (T : Tables) (lookup : Str → Option OhRec) (ns : Map) (fidb user : FileC) (uuid : Str) (k : Name) : Bool :=
  match runOnce T lookup ns fidb user uuid with
  | .ok ⟨args, some (.ok ini)⟩ =>
    (match mergeConfig T lookup (probeNs ((args.get? "server".toList).getD .null)) (loadUser fidb ini.toFile) with
     | .ok args2 => effective args2 k == effective args k
     | .error _ => false)
  | .ok ⟨_, some (.error _)⟩ => false      -- the save itself fails
  | _ => true

/-- full strength: every persistable option survives save + rerun, whatever the sources hold -/
def C18_persist_full : Prop :=
  ∀ (lookup : Str → Option OhRec) (ns : Map) (fidb user : FileC) (uuid : Str) (k : Name),
    k ∈ Generated.ofxgetTables.configurable.map (·.1) →
    persistHolds Generated.ofxgetTables lookup ns fidb user uuid k = true

def nsWrite (extra : Map) : Map :=
  [("request".toList, .str "stmt".toList), ("verbose".toList, .int 0), ("server".toList, .str "srv1".toList),
   ("write".toList, .bool true)] ++ extra

/-- repaired (`fix: ofxget stores and reads configuration values containing '%' verbatim`): the former witness (i),
    a URL containing `%`, now persists -/
theorem C18_persist_percent_fixed :
    persistHolds Generated.ofxgetTables (fun _ => none)
      (nsWrite [("url".toList, .str "https://h/ofx?a=%41".toList)]) [] [] "U".toList "url".toList = true := by
  decide +kernel

/-- witness (ii): an account number containing `,` reads back as two accounts -/
theorem C18_persist_list_false :
    persistHolds Generated.ofxgetTables (fun _ => none)
      (nsWrite [("url".toList, .str "https://h/".toList), ("checking".toList, .list ["a,b".toList])])
      [] [] "U".toList "checking".toList = false := by
  decide +kernel

/-- repaired (`fix: ofxget --write drops a stored value when the command line sets the option back to its default`):
    the former witness (iii), `--version 203` while the file holds 102, now persists -/
theorem C18_persist_default_fixed :
    persistHolds Generated.ofxgetTables (fun _ => none)
      (nsWrite [("url".toList, .str "https://h/".toList), ("version".toList, .int 203)])
      [] [("srv1".toList, [("version".toList, "102".toList)])] "U".toList "version".toList = true := by
  decide +kernel

/-- repaired (`fix: ofxget --write states a default value explicitly when ofxget.cfg already holds the option`):
    the same default value against an entry in the DEFAULT section of ofxget.cfg now persists -/
theorem C18_persist_default_section_fixed :
    persistHolds Generated.ofxgetTables (fun _ => none)
      (nsWrite [("url".toList, .str "https://h/".toList), ("version".toList, .int 203)])
      [] [("DEFAULT".toList, [("clientuid".toList, "G".toList), ("version".toList, "102".toList)]),
          ("srv1".toList, [("user".toList, "bob".toList)])] "U".toList "version".toList = true := by
  decide +kernel

/-- repaired (same commit): a server-section entry equal to the library default that shadows a DEFAULT-section entry
    survives a `--write` that does not mention the option -/
theorem C18_persist_section_default_kept_fixed :
    persistHolds Generated.ofxgetTables (fun _ => none)
      (nsWrite [("url".toList, .str "https://h/".toList)])
      [] [("DEFAULT".toList, [("clientuid".toList, "G".toList), ("unclosedelements".toList, "yes".toList)]),
          ("srv1".toList, [("unclosedelements".toList, "0".toList)])] "U".toList "unclosedelements".toList = true := by
  decide +kernel

/-- witness (iv): an empty command-line value overrides for this run but is never saved -/
theorem C18_persist_null_false :
    persistHolds Generated.ofxgetTables (fun _ => none)
      (nsWrite [("url".toList, .str "https://h/".toList), ("user".toList, .str [])])
      [] [("srv1".toList, [("user".toList, "bob".toList)])] "U".toList "user".toList = false := by
  decide +kernel

theorem C18_persist_full_false : ¬ C18_persist_full := by
  intro h
  have := h (fun _ => none)
    (nsWrite [("url".toList, .str "https://h/".toList), ("checking".toList, .list ["a,b".toList])]) [] [] "U".toList
    "checking".toList (by decide +kernel)
  rw [C18_persist_list_false] at this
  cases this

/-- the guard under which one saved value reads back as itself: what `arg2config` writes for `v`, passed through
    the INI reader (`strip`) and the typed getter, is `v` again -/
def readsBack (T : Tables) (ty : CfgTy) (v : CfgVal) : Bool :=
  match arg2config ty v with
  | .ok s => (match typedOfStr T ty (strip s) with | .ok v' => v' == v | .error _ => false)
  | .error _ => false

/-- **C18_persist_partial** (value level, string options).  Since `fix: … '%' verbatim` the only thing a string
    value can lose is edge blanks (the INI reader strips them): a string equal to its `strip` reads back. -/
theorem C18_persist_partial_str (T : Tables) (s : Str) (hclean : strip s = s) :
    readsBack T .str (.str s) = true := by
  simp [readsBack, arg2config, typedOfStr, hclean]

example : strip "https://ofx.example.com/cgi?x=%41&y=2".toList = "https://ofx.example.com/cgi?x=%41&y=2".toList := by
  decide +kernel

/-- **C18_persist_partial** (value level, integer options): always — `int(str(i)) == i` through the INI reader,
    for every integer -/
theorem C18_persist_partial_int (T : Tables) (i : Int) : readsBack T .int (.int i) = true := by
  simp [readsBack, arg2config, pyStr, typedOfStr, pyInt_roundtrip]

/-- **C18_persist_partial** (value level, list options): a non-empty list of clean account numbers — printable
    characters other than `,` `'` `\`, no blank at either end, not empty — reads back as itself -/
theorem C18_persist_partial_list (T : Tables) (l : List Str) (hne : l ≠ []) (h : ∀ m ∈ l, CleanMember m) :
    readsBack T .list (.list l) = true := by
  simp [readsBack, arg2config, pyStr, typedOfStr, list_roundtrip l hne h]

example : CleanMember "12-3456 [x]".toList where
  chars := by decide
  nonempty := by decide
  head := by intro c rest h; cases h; decide
  last := by
    intro c pre h
    have : ("12-3456 [x]".toList).getLast? = some c := by rw [h]; simp
    have h2 : ("12-3456 [x]".toList).getLast? = some ']' := by decide
    rw [h2] at this
    cases this
    decide

/-- **C18_persist_partial** (value level, boolean options): always -/
theorem C18_persist_partial_bool (b : Bool) :
    readsBack Generated.ofxgetTables .bool (.bool b) = true := by
  cases b <;> decide +kernel

/-- **C18_persist_partial** (whole run).  Save, then run again without the option: for every CONFIGURABLE option
    `k` whose value in effect `v` at the saving run (a) is not empty, not the global CLIENTUID and not equal to the
    library default (`WillWrite`: the three tests of `test_cfg_val`) and (b) reads back at value level
    (`typed(strip(arg2config v)) = v`), the next run `ofxget … s --dryrun` that does not give `k` on the command
    line has exactly `v` in effect — for every prior content of ofxget.cfg, every FI database, every OFX Home table,
    every other option.  (`WillWrite` failing is where the remaining known findings live: empty CLI values,
    `--clientuid` equal to the global one.) -/
theorem C18_persist_partial (T : Tables) (hwf : T.WF = true) (hnd : (T.configurable.map (·.1)).Nodup)
    (lookup : Str → Option OhRec) (fidb user : FileC) (c1 : Chain) (uuid : Str) (cfg' : Ini) (s : Str)
    (hs : s ≠ defaultSect) (hnick : serverNick c1 = .ok s)
    (hmk : mkServerCfg T c1 (loadUser fidb user) (loadLib fidb) user uuid = .ok cfg')
    (k : Name) (ty : CfgTy) (hkt : (k, ty) ∈ T.configurable) (v : CfgVal) (hv : effective c1 k = some v)
    (libCfg : Map) (hlib : readConfig T (loadLib fidb) s = .ok libCfg)
    (hw : WillWrite T (reloadCfg (loadUser fidb user) user uuid).defaults libCfg k v)
    (hrb : readsBack T ty v = true)
    (ns2 : Map) (c2 : Chain) (d : CfgVal)
    (hsrv2 : (extractns ns2).lookup "server".toList = some (.str s))
    (hdry2 : (extractns ns2).lookup "dryrun".toList = some d) (htd : truthy d = true)
    (hk2 : (extractns ns2).lookup k = none)
    (h2 : mergeConfig T lookup ns2 (loadUser fidb cfg'.toFile) = .ok c2) :
    effective c2 k = effective c1 k := by
  rw [hv]
  refine saved_value_in_effect T hwf hnd lookup fidb user c1 uuid cfg' s hs hnick hmk k ty hkt v hv libCfg hlib hw ?_
    ns2 c2 d hsrv2 hdry2 htd hk2 h2
  intro txt htxt
  unfold readsBack at hrb
  rw [htxt] at hrb
  simp only at hrb
  cases htv : typedOfStr T ty (strip txt) with
  | error e => rw [htv] at hrb; cases hrb
  | ok v' =>
    rw [htv] at hrb
    simp only [beq_iff_eq] at hrb
    rw [hrb]

/-- the guard is satisfiable: `--version 102` (default 203, nothing in fi.cfg) -/
example : WillWrite Generated.ofxgetTables [("clientuid".toList, "G".toList)] [] "version".toList (.int 102) where
  notNull := rfl
  notGlobalUid := fun h => absurd h (by decide)
  notDefault := by
    intro dflt h
    have h203 : Generated.ofxgetTables.defaults.lookup "version".toList = some (.int 203) := by decide +kernel
    rw [h203] at h
    cases h
    rfl

/-- the value-level guard holds for every integer, every boolean (generated tables) and every string without edge
    blanks: `C18_persist_partial_int`, `_bool`, `_str` above -/
example : readsBack Generated.ofxgetTables .int (.int 102) = true := C18_persist_partial_int _ 102

/-- **C18_clientuid_stable** (one step).  Once the DEFAULT section holds a CLIENTUID, the reload at the start of
    `mk_server_cfg` keeps it and draws no new id (`uuid` is not used). -/
theorem C18_clientuid_kept (mem : Ini) (disk : FileC) (u uuid : Str)
    (h : (({ mem with sections := [] } : Ini).loadFile disk).defaults.lookup "clientuid".toList = some u) :
    reloadCfg mem disk uuid = ({ mem with sections := [] } : Ini).loadFile disk := by
  unfold reloadCfg
  generalize "clientuid".toList = key at h ⊢
  simp [h]

/-- the file after a sequence of ofxget processes (each: `merge_config`, then `write_config` if `args["write"]`) -/
def diskAfterAll (T : Tables) (lookup : Str → Option OhRec) (fidb disk : FileC) (runs : List (Map × Str)) : FileC :=
  runs.foldl (diskAfter T lookup fidb) disk

/-- **C18_clientuid_stable.**  Once `ofxget.cfg` holds a global CLIENTUID `u` (DEFAULT section), it holds the same
    `u` after any sequence of runs — any command lines, with or without `--write`, dry or not, failing or not, any
    fresh ids offered by `OFXClient.uuid` — as long as no run saves under configparser's reserved nickname
    `DEFAULT`. -/
theorem C18_clientuid_stable (T : Tables) (lookup : Str → Option OhRec) (fidb : FileC) (runs : List (Map × Str))
    (disk : FileC) (u : Str) (hu : globalUid disk = some u) (hstrip : strip u = u)
    (hnick : ∀ run ∈ runs, ∀ d args, mergeConfig T lookup run.1 (loadUser fidb d) = .ok args →
      ∀ s, serverNick args = .ok s → s ≠ defaultSect) :
    globalUid (diskAfterAll T lookup fidb disk runs) = some u := by
  unfold diskAfterAll
  induction runs generalizing disk with
  | nil => exact hu
  | cons run runs ih =>
    simp only [List.foldl_cons]
    apply ih
    · exact diskAfter_keeps_uid T lookup fidb disk run u hu hstrip (fun args hm s hsn => hnick run (by simp) disk args hm s hsn)
    · intro r hr d args hm s hsn
      exact hnick r (by simp [hr]) d args hm s hsn

/-- and the first save creates one: after any successful `mk_server_cfg` (nickname not `DEFAULT`) the file has a
    global CLIENTUID -/
theorem C18_clientuid_created (T : Tables) (args : Chain) (fidb disk : FileC) (uuid : Str) (cfg' : Ini) (s : Str)
    (hs : s ≠ defaultSect) (hnick : serverNick args = .ok s)
    (h : mkServerCfg T args (loadUser fidb disk) (loadLib fidb) disk uuid = .ok cfg') :
    (globalUid cfg'.toFile).isSome = true := by
  obtain ⟨hdef, hcanon, _⟩ := mkServerCfg_defaults T args _ _ (canon_loadUser fidb disk) disk uuid cfg' s hs hnick h
  unfold globalUid
  rw [fileLookup_toFile cfg' hcanon, look_default, hdef]
  have := reloadCfg_has_uid (loadUser fidb disk) disk uuid
  cases hl : (reloadCfg (loadUser fidb disk) disk uuid).defaults.lookup "clientuid".toList with
  | none => rw [hl] at this; cases this
  | some x => rfl

end Ofx.Ofxget
