/-
C18 — ofxget settings obey CLI > user file > FI db > OFX Home > defaults, and persist.

Model: `OfxModel/Ofx/Ofxget.lean`; spec: `OfxModel/Spec/Ofxget.lean`; tables generated from the source.
-/
import OfxProofs.Lemmas.Ofxget
import OfxProofs.Gen.Ofxget

namespace Ofx.Ofxget
open Ofx Ofx.Spec.Ofxget

/-! ### precedence -/

/-- **C18_precedence.**  Whenever `merge_config` returns, then for every option `k` — independently of all other
    options — the value in effect is what the first of
    [command line, configuration files (the server's section as `read_config` types it), OFX Home record, DEFAULTS]
    that sets `k` says; nobody setting it means no value.  `cli` is the namespace without its `None` entries
    (`extractns`), or, on the documented "URL given as the server positional" path, that map with
    `url := server, server := None`.  For any tables satisfying `Tables.WF` (checked for the generated ones by
    `Gen.ofxgetTables_wf`). -/
theorem C18_precedence (T : Tables) (hwf : T.WF = true) (lookup : Str → Option OhRec) (ns : Map) (cfg : Ini)
    (c : Chain) (h : mergeConfig T lookup ns cfg = .ok c) :
    ∃ cli userCfg, userCfgOf T cfg (extractns ns) = .ok userCfg ∧
      (cli = extractns ns ∨ ∃ server, (extractns ns).lookup "server".toList = some (.str server) ∧
          cli = sloppy (extractns ns) server) ∧
      ∀ k, (∀ v, effective c k = some v ↔
              IsFirstSetter [cli, userCfg, ohSource lookup [extractns ns, userCfg, T.defaults], T.defaults] k v) ∧
           (effective c k = none ↔
              NoSetter [cli, userCfg, ohSource lookup [extractns ns, userCfg, T.defaults], T.defaults] k) := by
  obtain ⟨cli, userCfg, hu, hcli, he⟩ := mergeConfig_effective T hwf lookup ns cfg c h
  refine ⟨cli, userCfg, hu, hcli, fun k => ⟨fun v => ?_, ?_⟩⟩
  · rw [he k, firstSetter_some_iff]
  · rw [he k, firstSetter_none_iff]

/-- `extractns` drops exactly the `None` entries: an option the command line does not set cannot shadow anything -/
theorem C18_extractns (ns : Map) (k : Name) (v : CfgVal) :
    (k, v) ∈ extractns ns ↔ (k, v) ∈ ns ∧ v ≠ .null := by
  simp [extractns, List.mem_filter]

/-- the layering inside the configuration files, one raw lookup: the server's own section first, DEFAULT after -/
theorem C18_section_over_default (c : Ini) (sect : Str) (k : Name) :
    c.raw sect k = match (c.sect sect).lookup k with
      | some v => some v
      | none => c.defaults.lookup k := rfl

/-! ### dry run -/

/-- **C18_dryrun_writes_nothing.**  With a truthy `dryrun` in effect, `write_config` returns before touching
    `USERCFG` or the file, whatever else is configured. -/
theorem C18_dryrun_writes_nothing (T : Tables) (args : Chain) (mem lib : Ini) (disk : FileC) (uuid : Str)
    (v : CfgVal) (hv : args.get? "dryrun".toList = some v) (ht : truthy v = true) :
    writeConfig T args mem lib disk uuid = .ok none := by
  unfold writeConfig
  generalize "dryrun".toList = key at hv ⊢
  simp [Chain.getItem, hv, ht, bind, Except.bind, pure, Except.pure]

/-- and `runOnce` then reports no write -/
example : truthy (.bool true) = true := rfl

/-! ### no password -/

/-- `cfg[section][k] = v` changes the option `optionxform(k)` only -/
theorem set_other_untouched (c c' : Ini) (sect : Str) (k : Name) (v : Str) (h : c.set sect k v = .ok c')
    (sect' : Str) (k' : Name) (hk : k' ≠ lower k) :
    c'.raw sect' k' = c.raw sect' k' := by
  unfold Ini.set at h
  split at h
  · cases h
  · split at h
    · cases h
      simp [Ini.raw, Ini.sect, lookup_mapSet, hk]
    · cases h
      simp only [Ini.raw, Ini.sect, lookup_mapSet]
      by_cases hs : sect' = sect
      · subst hs
        simp [lookup_mapSet, hk]
      · simp [hs]

/-- **C18_no_password** (table half).  The only options `mk_server_cfg` assigns are the CONFIGURABLE ones (and the
    DEFAULT-section `clientuid`); `password` is not among them and is not `clientuid`, so by `set_other_untouched`
    no assignment of a `--write` touches a `password` option. -/
theorem C18_no_password :
    (∀ kt ∈ Generated.ofxgetTables.configurable, "password".toList ≠ lower kt.1) ∧
    "password".toList ≠ lower "clientuid".toList := by
  decide +kernel

/-! ### persistence -/

/-- the command line of "running again without those options" -/
def probeNs (server : CfgVal) : Map :=
  [("request".toList, .str "stmt".toList), ("verbose".toList, .int 0), ("server".toList, server),
   ("dryrun".toList, .bool true)]

/-- one `--write` run followed by a run without the options: does option `k` keep its value in effect?
    (`true` also when the first run does not get as far as saving) -/
def persistHolds (T : Tables) (lookup : Str → Option OhRec) (ns : Map) (fidb user : FileC) (uuid : Str) (k : Name) : Bool :=
  match runOnce T lookup ns fidb user uuid with
  | .ok ⟨args, some (.ok ini)⟩ =>
    (match mergeConfig T lookup (probeNs ((args.get? "server".toList).getD .null)) (loadUser fidb ini.toFile) with
     | .ok args2 => effective args2 k == effective args k
     | .error _ => false)
  | .ok ⟨_, some (.error _)⟩ => false      -- the save itself fails
  | _ => true

/-- full strength: every persistable option survives save + rerun, whatever the sources hold -/
def C18_persist_full : Prop :=
  ∀ (lookup : Str → Option OhRec) (ns : Map) (fidb user : FileC) (uuid : Str) (k : Name),
    k ∈ Generated.ofxgetTables.configurable.map (·.1) →
    persistHolds Generated.ofxgetTables lookup ns fidb user uuid k = true

def nsWrite (extra : Map) : Map :=
  [("request".toList, .str "stmt".toList), ("verbose".toList, .int 0), ("server".toList, .str "srv1".toList),
   ("write".toList, .bool true)] ++ extra

/-- witness (i): a URL containing `%` — `cfg["url"] = …` raises in `BasicInterpolation.before_set` -/
theorem C18_persist_percent_false :
    persistHolds Generated.ofxgetTables (fun _ => none)
      (nsWrite [("url".toList, .str "https://h/ofx?a=%41".toList)]) [] [] "U".toList "url".toList = false := by
  decide +kernel

/-- witness (ii): an account number containing `,` reads back as two accounts -/
theorem C18_persist_list_false :
    persistHolds Generated.ofxgetTables (fun _ => none)
      (nsWrite [("url".toList, .str "https://h/".toList), ("checking".toList, .list ["a,b".toList])])
      [] [] "U".toList "checking".toList = false := by
  decide +kernel

/-- witness (iii): `--version 203` (the library default) while the file holds 102: not saved, 102 is back -/
theorem C18_persist_default_false :
    persistHolds Generated.ofxgetTables (fun _ => none)
      (nsWrite [("url".toList, .str "https://h/".toList), ("version".toList, .int 203)])
      [] [("srv1".toList, [("version".toList, "102".toList)])] "U".toList "version".toList = false := by
  decide +kernel

theorem C18_persist_full_false : ¬ C18_persist_full := by
  intro h
  have := h (fun _ => none) (nsWrite [("url".toList, .str "https://h/ofx?a=%41".toList)]) [] [] "U".toList
    "url".toList (by decide +kernel)
  rw [C18_persist_percent_false] at this
  cases this

/-- the guard under which one saved value reads back as itself: what `arg2config` writes for `v`, passed through
    the INI reader (`strip`) and the typed getter, is `v` again -/
def readsBack (T : Tables) (ty : CfgTy) (v : CfgVal) : Bool :=
  match arg2config ty v with
  | .ok s => validSet s && (match interpolate T (fun _ => none) (strip s) with
      | .ok s' => (match typedOfStr T ty s' with | .ok v' => v' == v | .error _ => false)
      | .error _ => false)
  | .error _ => false

/-- strings without `%` and without edge blanks read back -/
def cleanStr (s : Str) : Bool := !s.contains '%' && strip s == s

theorem replaceGo_no_occurrence (old new : Str) (c0 : Char) (hold : old = c0 :: c0 :: []) (s : Str)
    (hs : ∀ x ∈ s, x ≠ c0) : replaceGo old new 0 s = s := by
  induction s with
  | nil => rfl
  | cons c cs ih =>
    have hc : c ≠ c0 := hs c (by simp)
    have hp : old.isPrefixOf (c :: cs) = false := by
      subst hold
      have hb : (c0 == c) = false := by simpa using fun e : c0 = c => hc e.symm
      simp [List.isPrefixOf, hb]
    simp only [replaceGo, hp, Bool.false_eq_true, if_false]
    rw [ih (fun x hx => hs x (by simp [hx]))]

theorem removeKeyRefs_no_percent (f : Nat) (s : Str) (hs : ∀ x ∈ s, x ≠ '%') : removeKeyRefs f s = s := by
  induction f generalizing s with
  | zero => rfl
  | succ f ih =>
    cases s with
    | nil => rfl
    | cons c cs =>
      have hc : c ≠ '%' := hs c (by simp)
      simp only [removeKeyRefs, hc, if_false]
      rw [ih cs (fun x hx => hs x (by simp [hx]))]

theorem interpScan_no_percent (look : Name → Option Str) (recur : Str → PyM Str) (s : Str)
    (hs : ∀ x ∈ s, x ≠ '%') : ∀ f, s.length < f → interpScan look recur f s = .ok s := by
  induction s with
  | nil => intro f hf; cases f with | zero => simp at hf | succ f => rfl
  | cons c cs ih =>
    intro f hf
    cases f with
    | zero => simp at hf
    | succ f =>
      have hc : c ≠ '%' := hs c (by simp)
      simp only [interpScan, hc, if_false]
      rw [ih (fun x hx => hs x (by simp [hx])) f (by simpa using hf)]
      rfl

/-- **C18_persist_partial** (value level, string options).  A string value with no `%` and no edge blanks is
    accepted by `cfg[opt] = value`, and the next run reads exactly it back — for every table with a positive
    interpolation depth limit. -/
theorem C18_persist_partial_str (T : Tables) (hd : 0 < T.maxInterpDepth) (s : Str) (hclean : cleanStr s = true) :
    readsBack T .str (.str s) = true := by
  simp only [cleanStr, Bool.and_eq_true, Bool.not_eq_true', beq_iff_eq] at hclean
  obtain ⟨hp, hstrip⟩ := hclean
  have hno : ∀ x ∈ s, x ≠ '%' := by
    intro x hx hx'
    subst hx'
    have : s.contains '%' = true := by simpa using hx
    rw [this] at hp
    cases hp
  have hv : validSet s = true := by
    simp only [validSet, replace]
    rw [replaceGo_no_occurrence "%%".toList [] '%' rfl s hno, removeKeyRefs_no_percent _ s hno]
    simpa using fun hmem => hno '%' hmem rfl
  have hi : interpolate T (fun _ => none) s = .ok s := by
    unfold interpolate
    obtain ⟨d, hd'⟩ : ∃ d, T.maxInterpDepth = d + 1 := ⟨T.maxInterpDepth - 1, by omega⟩
    rw [hd']
    simp only [interpDepth]
    exact interpScan_no_percent _ _ s hno _ (by omega)
  simp [readsBack, arg2config, hv, hstrip, hi, typedOfStr]

example : cleanStr "https://ofx.example.com/cgi?x=1&y=2".toList = true := by decide +kernel

/-- **C18_persist_partial** (value level, boolean options): always -/
theorem C18_persist_partial_bool (b : Bool) :
    readsBack Generated.ofxgetTables .bool (.bool b) = true := by
  cases b <;> decide +kernel

/-- **C18_clientuid_stable.**  Once the DEFAULT section holds a CLIENTUID, the part of `mk_server_cfg` that creates
    one leaves it alone: the `clientuid` of DEFAULT after clear-and-reload is the stored one, and no new id is
    drawn (`uuid` is not used). -/
theorem C18_clientuid_stable (mem : Ini) (disk : FileC) (u uuid : Str)
    (h : (({ mem with sections := [] } : Ini).loadFile disk).defaults.lookup "clientuid".toList = some u) :
    (if ((({ mem with sections := [] } : Ini).loadFile disk).defaults.lookup "clientuid".toList).isSome
      then (pure (({ mem with sections := [] } : Ini).loadFile disk) : PyM Ini)
      else (({ mem with sections := [] } : Ini).loadFile disk).set defaultSect "clientuid".toList uuid)
      = .ok (({ mem with sections := [] } : Ini).loadFile disk) := by
  generalize "clientuid".toList = key at h ⊢
  simp [h, pure, Except.pure]

end Ofx.Ofxget
