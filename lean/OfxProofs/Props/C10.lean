/-
C10 — element type converters are mutually inverse, canonical, and strict at limits.

Per converter `T` (Bool, String, NagString, OneOf, Integer, Decimal, ListElement), universally quantified over
parameters, values and texts:
  `C10_T_inv`      writing a domain value and reading it back returns the value
  `C10_T_canon`    reading an accepted text and writing it gives a text that reads to the same value (hence a
                   fixed point: see `C10_canon_fixed_point`)
  `C10_T_none`     `None` passes exactly when the element is optional
  `C10_T_limits`   exact accept/reject characterisation at the declared limits
  `C10_T_wrongty`  values of a wrong Python type are refused on write
Where the pinned code violates the full-strength statement it is kept as `def …_full : Prop`, refuted by
`…_full_false` from a concrete witness, and the strongest true statement is proved as `…_partial`.
-/
import OfxModel.Ofx.Types
import OfxProofs.Lemmas.Str
import OfxProofs.Lemmas.Dec

namespace Ofx.Types
open Ofx

/-- what the fixed-point clause of the property follows from: if the canonical text reads back to the value
    it was written from, writing that value again gives the same text -/
theorem C10_canon_fixed_point (cv uc : Val → PyM Val) (v t : Val)
    (h1 : uc v = .ok t) (h2 : cv t = .ok v) : (cv t >>= uc) = .ok t := by
  simp [h2, h1, bind, Except.bind]

/-! ### None -/

theorem enforceRequired_none (r : Bool) :
    enforceRequired r .none = if r then .error .spec else .ok .none := rfl

theorem C10_bool_none (r : Bool) :
    boolConvert r .none = (if r then .error .spec else .ok .none) ∧
    boolUnconvert r .none = (if r then .error .spec else .ok .none) := ⟨rfl, rfl⟩

theorem C10_string_none (l : Option Nat) (st r : Bool) :
    stringConvert l st r .none = (if r then .error .spec else .ok .none) ∧
    stringUnconvert l st r .none = (if r then .error .spec else .ok .none) := ⟨rfl, rfl⟩

theorem C10_oneof_none (valid : List Str) (r : Bool) :
    oneOfConvert valid r .none = (if r then .error .spec else .ok .none) ∧
    oneOfUnconvert valid r .none = (if r then .error .spec else .ok .none) := ⟨rfl, rfl⟩

theorem C10_integer_none (l : Option Nat) (r : Bool) :
    integerConvert l r .none = (if r then .error .spec else .ok .none) ∧
    integerUnconvert l r .none = (if r then .error .spec else .ok .none) := ⟨rfl, rfl⟩

theorem C10_decimal_none (q : Option Int) (r : Bool) :
    decimalConvert q r .none = (if r then .error .spec else .ok .none) ∧
    decimalUnconvert q r .none = (if r then .error .spec else .ok .none) := ⟨rfl, rfl⟩

/-- the empty text reads as `None` for String, OneOf and Integer (so it passes exactly when optional) -/
theorem C10_empty_text_none (l : Option Nat) (st r : Bool) (valid : List Str) :
    stringConvert l st r (.str []) = (if r then .error .spec else .ok .none) ∧
    oneOfConvert valid r (.str []) = (if r then .error .spec else .ok .none) ∧
    integerConvert l r (.str []) = (if r then .error .spec else .ok .none) := ⟨rfl, rfl, rfl⟩

/-! ### Bool -/

theorem C10_bool_inv (r : Bool) (b : Bool) :
    ∃ t, boolUnconvert r (.bool b) = .ok (.str t) ∧ boolConvert r (.str t) = .ok (.bool b) := by
  cases b <;> exact ⟨_, rfl, rfl⟩

theorem C10_bool_limits (r : Bool) (s : Str) (v : Val) :
    boolConvert r (.str s) = .ok v ↔ (s = ['Y'] ∧ v = .bool true) ∨ (s = ['N'] ∧ v = .bool false) := by
  unfold boolConvert
  by_cases h1 : s = ['Y']
  · subst h1; simp; exact eq_comm
  · by_cases h2 : s = ['N']
    · subst h2; simp; exact eq_comm
    · simp [h1, h2]

theorem C10_bool_canon (r : Bool) (s : Str) (v : Val) (h : boolConvert r (.str s) = .ok v) :
    ∃ t, boolUnconvert r v = .ok t ∧ boolConvert r t = .ok v := by
  rcases (C10_bool_limits r s v).mp h with ⟨_, rfl⟩ | ⟨_, rfl⟩
  · exact ⟨_, rfl, rfl⟩
  · exact ⟨_, rfl, rfl⟩

theorem C10_bool_wrongty (r : Bool) (v : Val) (h1 : v ≠ .none) (h2 : ∀ b, v ≠ .bool b) :
    boolUnconvert r v = .error .spec := by
  cases v <;> simp_all [boolUnconvert]

/-! ### String / NagString -/

/-- the length rule: a strict string fits when it has at most `length` characters; anything fits a
    warn-only string -/
def fits (l : Option Nat) (strict : Bool) (s : Str) : Bool :=
  match l with
  | some n => !strict || decide (s.length ≤ n)
  | none => true

theorem strEnforceLength_ok (l : Option Nat) (st : Bool) (s : Str) :
    strEnforceLength l st s = if fits l st s then .ok s else .error .spec := by
  unfold strEnforceLength fits
  cases l with
  | none => simp
  | some n =>
    cases st <;> simp
    by_cases h : s.length ≤ n
    · simp [h] <;> omega
    · simp [h] <;> omega

/-- limits on write: accepted exactly when the value fits, and then written whole -/
theorem C10_string_limits_write (l : Option Nat) (st r : Bool) (s : Str) :
    stringUnconvert l st r (.str s) = if fits l st s then .ok (.str s) else .error .spec := by
  simp only [stringUnconvert, strEnforceLength_ok]
  split <;> rfl

/-- limits on read: a non-empty text is accepted exactly when its decoded form fits -/
theorem C10_string_limits_read (l : Option Nat) (st r : Bool) (s : Str) (hs : s ≠ []) :
    stringConvert l st r (.str s) =
      if fits l st (unescape s) then .ok (.str (unescape s)) else .error .spec := by
  simp only [stringConvert, hs, if_false, strEnforceLength_ok]
  split <;> rfl

/-- at the limit: `length` characters pass, `length + 1` are refused by `String`, kept whole by `NagString` -/
theorem C10_string_limits (n : Nat) (r : Bool) (s : Str) :
    (s.length = n → stringUnconvert (some n) true r (.str s) = .ok (.str s)) ∧
    (s.length = n + 1 → stringUnconvert (some n) true r (.str s) = .error .spec) ∧
    (stringUnconvert (some n) false r (.str s) = .ok (.str s)) := by
  refine ⟨fun h => ?_, fun h => ?_, ?_⟩
  · rw [C10_string_limits_write]; simp [fits, h]
  · rw [C10_string_limits_write]; simp [fits, h]
  · rw [C10_string_limits_write]; simp [fits]

theorem C10_string_wrongty (l : Option Nat) (st r : Bool) (v : Val) (h1 : v ≠ .none) (h2 : ∀ s, v ≠ .str s) :
    stringUnconvert l st r v = .error .type ∧ stringConvert l st r v = .error .type := by
  cases v <;> simp_all [stringUnconvert, stringConvert]

/-- full-strength inverse law for strings: every non-empty value within the limit reads back -/
def C10_string_inv_full : Prop :=
  ∀ (l : Option Nat) (st r : Bool) (s : Str), s ≠ [] → fits l st s = true →
    ∃ t, stringUnconvert l st r (.str s) = .ok (.str t) ∧ stringConvert l st r (.str t) = .ok (.str s)

/-- false on the pinned tree: `unconvert` does not escape, `convert` unescapes — `"&amp;"` reads back as `"&"` -/
theorem C10_string_inv_full_false : ¬ C10_string_inv_full := by
  intro h
  obtain ⟨t, h1, h2⟩ := h none true false "&amp;".toList (by decide) rfl
  have ht : t = "&amp;".toList := by
    have : stringUnconvert none true false (.str "&amp;".toList) = .ok (.str "&amp;".toList) := rfl
    rw [this] at h1
    injection h1 with h1; injection h1 with h1; exact h1.symm
  subst ht
  have : stringConvert none true false (.str "&amp;".toList) = .ok (.str "&".toList) := by rfl
  rw [this] at h2
  injection h2 with h2; injection h2 with h2
  exact absurd h2 (by decide)

/-- the guard: the value contains no entity spelling (decoding leaves it unchanged) -/
def entityFree (s : Str) : Bool := decide (unescape s = s)

theorem entityFree_of_no_amp (s : Str) (h : '&' ∉ s) : entityFree s = true := by
  simp [entityFree, unescape_no_amp s h]

theorem C10_string_inv_partial (l : Option Nat) (st r : Bool) (s : Str) (hs : s ≠ [])
    (hfit : fits l st s = true) (hfree : entityFree s = true) :
    stringUnconvert l st r (.str s) = .ok (.str s) ∧ stringConvert l st r (.str s) = .ok (.str s) := by
  have hu : unescape s = s := by simpa [entityFree] using hfree
  rw [C10_string_limits_write, C10_string_limits_read l st r s hs, hu]
  simp [hfit]

example : entityFree "AT&T <Üñí> 100%;".toList = true := by decide +kernel

/-- full-strength canonical-text law for strings -/
def C10_string_canon_full : Prop :=
  ∀ (l : Option Nat) (st r : Bool) (s : Str) (v : Val), stringConvert l st r (.str s) = .ok v →
    ∃ t, stringUnconvert l st r v = .ok t ∧ stringConvert l st r t = .ok v

/-- false on the pinned tree: `"&amp;lt;"` reads as `"&lt;"`, which is written verbatim and reads as `"<"` -/
theorem C10_string_canon_full_false : ¬ C10_string_canon_full := by
  intro h
  have hc : stringConvert none true false (.str "&amp;lt;".toList) = .ok (.str "&lt;".toList) := by rfl
  obtain ⟨t, h1, h2⟩ := h none true false "&amp;lt;".toList _ hc
  have : stringUnconvert none true false (.str "&lt;".toList) = .ok (.str "&lt;".toList) := rfl
  rw [this] at h1
  injection h1 with h1
  subst h1
  have : stringConvert none true false (.str "&lt;".toList) = .ok (.str "<".toList) := by rfl
  rw [this] at h2
  injection h2 with h2; injection h2 with h2
  exact absurd h2 (by decide)

/-- canonical text, under the guard that the value read contains no entity spelling; the canonical text is the
    value itself -/
theorem C10_string_canon_partial (l : Option Nat) (st r : Bool) (s : Str) (v : Val)
    (h : stringConvert l st r (.str s) = .ok v) (hfree : ∀ u, v = .str u → entityFree u = true) :
    ∃ t, stringUnconvert l st r v = .ok t ∧ stringConvert l st r t = .ok v := by
  by_cases hs : s = []
  · subst hs
    have : stringConvert l st r (.str []) = enforceRequired r .none := rfl
    rw [this] at h
    cases r with
    | true => simp [enforceRequired] at h
    | false =>
      simp [enforceRequired] at h
      subst h
      exact ⟨.none, rfl, rfl⟩
  · rw [C10_string_limits_read l st r s hs] at h
    split at h
    · rename_i hfit
      injection h with h
      subst h
      have hne : unescape s ≠ [] := fun e => hs ((unescape_eq_nil s).mp e)
      have := C10_string_inv_partial l st r (unescape s) hne hfit (hfree _ rfl)
      exact ⟨_, this.1, this.2⟩
    · simp at h

/-! ### OneOf -/

theorem C10_oneof_limits (valid : List Str) (r : Bool) (s : Str) (v : Val) :
    oneOfConvert valid r (.str s) = .ok v ↔
      (s = [] ∧ r = false ∧ v = .none) ∨ (s ≠ [] ∧ s ∈ valid ∧ v = .str s) := by
  unfold oneOfConvert
  by_cases hs : s = []
  · subst hs
    cases r <;> simp [oneOfDefault, enforceRequired]
    exact eq_comm
  · simp only [hs, if_false, oneOfDefault]
    by_cases hm : s ∈ valid
    · simp [hm, hs]; exact eq_comm
    · simp [hm, hs]

theorem C10_oneof_write (valid : List Str) (r : Bool) (s : Str) :
    oneOfUnconvert valid r (.str s) = if s ∈ valid then .ok (.str s) else .error .spec := by
  simp [oneOfUnconvert, oneOfDefault]

theorem C10_oneof_inv (valid : List Str) (r : Bool) (s : Str) (hm : s ∈ valid) (hs : s ≠ []) :
    oneOfUnconvert valid r (.str s) = .ok (.str s) ∧ oneOfConvert valid r (.str s) = .ok (.str s) := by
  refine ⟨by simp [C10_oneof_write, hm], ?_⟩
  exact (C10_oneof_limits valid r s _).mpr (Or.inr ⟨hs, hm, rfl⟩)

theorem C10_oneof_canon (valid : List Str) (r : Bool) (s : Str) (v : Val)
    (h : oneOfConvert valid r (.str s) = .ok v) :
    ∃ t, oneOfUnconvert valid r v = .ok t ∧ oneOfConvert valid r t = .ok v := by
  rcases (C10_oneof_limits valid r s v).mp h with ⟨_, hr, rfl⟩ | ⟨hs, hm, rfl⟩
  · subst hr; exact ⟨.none, rfl, rfl⟩
  · have := C10_oneof_inv valid r s hm hs
    exact ⟨_, this.1, this.2⟩

theorem C10_oneof_wrongty (valid : List Str) (r : Bool) (v : Val) (h1 : v ≠ .none) (h2 : ∀ s, v ≠ .str s) :
    oneOfUnconvert valid r v = .error .spec ∧ oneOfConvert valid r v = .error .spec := by
  cases v <;> simp_all [oneOfUnconvert, oneOfConvert, oneOfDefault]

/-! ### Integer -/

/-- what `enforce_length` checks: `abs(value) < 10**length` -/
def intFits (l : Option Nat) (i : Int) : Bool :=
  match l with
  | some n => decide (i.natAbs < 10 ^ n)
  | none => true

theorem intEnforceLength_ok (l : Option Nat) (i : Int) :
    intEnforceLength l i = if intFits l i then .ok () else .error .spec := by
  unfold intEnforceLength intFits
  cases l with
  | none => simp
  | some n =>
    by_cases h : i.natAbs < 10 ^ n
    · simp [h] <;> omega
    · simp [h] <;> omega

/-- limits on write: an `int` is written exactly when `value < 10**length` -/
theorem C10_integer_limits_write (l : Option Nat) (r : Bool) (i : Int) :
    integerUnconvert l r (.int i) = if intFits l i then .ok (.str (pyStrInt i)) else .error .spec := by
  simp only [integerUnconvert, intEnforceLength_ok]
  split <;> rfl

/-- limits on read of the canonical text -/
theorem C10_integer_limits_read (l : Option Nat) (r : Bool) (i : Int) :
    integerConvert l r (.str (pyStrInt i)) = if intFits l i then .ok (.int i) else .error .spec := by
  have hne : (pyStrInt i).length ≠ 0 := by
    unfold pyStrInt
    split
    · simp
    · simpa using pyStrNat_ne_nil i.natAbs
  simp only [integerConvert, hne, if_false, pyIntParse_pyStrInt, intEnforceLength_ok]
  split <;> rfl

/-- at the limit: `±(10^n − 1)` pass, `±10^n` are refused, on write and on read -/
theorem C10_integer_limits (n : Nat) (r : Bool) (neg : Bool) :
    let top : Int := if neg then -(((10 ^ n - 1 : Nat) : Int)) else ((10 ^ n - 1 : Nat) : Int)
    let over : Int := if neg then -(((10 ^ n : Nat) : Int)) else ((10 ^ n : Nat) : Int)
    integerUnconvert (some n) r (.int top) = .ok (.str (pyStrInt top)) ∧
    integerUnconvert (some n) r (.int over) = .error .spec ∧
    integerConvert (some n) r (.str (pyStrInt top)) = .ok (.int top) ∧
    integerConvert (some n) r (.str (pyStrInt over)) = .error .spec := by
  have hpos : 0 < 10 ^ n := Nat.pow_pos (by decide)
  have h1 : ∀ b : Bool, (if b then -(((10 ^ n - 1 : Nat) : Int)) else ((10 ^ n - 1 : Nat) : Int)).natAbs = 10 ^ n - 1 := by
    intro b; cases b <;> simp
  have h2 : ∀ b : Bool, (if b then -(((10 ^ n : Nat) : Int)) else ((10 ^ n : Nat) : Int)).natAbs = 10 ^ n := by
    intro b; cases b <;> simp
  simp only []
  refine ⟨?_, ?_, ?_, ?_⟩
  · rw [C10_integer_limits_write]; simp only [intFits, h1]; simp; omega
  · rw [C10_integer_limits_write]; simp only [intFits, h2]; simp
  · rw [C10_integer_limits_read]; simp only [intFits, h1]; simp; omega
  · rw [C10_integer_limits_read]; simp only [intFits, h2]; simp

/-- inverse law: every `int` the length check lets through is written as `str(i)` and reads back -/
theorem C10_integer_inv (l : Option Nat) (r : Bool) (i : Int) (h : intFits l i = true) :
    integerUnconvert l r (.int i) = .ok (.str (pyStrInt i)) ∧
    integerConvert l r (.str (pyStrInt i)) = .ok (.int i) := by
  rw [C10_integer_limits_write, C10_integer_limits_read]; simp [h]

/-- what reading a text can produce: `None` for the empty text, an in-range `int` otherwise -/
theorem integerConvert_str (l : Option Nat) (r : Bool) (s : Str) (v : Val)
    (h : integerConvert l r (.str s) = .ok v) :
    (s = [] ∧ r = false ∧ v = .none) ∨ (∃ i, pyIntParse s = some i ∧ intFits l i = true ∧ v = .int i) := by
  unfold integerConvert at h
  by_cases hs : s.length = 0
  · have : s = [] := List.length_eq_zero_iff.mp hs
    subst this
    cases r <;> simp [enforceRequired] at h
    exact Or.inl ⟨rfl, rfl, h.symm⟩
  · simp only [hs, if_false] at h
    cases hp : pyIntParse s with
    | none => simp [hp] at h
    | some i =>
      simp only [hp, intEnforceLength_ok] at h
      by_cases hf : intFits l i = true
      · simp [hf, bind, Except.bind, pure, Except.pure] at h
        exact Or.inr ⟨i, rfl, hf, h.symm⟩
      · simp [hf, bind, Except.bind] at h

theorem C10_integer_canon (l : Option Nat) (r : Bool) (s : Str) (v : Val)
    (h : integerConvert l r (.str s) = .ok v) :
    ∃ t, integerUnconvert l r v = .ok t ∧ integerConvert l r t = .ok v := by
  rcases integerConvert_str l r s v h with ⟨_, hr, rfl⟩ | ⟨i, _, hf, rfl⟩
  · subst hr; exact ⟨.none, rfl, rfl⟩
  · have := C10_integer_inv l r i hf
    exact ⟨_, this.1, this.2⟩

/-- full-strength limit (holds since `fix: Integer length limit applies to negative values too`): an `n`-digit
    integer element is written exactly when `|value| < 10^n` -/
theorem C10_integer_limits_full (n : Nat) (r : Bool) (i : Int) :
    (∃ t, integerUnconvert (some n) r (.int i) = .ok t) ↔ i.natAbs < 10 ^ n := by
  rw [C10_integer_limits_write]
  by_cases h : i.natAbs < 10 ^ n <;> simp [intFits, h]

/-- the same limit on read, for every text `int()` accepts -/
theorem C10_integer_limits_full_read (n : Nat) (r : Bool) (s : Str) (i : Int) (hs : s ≠ [])
    (hp : pyIntParse s = some i) :
    (∃ v, integerConvert (some n) r (.str s) = .ok v) ↔ i.natAbs < 10 ^ n := by
  have hl : s.length ≠ 0 := by simpa using hs
  simp only [integerConvert, hl, if_false, hp, intEnforceLength_ok]
  by_cases h : i.natAbs < 10 ^ n <;> simp [intFits, h, bind, Except.bind, pure, Except.pure]

/-- wrong-type law, full strength (holds since `fix: Integer refuses bool values`): only `int` (and `None`) is
    written; in particular a `bool` is refused on write and on read -/
theorem C10_integer_wrongty_full (l : Option Nat) (r : Bool) (v : Val) (h1 : v ≠ .none) (h2 : ∀ i, v ≠ .int i) :
    integerUnconvert l r v = .error .type := by
  cases v <;> simp_all [integerUnconvert]

theorem C10_integer_bool_refused (l : Option Nat) (r : Bool) (b : Bool) :
    integerUnconvert l r (.bool b) = .error .type ∧ integerConvert l r (.bool b) = .error .type := ⟨rfl, rfl⟩

/-! ### Decimal -/

theorem decOfTextRaw_formatF (neg : Bool) (c : Nat) (e : Int) :
    decOfTextRaw (decFormatF (.fin neg c e)) = .ok (Dec.renorm (.fin neg c e)) := by
  simp [decOfTextRaw, decParse_decFormatF]

theorem renorm_isFinite (neg : Bool) (c : Nat) (e : Int) : (Dec.renorm (.fin neg c e)).isFinite = true := by
  simp only [Dec.renorm]; split <;> rfl

theorem decOfText_formatF (neg : Bool) (c : Nat) (e : Int) :
    decOfText (decFormatF (.fin neg c e)) = .ok (Dec.renorm (.fin neg c e)) := by
  simp [decOfText, decOfTextRaw_formatF, renorm_isFinite, bind, Except.bind, pure, Except.pure]

/-- whatever a text reads as is finite -/
theorem decOfText_finite (s : Str) (d : Dec) (h : decOfText s = .ok d) : d.isFinite = true := by
  simp only [decOfText, bind, Except.bind] at h
  cases h1 : decOfTextRaw s with
  | error e => simp [h1] at h
  | ok d0 =>
    simp only [h1] at h
    by_cases hf : d0.isFinite = true
    · simp [hf, pure, Except.pure] at h; subst h; exact hf
    · simp [hf] at h

/-- what reading a text yields -/
theorem decimalConvert_str (q : Option Int) (r : Bool) (s : Str) (v : Val)
    (h : decimalConvert q r (.str s) = .ok v) :
    ∃ d0 d, decOfText s = .ok d0 ∧ applyScale q d0 = .ok d ∧ v = .dec d := by
  simp only [decimalConvert, bind, Except.bind, pure, Except.pure] at h
  cases h1 : decOfText s with
  | error e => simp [h1] at h
  | ok d0 =>
    simp only [h1] at h
    cases h2 : applyScale q d0 with
    | error e => simp [h2] at h
    | ok d => simp only [h2] at h; injection h with h; exact ⟨d0, d, rfl, h2, h.symm⟩

/-- whatever a text reads as is a finite decimal (non-finite literals are refused; holds since
    `fix: Decimal elements are written in plain notation and non-finite values are refused`) -/
theorem C10_decimal_read_finite (q : Option Int) (r : Bool) (s : Str) (v : Val)
    (h : decimalConvert q r (.str s) = .ok v) : ∃ neg c e, v = .dec (.fin neg c e) := by
  obtain ⟨d0, d, h1, h2, rfl⟩ := decimalConvert_str q r s v h
  have hf := decOfText_finite s d0 h1
  cases q with
  | none =>
    simp [applyScale] at h2; subst h2
    cases d0 <;> simp [Dec.isFinite] at hf
    exact ⟨_, _, _, rfl⟩
  | some qe =>
    rcases quantize_ok d0 d qe h2 with ⟨n, c, rfl, _, _⟩ | ⟨n, p, p', hd, _⟩
    · exact ⟨_, _, _, rfl⟩
    · subst hd; simp [Dec.isFinite] at hf

/-- `value.same_quantum(self.scale)` when a scale is declared -/
def atQuantum (q : Option Int) (d : Dec) : Bool :=
  match q with
  | some qe => sameQuantum d qe
  | none => true

/-- limits on write: a value is written exactly when it is finite and (with a scale) at the quantum; the text is
    `format(value, "f")` -/
theorem C10_decimal_limits_write (q : Option Int) (r : Bool) (d : Dec) :
    decimalUnconvert q r (.dec d) =
      if atQuantum q d && d.isFinite then .ok (.str (decFormatF d)) else .error .value := by
  cases q with
  | none => cases hf : d.isFinite <;> simp [decimalUnconvert, atQuantum, hf]
  | some qe =>
    cases hq : sameQuantum d qe <;> cases hf : d.isFinite <;> simp [decimalUnconvert, atQuantum, hq, hf]

/-- non-finite values are refused on write and non-finite literals on read -/
theorem C10_decimal_nonfinite_refused (q : Option Int) (r : Bool) (d : Dec) (h : d.isFinite = false) :
    decimalUnconvert q r (.dec d) = .error .value := by
  rw [C10_decimal_limits_write]; simp [h]

/-- inverse law without a scale, exact: every finite decimal with exponent ≤ 0 (any coefficient, signed zeros) is
    written in plain notation and reads back with the same sign, coefficient and exponent -/
theorem C10_decimal_inv (r : Bool) (neg : Bool) (c : Nat) (e : Int) (he : e ≤ 0) :
    decimalUnconvert none r (.dec (.fin neg c e)) = .ok (.str (decFormatF (.fin neg c e))) ∧
    decimalConvert none r (.str (decFormatF (.fin neg c e))) = .ok (.dec (.fin neg c e)) := by
  refine ⟨rfl, ?_⟩
  simp [decimalConvert, decOfText_formatF, Dec.renorm_of_nonpos neg c e he, applyScale, bind, Except.bind, pure,
    Except.pure]

/-- inverse law without a scale, numeric form: a finite decimal with a positive exponent reads back as the same
    number rescaled to exponent 0 (`c · 10^e`, exponent 0) -/
theorem C10_decimal_inv_numeric (r : Bool) (neg : Bool) (c : Nat) (e : Int) (he : e > 0) :
    decimalUnconvert none r (.dec (.fin neg c e)) = .ok (.str (decFormatF (.fin neg c e))) ∧
    decimalConvert none r (.str (decFormatF (.fin neg c e))) = .ok (.dec (.fin neg (c * 10 ^ e.toNat) 0)) := by
  refine ⟨rfl, ?_⟩
  simp [decimalConvert, decOfText_formatF, Dec.renorm, he, applyScale, bind, Except.bind, pure, Except.pure]

/-- full-strength inverse law (exact triple for every finite decimal) -/
def C10_decimal_inv_full : Prop :=
  ∀ (r : Bool) (neg : Bool) (c : Nat) (e : Int), ∃ t,
    decimalUnconvert none r (.dec (.fin neg c e)) = .ok (.str t) ∧
    decimalConvert none r (.str t) = .ok (.dec (.fin neg c e))

/-- false: plain notation cannot carry a positive exponent — `Decimal('1E+2')` is written `100` and reads back as
    `Decimal('100')` (numerically equal; consequence of writing what OFX requires) -/
theorem C10_decimal_inv_full_false : ¬ C10_decimal_inv_full := by
  intro h
  obtain ⟨t, h1, h2⟩ := h false false 1 2
  have ht : t = "100".toList := by
    have : decimalUnconvert none false (.dec (.fin false 1 2)) = .ok (.str "100".toList) := by rfl
    rw [this] at h1; injection h1 with h1; injection h1 with h1; exact h1.symm
  subst ht
  have : decimalConvert none false (.str "100".toList) = .ok (.dec (.fin false 100 0)) := by rfl
  rw [this] at h2
  injection h2 with h2; injection h2 with h2
  exact absurd h2 (by decide)

/-- canonical text without a scale: whatever is read with exponent ≤ 0 is written as a text that reads back to it -/
theorem C10_decimal_canon (r : Bool) (s : Str) (neg : Bool) (c : Nat) (e : Int)
    (h : decimalConvert none r (.str s) = .ok (.dec (.fin neg c e))) (he : e ≤ 0) :
    ∃ t, decimalUnconvert none r (.dec (.fin neg c e)) = .ok t ∧ decimalConvert none r t = .ok (.dec (.fin neg c e)) :=
  ⟨_, (C10_decimal_inv r neg c e he).1, (C10_decimal_inv r neg c e he).2⟩

/-- … and for a positive exponent (only reachable from an exponent literal such as `1E+2`, which the lenient read
    still accepts) the canonical text reads to the renormalised value -/
theorem C10_decimal_canon_numeric (r : Bool) (neg : Bool) (c : Nat) (e : Int) (he : e > 0) :
    ∃ t, decimalUnconvert none r (.dec (.fin neg c e)) = .ok t ∧
      decimalConvert none r t = .ok (.dec (.fin neg (c * 10 ^ e.toNat) 0)) :=
  ⟨_, (C10_decimal_inv_numeric r neg c e he).1, (C10_decimal_inv_numeric r neg c e he).2⟩

/-- limits on read with a scale: whatever is read is finite, has the exponent of the quantum and fits the precision
    of the context -/
theorem C10_decimal_limits_read (qe : Int) (r : Bool) (s : Str) (v : Val)
    (h : decimalConvert (some qe) r (.str s) = .ok v) :
    ∃ n c, v = .dec (.fin n c qe) ∧ fitsPrec c = true := by
  obtain ⟨d0, d1, h1, h2, rfl⟩ := decimalConvert_str (some qe) r s _ h
  have hf := decOfText_finite s d0 h1
  rcases quantize_ok d0 d1 qe h2 with ⟨n, c, rfl, hc, _⟩ | ⟨n, p, p', hd, _⟩
  · exact ⟨n, c, rfl, hc⟩
  · subst hd; simp [Dec.isFinite] at hf

/-- inverse law with a scale (quantum exponent `qe ≤ 0`, i.e. any scale ≥ 0): every finite value at the quantum whose
    coefficient fits the context precision -/
theorem C10_decimal_inv_scaled (qe : Int) (hq : qe ≤ 0) (r : Bool) (n : Bool) (c : Nat) (hc : fitsPrec c = true) :
    decimalUnconvert (some qe) r (.dec (.fin n c qe)) = .ok (.str (decFormatF (.fin n c qe))) ∧
    decimalConvert (some qe) r (.str (decFormatF (.fin n c qe))) = .ok (.dec (.fin n c qe)) := by
  constructor
  · rw [C10_decimal_limits_write]; simp [atQuantum, sameQuantum, Dec.isFinite]
  · simp [decimalConvert, decOfText_formatF, Dec.renorm_of_nonpos n c qe hq, applyScale, quantize_self n c qe hc, bind,
      Except.bind, pure, Except.pure]

example : fitsPrec 9999999999999999999999999999 = true := by decide +kernel

/-- canonical text with a scale, full strength (holds since non-finite literals are refused): every accepted text is
    written as a text that reads back to the same value -/
theorem C10_decimal_canon_scaled (qe : Int) (hq : qe ≤ 0) (r : Bool) (s : Str) (v : Val)
    (h : decimalConvert (some qe) r (.str s) = .ok v) :
    ∃ t, decimalUnconvert (some qe) r v = .ok t ∧ decimalConvert (some qe) r t = .ok v := by
  obtain ⟨n, c, rfl, hc⟩ := C10_decimal_limits_read qe r s v h
  exact ⟨_, (C10_decimal_inv_scaled qe hq r n c hc).1, (C10_decimal_inv_scaled qe hq r n c hc).2⟩

example : decimalConvert (some (-2)) false (.str "1,005".toList) = .ok (.dec (.fin false 100 (-2))) := by rfl
example : decimalConvert (some (-2)) false (.str "NaN".toList) = .error .spec := by rfl

/-- a text never reads as `None` for Decimal (the empty text raises) -/
theorem C10_decimal_text_not_none (q : Option Int) (r : Bool) (s : Str) : decimalConvert q r (.str s) ≠ .ok .none := by
  intro h
  obtain ⟨_, _, _, _, hv⟩ := decimalConvert_str q r s _ h
  simp at hv

theorem C10_decimal_wrongty (q : Option Int) (r : Bool) (v : Val) (h1 : v ≠ .none) (h2 : ∀ d, v ≠ .dec d) :
    decimalUnconvert q r v = .error .type := by
  cases v <;> simp_all [decimalUnconvert]

/-- the quantum, full strength (holds since `fix: Decimal(scale=0) quantizes to whole numbers`):
    `Decimal(scale = n)` rounds to `10^-n`, for every `n` including 0 -/
theorem C10_decimal_scale_full (n : Nat) : quantumOfScale n = .fin false 1 (-(n : Int)) := rfl

/-! ### ListElement -/

/-- `ListElement` delegates to its converter (with the inner converter's `required`) -/
theorem C10_list (enums : List (List Str)) (k : Kind) (ir r : Bool) (v : Val) :
    convert enums (.listElem k ir) r v = convert enums k ir v ∧
    unconvert enums (.listElem k ir) r v = unconvert enums k ir v := ⟨rfl, rfl⟩

end Ofx.Types
