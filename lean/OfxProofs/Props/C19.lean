/-
C19 — ofxget requests exactly the configured or discovered accounts and given dates.
-/
import OfxProofs.Lemmas.Ofxget
import OfxProofs.Gen.Ofxget

namespace Ofx.Ofxget
open Ofx Ofx.Spec.Ofxget

/-- **C19_dates.**  `convert_datetime` hands exactly `DateTime().convert(text or None)` of the three configured texts
    to the requests, in the order start, end, as-of (`D` is `DateTime().convert`, abstract). -/
theorem C19_dates {δ : Type} (D : Option Str → PyM (Option δ)) (args : Chain) (ts te ta : Str) (r : Dates δ)
    (hs : args.get? "dtstart".toList = some (.str ts)) (he : args.get? "dtend".toList = some (.str te))
    (ha : args.get? "dtasof".toList = some (.str ta))
    (h : convertDatetime D args = .ok r) :
    D (if ts = [] then none else some ts) = .ok r.start ∧
    D (if te = [] then none else some te) = .ok r.end ∧
    D (if ta = [] then none else some ta) = .ok r.asof := by
  unfold convertDatetime at h
  generalize "dtstart".toList = k1 at hs h
  generalize "dtend".toList = k2 at he h
  generalize "dtasof".toList = k3 at ha h
  simp only [Chain.getItem, hs, he, ha, dateArg, bind, Except.bind] at h
  cases h1 : D (if ts = [] then none else some ts) with
  | error e => simp [h1] at h
  | ok v1 =>
    cases h2 : D (if te = [] then none else some te) with
    | error e => simp [h1, h2] at h
    | ok v2 =>
      cases h3 : D (if ta = [] then none else some ta) with
      | error e => simp [h1, h2, h3] at h
      | ok v3 =>
        simp [h1, h2, h3, pure, Except.pure] at h
        subst h
        exact ⟨rfl, rfl, rfl⟩

/-- without `--all` nothing is discovered: the mapping is left as it is -/
theorem C19_no_all_no_discovery (args : Chain) (acct : PyM (List AcctInfo)) (v : CfgVal)
    (hv : args.get? "all".toList = some v) (hf : truthy v = false) : discover args acct = .ok args := by
  unfold discover
  generalize "all".toList = key at hv ⊢
  simp [Chain.getItem, hv, hf, bind, Except.bind, pure, Except.pure]

/-- the loop over one account type contributes one request per configured id, in order -/
theorem C19_ids_of_list (args : Chain) (k : Name) (ids : List Str) (h : args.get? k = some (.list ids)) :
    acctIds args k = .ok ids := by
  simp [acctIds, Chain.getItem, h, bind, Except.bind, pure, Except.pure]

/-- the discovered mapping is consulted right after the command line and before the configuration files -/
theorem C19_discovered_rank (cli : Map) (rest : List Map) (infos : List AcctInfo) (m : Map) (c : Chain)
    (hm : parsedAcctinfo infos = .ok m) (h : mergeAcctinfo (cli :: rest) infos = .ok c) :
    c = cli :: m :: rest := by
  unfold mergeAcctinfo at h
  simp [hm, bind, Except.bind, pure, Except.pure, pyInsert_one] at h
  exact h.symm

/-! ### `--all` never requests an inactive account: false at full strength -/

/-- does a run of `ofxget stmt` request an account that the response lists with a status other than ACTIVE? -/
def requestsInactive (args : Chain) (infos : List AcctInfo) : Bool :=
  match requestStmt (fun (d : Option Str) => .ok d) args (.ok infos) with
  | .ok p => p.requests.any fun r => listedInactive infos (rqAcct r)
  | .error _ => false

/-- does the run fail although the response lists ACTIVE accounts? -/
def failsWithActive (args : Chain) (infos : List AcctInfo) : Bool :=
  match requestStmt (fun (d : Option Str) => .ok d) args (.ok infos) with
  | .ok _ => false
  | .error _ => !(specActive false infos).isEmpty

def C19_never_inactive_full : Prop :=
  ∀ (cli user : Map) (infos : List AcctInfo), cli.lookup "all".toList = some (.bool true) →
    (∀ k ∈ bankTypes ++ ["creditcard".toList, "investment".toList, "bankid".toList, "brokerid".toList], cli.lookup k = none) →
    requestsInactive [cli, user, Generated.ofxgetTables.defaults] infos = false ∧
    failsWithActive [cli, user, Generated.ofxgetTables.defaults] infos = false

def wCli : Map := [("all".toList, .bool true), ("url".toList, .str "https://h/".toList)]

/-- witness: the server lists checking C1 ACTIVE and savings S1 PEND; ofxget.cfg lists S1 under `savings`;
    `--all` requests S1 as well (the SAVINGS type has no ACTIVE account, so `args["savings"]` falls through) -/
theorem C19_falls_back_witness :
    requestsInactive [wCli, [("savings".toList, .list ["S1".toList])], Generated.ofxgetTables.defaults]
      [.bank "1".toList "C1".toList "CHECKING".toList "ACTIVE".toList,
       .bank "1".toList "S1".toList "SAVINGS".toList "PEND".toList] = true := by
  decide +kernel

/-- witness: bank accounts listed, none ACTIVE, an ACTIVE credit card: `collapseToSingle([])` raises -/
theorem C19_no_active_bank_witness :
    failsWithActive [wCli, [], Generated.ofxgetTables.defaults]
      [.bank "1".toList "C1".toList "CHECKING".toList "PEND".toList, .cc "K1".toList "ACTIVE".toList] = true := by
  decide +kernel

theorem C19_never_inactive_full_false : ¬ C19_never_inactive_full := by
  intro h
  have := (h wCli [("savings".toList, .list ["S1".toList])]
      [.bank "1".toList "C1".toList "CHECKING".toList "ACTIVE".toList,
       .bank "1".toList "S1".toList "SAVINGS".toList "PEND".toList] (by decide +kernel) (by decide +kernel)).1
  rw [C19_falls_back_witness] at this
  cases this

end Ofx.Ofxget
