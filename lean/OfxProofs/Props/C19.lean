/-
C19 — ofxget requests exactly the configured or discovered accounts and given dates.
-/
import OfxProofs.Lemmas.Ofxget
import OfxProofs.Lemmas.OfxgetStmt
import OfxProofs.Lemmas.OfxgetAll
import OfxProofs.Gen.Ofxget

namespace Ofx.Ofxget
open Ofx Ofx.Spec.Ofxget

/-- **C19_dates.**  `convert_datetime` hands exactly `DateTime().convert(text or None)` of the three configured texts
    to the requests, in the order start, end, as-of (`D` is `DateTime().convert`, abstract). -/
theorem C19_dates {δ : Type} (D : Option Str → PyM (Option δ)) (args : Chain) (ts te ta : Str) (r : Dates δ)
    (hs : args.get? "dtstart".toList = some (.str ts)) (he : args.get? "dtend".toList = some (.str te))
    (ha : args.get? "dtasof".toList = some (.str ta))
    (h : convertDatetime D args = .ok r) :
    D (if ts = [] then none else some ts) = .ok r.start ∧
    D (if te = [] then none else some te) = .ok r.end ∧
    D (if ta = [] then none else some ta) = .ok r.asof := by
  unfold convertDatetime at h
  generalize "dtstart".toList = k1 at hs h
  generalize "dtend".toList = k2 at he h
  generalize "dtasof".toList = k3 at ha h
  simp only [Chain.getItem, hs, he, ha, dateArg, bind, Except.bind] at h
  cases h1 : D (if ts = [] then none else some ts) with
  | error e => simp [h1] at h
  | ok v1 =>
    cases h2 : D (if te = [] then none else some te) with
    | error e => simp [h1, h2] at h
    | ok v2 =>
      cases h3 : D (if ta = [] then none else some ta) with
      | error e => simp [h1, h2, h3] at h
      | ok v3 =>
        simp [h1, h2, h3, pure, Except.pure] at h
        subst h
        exact ⟨rfl, rfl, rfl⟩

/-- without `--all` nothing is discovered: the mapping is left as it is -/
theorem C19_no_all_no_discovery (args : Chain) (acct : PyM (List AcctInfo)) (v : CfgVal)
    (hv : args.get? "all".toList = some v) (hf : truthy v = false) : discover args acct = .ok args := by
  unfold discover
  generalize "all".toList = key at hv ⊢
  simp [Chain.getItem, hv, hf, bind, Except.bind, pure, Except.pure]

/-- the loop over one account type contributes one request per configured id, in order -/
theorem C19_ids_of_list (args : Chain) (k : Name) (ids : List Str) (h : args.get? k = some (.list ids)) :
    acctIds args k = .ok ids := by
  simp [acctIds, Chain.getItem, h, bind, Except.bind, pure, Except.pure]

/-- the discovered mapping is consulted right after the command line and before the configuration files -/
theorem C19_discovered_rank (cli : Map) (rest : List Map) (infos : List AcctInfo) (m : Map) (c : Chain)
    (hm : parsedAcctinfo infos = .ok m) (h : mergeAcctinfo (cli :: rest) infos = .ok c) :
    c = cli :: m :: rest := by
  unfold mergeAcctinfo at h
  simp [hm, bind, Except.bind, pure, Except.pure, pyInsert_one] at h
  exact h.symm

/-! ### configured accounts -/

/-- **C19_configured** (`ofxget stmt`).  For every mapping without `--all` whose six account-type options hold
    lists `a` and whose include flags are `t oo pos bal`: if `request_stmt` gets as far as calling the client, the
    request tuples are exactly the declarative list `specStmt` — one per configured id, bank types in the order
    checking, savings, moneymrkt, creditline with `accttype` the upper-cased option name, then credit cards, then
    investment accounts, each with the converted dates and the flags — in that order, none missing, duplicated or
    of another kind; the client is built from the same mapping, in particular with the configured bank id and
    broker id (or `None` when empty). -/
theorem C19_configured {δ : Type} (D : Option Str → PyM (Option δ)) (args : Chain) (acct : PyM (List AcctInfo))
    (a : Accounts) (t oo pos bal v b k : CfgVal)
    (hall : args.get? "all".toList = some v) (hnot : truthy v = false)
    (ha : HasAccounts args a) (hf : HasFlags args t oo pos bal)
    (hb : args.get? "bankid".toList = some b) (hk : args.get? "brokerid".toList = some k)
    (p : Plan δ) (h : requestStmt D args acct = .ok p) :
    ∃ dt, convertDatetime D args = .ok dt ∧
      p.requests = specStmt a ⟨dt.start, dt.end, dt.asof, t, oo, pos, bal⟩ ∧
      p.client.lookup "bankid".toList = some (orNone b) ∧ p.client.lookup "brokerid".toList = some (orNone k) := by
  obtain ⟨dt, hdt, hrq, hcl, _⟩ := requestStmt_configured D args acct a t oo pos bal v hall hnot ha hf p h
  have := initClient_ids args p.client hcl b k hb hk
  exact ⟨dt, hdt, hrq, this.1, this.2⟩

/-- **C19_configured** (`ofxget stmtend`): bank and credit-card accounts only, no flags. -/
theorem C19_configured_stmtend {δ : Type} (D : Option Str → PyM (Option δ)) (args : Chain) (acct : PyM (List AcctInfo))
    (a : Accounts) (v : CfgVal)
    (hall : args.get? "all".toList = some v) (hnot : truthy v = false)
    (ha : HasAccounts args a)
    (p : Plan δ) (h : requestStmtend D args acct = .ok p) :
    ∃ dt, convertDatetime D args = .ok dt ∧
      p.requests = specStmtend a ⟨dt.start, dt.end, dt.asof, .null, .null, .null, .null⟩ := by
  unfold requestStmtend at h
  simp only [bind, Except.bind] at h
  cases hdt : convertDatetime D args with
  | error e => rw [hdt] at h; cases h
  | ok dt =>
    rw [hdt] at h
    simp only at h
    cases hdry : args.getItem "dryrun".toList with
    | error e => rw [hdry] at h; cases h
    | ok d =>
      rw [hdry] at h
      simp only [discover_no_all args acct v hall hnot,
        stmtendRequests_eq dt args a ha ⟨dt.start, dt.end, dt.asof, .null, .null, .null, .null⟩ rfl rfl] at h
      cases hc : initClient args with
      | error e => rw [hc] at h; cases h
      | ok cl =>
        rw [hc] at h
        simp only [pure, Except.pure, Except.ok.injEq] at h
        subst h
        exact ⟨dt, rfl, rfl⟩

/-! ### `--all` -/

/-- **C19_all_active.**  `ofxget stmt --all` with no account named on the command line: for every configuration
    underneath and every account-information response (account types in ACCTTYPES), if the request is composed,
    then under `NoFallback` (no account-type key the response is silent about is configured further down) the
    accounts requested are, as a multiset, exactly those the response lists as ACTIVE of requestable types. -/
theorem C19_all_active {δ : Type} (D : Option Str → PyM (Option δ)) (cli : Map) (rest : Chain)
    (infos : List AcctInfo) (p : Plan δ) (v : CfgVal)
    (hall : Chain.get? (cli :: rest) "all".toList = some v) (ht : truthy v = true)
    (hcli : ∀ t ∈ acctKeys, cli.lookup t = none)
    (hv : ValidInfos infos) (hg : NoFallback rest infos)
    (h : requestStmt D (cli :: rest) (.ok infos) = .ok p) :
    (p.requests.map rqAcct).Perm (specActive false infos) :=
  requestStmt_all_active D cli rest infos p v hall ht hcli hv hg h

/-- **C19_all_active** for `ofxget stmtend --all` -/
theorem C19_all_active_stmtend {δ : Type} (D : Option Str → PyM (Option δ)) (cli : Map) (rest : Chain)
    (infos : List AcctInfo) (p : Plan δ) (v : CfgVal)
    (hall : Chain.get? (cli :: rest) "all".toList = some v) (ht : truthy v = true)
    (hcli : ∀ t ∈ closingKeys, cli.lookup t = none)
    (hv : ValidInfos infos) (hg : NoFallbackClosing rest infos)
    (h : requestStmtend D (cli :: rest) (.ok infos) = .ok p) :
    (p.requests.map rqAcct).Perm (specActive true infos) :=
  requestStmtend_all_active D cli rest infos p v hall ht hcli hv hg h

/-- **C19_never_inactive_partial.**  Under the same guard every account requested with `--all` is one the response
    lists as ACTIVE (hence never one it lists only with another status). -/
theorem C19_never_inactive_partial {δ : Type} (D : Option Str → PyM (Option δ)) (cli : Map) (rest : Chain)
    (infos : List AcctInfo) (p : Plan δ) (v : CfgVal)
    (hall : Chain.get? (cli :: rest) "all".toList = some v) (ht : truthy v = true)
    (hcli : ∀ t ∈ acctKeys, cli.lookup t = none)
    (hv : ValidInfos infos) (hg : NoFallback rest infos)
    (h : requestStmt D (cli :: rest) (.ok infos) = .ok p) :
    ∀ r ∈ p.requests, ∃ inf ∈ infos, requestable false inf = some (rqAcct r) := by
  intro r hr
  exact listed_active_of_perm false infos _ (C19_all_active D cli rest infos p v hall ht hcli hv hg h) (rqAcct r)
    (List.mem_map_of_mem hr)

theorem C19_never_inactive_partial_stmtend {δ : Type} (D : Option Str → PyM (Option δ)) (cli : Map) (rest : Chain)
    (infos : List AcctInfo) (p : Plan δ) (v : CfgVal)
    (hall : Chain.get? (cli :: rest) "all".toList = some v) (ht : truthy v = true)
    (hcli : ∀ t ∈ closingKeys, cli.lookup t = none)
    (hv : ValidInfos infos) (hg : NoFallbackClosing rest infos)
    (h : requestStmtend D (cli :: rest) (.ok infos) = .ok p) :
    ∀ r ∈ p.requests, ∃ inf ∈ infos, requestable true inf = some (rqAcct r) := by
  intro r hr
  exact listed_active_of_perm true infos _ (C19_all_active_stmtend D cli rest infos p v hall ht hcli hv hg h)
    (rqAcct r) (List.mem_map_of_mem hr)

/-- the guard is satisfiable by a non-trivial situation: a response with an ACTIVE checking account and a PEND
    savings account, over a configuration that lists a *checking* account (shadowed by the discovered one) -/
example : NoFallback [[("checking".toList, .list ["OLD".toList])], Generated.ofxgetTables.defaults]
    [.bank "1".toList "C1".toList "CHECKING".toList "ACTIVE".toList,
     .bank "1".toList "S1".toList "SAVINGS".toList "PEND".toList] := by
  unfold NoFallback
  decide +kernel

example : ValidInfos [.bank "1".toList "C1".toList "CHECKING".toList "ACTIVE".toList, .cc "K".toList "PEND".toList] := by
  intro inf hinf
  simp only [List.mem_cons, List.mem_nil_iff, or_false] at hinf
  rcases hinf with rfl | rfl
  · show "CHECKING".toList ∈ validAcctTypes
    decide
  · trivial

/-! ### `--all` never requests an inactive account: false at full strength -/

/-- does a run of `ofxget stmt` request an account that the response lists with a status other than ACTIVE? -/
def requestsInactive (args : Chain) (infos : List AcctInfo) : Bool :=
  match requestStmt (fun (d : Option Str) => .ok d) args (.ok infos) with
  | .ok p => p.requests.any fun r => listedInactive infos (rqAcct r)
  | .error _ => false

/-- does the run fail although the response lists ACTIVE accounts? -/
def failsWithActive (args : Chain) (infos : List AcctInfo) : Bool :=
  match requestStmt (fun (d : Option Str) => .ok d) args (.ok infos) with
  | .ok _ => false
  | .error _ => !(specActive false infos).isEmpty

def C19_never_inactive_full : Prop :=
  ∀ (cli user : Map) (infos : List AcctInfo), cli.lookup "all".toList = some (.bool true) →
    (∀ k ∈ bankTypes ++ ["creditcard".toList, "investment".toList, "bankid".toList, "brokerid".toList], cli.lookup k = none) →
    requestsInactive [cli, user, Generated.ofxgetTables.defaults] infos = false

def wCli : Map := [("all".toList, .bool true), ("url".toList, .str "https://h/".toList)]

/-- witness: the server lists checking C1 ACTIVE and savings S1 PEND; ofxget.cfg lists S1 under `savings`;
    `--all` requests S1 as well (the SAVINGS type has no ACTIVE account, so `args["savings"]` falls through) -/
theorem C19_falls_back_witness :
    requestsInactive [wCli, [("savings".toList, .list ["S1".toList])], Generated.ofxgetTables.defaults]
      [.bank "1".toList "C1".toList "CHECKING".toList "ACTIVE".toList,
       .bank "1".toList "S1".toList "SAVINGS".toList "PEND".toList] = true := by
  decide +kernel

/-- repaired (`fix: ofxget --all does not fail when the server lists no ACTIVE bank or investment account`):
    bank accounts listed, none ACTIVE, an ACTIVE credit card — the request is composed (for the credit card) -/
theorem C19_no_active_bank_fixed :
    failsWithActive [wCli, [], Generated.ofxgetTables.defaults]
      [.bank "1".toList "C1".toList "CHECKING".toList "PEND".toList, .cc "K1".toList "ACTIVE".toList] = false := by
  decide +kernel

theorem C19_never_inactive_full_false : ¬ C19_never_inactive_full := by
  intro h
  have := (h wCli [("savings".toList, .list ["S1".toList])]
      [.bank "1".toList "C1".toList "CHECKING".toList "ACTIVE".toList,
       .bank "1".toList "S1".toList "SAVINGS".toList "PEND".toList] (by decide +kernel) (by decide +kernel))
  rw [C19_falls_back_witness] at this
  cases this

end Ofx.Ofxget
