/-
C13 — every child a model class declares is written under its tag and read back into the same attribute.

The property quantifies over a finite table (the generated classes); the static clauses are decided by kernel
evaluation (Gen/WF.lean) and the probe per declared child is exhaustive (harness/corr/C13.py).  The theorems here
connect the two: for every class that satisfies the static clauses, *every* valid instance writes every child it
holds under that child's tag and the library's reader returns the same instance — corollaries of the aggregate
round trip (C01) and of the origin theorems of C03.
-/
import OfxProofs.Props.C03
import OfxProofs.Props.C01
namespace Ofx.Agg
open Ofx

theorem mem_mapTextList (f : Str → Str) : ∀ (cs : List Tree) (ch' : Tree), ch' ∈ mapTextList f cs →
    ∃ ch ∈ cs, ch'.tag = ch.tag
  | [], ch', h => by simp [mapTextList] at h
  | c :: cs, ch', h => by
    simp only [mapTextList, List.mem_cons] at h
    rcases h with rfl | h
    · refine ⟨c, by simp, ?_⟩
      cases c with | node t x tl k => simp [mapText, Tree.tag]
    · obtain ⟨ch, hch, ht⟩ := mem_mapTextList f cs ch' h
      exact ⟨ch, by simp [hch], ht⟩

/-- **C13 (every child a valid instance holds is written under its tag and read back).** For a valid
    instance of a class that satisfies the static clauses, every non-`None` value held under a non-repeated
    attribute `n` is written as a child whose tag lower-cases to `n`, and the library's reader converts the
    written tree back into the very same instance (so the child is read back into the same attribute).  (`hplain`:
    the three classes with a `groom` rename write that one child under the renamed tag by design.) -/
theorem C13_child_written_and_read (S : Schema) (cv : Conv) (esc : Str → Str)
    (Dom : Kind → Bool → Val → Prop) (laws : ConvLaws cv S.enums esc Dom)
    (hnone : ∀ k r v, cv.convert S.enums k r .none = .ok v → v = .none)
    (ci : Nat) (fields : List (Str × Node)) (items : List Node)
    (hv : Valid S cv esc Dom (.agg ci fields items))
    (hplain : ∀ c, S.cls? ci = some c → c.groom = none)
    (n : Str) (w : Node) (hm : (n, w) ∈ fields) (hw : w ≠ .val .none) :
    ∃ tag x tl children, toEtree S cv (.agg ci fields items) = .ok (.node tag x tl children) ∧
      fromEtree S cv (mapText esc (.node tag x tl children)) = .ok (.agg ci fields items) ∧
      ∃ ch ∈ children, lower ch.tag = n ∧ '.' ∉ ch.tag := by
  obtain ⟨t, ht, hrt⟩ := C01_agg_roundtrip_partial S cv esc Dom laws _ hv
  obtain ⟨⟨c, ok⟩, _, _⟩ := hv
  cases t with
  | node tag x tl children =>
    refine ⟨tag, x, tl, children, ht, hrt, ?_⟩
    have hshape := toEtree_shape S cv ci fields items c _ ok.hc ht
    simp only [Tree.tag] at hshape
    simp only [mapText] at hrt
    obtain ⟨a, _, _, ch', hch', hd, hl, _⟩ := C03_nothing_invented S cv tag (x.map esc) tl
      (mapTextList esc children) ci c fields items ci (by rw [hshape.1]; exact ok.hfind) ok.hc (hplain c ok.hc)
      ok.wf.nodup hnone hrt n w hm hw
    obtain ⟨ch, hch, htag⟩ := mem_mapTextList esc children ch' hch'
    exact ⟨ch, hch, by rw [← htag]; exact hl, by rw [← htag]; exact hd⟩

/-- **C13 (repeated members are written under a repeated attribute's tag and read back).** -/
theorem C13_member_written_and_read (S : Schema) (cv : Conv) (esc : Str → Str)
    (Dom : Kind → Bool → Val → Prop) (laws : ConvLaws cv S.enums esc Dom)
    (ci : Nat) (fields : List (Str × Node)) (items : List Node)
    (hv : Valid S cv esc Dom (.agg ci fields items))
    (hplain : ∀ c, S.cls? ci = some c → c.groom = none) (m : Node) (hm : m ∈ items) :
    ∃ c tag x tl children, S.cls? ci = some c ∧ toEtree S cv (.agg ci fields items) = .ok (.node tag x tl children) ∧
      fromEtree S cv (mapText esc (.node tag x tl children)) = .ok (.agg ci fields items) ∧
      ∃ ch ∈ children, isListMember c (lower ch.tag) = true ∧ '.' ∉ ch.tag := by
  obtain ⟨t, ht, hrt⟩ := C01_agg_roundtrip_partial S cv esc Dom laws _ hv
  obtain ⟨⟨c, ok⟩, _, _⟩ := hv
  cases t with
  | node tag x tl children =>
    refine ⟨c, tag, x, tl, children, ok.hc, ht, hrt, ?_⟩
    have hshape := toEtree_shape S cv ci fields items c _ ok.hc ht
    simp only [Tree.tag] at hshape
    simp only [mapText] at hrt
    obtain ⟨ch', hch', hd, hl, _⟩ := C03_members_from_children S cv tag (x.map esc) tl
      (mapTextList esc children) ci c fields items ci (by rw [hshape.1]; exact ok.hfind) ok.hc (hplain c ok.hc)
      hrt m hm
    obtain ⟨ch, hch, htag⟩ := mem_mapTextList esc children ch' hch'
    exact ⟨ch, hch, by rw [← htag]; exact hl, by rw [← htag]; exact hd⟩

end Ofx.Agg
