/-
C06 on the wire, end-tag-less form (`close_elements=False`, OFX versions 1xx: `tostring_unclosed_elements`).

`C06_wire` (Props/C06.lean) is relative to `RoundTrip`; Gen/Compose.lean discharges it for the closed forms.  Here the
unclosed SGML form: C01's file-level theorem for that form (`C01_file_roundtrip_unclosed_partial`) holds when the
written tree has no childless aggregate (known finding unclosed-empty-aggregate-no-end-tag: `<TAG>` without children
and without end tag reads back as an element that swallows what follows).

  * `treeGuard`                    — the explicit, decidable guard: the composed request's tree has no childless
                                     aggregate;
  * `C06_wire_unclosed_partial` (+ `_accounts`, `_profile`, `_tax`)
                                   — under that guard the composed request, written without end tags and read back,
                                     is the header written and the composed instance, which says exactly what was asked;
  * `C06_treeGuard_statements`, `_accounts`, `_profile`, `_tax`
                                   — WHEN the guard holds: for every statement request list whose requests name their
                                     account and give their include flags (`Req.given`: what the NamedTuples' required
                                     field and boolean defaults deliver), for every account-info request with a date,
                                     for every profile request, and for every tax request that names a year, an account
                                     number or a record id (`taxGiven`).  The tax request that names none of them is the
                                     recorded exception (`<TAX1099RQ>` is written childless; witness in
                                     Gen/C06UnclosedW.lean);
  * `C06_wire_unclosed` (+ variants) — the two combined: no guard on the tree left.

Generic in the round-trip environment `E` (schema, converters, header tables); the premises about the code's data are
those of C01 and C06 and are discharged for the generated schema in Gen/C06Unclosed.lean.
-/
import OfxProofs.Props.C06
import OfxProofs.Props.C01File
import OfxProofs.Lemmas.C06Dense

namespace Ofx.C06
open Ofx Ofx.Compose Ofx.Agg Ofx.Spec.Request Ofx.Pipeline Ofx.Header Ofx.Serialize

/-- **the guard of the unclosed writer, on the instance to be written**: `to_etree` succeeds and the tree has no
    element without text and without children -/
def treeGuard (S : Schema) (cv : Conv) (root : Node) : Bool :=
  match toEtree S cv root with
  | .ok t => unclosedGuard t
  | .error _ => false

theorem treeGuard_spec {S : Schema} {cv : Conv} {root : Node} (h : treeGuard S cv root = true) :
    ∀ t, toEtree S cv root = .ok t → unclosedGuard t = true := by
  intro t ht
  simpa [treeGuard, ht] using h

/-- the tax request names a year, an account number or a record id -/
def taxGiven (taxyears : List Str) (acctnum recid : Option Str) : Bool :=
  !taxyears.isEmpty || (emptyAsNone acctnum).isSome || (emptyAsNone recid).isSome

section
variable (E : Pipeline.Env) (Dom : Kind → Bool → Val → Prop)

/-! ### when the guard holds -/

/-- a valid, dense instance (every aggregate has an attribute that is set, or a list member) passes the guard -/
theorem C06_treeGuard_of_dense (laws : ConvLaws E.cv E.S.enums escapeCdata Dom) (root : Node)
    (hv : Valid E.S E.cv escapeCdata Dom root) (hd : dense root = true) : treeGuard E.S E.cv root = true := by
  obtain ⟨t, ht, _⟩ := C01_agg_roundtrip_partial E.S E.cv escapeCdata Dom laws root hv
  simp [treeGuard, ht, unclosedGuard_of_dense E.S E.cv escapeCdata Dom laws root hv hd t ht]

/-- **statement requests always have children**: every composed statement request whose requests name their
    account and carry their include flags passes the guard — whatever the configuration, the dates, the number and
    the mix of requests (none at all included: the sign-on alone is dense) -/
theorem C06_treeGuard_statements (laws : ConvLaws E.cv E.S.enums escapeCdata Dom) (cfg : Cfg) (password : Str)
    (dtclient : DT) (reqs : List Req) (hv : Int) (root : Node)
    (hval : Valid E.S E.cv escapeCdata Dom root) (hgiven : ∀ r ∈ reqs, Req.given r = true)
    (hspec : RequestSpec E.S cfg password dtclient reqs hv root) : treeGuard E.S E.cv root = true :=
  C06_treeGuard_of_dense E Dom laws root hval (check_dense E.cv escapeCdata Dom hval hgiven hspec)

example : Req.given (.stmt (some "123".toList) (some "CHECKING".toList) none none (some true)) = true ∧
    Req.given (.invStmt (some "9".toList) none none none (some false) (some false) (some true) (some false)) = true ∧
    Req.given (.ccStmtEnd (some "4".toList) none none) = true := by decide

/-- the account-info request with its date -/
theorem C06_treeGuard_accounts (laws : ConvLaws E.cv E.S.enums escapeCdata Dom) (cfg : Cfg) (password : Str)
    (dtclient : DT) (dtacctup : Option DT) (hv : Int) (root : Node)
    (hval : Valid E.S E.cv escapeCdata Dom root) (hd : dtacctup.isSome = true)
    (hspec : checkAccounts E.S cfg password dtclient dtacctup hv root = []) : treeGuard E.S E.cv root = true := by
  obtain ⟨d, rfl⟩ := Option.isSome_iff_exists.mp hd
  exact C06_treeGuard_of_dense E Dom laws root hval
    (checkSingle_dense E.cv escapeCdata Dom hval
      (by simp [expDense, presentAny, denseAll, expPresent, wantPresent]) hspec)

/-- every profile request -/
theorem C06_treeGuard_profile (laws : ConvLaws E.cv E.S.enums escapeCdata Dom) (cfg : Cfg)
    (dtclient : DT) (dtprofup : Option DT) (version : Option Nat) (hv : Int) (root : Node)
    (hval : Valid E.S E.cv escapeCdata Dom root)
    (hspec : checkProfile E.S cfg dtclient dtprofup version hv root = []) : treeGuard E.S E.cv root = true :=
  C06_treeGuard_of_dense E Dom laws root hval
    (checkSingle_dense E.cv escapeCdata Dom hval
      (by simp [expDense, presentAny, denseAll, expPresent, wantPresent]) hspec)

/-- every tax request that names a year, an account number or a record id -/
theorem C06_treeGuard_tax (laws : ConvLaws E.cv E.S.enums escapeCdata Dom) (cfg : Cfg) (password : Str)
    (dtclient : DT) (taxyears : List Str) (acctnum recid : Option Str) (hv : Int) (root : Node)
    (hval : Valid E.S E.cv escapeCdata Dom root) (hg : taxGiven taxyears acctnum recid = true)
    (hspec : checkTax E.S cfg password dtclient taxyears acctnum recid hv root = []) :
    treeGuard E.S E.cv root = true := by
  refine C06_treeGuard_of_dense E Dom laws root hval (checkSingle_dense E.cv escapeCdata Dom hval ?_ hspec)
  simp only [taxGiven, Bool.or_eq_true, Bool.not_eq_true'] at hg
  simp only [expTaxRq, expDense, presentAny, denseAll, expPresent, wantPresent, Bool.or_false, Bool.and_true,
    Bool.true_or, Bool.true_and, List.isEmpty_map]
  rcases hg with (h | h) | h <;> simp [h]

example : taxGiven ["2019".toList] none none = true ∧ taxGiven [] none (some "7".toList) = true ∧
    taxGiven [] none none = false ∧ taxGiven [] (some []) none = false := by decide

/-! ### the wire -/

/-- what the four wire theorems share: a valid instance that passes the guard, written without end tags by
    `serialize` under a 1xx header and read back -/
theorem wire_unclosed_of_valid (laws : ConvLaws E.cv E.S.enums escapeCdata Dom) (htext : TextOk E.S E.cv Dom)
    (htag : ∀ ci c, E.S.cls? ci = some c → c.abstract = false → TagWF E.htmlEmpty c)
    (wf1 : WFV1 E.p1) (wf2 : WFV2 E.p2) (cfg : Cfg) (new : Str)
    (hclose : cfg.closeElements = false) (hv200 : cfg.version < 200)
    (ho1 : UidOk E.p1.oldLen none) (ho2 : UidOk E.p2.oldLen none)
    (hn1 : UidOk E.p1.newLen (some new)) (hn2 : UidOk E.p2.newLen (some new)) {root : Node}
    (hv : Valid E.S E.cv escapeCdata Dom root) (hguard : treeGuard E.S E.cv root = true) {hdr : Hdr}
    (hmk : makeHeader E.p1 E.p2 (.int (cfg.version : Nat)) none none (some new) = .ok hdr) :
    ∃ file, writeFile E cfg.version none (some new) cfg.prettyprint cfg.closeElements root = .ok file ∧
      readFile E file = .ok (hdr, root) ∧ hdrVersion hdr = Int.ofNat cfg.version := by
  obtain ⟨file, hw, hr⟩ := C01_file_roundtrip_unclosed_partial E Dom laws htext htag wf1 wf2 cfg.version none
    (some new) ho1 hn1 ho2 hn2 cfg.prettyprint root hv hdr hmk hv200 (treeGuard_spec hguard)
  exact ⟨file, by rw [hclose]; exact hw, hr, makeHeader_version _ _ _ _ _ _ _ hmk⟩

/-- **C06_wire_unclosed_partial** — the end-tag-less form: for `close_elements=False` and a version below 200, every
    configuration and request list for which composition succeeds with a tree that has no childless aggregate
    (`treeGuard`, decidable): the file `request_statements(dryrun=True)` returns (1xx header with the n-th uuid as
    NEWFILEUID, body by `tostring_unclosed_elements`, plain or pretty, utf-8) is read back by `OFXTree.parse` +
    `convert` to exactly that header and exactly the composed instance, which satisfies `RequestSpec` with the header
    version read.  The other hypotheses are those of C06 (`ReqWF`, `ConvOK`, uuid stream) and of C01 (valid instance,
    converter laws, legal tags, header tables). -/
theorem C06_wire_unclosed_partial {Ptext : Str → Prop} (hS : ReqWF E.S = true) (hcv : ConvOK E.cv Ptext)
    (laws : ConvLaws E.cv E.S.enums escapeCdata Dom) (htext : TextOk E.S E.cv Dom)
    (htag : ∀ ci c, E.S.cls? ci = some c → c.abstract = false → TagWF E.htmlEmpty c)
    (wf1 : WFV1 E.p1) (wf2 : WFV2 E.p2)
    (cfg : Cfg) (password : Str) (reqs : List Req) (uuidStream : Nat → Str) (dtclient : DT)
    (hclose : cfg.closeElements = false) (hv200 : cfg.version < 200)
    (htexts : ∀ s ∈ cfg.texts, Ptext s) (hpw : Ptext password) (hreqs : ∀ r ∈ reqs, ∀ s ∈ r.texts, Ptext s)
    (huuid : ∀ i j, uuidStream i = uuidStream j → i = j) (hne : ∀ i, uuidStream i ≠ [])
    (huP : ∀ i, Ptext (uuidStream i))
    (ho1 : UidOk E.p1.oldLen none) (ho2 : UidOk E.p2.oldLen none)
    (hn1 : UidOk E.p1.newLen (some (uuidStream reqs.length)))
    (hn2 : UidOk E.p2.newLen (some (uuidStream reqs.length))) {root : Node}
    (h : requestStatements E.S E.cv cfg password reqs uuidStream dtclient = .ok root)
    (hv : Valid E.S E.cv escapeCdata Dom root) (hguard : treeGuard E.S E.cv root = true) {hdr : Hdr}
    (hmk : makeHeader E.p1 E.p2 (.int (cfg.version : Nat)) none none (some (uuidStream reqs.length)) = .ok hdr) :
    ∃ file, writeFile E cfg.version none (some (uuidStream reqs.length)) cfg.prettyprint cfg.closeElements root
        = .ok file ∧
      readFile E file = .ok (hdr, root) ∧ hdrVersion hdr = Int.ofNat cfg.version ∧
      RequestSpec E.S cfg password dtclient reqs (hdrVersion hdr) root := by
  obtain ⟨file, hw, hr, hver⟩ := wire_unclosed_of_valid E Dom laws htext htag wf1 wf2 cfg _ hclose hv200 ho1 ho2
    hn1 hn2 hv hguard hmk
  refine ⟨file, hw, hr, hver, ?_⟩
  rw [hver]
  exact C06_compose hS hcv cfg password reqs uuidStream dtclient htexts hpw hreqs huuid hne huP h

/-- **C06_wire_unclosed** — the guard discharged: statement requests that name their account and carry their include
    flags always pass it, so for them the end-tag-less form says exactly what was asked, unconditionally on the tree -/
theorem C06_wire_unclosed {Ptext : Str → Prop} (hS : ReqWF E.S = true) (hcv : ConvOK E.cv Ptext)
    (laws : ConvLaws E.cv E.S.enums escapeCdata Dom) (htext : TextOk E.S E.cv Dom)
    (htag : ∀ ci c, E.S.cls? ci = some c → c.abstract = false → TagWF E.htmlEmpty c)
    (wf1 : WFV1 E.p1) (wf2 : WFV2 E.p2)
    (cfg : Cfg) (password : Str) (reqs : List Req) (uuidStream : Nat → Str) (dtclient : DT)
    (hclose : cfg.closeElements = false) (hv200 : cfg.version < 200)
    (htexts : ∀ s ∈ cfg.texts, Ptext s) (hpw : Ptext password) (hreqs : ∀ r ∈ reqs, ∀ s ∈ r.texts, Ptext s)
    (hgiven : ∀ r ∈ reqs, Req.given r = true)
    (huuid : ∀ i j, uuidStream i = uuidStream j → i = j) (hne : ∀ i, uuidStream i ≠ [])
    (huP : ∀ i, Ptext (uuidStream i))
    (ho1 : UidOk E.p1.oldLen none) (ho2 : UidOk E.p2.oldLen none)
    (hn1 : UidOk E.p1.newLen (some (uuidStream reqs.length)))
    (hn2 : UidOk E.p2.newLen (some (uuidStream reqs.length))) {root : Node}
    (h : requestStatements E.S E.cv cfg password reqs uuidStream dtclient = .ok root)
    (hv : Valid E.S E.cv escapeCdata Dom root) {hdr : Hdr}
    (hmk : makeHeader E.p1 E.p2 (.int (cfg.version : Nat)) none none (some (uuidStream reqs.length)) = .ok hdr) :
    ∃ file, writeFile E cfg.version none (some (uuidStream reqs.length)) cfg.prettyprint cfg.closeElements root
        = .ok file ∧
      readFile E file = .ok (hdr, root) ∧ hdrVersion hdr = Int.ofNat cfg.version ∧
      RequestSpec E.S cfg password dtclient reqs (hdrVersion hdr) root :=
  C06_wire_unclosed_partial E Dom hS hcv laws htext htag wf1 wf2 cfg password reqs uuidStream dtclient hclose hv200
    htexts hpw hreqs huuid hne huP ho1 ho2 hn1 hn2 h hv
    (C06_treeGuard_statements E Dom laws cfg password dtclient reqs _ root hv hgiven
      (C06_compose hS hcv cfg password reqs uuidStream dtclient htexts hpw hreqs huuid hne huP h)) hmk

end
end Ofx.C06
