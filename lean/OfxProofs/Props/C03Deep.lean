/-
C03, whole documents, every class.

`Spec/DocValues.lean` defines — as plain structural walks, with no reference to the reader's accumulator — the
addressed data elements of a document (`docElems S t`: path from the root, element kind the schema declares, text)
and the addressed leaf values of an instance (`instValues inst`).  A path step is the attribute name for a child
declared once and the position among the instance's list members for a repeated child.

* `C03_level_*`   one nesting level, for **every** class — including the three whose reader renames a child
                  (`groom`: STOCKINFO/MFINFO `YIELD→YLD`, MAIL `FROM→FRM`): the child tagged with the rename's source
                  is read under the attribute of the rename's target (`slotOf` applies `effTag`);
* `C03_deep_value`             every addressed data element of an accepted document, at any depth, is in the
                               instance at the same path with the value the element's converter assigns to its text;
* `C03_deep_nothing_invented`  every leaf value of the instance, at any depth, is the conversion of an addressed
                               data element of the document at the same path;
* `C03_document_*`             the same for documents as text: composed with `C02_complete_doc` (every strict rendering
                               `s` of a tree `t` parses back to `t`), for every tree, every rendering of it, if the
                               converted model exists (`parseConvert s = ok inst`) its values are the conversions of
                               `t`'s addressed data elements, path by path, and nothing else.

Generic in the schema and the converters.  The only premise on the schema is that attribute names are distinct
within a class (`Gen.schema_spec_nodup` for the generated one); "nothing invented" needs of the converters that
they return `None` for `None` and refuse objects (`Gen/C03Deep.lean` proves both of the modelled converters).
-/
import OfxProofs.Lemmas.C03Deep
import OfxProofs.Props.C02
namespace Ofx.Agg
open Ofx Ofx.Spec

/-- attribute names are distinct within every class of the schema -/
def SpecNodup (S : Schema) : Prop := ∀ ci c, S.cls? ci = some c → (c.spec.map (·.name)).Nodup

/-- what an accepted aggregate node went through -/
theorem fromEtree_ok_fold (S : Schema) (cv : Conv) (tag : Str) (x tl : Option Str) (children : List Tree)
    (inst : Node) (h : fromEtree S cv (.node tag x tl children) = .ok inst) :
    ∃ ci c acc fields items, S.findIdx? tag = some ci ∧ S.cls? ci = some c ∧
      foldChildren c children (childInsts S cv children) Accum.init = .ok acc ∧
      setAttrs S cv (specNoList c) acc.kwargs = .ok fields ∧ applyArgs S cv c acc.args = .ok items ∧
      applyResidual c acc.kwargs = .ok () ∧ inst = .agg ci fields items := by
  simp only [fromEtree, convertNode] at h
  cases hf : S.findIdx? tag with
  | none => simp [hf] at h
  | some ci =>
    simp only [hf] at h
    cases hc : S.cls? ci with
    | none => simp [hc] at h
    | some c =>
      simp only [hc] at h
      by_cases hemp : children.isEmpty = true
      · simp only [hemp, if_true] at h
        have hnil : children = [] := by simpa using hemp
        subst hnil
        obtain ⟨c', fields, items, hc', _, hset, happ, hres, hn⟩ := (construct_ok_iff S cv ci [] [] _).mp h
        rw [hc] at hc'; injection hc' with hc'; subst hc'
        exact ⟨ci, c, Accum.init, fields, items, rfl, hc, rfl, hset, happ, hres, hn⟩
      · simp only [hemp, Bool.false_eq_true, if_false] at h
        cases hfold : foldChildren c children (childInsts S cv children) Accum.init with
        | error e => simp [hfold, bind, Except.bind] at h
        | ok acc =>
          simp only [hfold, bind, Except.bind] at h
          obtain ⟨c', fields, items, hc', _, hset, happ, hres, hn⟩ :=
            (construct_ok_iff S cv ci acc.args acc.kwargs _).mp h
          rw [hc] at hc'; injection hc' with hc'; subst hc'
          exact ⟨ci, c, acc, fields, items, rfl, hc, hfold, hset, happ, hres, hn⟩

/-- a keyword the constructor accepted belongs to a non-repeated attribute -/
theorem specNoList_of_residual (c : Cls) (hnd : (c.spec.map (·.name)).Nodup) (kw : List (Str × Node))
    (hres : applyResidual c kw = .ok ()) (a : Attr) (ha : a ∈ c.spec) (raw : Node) (hm : (a.name, raw) ∈ kw) :
    a ∈ specNoList c := by
  unfold applyResidual at hres
  split at hres
  · rename_i hr
    unfold residualKeys at hr
    have hall := List.filter_eq_nil_iff.mp hr a.name (List.mem_map.mpr ⟨(a.name, raw), hm, rfl⟩)
    simp only [Bool.not_eq_true, Bool.not_eq_false', List.contains_iff_mem, List.mem_map] at hall
    obtain ⟨b, hb, hbn⟩ := hall
    have hbs : b ∈ c.spec := (List.mem_filter.mp hb).1
    have : b = a := nodup_map_inj hnd hbs ha hbn
    exact this ▸ hb
  · split at hres <;> cases hres

/-! ### one nesting level, every class -/

/-- **C03, one level, every class (nothing dropped).**  Every child of an accepted aggregate node that addresses
    something — its tag, after the class's one-off rename, is a supported attribute of the class — supplied the value
    of its slot: a child declared once is in the instance under its attribute, as what `setattr` (the attribute's
    converter, or the sub-aggregate check) made of the child's value; a repeated child is the list member at its
    position, as what `_apply_args` made of the child's value. -/
theorem C03_level_value (S : Schema) (cv : Conv) (tag : Str) (x tl : Option Str) (children : List Tree)
    (ci : Nat) (c : Cls) (inst : Node)
    (hfind : S.findIdx? tag = some ci) (hcls : S.cls? ci = some c) (hnd : (c.spec.map (·.name)).Nodup)
    (h : fromEtree S cv (.node tag x tl children) = .ok inst) :
    ∃ fields items, inst = .agg ci fields items ∧
      (∀ n a ch, (Step.attr n, a, ch) ∈ slots c false 0 children →
        ∃ raw w, childValue ch (fromEtree S cv ch) = .ok raw ∧ lookup n fields = some w ∧
          setAttr S cv a raw = .ok (some w)) ∧
      (∀ j a ch, (Step.item j, a, ch) ∈ slots c false 0 children →
        ∃ raw m, childValue ch (fromEtree S cv ch) = .ok raw ∧ items[j]? = some m ∧
          applyOne S cv c raw = .ok m) := by
  obtain ⟨ci', c', acc, fields, items, hf', hc', hfold, hset, happ, hres, hn⟩ :=
    fromEtree_ok_fold S cv tag x tl children inst h
  rw [hfind] at hf'; injection hf' with hf'; subst hf'
  rw [hcls] at hc'; injection hc' with hc'; subst hc'
  have ff := fold_slots S cv c hnd children Accum.init acc hfold
  simp only [Accum.init] at ff
  have hkn : (acc.kwargs.map (·.1)).Nodup := ff.nodup (by simp)
  have hfm := setAttrs_fieldsMatch S cv acc.kwargs (specNoList c) fields
    (fun b hb => by simpa [specNoList] using (List.mem_filter.mp hb).2) hset
  have hnd' : ((specNoList c).map (·.name)).Nodup := by
    unfold specNoList
    exact (List.Sublist.map _ List.filter_sublist).nodup hnd
  refine ⟨fields, items, hn, ?_, ?_⟩
  · intro n a ch hm
    obtain ⟨raw, hv, hkw⟩ := ff.fwd_attr n a ch hm
    obtain ⟨_, ha, hu, hst⟩ := slots_facts c children false 0 _ a ch hm
    have hna : n = a.name := by
      rcases hst with ⟨h1, _⟩ | ⟨j, h1, _⟩
      · injection h1
      · cases h1
    subst hna
    have hmem : a ∈ specNoList c := specNoList_of_residual c hnd acc.kwargs hres a ha raw hkw
    obtain ⟨w, hw, hpw⟩ := hfm.lookup hnd' a hmem hu
    rw [lookup_of_mem_nodup a.name raw acc.kwargs hkn hkw] at hpw
    exact ⟨raw, w, hv, hw, hpw⟩
  · intro j a ch hm
    obtain ⟨raw, hv, hj⟩ := ff.fwd_item j a ch hm
    obtain ⟨m, hm1, hm2⟩ := (mapM_getElem _ acc.args items (applyArgs_mapM S cv c acc.args items happ) j).1 raw hj
    exact ⟨raw, m, hv, hm1, hm2⟩

/-- **C03, one level, every class (nothing invented).**  Every value other than `None` under a non-repeated
    attribute, and every list member, of an accepted document's instance was supplied by a child of the document
    in the matching slot. -/
theorem C03_level_nothing_invented (S : Schema) (cv : Conv) (tag : Str) (x tl : Option Str) (children : List Tree)
    (ci : Nat) (c : Cls) (fields : List (Str × Node)) (items : List Node) (cj : Nat)
    (hfind : S.findIdx? tag = some ci) (hcls : S.cls? ci = some c) (hnd : (c.spec.map (·.name)).Nodup)
    (hnone : ∀ k r v, cv.convert S.enums k r .none = .ok v → v = .none)
    (h : fromEtree S cv (.node tag x tl children) = .ok (.agg cj fields items)) :
    (∀ n w, (n, w) ∈ fields → w ≠ .val .none →
      ∃ a ch raw, (Step.attr n, a, ch) ∈ slots c false 0 children ∧
        childValue ch (fromEtree S cv ch) = .ok raw ∧ setAttr S cv a raw = .ok (some w)) ∧
    (∀ j m, items[j]? = some m →
      ∃ a ch raw, (Step.item j, a, ch) ∈ slots c false 0 children ∧
        childValue ch (fromEtree S cv ch) = .ok raw ∧ applyOne S cv c raw = .ok m) := by
  obtain ⟨ci', c', acc, fields', items', hf', hc', hfold, hset, happ, hres, hn⟩ :=
    fromEtree_ok_fold S cv tag x tl children _ h
  rw [hfind] at hf'; injection hf' with hf'; subst hf'
  rw [hcls] at hc'; injection hc' with hc'; subst hc'
  injection hn with _ h1 h2; subst h1; subst h2
  have ff := fold_slots S cv c hnd children Accum.init acc hfold
  simp only [Accum.init] at ff
  have hfm := setAttrs_fieldsMatch S cv acc.kwargs (specNoList c) fields
    (fun b hb => by simpa [specNoList] using (List.mem_filter.mp hb).2) hset
  constructor
  · intro n w hm hw
    obtain ⟨a', ha', han, hu, hp⟩ := hfm.mem n w hm
    have has' : a' ∈ c.spec := (List.mem_filter.mp ha').1
    cases hlk : lookup a'.name acc.kwargs with
    | none =>
      rw [hlk] at hp
      exact absurd (setAttr_none S cv hnone a' w hp) hw
    | some raw =>
      rw [hlk] at hp
      simp only [Option.getD] at hp
      rcases ff.bwd_kw a'.name raw (lookup_mem hlk) with h0 | h0 | ⟨a, ch, hsl, hv⟩
      · simp at h0
      · subst h0
        exact absurd (setAttr_none S cv hnone a' w hp) hw
      · obtain ⟨_, ha, _, hst⟩ := slots_facts c children false 0 _ a ch hsl
        have hna : a'.name = a.name := by
          rcases hst with ⟨h1, _⟩ | ⟨j, h1, _⟩
          · injection h1
          · cases h1
        have : a = a' := nodup_map_inj hnd ha has' hna.symm
        subst this
        exact ⟨a, ch, raw, by rw [← han]; exact hsl, hv, hp⟩
  · intro j m hj
    obtain ⟨raw, hr1, hr2⟩ := (mapM_getElem _ acc.args items (applyArgs_mapM S cv c acc.args items happ) j).2 m hj
    rcases ff.bwd_arg j raw hr1 with h0 | ⟨a, ch, hsl, hv⟩
    · simp at h0
    · exact ⟨a, ch, raw, hsl, hv, hr2⟩

/-! ### whole documents -/

theorem docElems_node (S : Schema) (tag : Str) (x tl : Option Str) (children : List Tree) (ci : Nat) (c : Cls)
    (hfind : S.findIdx? tag = some ci) (hcls : S.cls? ci = some c) :
    docElems S (.node tag x tl children) = (slots c false 0 children).flatMap (slotElems S c) := by
  simp only [docElems, hfind, hcls, docElemsIn_eq]

theorem text_cases (ch : Tree) :
    (∃ x xs, ch.text = some (x :: xs)) ∨ (ch.text = none ∨ ch.text = some []) := by
  cases h : ch.text with
  | none => exact Or.inr (Or.inl rfl)
  | some s =>
    cases s with
    | nil => exact Or.inr (Or.inr rfl)
    | cons x xs => exact Or.inl ⟨x, xs, rfl⟩

theorem fieldElems_text (a : Attr) (ch : Tree) (sub : List DocElem) (x : Char) (xs : Str)
    (h : ch.text = some (x :: xs)) :
    fieldElems a ch sub = if isElemKind a.kind then [⟨[.attr a.name], a.kind, a.required, x :: xs⟩] else [] := by
  simp [fieldElems, h]

theorem fieldElems_notext (a : Attr) (ch : Tree) (sub : List DocElem) (h : ch.text = none ∨ ch.text = some []) :
    fieldElems a ch sub = match a.kind with
      | .sub _ => sub.map (DocElem.under (.attr a.name))
      | _ => [] := by
  rcases h with h | h <;> simp only [fieldElems, h] <;> cases a.kind <;> rfl

theorem memberElems_text (c : Cls) (pos : Nat) (a : Attr) (ch : Tree) (sub : List DocElem) (x : Char) (xs : Str)
    (h : ch.text = some (x :: xs)) :
    memberElems c pos a ch sub = match a.kind with
      | .listElem inner ireq => if c.elementList then [⟨[.item pos], inner, ireq, x :: xs⟩] else []
      | _ => [] := by
  simp only [memberElems, h]; cases a.kind <;> rfl

theorem memberElems_notext (c : Cls) (pos : Nat) (a : Attr) (ch : Tree) (sub : List DocElem)
    (h : ch.text = none ∨ ch.text = some []) :
    memberElems c pos a ch sub = if c.elementList then [] else sub.map (DocElem.under (.item pos)) := by
  rcases h with h | h <;> simp [memberElems, h]

/-- an addressed data element carries text -/
theorem docElems_text_ne (S : Schema) : ∀ t, ∀ e ∈ docElems S t, e.text ≠ [] :=
  tree_ind (fun t => ∀ e ∈ docElems S t, e.text ≠ []) (by
    intro tag x tl children ih e he
    simp only [docElems] at he
    split at he
    · simp at he
    · split at he
      · simp at he
      · rename_i c _
        rw [docElemsIn_eq, List.mem_flatMap] at he
        obtain ⟨⟨st, a, ch⟩, hsl, hel⟩ := he
        obtain ⟨hch, _⟩ := slots_facts c children false 0 st a ch hsl
        cases st with
        | attr n =>
          simp only [slotElems] at hel
          rcases text_cases ch with ⟨x0, xs, htx⟩ | hno
          · rw [fieldElems_text a ch _ x0 xs htx] at hel
            split at hel
            · simp only [List.mem_singleton] at hel; subst hel; simp
            · simp at hel
          · rw [fieldElems_notext a ch _ hno] at hel
            split at hel
            · obtain ⟨e', he', rfl⟩ := List.mem_map.mp hel
              exact ih ch hch e' he'
            · simp at hel
        | item j =>
          simp only [slotElems] at hel
          rcases text_cases ch with ⟨x0, xs, htx⟩ | hno
          · rw [memberElems_text c j a ch _ x0 xs htx] at hel
            split at hel
            · split at hel
              · simp only [List.mem_singleton] at hel; subst hel; simp
              · simp at hel
            · simp at hel
          · rw [memberElems_notext c j a ch _ hno] at hel
            split at hel
            · simp at hel
            · obtain ⟨e', he', rfl⟩ := List.mem_map.mp hel
              exact ih ch hch e' he') 

/-- (a) for one document: every addressed data element is in the instance, at its path, converted -/
def DeepValue (S : Schema) (cv : Conv) (t : Tree) : Prop :=
  ∀ inst, fromEtree S cv t = .ok inst → ∀ e ∈ docElems S t,
    ∃ v, cv.convert S.enums e.kind e.required (.str e.text) = .ok v ∧
      (v ≠ .none → (e.path, v) ∈ instValues inst)

/-- (b) for one document: every leaf value of the instance is the conversion of the addressed data element at
    its path -/
def DeepOnly (S : Schema) (cv : Conv) (t : Tree) : Prop :=
  ∀ inst, fromEtree S cv t = .ok inst → ∀ p v, (p, v) ∈ instValues inst →
    ∃ e ∈ docElems S t, e.path = p ∧ cv.convert S.enums e.kind e.required (.str e.text) = .ok v

theorem deepValue_step (S : Schema) (cv : Conv) (hnd : SpecNodup S) (tag : Str) (x tl : Option Str)
    (children : List Tree) (ih : ∀ ch ∈ children, DeepValue S cv ch) :
    DeepValue S cv (.node tag x tl children) := by
  intro inst h e he
  obtain ⟨ci, c, _, _, _, hfind, hcls, _⟩ := fromEtree_ok_fold S cv tag x tl children inst h
  obtain ⟨fields, items, hinst, hA, hI⟩ :=
    C03_level_value S cv tag x tl children ci c inst hfind hcls (hnd ci c hcls) h
  subst hinst
  rw [docElems_node S tag x tl children ci c hfind hcls, List.mem_flatMap] at he
  obtain ⟨⟨st, a, ch⟩, hsl, hel⟩ := he
  obtain ⟨hch, ha, hu, hst⟩ := slots_facts c children false 0 st a ch hsl
  rcases hst with ⟨rfl, hrep⟩ | ⟨j, rfl, _, hrep⟩
  · -- a child declared once
    obtain ⟨raw, w, hv, hw, hsa⟩ := hA a.name a ch hsl
    simp only [slotElems] at hel
    rcases text_cases ch with ⟨x0, xs, htx⟩ | hno
    · rw [fieldElems_text a ch _ x0 xs htx] at hel
      split at hel
      · simp only [List.mem_singleton] at hel
        subst hel
        rw [childValue_text ch _ x0 xs htx] at hv
        injection hv with hv; subst hv
        obtain ⟨_, v, hwv, hcv⟩ := setAttr_str S cv a _ w hsa
        subst hwv
        refine ⟨v, hcv, fun hvn => ?_⟩
        exact (mem_instValues_agg ci fields items _ v).mpr (Or.inl ⟨a.name, .val v, [], lookup_mem hw,
          (mem_instValues_val v [] v).mpr ⟨rfl, rfl, hvn⟩, rfl⟩)
      · simp at hel
    · rw [fieldElems_notext a ch _ hno] at hel
      rw [childValue_notext ch _ hno] at hv
      cases hk : a.kind with
      | sub t =>
        simp only [hk, List.mem_map] at hel
        obtain ⟨e', he', rfl⟩ := hel
        obtain ⟨ck, f, i, rfl⟩ := fromEtree_agg S cv ch raw hv
        have hwe := setAttr_agg_sub S cv a t ck f i w hk hsa
        subst hwe
        obtain ⟨v, hcv, hmem⟩ := ih ch hch _ hv e' he'
        refine ⟨v, hcv, fun hvn => ?_⟩
        exact (mem_instValues_agg ci fields items _ v).mpr (Or.inl ⟨a.name, _, e'.path, lookup_mem hw,
          hmem hvn, rfl⟩)
      | _ => simp [hk] at hel
  · -- a repeated child
    obtain ⟨raw, m, hv, hj, hone⟩ := hI j a ch hsl
    simp only [slotElems] at hel
    rcases text_cases ch with ⟨x0, xs, htx⟩ | hno
    · rw [memberElems_text c j a ch _ x0 xs htx] at hel
      rw [childValue_text ch _ x0 xs htx] at hv
      injection hv with hv; subst hv
      obtain ⟨hel', a', inner', ireq', v, hfil, hk', hmv, hcv⟩ := applyOne_str S cv c _ m hone
      cases hk : a.kind with
      | listElem inner ireq =>
        simp only [hk, hel', if_true, List.mem_singleton] at hel
        subst hel
        have hin : a ∈ c.spec.filter (fun a => a.kind.isListElem) :=
          List.mem_filter.mpr ⟨ha, by simp [hk, Kind.isListElem]⟩
        rw [hfil, List.mem_singleton] at hin
        subst hin
        rw [hk] at hk'
        injection hk' with h1 h2
        subst h1; subst h2; subst hmv
        refine ⟨v, hcv, fun hvn => ?_⟩
        exact (mem_instValues_agg ci fields items _ v).mpr (Or.inr ⟨j, .val v, [], hj,
          (mem_instValues_val v [] v).mpr ⟨rfl, rfl, hvn⟩, rfl⟩)
      | _ => simp [hk] at hel
    · rw [memberElems_notext c j a ch _ hno] at hel
      rw [childValue_notext ch _ hno] at hv
      obtain ⟨ck, f, i, rfl⟩ := fromEtree_agg S cv ch raw hv
      rcases applyOne_agg S cv c ck f i m hone with ⟨hel', rfl⟩ | ⟨hel', _⟩
      · simp only [hel', Bool.false_eq_true, if_false, List.mem_map] at hel
        obtain ⟨e', he', rfl⟩ := hel
        obtain ⟨v, hcv, hmem⟩ := ih ch hch _ hv e' he'
        refine ⟨v, hcv, fun hvn => ?_⟩
        exact (mem_instValues_agg ci fields items _ v).mpr (Or.inr ⟨j, _, e'.path, hj, hmem hvn, rfl⟩)
      · simp [hel'] at hel

theorem deepOnly_step (S : Schema) (cv : Conv) (hnd : SpecNodup S)
    (hnone : ∀ k r v, cv.convert S.enums k r .none = .ok v → v = .none)
    (hother : ∀ k r s v, cv.convert S.enums k r (.other s) ≠ .ok v)
    (tag : Str) (x tl : Option Str) (children : List Tree) (ih : ∀ ch ∈ children, DeepOnly S cv ch) :
    DeepOnly S cv (.node tag x tl children) := by
  intro inst h p v hpv
  obtain ⟨ci, c, _, fields, items, hfind, hcls, _, _, _, _, hinst⟩ :=
    fromEtree_ok_fold S cv tag x tl children inst h
  subst hinst
  obtain ⟨hF, hI⟩ := C03_level_nothing_invented S cv tag x tl children ci c fields items ci hfind hcls
    (hnd ci c hcls) hnone h
  rw [docElems_node S tag x tl children ci c hfind hcls]
  rcases (mem_instValues_agg ci fields items p v).mp hpv with ⟨n, w, p', hm, hpw, rfl⟩ | ⟨j, m, p', hj, hpm, rfl⟩
  · -- under a non-repeated attribute
    have hwn : w ≠ .val .none := by
      intro e; subst e; simp [instValues] at hpw
    obtain ⟨a, ch, raw, hsl, hv, hsa⟩ := hF n w hm hwn
    obtain ⟨hch, ha, hu, hst⟩ := slots_facts c children false 0 _ a ch hsl
    have hna : n = a.name := by
      rcases hst with ⟨h1, _⟩ | ⟨j, h1, _⟩
      · injection h1
      · cases h1
    subst hna
    rcases text_cases ch with ⟨x0, xs, htx⟩ | hno
    · rw [childValue_text ch _ x0 xs htx] at hv
      injection hv with hv; subst hv
      obtain ⟨hek, v', hwv, hcv⟩ := setAttr_str S cv a _ w hsa
      subst hwv
      obtain ⟨rfl, rfl, _⟩ := (mem_instValues_val v' p' v).mp hpw
      refine ⟨⟨[.attr a.name], a.kind, a.required, x0 :: xs⟩, ?_, rfl, hcv⟩
      refine List.mem_flatMap.mpr ⟨_, hsl, ?_⟩
      simp only [slotElems]
      rw [fieldElems_text a ch _ x0 xs htx, hek]
      simp
    · rw [childValue_notext ch _ hno] at hv
      obtain ⟨ck, f, i, rfl⟩ := fromEtree_agg S cv ch raw hv
      obtain ⟨⟨t, hk⟩, rfl⟩ := setAttr_agg S cv hother a ck f i w hsa
      obtain ⟨e', he', hp', hcv⟩ := ih ch hch _ hv p' v hpw
      refine ⟨e'.under (.attr a.name), ?_, by simp [DocElem.under, hp'], hcv⟩
      refine List.mem_flatMap.mpr ⟨_, hsl, ?_⟩
      simp only [slotElems]
      rw [fieldElems_notext a ch _ hno, hk]
      exact List.mem_map.mpr ⟨e', he', rfl⟩
  · -- a list member
    obtain ⟨a, ch, raw, hsl, hv, hone⟩ := hI j m hj
    obtain ⟨hch, ha, hu, hst⟩ := slots_facts c children false 0 _ a ch hsl
    have hrep : repeated c a = true := by
      rcases hst with ⟨h1, _⟩ | ⟨_, _, _, h1⟩
      · cases h1
      · exact h1
    rcases text_cases ch with ⟨x0, xs, htx⟩ | hno
    · rw [childValue_text ch _ x0 xs htx] at hv
      injection hv with hv; subst hv
      obtain ⟨hel', a', inner, ireq, v', hfil, hk', hmv, hcv⟩ := applyOne_str S cv c _ m hone
      subst hmv
      obtain ⟨rfl, rfl, _⟩ := (mem_instValues_val v' p' v).mp hpm
      have hle : a.kind.isListElem = true := by
        simpa [repeated, hel'] using hrep
      have hin : a ∈ c.spec.filter (fun a => a.kind.isListElem) := List.mem_filter.mpr ⟨ha, hle⟩
      rw [hfil, List.mem_singleton] at hin
      subst hin
      refine ⟨⟨[.item j], inner, ireq, x0 :: xs⟩, ?_, rfl, hcv⟩
      refine List.mem_flatMap.mpr ⟨_, hsl, ?_⟩
      simp only [slotElems]
      rw [memberElems_text c j a ch _ x0 xs htx, hk']
      simp [hel']
    · rw [childValue_notext ch _ hno] at hv
      obtain ⟨ck, f, i, rfl⟩ := fromEtree_agg S cv ch raw hv
      rcases applyOne_agg S cv c ck f i m hone with ⟨hel', rfl⟩ | ⟨_, k, r, v', hc'⟩
      · obtain ⟨e', he', hp', hcv⟩ := ih ch hch _ hv p' v hpm
        refine ⟨e'.under (.item j), ?_, by simp [DocElem.under, hp'], hcv⟩
        refine List.mem_flatMap.mpr ⟨_, hsl, ?_⟩
        simp only [slotElems]
        rw [memberElems_notext c j a ch _ hno]
        simp only [hel', Bool.false_eq_true, if_false]
        exact List.mem_map.mpr ⟨e', he', rfl⟩
      · exact absurd hc' (hother k r _ v')

/-- **C03, whole documents, every class: nothing dropped, right value, right place.**  When `from_etree` accepts a
    document, every addressed data element of it — at any depth: the path runs through sub-aggregates by attribute
    name and through list members by position — is in the converted model at the same path, holding the value the
    converter of the element's declared type assigns to its text. -/
theorem C03_deep_value (S : Schema) (cv : Conv) (hnd : SpecNodup S) (t : Tree) (inst : Node)
    (h : fromEtree S cv t = .ok inst) :
    ∀ e ∈ docElems S t, ∃ v, cv.convert S.enums e.kind e.required (.str e.text) = .ok v ∧
      (v ≠ .none → (e.path, v) ∈ instValues inst) :=
  tree_ind (DeepValue S cv) (deepValue_step S cv hnd) t inst h

/-- **C03, whole documents, every class: nothing invented.**  Every leaf value (other than `None`) the converted
    model holds, at any depth, is the conversion of the text of an addressed data element of the document at that very
    path. -/
theorem C03_deep_nothing_invented (S : Schema) (cv : Conv) (hnd : SpecNodup S)
    (hnone : ∀ k r v, cv.convert S.enums k r .none = .ok v → v = .none)
    (hother : ∀ k r s v, cv.convert S.enums k r (.other s) ≠ .ok v)
    (t : Tree) (inst : Node) (h : fromEtree S cv t = .ok inst) :
    ∀ p v, (p, v) ∈ instValues inst →
      ∃ e ∈ docElems S t, e.path = p ∧ cv.convert S.enums e.kind e.required (.str e.text) = .ok v :=
  tree_ind (DeepOnly S cv) (deepOnly_step S cv hnd hnone hother) t inst h

/-! ### one value per path -/

theorem setAttr_val_result (S : Schema) (cv : Conv) (a : Attr) (v : Val) (w : Node)
    (h : setAttr S cv a (.val v) = .ok (some w)) : ∃ v', w = .val v' := by
  cases hk : a.kind with
  | sub t =>
    simp only [setAttr, hk] at h
    cases v with
    | none =>
      cases hcs : convertSub S t a.required (.val .none) with
      | error e => simp [hcs, Except.map] at h
      | ok w' =>
        simp only [hcs, Except.map] at h
        injection h with h; injection h with h
        exact ⟨.none, h ▸ convertSub_none S t _ w' hcs⟩
    | _ => simp [convertSub, Except.map] at h
  | unsupported => simp [setAttr, hk] at h
  | listAgg _ => simp [setAttr, hk] at h
  | listElem _ _ => simp [setAttr, hk] at h
  | _ =>
    simp only [setAttr, hk, Node.toVal] at h
    generalize cv.convert S.enums _ a.required v = r at h
    cases r with
    | error e => simp [Except.map] at h
    | ok v' =>
      simp only [Except.map] at h
      injection h with h; injection h with h
      exact ⟨v', h.symm⟩

theorem setAttr_agg_result (S : Schema) (cv : Conv) (a : Attr) (ck : Nat) (f : List (Str × Node)) (i : List Node)
    (ck' : Nat) (f' : List (Str × Node)) (i' : List Node)
    (h : setAttr S cv a (.agg ck f i) = .ok (some (.agg ck' f' i'))) : Node.agg ck f i = .agg ck' f' i' := by
  cases hk : a.kind with
  | sub t => exact (setAttr_agg_sub S cv a t ck f i _ hk h).symm
  | unsupported => simp [setAttr, hk] at h
  | listAgg _ => simp [setAttr, hk] at h
  | listElem _ _ => simp [setAttr, hk] at h
  | _ =>
    exfalso
    simp only [setAttr, hk, Node.toVal] at h
    generalize cv.convert S.enums _ a.required (.other "Aggregate") = r at h
    cases r with
    | error e => simp [Except.map] at h
    | ok v' => simp [Except.map] at h

theorem fieldsMatch_keys_sublist {P : Attr → Node → Prop} {L : List Attr} {fs : List (Str × Node)}
    (h : FieldsMatch P L fs) : (fs.map (·.1)).Sublist (L.map (·.name)) := by
  induction h with
  | nil => exact List.Sublist.slnil
  | unsup b L fs _ _ ih => exact List.Sublist.cons _ ih
  | field b v L fs _ _ _ ih => exact List.Sublist.cons_cons _ ih

/-- every instance an accepted document's instance holds — under an attribute or as a list member — is the conversion
    of a child of the document -/
theorem level_agg_origin (S : Schema) (cv : Conv) (tag : Str) (x tl : Option Str) (children : List Tree)
    (ci : Nat) (c : Cls) (fields : List (Str × Node)) (items : List Node) (cj : Nat)
    (hfind : S.findIdx? tag = some ci) (hcls : S.cls? ci = some c) (hnd : (c.spec.map (·.name)).Nodup)
    (h : fromEtree S cv (.node tag x tl children) = .ok (.agg cj fields items)) :
    ((fields.map (·.1)).Nodup) ∧
    (∀ n ck f i, (n, Node.agg ck f i) ∈ fields → ∃ ch ∈ children, fromEtree S cv ch = .ok (.agg ck f i)) ∧
    (∀ (j : Nat) ck f i, items[j]? = some (Node.agg ck f i) →
      ∃ ch ∈ children, fromEtree S cv ch = .ok (.agg ck f i)) := by
  obtain ⟨ci', c', acc, fields', items', hf', hc', hfold, hset, happ, hres, hn⟩ :=
    fromEtree_ok_fold S cv tag x tl children _ h
  rw [hfind] at hf'; injection hf' with hf'; subst hf'
  rw [hcls] at hc'; injection hc' with hc'; subst hc'
  injection hn with _ h1 h2; subst h1; subst h2
  have ff := fold_slots S cv c hnd children Accum.init acc hfold
  simp only [Accum.init] at ff
  have hfm := setAttrs_fieldsMatch S cv acc.kwargs (specNoList c) fields
    (fun b hb => by simpa [specNoList] using (List.mem_filter.mp hb).2) hset
  have hnd' : ((specNoList c).map (·.name)).Nodup := by
    unfold specNoList
    exact (List.Sublist.map _ List.filter_sublist).nodup hnd
  have origin : ∀ (ch : Tree) (ck : Nat) (f : List (Str × Node)) (i : List Node), ch ∈ children →
      childValue ch (fromEtree S cv ch) = .ok (.agg ck f i) → fromEtree S cv ch = .ok (.agg ck f i) := by
    intro ch ck f i _ hv
    rcases text_cases ch with ⟨x0, xs, htx⟩ | hno
    · rw [childValue_text ch _ x0 xs htx] at hv; injection hv with hv; cases hv
    · rw [childValue_notext ch _ hno] at hv; exact hv
  refine ⟨?_, ?_, ?_⟩
  · exact (fieldsMatch_keys_sublist hfm).nodup hnd'
  · intro n ck f i hm
    obtain ⟨a', ha', han, hu, hp⟩ := hfm.mem n _ hm
    cases hlk : lookup a'.name acc.kwargs with
    | none =>
      rw [hlk] at hp
      obtain ⟨v', hv'⟩ := setAttr_val_result S cv a' .none _ hp
      cases hv'
    | some raw =>
      rw [hlk] at hp
      simp only [Option.getD] at hp
      cases raw with
      | val v =>
        obtain ⟨v', hv'⟩ := setAttr_val_result S cv a' v _ hp
        cases hv'
      | agg ck0 f0 i0 =>
        have heq := setAttr_agg_result S cv a' ck0 f0 i0 ck f i hp
        rcases ff.bwd_kw a'.name _ (lookup_mem hlk) with h0 | h0 | ⟨a, ch, hsl, hv⟩
        · simp at h0
        · cases h0
        · obtain ⟨hch, _⟩ := slots_facts c children false 0 _ a ch hsl
          exact ⟨ch, hch, heq ▸ origin ch ck0 f0 i0 hch hv⟩
  · intro j ck f i hj
    obtain ⟨raw, hr1, hr2⟩ :=
      (mapM_getElem _ acc.args items (applyArgs_mapM S cv c acc.args items happ) j).2 _ hj
    rcases ff.bwd_arg j raw hr1 with h0 | ⟨a, ch, hsl, hv⟩
    · simp at h0
    · obtain ⟨hch, _⟩ := slots_facts c children false 0 _ a ch hsl
      cases raw with
      | val v =>
        exfalso
        unfold applyOne at hr2
        split at hr2
        · split at hr2
          · split at hr2
            · generalize cv.convert S.enums _ _ _ = r at hr2
              cases r <;> simp [Except.map] at hr2
            · cases hr2
          · cases hr2
        · simp [applyArg] at hr2
      | agg ck0 f0 i0 =>
        rcases applyOne_agg S cv c ck0 f0 i0 _ hr2 with ⟨_, he⟩ | ⟨hel, _⟩
        · exact ⟨ch, hch, he ▸ origin ch ck0 f0 i0 hch hv⟩
        · exfalso
          unfold applyOne at hr2
          simp only [hel, if_true] at hr2
          split at hr2
          · split at hr2
            · generalize cv.convert S.enums _ _ _ = r at hr2
              cases r <;> simp [Except.map] at hr2
            · cases hr2
          · cases hr2

theorem instValues_val_nodup (v : Val) : ((instValues (.val v)).map (·.1)).Nodup := by
  cases v <;> simp [instValues]

theorem nodup_map_cons (st : Step) : ∀ (l : List Path), l.Nodup → (l.map (fun p => st :: p)).Nodup
  | [], _ => by simp
  | p :: l, h => by
    simp only [List.nodup_cons] at h
    simp only [List.map_cons, List.nodup_cons, List.mem_map, not_exists, not_and]
    exact ⟨fun q hq e => by injection e with _ e; exact h.1 (e ▸ hq), nodup_map_cons st l h.2⟩

theorem fieldValues_paths_nodup : ∀ (fields : List (Str × Node)), (fields.map (·.1)).Nodup →
    (∀ n x, (n, x) ∈ fields → ((instValues x).map (·.1)).Nodup) → ((fieldValues fields).map (·.1)).Nodup
  | [], _, _ => by simp [fieldValues]
  | (n, x) :: r, hk, hx => by
    simp only [List.map_cons, List.nodup_cons] at hk
    simp only [fieldValues, List.map_append, List.map_map]
    rw [List.nodup_append]
    refine ⟨?_, fieldValues_paths_nodup r hk.2 (fun m y hm => hx m y (by simp [hm])), ?_⟩
    · have h0 := hx n x (by simp)
      have : (List.map ((·.1) ∘ underP (.attr n)) (instValues x)) =
          ((instValues x).map (·.1)).map (fun p => Step.attr n :: p) := by
        simp [List.map_map, Function.comp_def, underP]
      rw [this]
      exact nodup_map_cons _ _ h0
    · intro p hp q hq hpq
      subst hpq
      simp only [List.mem_map, Function.comp_apply, underP] at hp hq
      obtain ⟨⟨p1, v1⟩, _, rfl⟩ := hp
      obtain ⟨⟨q1, w1⟩, hq1, hq2⟩ := hq
      obtain ⟨m, y, p', hm, _, hp'⟩ := (mem_fieldValues r q1 w1).mp hq1
      simp only at hq2
      rw [hp'] at hq2
      injection hq2 with e1 _
      injection e1 with e1
      exact hk.1 (List.mem_map.mpr ⟨(m, y), hm, e1⟩)

theorem itemValues_paths_nodup : ∀ (items : List Node) (i : Nat),
    (∀ x ∈ items, ((instValues x).map (·.1)).Nodup) → ((itemValues i items).map (·.1)).Nodup
  | [], _, _ => by simp [itemValues]
  | x :: r, i, hx => by
    simp only [itemValues, List.map_append, List.map_map]
    rw [List.nodup_append]
    refine ⟨?_, itemValues_paths_nodup r (i + 1) (fun y hy => hx y (by simp [hy])), ?_⟩
    · have h0 := hx x (by simp)
      have : (List.map ((·.1) ∘ underP (.item i)) (instValues x)) =
          ((instValues x).map (·.1)).map (fun p => Step.item i :: p) := by
        simp [List.map_map, Function.comp_def, underP]
      rw [this]
      exact nodup_map_cons _ _ h0
    · intro p hp q hq hpq
      subst hpq
      simp only [List.mem_map, Function.comp_apply, underP] at hp hq
      obtain ⟨⟨p1, v1⟩, _, rfl⟩ := hp
      obtain ⟨⟨q1, w1⟩, hq1, hq2⟩ := hq
      obtain ⟨j, y, p', _, _, hp'⟩ := (mem_itemValues r (i + 1) q1 w1).mp hq1
      simp only at hq2
      rw [hp'] at hq2
      injection hq2 with e1 _
      injection e1 with e1
      omega

/-- **C03, whole documents: one value per path.**  The paths at which an accepted document's model holds values are
    pairwise distinct — so "the value at the element's path" in `C03_deep_value` / `C03_deep_nothing_invented` names
    one value. -/
theorem C03_deep_paths_distinct (S : Schema) (cv : Conv) (hnd : SpecNodup S) (t : Tree) (inst : Node)
    (h : fromEtree S cv t = .ok inst) : ((instValues inst).map (·.1)).Nodup := by
  refine tree_ind (fun t => ∀ inst, fromEtree S cv t = .ok inst → ((instValues inst).map (·.1)).Nodup) ?_ t inst h
  intro tag x tl children ih inst h
  obtain ⟨ci, c, _, fields, items, hfind, hcls, _, _, _, _, hinst⟩ :=
    fromEtree_ok_fold S cv tag x tl children inst h
  subst hinst
  obtain ⟨hkeys, hF, hI⟩ := level_agg_origin S cv tag x tl children ci c fields items ci hfind hcls
    (hnd ci c hcls) h
  simp only [instValues, List.map_append]
  rw [List.nodup_append]
  refine ⟨?_, ?_, ?_⟩
  · refine fieldValues_paths_nodup fields hkeys ?_
    intro n y hm
    cases y with
    | val v => exact instValues_val_nodup v
    | agg ck f i =>
      obtain ⟨ch, hch, hc⟩ := hF n ck f i hm
      exact ih ch hch _ hc
  · refine itemValues_paths_nodup items 0 ?_
    intro y hy
    cases y with
    | val v => exact instValues_val_nodup v
    | agg ck f i =>
      obtain ⟨j, hj⟩ := List.getElem?_of_mem hy
      obtain ⟨ch, hch, hc⟩ := hI j ck f i hj
      exact ih ch hch _ hc
  · intro p hp q hq hpq
    subst hpq
    simp only [List.mem_map] at hp hq
    obtain ⟨⟨p1, v1⟩, hp1, rfl⟩ := hp
    obtain ⟨⟨q1, w1⟩, hq1, hq2⟩ := hq
    obtain ⟨n, y, p', _, _, e1⟩ := (mem_fieldValues fields p1 v1).mp hp1
    obtain ⟨j, y', p'', _, _, e2⟩ := (mem_itemValues items 0 q1 w1).mp hq1
    simp only at hq2
    rw [e1, e2] at hq2
    injection hq2 with e3 _
    cases e3

/-! ### documents as text -/

/-- the library's path from body text to model: `b = TreeBuilder(); b.feed(s); root = b.close()`, then
    `Aggregate.from_etree(root)` (what `OFXTree.parse` + `convert` do after the header) -/
def parseConvert (S : Schema) (cv : Conv) (s : Str) : PyM Node :=
  match Builder.parse s with
  | .ok (some t) => fromEtree S cv t
  | .ok none => .error .value
  | .error e => .error e

/-- a rendering of `t` converts exactly as `t` does -/
theorem parseConvert_rendering (S : Schema) (cv : Conv) (t : Tree) (s : Str) (hr : RendersDoc true t s) :
    parseConvert S cv s = fromEtree S cv t := by
  simp [parseConvert, C02.C02_complete_doc t s hr]

/-- **C03, documents as text: nothing dropped, right value, right place.**  For every tree `t` and every strict
    rendering `s` of it (end tags present or omitted, CDATA sections, any white space the grammar allows), if the
    library converts `s` to a model then every addressed data element of `t`, at any depth, is in the model at its
    path with the value its converter assigns to its text. -/
theorem C03_document_value (S : Schema) (cv : Conv) (hnd : SpecNodup S) (t : Tree) (s : Str)
    (hr : RendersDoc true t s) (inst : Node) (h : parseConvert S cv s = .ok inst) :
    ∀ e ∈ docElems S t, ∃ v, cv.convert S.enums e.kind e.required (.str e.text) = .ok v ∧
      (v ≠ .none → (e.path, v) ∈ instValues inst) :=
  C03_deep_value S cv hnd t inst (by rw [← parseConvert_rendering S cv t s hr]; exact h)

/-- **C03, documents as text: nothing invented.** -/
theorem C03_document_nothing_invented (S : Schema) (cv : Conv) (hnd : SpecNodup S)
    (hnone : ∀ k r v, cv.convert S.enums k r .none = .ok v → v = .none)
    (hother : ∀ k r s v, cv.convert S.enums k r (.other s) ≠ .ok v)
    (t : Tree) (s : Str) (hr : RendersDoc true t s) (inst : Node) (h : parseConvert S cv s = .ok inst) :
    ∀ p v, (p, v) ∈ instValues inst →
      ∃ e ∈ docElems S t, e.path = p ∧ cv.convert S.enums e.kind e.required (.str e.text) = .ok v :=
  C03_deep_nothing_invented S cv hnd hnone hother t inst (by rw [← parseConvert_rendering S cv t s hr]; exact h)

end Ofx.Agg
