/-
C15 — the cached FI profile is whole, the newest, and from the right server.
Property theorems only; helper lemmas live in `OfxProofs/Lemmas/Cache.lean`.

Every statement is about the small-step model `OfxModel/Ofx/Cache.lean` of
`OFXClient.request_profile` (tied to ofxtools/Client.py by `harness/corr/C15.py`, which runs the real
method against a fake HTTP layer and a scratch data directory).

* `C15_seq` and its corollaries: for **every** sequential history of server behaviours and every good
  initial cache, the machine refines the abstract cache `Option Profile` ("put only if at least as new").
* `C15_crash_full`, `C15_interleave_full`: since the repo commit "fix: the FI profile cache is replaced atomically"
  (temporary file + `os.replace`) these are **theorems**: for every crash point, and for every interleaving of any
  number of writers with crashes anywhere, the cache file is absent or one complete genuine profile and every later call
  behaves per `C15_seq`.  (Before the fix both were false — findings `cache_torn_by_crash_after_open`,
  `cache_torn_by_two_writers`, now recorded `fixed`; their witnesses are still replayed on the real method.)
* `C15_key_full` is **false** of the code as it is: the negation is proved from a concrete pair of configurations that
  the harness replays (finding `cache_key_ignores_url`), with the strongest true restriction `C15_key_partial`.

Not modelled (label: partial): what a real crash leaves on a real file system (page cache, fsync,
buffered data of the dying process), real thread schedules below the granularity of the actions,
other processes deleting the file.
-/
import OfxProofs.Lemmas.Cache
import OfxModel.Ofx.ClientSM

namespace Ofx.Cache
open Ofx Ofx.Spec.Cache

/-! ### sequential histories -/

/-- **C15_seq.**  Take any good initial cache (`h0`: absent or one complete profile), any history `hist` of
    server behaviours (profiles of any dates, "up to date", error status, status 0 without a profile,
    garbage, transport failure), each call made by a fresh process (a restarted client is the same thing:
    the method keeps nothing in memory).  Then for every call `k`, with `heldAt h0 hist k` the newest profile
    among the initial one and everything the server sent before call `k`:

    1. the cache file after the call is absent or exactly one complete profile — the newest sent so far;
    2. the PROFRQ asked with the date of the profile then held (the 1990 default when none);
    3. if the call succeeds it returns the newest profile sent so far (this call included);
    4. if the call fails the cache file is what it was before the call. -/
theorem C15_seq (h0 : Abs) (hist : List Beh) (k : Nat) (b : Beh) (hb : hist[k]? = some b) :
    ∃ r, (runSeq (toDisk h0) hist)[k]? = some r ∧
      r.disk = toDisk (heldAt h0 hist (k + 1)) ∧
      r.sent = some ((heldAt h0 hist k).map Profile.date) ∧
      (∀ ret, r.res = .ok ret → ∃ p, ret = .prof p ∧ heldAt h0 hist (k + 1) = some p) ∧
      (∀ e, r.res = .error e → r.disk = toDisk (heldAt h0 hist k)) := by
  obtain ⟨r, hr, hd, hs, hres⟩ := seqOK_get (runSeq_ok h0 hist) k b hb
  refine ⟨r, hr, ?_, hs, ?_, ?_⟩
  · rw [hd, heldAt_step h0 hist k b hb]
  · intro ret hret
    rw [hres] at hret
    obtain ⟨p, hp, hsp⟩ := resOf_ok hret
    exact ⟨p, hp, by rw [heldAt_step h0 hist k b hb]; exact specStep_ok hsp⟩
  · intro e he
    rw [hres] at he
    cases hsp : (specStep (heldAt h0 hist k) b).2 with
    | some p => rw [resOf_some hsp] at he; cases he
    | none => rw [hd, specStep_fail hsp]

/-- "The newest": what is held after `k` calls is at least as new as every profile the server has sent in
    those calls (accepted or not) … -/
theorem C15_seq_newest (h0 : Abs) (hist : List Beh) (k : Nat) (p : Profile)
    (hp : p ∈ sentOf (hist.take k)) : ∃ r, heldAt h0 hist k = some r ∧ p.date ≤ r.date :=
  newest_ge h0 _ p hp

/-- … it is the initial profile or one the server did send … -/
theorem C15_seq_genuine (h0 : Abs) (hist : List Beh) (k : Nat) :
    heldAt h0 hist k = h0 ∨ ∃ p ∈ sentOf (hist.take k), heldAt h0 hist k = some p :=
  newest_mem h0 _

/-- … and the cache never goes back: at least as new as anything it held before. -/
theorem C15_seq_monotone (h0 : Abs) (hist : List Beh) (j k : Nat) (hjk : j ≤ k) (q : Profile)
    (hq : heldAt h0 hist j = some q) : ∃ r, heldAt h0 hist k = some r ∧ q.date ≤ r.date := by
  have ht : hist.take k = hist.take j ++ (hist.take k).drop j := by
    conv => lhs; rw [← List.take_append_drop j (hist.take k)]
    rw [List.take_take, Nat.min_eq_left hjk]
  unfold heldAt at hq ⊢
  rw [ht, sentOf_append]
  exact newest_mono h0 _ _ q hq

/-- In terms of the driver's view: after every call of every history the file is absent or complete. -/
theorem C15_seq_whole (h0 : Abs) (hist : List Beh) (k : Nat) (b : Beh) (hb : hist[k]? = some b) :
    ∃ r, (runSeq (toDisk h0) hist)[k]? = some r ∧ (view r.disk = .absent ∨ ∃ p, view r.disk = .complete p) := by
  obtain ⟨r, hr, hd, _⟩ := C15_seq h0 hist k b hb
  refine ⟨r, hr, ?_⟩
  rw [hd]
  cases heldAt h0 hist (k + 1) with
  | none => exact .inl rfl
  | some p => exact .inr ⟨p, view_toDisk_some p⟩

-- the statements are not vacuous: a history that exercises acceptance, "up to date", rejection of an older
-- profile and a tie
example : (runSeq none [.upToDate, .profile ⟨5, 1, 0⟩, .upToDate, .profile ⟨3, 2, 0⟩, .profile ⟨5, 3, 1⟩]).map
      (fun r => (r.res, r.sent, view r.disk)) =
    [(.error .assert, some none, .absent),
     (.ok (.prof ⟨5, 1, 0⟩), some none, .complete ⟨5, 1, 0⟩),
     (.ok (.prof ⟨5, 1, 0⟩), some (some 5), .complete ⟨5, 1, 0⟩),
     (.error .assert, some (some 5), .complete ⟨5, 1, 0⟩),
     (.ok (.prof ⟨5, 3, 1⟩), some (some 5), .complete ⟨5, 3, 1⟩)] := by rfl

/-! ### crash while the cache is being written -/

/-- the disk after process 0 (alone) has performed `n` actions of a call and then died -/
def diskAfterCrash (h : Abs) (b : Beh) (n : Nat) : Disk :=
  ((Sys.mk (toDisk h) [Proc.init b]).run (List.replicate n (.step 0) ++ [.crash 0])).disk

/-- **C15_crash_full.**  Whatever the cache held, whatever the server answers and wherever the process dies
    (after any number `n` of its actions: during the network exchange, inside an `assert`, after `mkstemp`, in
    the middle of writing the temporary file, just before or just after `os.replace`), the cache file is
    afterwards absent or one complete profile: the old one, or the new one the call was about to store. -/
theorem C15_crash_full (h : Abs) (b : Beh) (n : Nat) :
    diskAfterCrash h b n = toDisk h ∨ diskAfterCrash h b n = toDisk (specStep h b).1 := by
  have hd : diskAfterCrash h b n = (iter n (toDisk h, Proc.init b)).1 := by
    simp only [diskAfterCrash, Sys.run, List.foldl_append, List.foldl_cons, List.foldl_nil]
    have := sys1_run (toDisk h) (Proc.init b) n
    simp only [Sys.run] at this
    rw [this]
    simp [Sys.act]
  rw [hd]
  have hi := callInv_iter h b n _ _ (callInv_init h b)
  obtain ⟨_, _, hpc⟩ := hi
  generalize (iter n (toDisk h, Proc.init b)).2 = pr at hpc
  generalize (iter n (toDisk h, Proc.init b)).1 = d at hpc
  obtain ⟨pc, beh, dry, sent, tmp⟩ := pr
  cases pc with
  | done r => exact hpc
  | start => exact .inl hpc
  | readCache => exact .inl hpc
  | mkdir => exact .inl hpc.1
  | post _ => exact .inl hpc.1
  | parseResp _ _ => exact .inl hpc.1
  | assertCached _ => exact .inl hpc
  | assertCode0 _ _ _ => exact .inl hpc.1
  | serverDate _ _ => exact .inl hpc.1
  | assertDate _ _ => exact .inl hpc.1
  | mkstemp _ => exact .inl hpc.1
  | write _ => exact .inl hpc.1
  | close _ => exact .inl hpc.1
  | replace _ => exact .inl hpc.1

/-- … and every later history of calls then behaves as `C15_seq` says, starting from that profile: the crash is
    invisible to later requests. -/
theorem C15_crash_then_seq (h : Abs) (b : Beh) (n : Nat) (hist : List Beh) :
    ∃ h', (h' = h ∨ h' = (specStep h b).1) ∧ diskAfterCrash h b n = toDisk h' ∧
      SeqOK h' hist (runSeq (diskAfterCrash h b n) hist) := by
  rcases C15_crash_full h b n with e | e
  · exact ⟨h, .inl rfl, e, by rw [e]; exact runSeq_ok h hist⟩
  · exact ⟨_, .inr rfl, e, by rw [e]; exact runSeq_ok _ hist⟩

-- the crash points in the write phase: after `mkstemp` (8 actions) the temporary file exists and is empty, after the
-- write (9) and the close (10) it is complete, the cache file still holds the old profile; after `os.replace` (11) the new
example : ((Sys.mk (toDisk (some ⟨1, 0, 0⟩)) [Proc.init (.profile ⟨2, 1, 0⟩)]).run
      (List.replicate 8 (.step 0) ++ [.crash 0])).procs.map (·.tmp) = [some []] := by decide
example : [8, 9, 10, 11].map (fun n => view (diskAfterCrash (some ⟨1, 0, 0⟩) (.profile ⟨2, 1, 0⟩) n)) =
    [.complete ⟨1, 0, 0⟩, .complete ⟨1, 0, 0⟩, .complete ⟨1, 0, 0⟩, .complete ⟨2, 1, 0⟩] := by decide

/-- The code never *produces* an unparseable cache file any more (`C15_crash_full`, `C15_interleave_full`), but it still
    does not heal one it finds (left by an older version, or by hand): every later call fails and the file stays as it
    is, whatever the server answers. -/
theorem C15_torn_stays (c : Content) (hc : parse c = none) (hist : List Beh) :
    ∀ r ∈ runSeq (some c) hist, r.disk = some c ∧ r.res = .error .parse ∧ r.sent = none := by
  induction hist with
  | nil => simp [runSeq]
  | cons b bs ih =>
    have hcall : call (some c) b = ⟨some c, .error .parse, none⟩ := by
      simp [call, fuel, runProc, stepProc, Proc.init, Proc.isDone, hc]
    intro r hr
    simp only [runSeq, hcall, List.mem_cons] at hr
    rcases hr with rfl | hr
    · exact ⟨rfl, rfl, rfl⟩
    · exact ih r hr

example : parse ([] : Content) = none := rfl

/-! ### concurrent writers -/

/-- **C15_interleave_full.**  Any number of processes run `request_profile` concurrently on the same cache file, each
    against its own server behaviour (`behs`), in **any** interleaving of their actions, any of them dying at any point
    (`sched` is an arbitrary list of `step i` / `crash i`).  At every moment

    1. the cache file is absent or exactly one complete profile — the one held initially or one that a server sent to
       one of the processes (never a mix, never a part);
    2. no process has failed because the cache file did not parse.

    What does **not** survive concurrency is the order: two writers holding profiles of different dates may rename in
    either order, so the older of the two can be the one that stays (`C15_interleave_not_monotone`); each of them is
    still at least as new as what that writer had read. -/
theorem C15_interleave_full (h : Abs) (behs : List Beh) (sched : List Act) :
    let s := (Sys.mk (toDisk h) (behs.map (Proc.init ·))).run sched
    (∃ h', s.disk = toDisk h' ∧ (h' = h ∨ ∃ p, h' = some p ∧ Beh.profile p ∈ behs)) ∧
      ∀ pr ∈ s.procs, pr.result ≠ some (.error .parse) := by
  obtain ⟨hd, hp⟩ := sysOK_run h behs sched _ (sysOK_init h behs)
  refine ⟨hd, ?_⟩
  intro pr hpr
  have hok := (hp pr hpr).1
  obtain ⟨pc, beh, dry, sent, tmp⟩ := pr
  cases pc <;> simp [Proc.result]
  simpa [ProcOK] using hok

/-- … and every later history of calls behaves as `C15_seq` says, starting from that profile: a later request never
    fails because of, nor returns, mixed content. -/
theorem C15_interleave_then_seq (h : Abs) (behs : List Beh) (sched : List Act) (hist : List Beh) :
    let s := (Sys.mk (toDisk h) (behs.map (Proc.init ·))).run sched
    ∃ h', s.disk = toDisk h' ∧ (h' = h ∨ ∃ p, h' = some p ∧ Beh.profile p ∈ behs) ∧
      SeqOK h' hist (runSeq s.disk hist) := by
  obtain ⟨⟨h', e, hh⟩, _⟩ := C15_interleave_full h behs sched
  exact ⟨h', e, hh, by rw [e]; exact runSeq_ok h' hist⟩

/-- the two-writer instance the property names -/
theorem C15_two_writers (h : Abs) (b0 b1 : Beh) (sched : List Act) :
    let s := (Sys.mk (toDisk h) [Proc.init b0, Proc.init b1]).run sched
    s.disk = toDisk h ∨ (∃ p, b0 = .profile p ∧ s.disk = toDisk (some p)) ∨
      (∃ p, b1 = .profile p ∧ s.disk = toDisk (some p)) := by
  obtain ⟨⟨h', e, hh⟩, _⟩ := C15_interleave_full h [b0, b1] sched
  simp only [List.map_cons, List.map_nil] at e
  rcases hh with rfl | ⟨p, rfl, hp⟩
  · exact .inl e
  · simp only [List.mem_cons, List.not_mem_nil, or_false] at hp
    rcases hp with hp | hp
    · exact .inr (.inl ⟨p, hp.symm, e⟩)
    · exact .inr (.inr ⟨p, hp.symm, e⟩)

/-- both read the cache (date 1) and get their answers (dates 6 and 7); the newer one is renamed first, the older last -/
def olderLastSched : List Act :=
  List.replicate 7 (.step 0) ++ List.replicate 7 (.step 1) ++ List.replicate 4 (.step 1) ++ List.replicate 4 (.step 0)

/-- The clause that is sequential only: under concurrency the cache may go back from the newer to the older of two
    profiles being written at the same time (both complete, both at least as new as what their writer had read). -/
theorem C15_interleave_not_monotone :
    let s0 : Sys := ⟨toDisk (some ⟨1, 0, 0⟩), [Proc.init (.profile ⟨6, 1, 0⟩), Proc.init (.profile ⟨7, 2, 0⟩)]⟩
    view (s0.run (olderLastSched.take 18)).disk = .complete ⟨7, 2, 0⟩ ∧
      view (s0.run olderLastSched).disk = .complete ⟨6, 1, 0⟩ := by decide

/-- Where the monotone-date clause does hold: when the two calls do not overlap — all actions of one, then all of the
    other — the file ends up as after the sequential history `[b0, b1]`, to which `C15_seq` (newest, never back) applies. -/
theorem C15_interleave_partial (h : Abs) (b0 b1 : Beh) :
    ((Sys.mk (toDisk h) [Proc.init b0, Proc.init b1]).run
        (List.replicate fuel (.step 0) ++ List.replicate fuel (.step 1))).disk
      = toDisk (heldAt h [b0, b1] 2) := by
  have hh : heldAt h [b0, b1] 2 = (specStep (specStep h b0).1 b1).1 := by
    rw [heldAt_step h [b0, b1] 1 b1 rfl, heldAt_step h [b0, b1] 0 b0 rfl]; rfl
  have h0 := sys2_run0 (toDisk h) (Proc.init b0) (Proc.init b1) fuel
  simp only [Sys.run] at h0 ⊢
  rw [List.foldl_append, h0, iter_fuel_disk]
  have h1 := sys2_run1 (toDisk (specStep h b0).1) (iter fuel (toDisk h, Proc.init b0)).2 (Proc.init b1) fuel
  simp only [Sys.run] at h1
  rw [h1, iter_fuel_disk, hh]

/-! ### the cache key -/

open Ofx.ClientSM in
/-- **Full statement (false).**  Clients configured for different servers never share a cache file. -/
def C15_key_full : Prop :=
  ∀ c1 c2 : Cfg, c1.url ≠ c2.url → cacheKey c1.org c1.fid ≠ cacheKey c2.org c2.fid

open Ofx.ClientSM in
/-- Witness: two clients without ORG/FID and different URLs both use `None-None.profrs`. -/
theorem C15_key_full_false : ¬ C15_key_full := by
  intro H
  exact H ⟨⟨0, 0⟩, none, none, none, none, true⟩ ⟨⟨1, 0⟩, none, none, none, none, true⟩ (by decide) rfl

example : cacheKey none none = "None-None.profrs".toList := by decide

/-- What sharing the file does: client A (no ORG/FID) caches profile `p` from its server; client B (no ORG/FID,
    another server) then asks *its* server with A's DTPROFUP, and if that server answers "up to date" — which it
    will whenever its own profile is older — B is handed A's profile, service URLs included. -/
theorem C15_key_shared (p : Profile) :
    let (fs1, oA) := callFS FS.empty none none (.profile p)
    let (_, oB) := callFS fs1 none none .upToDate
    oA.res = .ok (.prof p) ∧ oB.sent = some (some p.date) ∧ oB.res = .ok (.prof p) := by
  have hk : FS.empty (cacheKey none none) = toDisk none := rfl
  simp only [callFS, hk, call_eq, FS.set, if_true]
  simp [specStep, accepts, resOf]

/-- `-` inside ORG also merges keys: ("A-B", "C") and ("A", "B-C") name the same file. -/
example : cacheKey (some "A-B".toList) (some "C".toList) = cacheKey (some "A".toList) (some "B-C".toList) := by
  decide

/-- **Strongest true restriction.**  Among clients that do configure ORG and FID, with no `-` in ORG, the file
    name determines (ORG, FID): distinct institutions never share a file. -/
theorem C15_key_partial (o1 f1 o2 f2 : Str) (h1 : '-' ∉ o1) (h2 : '-' ∉ o2)
    (h : cacheKey (some o1) (some f1) = cacheKey (some o2) (some f2)) : o1 = o2 ∧ f1 = f2 := by
  simp only [cacheKey, pyStrOpt, List.append_assoc, List.cons_append] at h
  obtain ⟨ho, hf⟩ := split_unique '-' o1 o2 _ _ h1 h2 h
  exact ⟨ho, List.append_cancel_right hf⟩

example : '-' ∉ "ORG".toList := by decide

end Ofx.Cache
