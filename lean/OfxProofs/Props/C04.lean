/-
C04 — every constraint a model class declares is enforced at every way of building it.

Generic in the schema `S` and the converters `cv`.  One rejection theorem per constraint kind on the
keyword route (`construct` = `Cls(*args, **kwargs)`), the characterisation of a successful construction
(`construct_ok_iff`), and — on the tree route — rejection of a duplicated non-repeatable child.
The static half (every declared group is in force, names existing optional non-repeated children)
is the generated obligation `Gen.schema_wf_except_known`.
-/
import OfxProofs.Lemmas.NodeRT
namespace Ofx.Agg
open Ofx

/-- what a successful construction went through -/
theorem construct_ok_iff (S : Schema) (cv : Conv) (ci : Nat) (args : List Node) (kw : List (Str × Node))
    (n : Node) :
    construct S cv ci args kw = .ok n ↔
      ∃ c fields items, S.cls? ci = some c ∧ validateArgs S c args kw = .ok () ∧
        setAttrs S cv (specNoList c) kw = .ok fields ∧ applyArgs S cv c args = .ok items ∧
        applyResidual c kw = .ok () ∧ n = .agg ci fields items := by
  constructor
  · intro h
    unfold construct at h
    cases hc : S.cls? ci with
    | none => simp [hc] at h
    | some c =>
      simp only [hc] at h
      cases hv : validateArgs S c args kw with
      | error e => simp [hv, bind, Except.bind] at h
      | ok u =>
        cases hs : setAttrs S cv (specNoList c) kw with
        | error e => simp [hv, hs, bind, Except.bind] at h
        | ok fields =>
          cases ha : applyArgs S cv c args with
          | error e => simp [hv, hs, ha, bind, Except.bind] at h
          | ok items =>
            cases hr : applyResidual c kw with
            | error e => simp [hv, hs, ha, hr, bind, Except.bind] at h
            | ok u2 =>
              simp [hv, hs, ha, hr, bind, Except.bind, pure, Except.pure] at h
              exact ⟨c, fields, items, rfl, by rw [hv], hs, ha, by rw [hr], h.symm⟩
  · rintro ⟨c, fields, items, hc, hv, hs, ha, hr, rfl⟩
    simp [construct, hc, hv, hs, ha, hr, bind, Except.bind, pure, Except.pure]

theorem not_ok_error {α} (x : PyM α) (h : ∀ a, x ≠ .ok a) : ∃ e, x = .error e := by
  cases x with
  | error e => exact ⟨e, rfl⟩
  | ok a => exact absurd rfl (h a)

/-- the value stored for each spec attribute by a successful `setattr` loop is what `setAttr` produced -/
theorem setAttrs_ok_each (S : Schema) (cv : Conv) (kw : List (Str × Node)) :
    ∀ (L : List Attr) (fields : List (Str × Node)), setAttrs S cv L kw = .ok fields →
    ∀ a ∈ L, ∃ o, setAttr S cv a ((lookup a.name kw).getD (.val .none)) = .ok o
  | [], _, _, a, ha => by simp at ha
  | b :: L, fields, h, a, ha => by
    simp only [setAttrs] at h
    cases hb : setAttr S cv b ((lookup b.name kw).getD (.val .none)) with
    | error e => simp [hb, bind, Except.bind] at h
    | ok o =>
      cases hm : setAttrs S cv L kw with
      | error e => simp [hb, hm, bind, Except.bind] at h
      | ok more =>
        simp only [List.mem_cons] at ha
        rcases ha with rfl | ha
        · exact ⟨o, hb⟩
        · exact setAttrs_ok_each S cv kw L more hm a ha

theorem two_le_length_of_mem {α} [DecidableEq α] {l : List α} {a b : α} (ha : a ∈ l) (hb : b ∈ l) (hne : a ≠ b) :
    2 ≤ l.length := by
  match l, ha, hb with
  | [], ha, _ => simp at ha
  | [x], ha, hb =>
    simp at ha hb; subst ha; subst hb; exact absurd rfl hne
  | _ :: _ :: _, _, _ => simp

/-- a kwarg that is present and neither `None` nor the empty text -/
def Given (kw : List (Str × Node)) (m : Str) : Prop := ∃ v, lookup m kw = some v ∧ given v = true

/-- a kwarg that is present and not `None` (what "omitted" negates for a required child) -/
def Present (kw : List (Str × Node)) (m : Str) : Prop := ∃ v, lookup m kw = some v ∧ notNone v = true

theorem given_notNone (v : Node) (h : given v = true) : notNone v = true := by
  cases v with
  | val x => cases x <;> simp_all [given, notNone]
  | agg _ _ _ => rfl

theorem Present_of_Given {kw : List (Str × Node)} {m : Str} (h : Given kw m) : Present kw m := by
  obtain ⟨v, hl, hg⟩ := h
  exact ⟨v, hl, given_notNone v hg⟩

theorem mutexCount_two (kw : List (Str × Node)) (g : List Str) (m1 m2 : Str) (h1 : m1 ∈ g) (h2 : m2 ∈ g)
    (hne : m1 ≠ m2) (hv1 : Given kw m1) (hv2 : Given kw m2) : 2 ≤ mutexCount kw g := by
  unfold mutexCount
  obtain ⟨v1, hl1, hn1⟩ := hv1
  obtain ⟨v2, hl2, hn2⟩ := hv2
  apply two_le_length_of_mem (a := m1) (b := m2) _ _ hne
  · simp [List.mem_filter, h1, hl1, hn1]
  · simp [List.mem_filter, h2, hl2, hn2]

theorem mutexCount_zero (kw : List (Str × Node)) (g : List Str) (h : ∀ m ∈ g, ¬ Given kw m) :
    mutexCount kw g = 0 := by
  unfold mutexCount
  rw [List.length_eq_zero_iff, List.filter_eq_nil_iff]
  intro m hm
  have := h m hm
  cases hl : lookup m kw with
  | none => simp
  | some v =>
    simp only
    intro hn
    exact this ⟨v, hl, hn⟩

theorem enforceCount_error (kw : List (Str × Node)) (groups : List (List Str)) (pred : Nat → Bool)
    (g : List Str) (hg : g ∈ groups) (hp : pred (mutexCount kw g) = false) :
    enforceCount kw groups pred = .error .spec := by
  unfold enforceCount
  have : groups.all (fun g => pred (mutexCount kw g)) = false := by
    rw [List.all_eq_false]; exact ⟨g, hg, by simp [hp]⟩
  simp [this]

/-- `validate_args` failing makes construction fail -/
theorem construct_error_of_validate (S : Schema) (cv : Conv) (ci : Nat) (c : Cls) (args : List Node)
    (kw : List (Str × Node)) (hc : S.cls? ci = some c) (e : Err) (h : validateArgs S c args kw = .error e) :
    construct S cv ci args kw = .error e := by
  simp [construct, hc, h, bind, Except.bind]

theorem validate_error_of_opt (S : Schema) (c : Cls) (args : List Node) (kw : List (Str × Node))
    (h : enforceCount kw c.optMutex (· ≤ 1) = .error .spec) : ∃ e, validateArgs S c args kw = .error e := by
  unfold validateArgs
  cases hx : extraRule S c.extra args kw with
  | error e => exact ⟨e, by simp [bind, Except.bind]⟩
  | ok _ => exact ⟨.spec, by simp [bind, Except.bind, h]⟩

theorem validate_error_of_req (S : Schema) (c : Cls) (args : List Node) (kw : List (Str × Node))
    (h : enforceCount kw c.reqMutex (· = 1) = .error .spec) : ∃ e, validateArgs S c args kw = .error e := by
  unfold validateArgs
  cases hx : extraRule S c.extra args kw with
  | error e => exact ⟨e, by simp [bind, Except.bind]⟩
  | ok _ =>
    cases ho : enforceCount kw c.optMutex (· ≤ 1) with
    | error e => exact ⟨e, by simp [bind, Except.bind, ho]⟩
    | ok _ => exact ⟨.spec, by simp [bind, Except.bind, ho, h]⟩

/-- C04 (at-most-one groups): two members of a group in force, both given, are rejected. -/
theorem C04_reject_mutex_two (S : Schema) (cv : Conv) (ci : Nat) (c : Cls) (args : List Node)
    (kw : List (Str × Node)) (g : List Str) (m1 m2 : Str) (hc : S.cls? ci = some c) (hg : g ∈ c.optMutex)
    (h1 : m1 ∈ g) (h2 : m2 ∈ g) (hne : m1 ≠ m2) (hv1 : Given kw m1) (hv2 : Given kw m2) :
    ∃ e, construct S cv ci args kw = .error e := by
  have hcount := mutexCount_two kw g m1 m2 h1 h2 hne hv1 hv2
  have := enforceCount_error kw c.optMutex (· ≤ 1) g hg (by simp; omega)
  obtain ⟨e, he⟩ := validate_error_of_opt S c args kw this
  exact ⟨e, construct_error_of_validate S cv ci c args kw hc e he⟩

/-- C04 (exactly-one groups): none of the group given is rejected. -/
theorem C04_reject_reqmutex_none (S : Schema) (cv : Conv) (ci : Nat) (c : Cls) (args : List Node)
    (kw : List (Str × Node)) (g : List Str) (hc : S.cls? ci = some c) (hg : g ∈ c.reqMutex)
    (hnone : ∀ m ∈ g, ¬ Given kw m) : ∃ e, construct S cv ci args kw = .error e := by
  have hcount := mutexCount_zero kw g hnone
  have := enforceCount_error kw c.reqMutex (· = 1) g hg (by simp [hcount])
  obtain ⟨e, he⟩ := validate_error_of_req S c args kw this
  exact ⟨e, construct_error_of_validate S cv ci c args kw hc e he⟩

/-- C04 (exactly-one groups): two of the group given is rejected. -/
theorem C04_reject_reqmutex_two (S : Schema) (cv : Conv) (ci : Nat) (c : Cls) (args : List Node)
    (kw : List (Str × Node)) (g : List Str) (m1 m2 : Str) (hc : S.cls? ci = some c) (hg : g ∈ c.reqMutex)
    (h1 : m1 ∈ g) (h2 : m2 ∈ g) (hne : m1 ≠ m2) (hv1 : Given kw m1) (hv2 : Given kw m2) :
    ∃ e, construct S cv ci args kw = .error e := by
  have hcount := mutexCount_two kw g m1 m2 h1 h2 hne hv1 hv2
  have := enforceCount_error kw c.reqMutex (· = 1) g hg (by simp; omega)
  obtain ⟨e, he⟩ := validate_error_of_req S c args kw this
  exact ⟨e, construct_error_of_validate S cv ci c args kw hc e he⟩

/-- C04 (required sub-aggregate): omitting it is rejected. -/
theorem C04_reject_required_sub (S : Schema) (cv : Conv) (ci : Nat) (c : Cls) (args : List Node)
    (kw : List (Str × Node)) (a : Attr) (t : Nat) (hc : S.cls? ci = some c) (ha : a ∈ c.spec)
    (hk : a.kind = .sub t) (hreq : a.required = true) (hng : ¬ Present kw a.name) :
    ∃ e, construct S cv ci args kw = .error e := by
  apply not_ok_error
  intro n hn
  obtain ⟨c', fields, items, hc', _, hs, _, _, _⟩ := (construct_ok_iff S cv ci args kw n).mp hn
  rw [hc] at hc'; injection hc' with hc'; subst hc'
  have hmem : a ∈ specNoList c := by simp [specNoList, ha, hk, Kind.isList]
  obtain ⟨o, ho⟩ := setAttrs_ok_each S cv kw _ fields hs a hmem
  have hval : (lookup a.name kw).getD (.val .none) = .val .none := by
    cases hl : lookup a.name kw with
    | none => rfl
    | some v =>
      cases hv : notNone v with
      | true => exact absurd ⟨v, hl, hv⟩ hng
      | false =>
        cases v with
        | val x => cases x <;> simp_all [notNone]
        | agg _ _ _ => simp [notNone] at hv
  rw [hval] at ho
  simp [setAttr, hk, convertSub, hreq, Except.map] at ho

/-- C04 (required element): omitting it is rejected, for converters that refuse `None` when required. -/
theorem C04_reject_required_elem (S : Schema) (cv : Conv) (ci : Nat) (c : Cls) (args : List Node)
    (kw : List (Str × Node)) (a : Attr) (hc : S.cls? ci = some c) (ha : a ∈ c.spec)
    (hl : a.kind.isList = false) (hu : a.kind.isUnsupported = false) (hst : Kind.subTarget a.kind = none)
    (hreq : a.required = true) (hng : ¬ Present kw a.name)
    (hcv : ∃ e, cv.convert S.enums a.kind true .none = .error e) :
    ∃ e, construct S cv ci args kw = .error e := by
  apply not_ok_error
  intro n hn
  obtain ⟨c', fields, items, hc', _, hs, _, _, _⟩ := (construct_ok_iff S cv ci args kw n).mp hn
  rw [hc] at hc'; injection hc' with hc'; subst hc'
  have hmem : a ∈ specNoList c := by simp [specNoList, ha, hl]
  obtain ⟨o, ho⟩ := setAttrs_ok_each S cv kw _ fields hs a hmem
  have hval : (lookup a.name kw).getD (.val .none) = .val .none := by
    cases hlk : lookup a.name kw with
    | none => rfl
    | some v =>
      cases hv : notNone v with
      | true => exact absurd ⟨v, hlk, hv⟩ hng
      | false =>
        cases v with
        | val x => cases x <;> simp_all [notNone]
        | agg _ _ _ => simp [notNone] at hv
  rw [hval] at ho
  obtain ⟨e, he⟩ := hcv
  have hset : setAttr S cv a (.val .none) = (cv.convert S.enums a.kind a.required .none).map
      (fun r => some (.val r)) := by
    cases hk : a.kind <;> simp_all [setAttr, Kind.subTarget, Kind.isList, Kind.isUnsupported, Node.toVal]
  rw [hset, hreq, he] at ho
  simp [Except.map] at ho

/-- C04 (unknown keyword): a kwarg that is not a non-repeated spec attribute is rejected. -/
theorem C04_reject_unknown_kwarg (S : Schema) (cv : Conv) (ci : Nat) (c : Cls) (args : List Node)
    (kw : List (Str × Node)) (k : Str) (hc : S.cls? ci = some c) (hk : k ∈ kw.map (·.1))
    (hnot : k ∉ (specNoList c).map (·.name)) : ∃ e, construct S cv ci args kw = .error e := by
  apply not_ok_error
  intro n hn
  obtain ⟨c', _, _, hc', _, _, _, hr, _⟩ := (construct_ok_iff S cv ci args kw n).mp hn
  rw [hc] at hc'; injection hc' with hc'; subst hc'
  have hres : k ∈ residualKeys c kw := by
    simp only [residualKeys, List.mem_filter, hk, true_and]
    simpa using hnot
  unfold applyResidual at hr
  cases hrk : residualKeys c kw with
  | nil => rw [hrk] at hres; simp at hres
  | cons x xs =>
    rw [hrk] at hr
    simp only at hr
    split at hr <;> simp at hr

/-- C04 (list member types): a plain aggregate rejects a member whose class is not one of its list attributes,
    and any non-aggregate member. -/
theorem C04_reject_list_member (S : Schema) (cv : Conv) (ci : Nat) (c : Cls) (args : List Node)
    (kw : List (Str × Node)) (m : Node) (hc : S.cls? ci = some c) (hel : c.elementList = false)
    (hm : m ∈ args)
    (hbad : m.isAgg = false ∨ (listAggNames c).contains (lower (argClassName S m)) = false) :
    ∃ e, construct S cv ci args kw = .error e := by
  apply not_ok_error
  intro n hn
  obtain ⟨c', _, items, hc', _, _, ha, _, _⟩ := (construct_ok_iff S cv ci args kw n).mp hn
  rw [hc] at hc'; injection hc' with hc'; subst hc'
  simp only [applyArgs, hel, Bool.false_eq_true, if_false] at ha
  have herr : ∃ e, applyArg S c m = .error e := by
    cases m with
    | val v => exact ⟨.type, rfl⟩
    | agg cj f i =>
      rcases hbad with h | h
      · simp [Node.isAgg] at h
      · refine ⟨.type, ?_⟩
        show (if (listAggNames c).contains (lower (argClassName S (.agg cj f i))) then _ else _) = _
        rw [h]; rfl
  -- a failing member makes the whole mapM fail
  have : ∀ (l : List Node) (out : List Node), m ∈ l → List.mapM (m := PyM) (applyArg S c) l ≠ .ok out := by
    intro l
    induction l with
    | nil => intro _ hmem; simp at hmem
    | cons x xs ih =>
      intro out hmem
      rw [List.mapM_cons]
      simp only [List.mem_cons] at hmem
      obtain ⟨e, he⟩ := herr
      rcases hmem with rfl | hmem
      · rw [he]; simp [bind, Except.bind]
      · cases hx : applyArg S c x with
        | error e' => simp [bind, Except.bind]
        | ok y =>
          cases hxs : List.mapM (m := PyM) (applyArg S c) xs with
          | error e' => simp [bind, Except.bind]
          | ok ys => exact absurd hxs (ih ys hmem)
  exact this args items hm ha


/-- the reader's step on a known child, as one equation (no `groom` rename in play) -/
theorem updateArgs_eq (c : Cls) (acc : Accum) (ch : Tree) (sub : PyM Node) (idx : Nat)
    (hg : c.groom = none) (hdot : '.' ∉ ch.tag) (hidx : specIndex c (lower ch.tag) = some idx) :
    updateArgs c acc ch sub =
      if outOfOrder acc.prev idx && !(isListMember c (lower ch.tag) && acc.prevIsList) then .error .spec
      else (if unsupportedAt c idx then (.ok (Node.val .none) : PyM Node) else childValue ch sub) >>= fun value =>
        if isListMember c (lower ch.tag) then
          .ok { acc with args := acc.args ++ [value], prev := some idx, prevIsList := true }
        else if hasKey (lower ch.tag) acc.kwargs then .error .spec
        else .ok { acc with kwargs := acc.kwargs ++ [(lower ch.tag, value)], prev := some idx,
                            prevIsList := false } := by
  unfold updateArgs
  rw [groomTag_none c acc.renamed ch.tag hg]
  have hd : ch.tag.contains '.' = false := by simpa using hdot
  simp only [hd, Bool.false_eq_true, if_false, hidx]
  by_cases ho : (outOfOrder acc.prev idx && !(isListMember c (lower ch.tag) && acc.prevIsList)) = true
  · rw [if_pos ho, if_pos ho]
  · rw [if_neg ho, if_neg ho]
    by_cases hu : unsupportedAt c idx = true
    · by_cases hl : isListMember c (lower ch.tag) = true
      · simp [hu, hl, bind, Except.bind, pure, Except.pure]
      · by_cases hk : hasKey (lower ch.tag) acc.kwargs = true <;>
          simp [hu, hl, hk, bind, Except.bind, pure, Except.pure]
    · cases hv : childValue ch sub with
      | error e => simp [hu, hv, bind, Except.bind]
      | ok value =>
        by_cases hl : isListMember c (lower ch.tag) = true
        · simp [hu, hv, hl, bind, Except.bind, pure, Except.pure]
        · by_cases hk : hasKey (lower ch.tag) acc.kwargs = true <;>
            simp [hu, hv, hl, hk, bind, Except.bind, pure, Except.pure]

/-- a child the class does not know leaves everything but the rename flag unchanged -/
theorem updateArgs_unknown_eq (c : Cls) (acc : Accum) (ch : Tree) (sub : PyM Node) (hg : c.groom = none)
    (h : '.' ∈ ch.tag ∨ specIndex c (lower ch.tag) = none) : updateArgs c acc ch sub = .ok acc :=
  updateArgs_unknown c acc ch sub ⟨fun r hr => by simp [hg] at hr, h⟩

/-- the keyword accumulator only grows (no `groom` rename in play) -/
theorem updateArgs_kwargs (c : Cls) (hg : c.groom = none) (acc acc' : Accum) (ch : Tree) (sub : PyM Node)
    (h : updateArgs c acc ch sub = .ok acc') :
    acc'.kwargs = acc.kwargs ∨ ∃ n v, acc'.kwargs = acc.kwargs ++ [(n, v)] := by
  by_cases hdot : '.' ∈ ch.tag
  · rw [updateArgs_unknown_eq c acc ch sub hg (Or.inl hdot)] at h
    injection h with h; subst h; exact Or.inl rfl
  · cases hidx : specIndex c (lower ch.tag) with
    | none =>
      rw [updateArgs_unknown_eq c acc ch sub hg (Or.inr hidx)] at h
      injection h with h; subst h; exact Or.inl rfl
    | some idx =>
      rw [updateArgs_eq c acc ch sub idx hg hdot hidx] at h
      split at h
      · simp at h
      · generalize (if unsupportedAt c idx = true then (Except.ok (Node.val Val.none) : PyM Node)
          else childValue ch sub) = rv at h
        cases rv with
        | error e => simp [bind, Except.bind] at h
        | ok value =>
          simp only [bind, Except.bind] at h
          split at h
          · injection h with h; subst h; exact Or.inl rfl
          · split at h
            · simp at h
            · injection h with h; subst h; exact Or.inr ⟨_, _, rfl⟩

theorem updateArgs_hasKey (c : Cls) (hg : c.groom = none) (acc acc' : Accum) (ch : Tree) (sub : PyM Node)
    (h : updateArgs c acc ch sub = .ok acc') (k : Str) (hk : hasKey k acc.kwargs = true) :
    hasKey k acc'.kwargs = true := by
  rcases updateArgs_kwargs c hg acc acc' ch sub h with h1 | ⟨n, v, h1⟩
  · rw [h1]; exact hk
  · rw [h1, hasKey_append, hk]; rfl

theorem foldChildren_hasKey (c : Cls) (hg : c.groom = none) : ∀ (ts : List Tree) (ss : List (PyM Node)) (acc acc' : Accum),
    foldChildren c ts ss acc = .ok acc' → ∀ k, hasKey k acc.kwargs = true → hasKey k acc'.kwargs = true
  | [], _, acc, acc', h, k, hk => by
    cases ‹List (PyM Node)› <;> simp [foldChildren] at h <;> subst h <;> exact hk
  | t :: ts, [], acc, acc', h, k, hk => by simp [foldChildren] at h; subst h; exact hk
  | t :: ts, s :: ss, acc, acc', h, k, hk => by
    simp only [foldChildren] at h
    cases hu : updateArgs c acc t s with
    | error e => simp [hu, bind, Except.bind] at h
    | ok acc1 =>
      simp only [hu, bind, Except.bind] at h
      exact foldChildren_hasKey c hg ts ss acc1 acc' h k (updateArgs_hasKey c hg acc acc1 t s hu k hk)

/-- a known non-repeated child (no `groom` rename in play): after a successful step its name is a key -/
theorem updateArgs_known_key (c : Cls) (acc acc' : Accum) (ch : Tree) (sub : PyM Node) (idx : Nat)
    (hg : c.groom = none) (hdot : '.' ∉ ch.tag) (hidx : specIndex c (lower ch.tag) = some idx)
    (hnl : isListMember c (lower ch.tag) = false) (h : updateArgs c acc ch sub = .ok acc') :
    hasKey (lower ch.tag) acc'.kwargs = true := by
  rw [updateArgs_eq c acc ch sub idx hg hdot hidx, hnl] at h
  split at h
  · simp at h
  · generalize (if unsupportedAt c idx = true then (Except.ok (Node.val Val.none) : PyM Node)
      else childValue ch sub) = rv at h
    cases rv with
    | error e => simp [bind, Except.bind] at h
    | ok value =>
      simp only [bind, Except.bind, Bool.false_eq_true, if_false] at h
      split at h
      · simp at h
      · injection h with h; subst h
        simp [hasKey_append]

/-- … and if its name already is a key, the step fails -/
theorem updateArgs_dup_error (c : Cls) (acc : Accum) (ch : Tree) (sub : PyM Node) (idx : Nat)
    (hg : c.groom = none) (hdot : '.' ∉ ch.tag) (hidx : specIndex c (lower ch.tag) = some idx)
    (hnl : isListMember c (lower ch.tag) = false) (hk : hasKey (lower ch.tag) acc.kwargs = true) :
    ∃ e, updateArgs c acc ch sub = .error e := by
  apply not_ok_error
  intro acc' h
  rw [updateArgs_eq c acc ch sub idx hg hdot hidx, hnl, hk] at h
  split at h
  · simp at h
  · generalize (if unsupportedAt c idx = true then (Except.ok (Node.val Val.none) : PyM Node)
      else childValue ch sub) = rv at h
    cases rv <;> simp [bind, Except.bind] at h

theorem foldChildren_error_of_step (c : Cls) :
    ∀ (pre : List Tree) (sp : List (PyM Node)) (y : Tree) (sy : PyM Node) (post : List Tree) (sq : List (PyM Node))
      (acc : Accum), sp.length = pre.length →
      (∀ acc1, foldChildren c pre sp acc = .ok acc1 → ∃ e, updateArgs c acc1 y sy = .error e) →
      ∃ e, foldChildren c (pre ++ y :: post) (sp ++ sy :: sq) acc = .error e := by
  intro pre sp y sy post sq acc hlen h
  rw [foldChildren_append c pre (y :: post) sp (sy :: sq) acc hlen]
  cases hf : foldChildren c pre sp acc with
  | error e => exact ⟨e, by simp [bind, Except.bind]⟩
  | ok acc1 =>
    obtain ⟨e, he⟩ := h acc1 hf
    exact ⟨e, by simp [bind, Except.bind, foldChildren, he]⟩

/-- C04 (at most one occurrence of a non-repeatable child, tree route): a document in which a known
    non-repeated child of an aggregate occurs twice is rejected. -/
theorem C04_reject_duplicate_child (S : Schema) (cv : Conv) (tag : Str) (x tl : Option Str)
    (pre mid post : List Tree) (a b : Tree) (ci : Nat) (c : Cls) (idx : Nat)
    (hf : S.findIdx? tag = some ci) (hc : S.cls? ci = some c) (hg : c.groom = none)
    (hdot : '.' ∉ a.tag) (hidx : specIndex c (lower a.tag) = some idx)
    (hnl : isListMember c (lower a.tag) = false) (hsame : b.tag = a.tag) :
    ∃ e, fromEtree S cv (.node tag x tl (pre ++ a :: (mid ++ b :: post))) = .error e := by
  simp only [fromEtree, convertNode, hf, hc]
  have hne : (pre ++ a :: (mid ++ b :: post)).isEmpty = false := by cases pre <;> rfl
  simp only [hne, Bool.false_eq_true, if_false]
  have key : ∃ e, foldChildren c (pre ++ a :: (mid ++ b :: post))
      (childInsts S cv (pre ++ a :: (mid ++ b :: post))) Accum.init = .error e := by
    have hsplit : pre ++ a :: (mid ++ b :: post) = (pre ++ a :: mid) ++ b :: post := by simp
    rw [hsplit, childInsts_append]
    simp only [childInsts]
    apply foldChildren_error_of_step c (pre ++ a :: mid) _ b _ post _ Accum.init (childInsts_length S cv _)
    intro acc1 hacc1
    -- after `a` its name is a key, and stays one
    rw [childInsts_append] at hacc1
    simp only [childInsts] at hacc1
    rw [foldChildren_append c pre (a :: mid) _ _ Accum.init (childInsts_length S cv pre)] at hacc1
    cases hp : foldChildren c pre (childInsts S cv pre) Accum.init with
    | error e => simp [hp, bind, Except.bind] at hacc1
    | ok acc0 =>
      simp only [hp, bind, Except.bind, foldChildren] at hacc1
      cases hu : updateArgs c acc0 a (fromEtree S cv a) with
      | error e => simp [hu] at hacc1
      | ok acc2 =>
        simp only [hu] at hacc1
        have hk2 := updateArgs_known_key c acc0 acc2 a _ idx hg hdot hidx hnl hu
        have hk1 := foldChildren_hasKey c hg mid _ acc2 acc1 hacc1 _ hk2
        exact updateArgs_dup_error c acc1 b _ idx hg (by rw [hsame]; exact hdot) (by rw [hsame]; exact hidx)
          (by rw [hsame]; exact hnl) (by rw [hsame]; exact hk1)
  obtain ⟨e, he⟩ := key
  exact ⟨e, by simp [he, bind, Except.bind]⟩


theorem enforceCount_ok (kw : List (Str × Node)) (groups : List (List Str)) (pred : Nat → Bool)
    (h : enforceCount kw groups pred = .ok ()) : ∀ g ∈ groups, pred (mutexCount kw g) = true := by
  unfold enforceCount at h
  split at h
  · rename_i hall; exact fun g hg => (List.all_eq_true.mp hall) g hg
  · simp at h

theorem validate_ok (S : Schema) (c : Cls) (args : List Node) (kw : List (Str × Node))
    (h : validateArgs S c args kw = .ok ()) :
    extraRule S c.extra args kw = .ok () ∧ (∀ g ∈ c.optMutex, mutexCount kw g ≤ 1) ∧
      (∀ g ∈ c.reqMutex, mutexCount kw g = 1) := by
  unfold validateArgs at h
  cases hx : extraRule S c.extra args kw with
  | error e => simp [hx, bind, Except.bind] at h
  | ok u =>
    cases ho : enforceCount kw c.optMutex (· ≤ 1) with
    | error e => simp [hx, ho, bind, Except.bind] at h
    | ok u1 =>
      simp only [hx, ho, bind, Except.bind] at h
      refine ⟨rfl, ?_, ?_⟩
      · intro g hg; simpa using enforceCount_ok kw _ _ ho g hg
      · intro g hg; simpa using enforceCount_ok kw _ _ h g hg

theorem map_some_ne_none {α β} (x : PyM α) (f : α → β) : x.map (fun r => some (f r)) ≠ .ok none := by
  cases x <;> simp [Except.map]

theorem setAttr_none_unsupported (S : Schema) (cv : Conv) (a : Attr) (w : Node) (hl : a.kind.isList = false)
    (h : setAttr S cv a w = .ok none) : a.kind.isUnsupported = true := by
  cases hk : a.kind with
  | unsupported => rfl
  | sub t =>
    simp only [setAttr, hk] at h
    exact absurd h (by cases convertSub S t a.required w <;> simp [Except.map])
  | listAgg t => simp [hk, Kind.isList] at hl
  | listElem k r => simp [hk, Kind.isList] at hl
  | bool => simp only [setAttr, hk] at h; exact absurd h (map_some_ne_none _ _)
  | string l st => simp only [setAttr, hk] at h; exact absurd h (map_some_ne_none _ _)
  | oneOf e => simp only [setAttr, hk] at h; exact absurd h (map_some_ne_none _ _)
  | integer l => simp only [setAttr, hk] at h; exact absurd h (map_some_ne_none _ _)
  | decimal q => simp only [setAttr, hk] at h; exact absurd h (map_some_ne_none _ _)
  | datetime => simp only [setAttr, hk] at h; exact absurd h (map_some_ne_none _ _)
  | time => simp only [setAttr, hk] at h; exact absurd h (map_some_ne_none _ _)

theorem setAttr_some_supported (S : Schema) (cv : Conv) (a : Attr) (w v : Node)
    (h : setAttr S cv a w = .ok (some v)) : a.kind.isUnsupported = false := by
  cases hk : a.kind <;> simp_all [setAttr, Kind.isUnsupported]

/-- the `setattr` loop stores, per supported attribute and in spec order, exactly what the attribute's
    converter made of the keyword given for it -/
theorem setAttrs_fieldsMatch (S : Schema) (cv : Conv) (kw : List (Str × Node)) :
    ∀ (L : List Attr) (fields : List (Str × Node)), (∀ a ∈ L, a.kind.isList = false) →
    setAttrs S cv L kw = .ok fields →
    FieldsMatch (fun a v => setAttr S cv a ((lookup a.name kw).getD (.val .none)) = .ok (some v)) L fields
  | [], fields, _, h => by simp [setAttrs] at h; subst h; exact .nil
  | b :: L, fields, hl, h => by
    simp only [setAttrs] at h
    cases hb : setAttr S cv b ((lookup b.name kw).getD (.val .none)) with
    | error e => simp [hb, bind, Except.bind] at h
    | ok o =>
      cases hm : setAttrs S cv L kw with
      | error e => simp [hb, hm, bind, Except.bind] at h
      | ok more =>
        have ih := setAttrs_fieldsMatch S cv kw L more (fun a ha => hl a (by simp [ha])) hm
        cases o with
        | none =>
          simp [hb, hm, bind, Except.bind, pure, Except.pure] at h
          subst h
          exact .unsup b L more (setAttr_none_unsupported S cv b _ (hl b (by simp)) hb) ih
        | some v =>
          simp [hb, hm, bind, Except.bind, pure, Except.pure] at h
          subst h
          exact .field b v L more (setAttr_some_supported S cv b _ v hb) hb ih

/-- C04 (consequence): every instance that keyword construction returns satisfies the declared groups on
    the keywords it was given, holds — per supported non-repeated attribute, in spec order — what the
    attribute's converter accepted, has only permitted list members, and was given no foreign keyword. -/
theorem C04_sound_kw (S : Schema) (cv : Conv) (ci : Nat) (args : List Node) (kw : List (Str × Node)) (n : Node)
    (h : construct S cv ci args kw = .ok n) :
    ∃ c fields items, n = .agg ci fields items ∧ S.cls? ci = some c ∧
      extraRule S c.extra args kw = .ok () ∧
      (∀ g ∈ c.optMutex, mutexCount kw g ≤ 1) ∧ (∀ g ∈ c.reqMutex, mutexCount kw g = 1) ∧
      FieldsMatch (fun a v => setAttr S cv a ((lookup a.name kw).getD (.val .none)) = .ok (some v))
        (specNoList c) fields ∧
      applyArgs S cv c args = .ok items ∧
      (∀ k ∈ kw.map (·.1), k ∈ (specNoList c).map (·.name)) := by
  obtain ⟨c, fields, items, hc, hv, hs, ha, hr, rfl⟩ := (construct_ok_iff S cv ci args kw n).mp h
  obtain ⟨hx, ho, hq⟩ := validate_ok S c args kw hv
  refine ⟨c, fields, items, rfl, hc, hx, ho, hq,
    setAttrs_fieldsMatch S cv kw _ fields (fun a ha => by simpa [specNoList] using (List.mem_filter.mp ha).2) hs, ha, ?_⟩
  intro k hk
  apply Classical.byContradiction
  intro hnot
  obtain ⟨e, he⟩ := C04_reject_unknown_kwarg S cv ci c args kw k hc hk hnot
  rw [h] at he; cases he

/-- a required sub-aggregate of a constructed instance is present, with the declared class -/
theorem C04_sound_required_sub (S : Schema) (a : Attr) (t : Nat) (v : Node) (w : Node)
    (hk : a.kind = .sub t) (hreq : a.required = true) (cv : Conv)
    (h : setAttr S cv a w = .ok (some v)) : ∃ cj f i, v = .agg cj f i ∧ isInstance S cj t = true := by
  simp only [setAttr, hk] at h
  cases w with
  | val x =>
    cases x <;> simp [convertSub, hreq, Except.map] at h
  | agg cj f i =>
    simp only [convertSub] at h
    split at h
    · rename_i hi
      simp [Except.map] at h
      exact ⟨cj, f, i, h.symm, hi⟩
    · simp [Except.map] at h


end Ofx.Agg
