/-
C01 for the instances the library itself builds: whatever `Cls(*args, **kwargs)` returns — for a concrete class of a
well-formed schema, with stored values in the converters' round-trip domain — is written and read back unchanged.
This ties the theorem's `Valid` to "every instance the library accepts" for one level of construction (the members
and sub-aggregates passed in being valid themselves), for plain aggregates, `ElementList`s and rename classes alike.
-/
import OfxProofs.Props.C01
import OfxProofs.Lemmas.ConstructValid

namespace Ofx.Agg
open Ofx

theorem C01_constructed_roundtrip (S : Schema) (cv : Conv) (esc : Str → Str) (Dom : Kind → Bool → Val → Prop)
    (laws : ConvLaws cv S.enums esc Dom) {c : Cls} {ci : Nat} (hp : ClsAny S c ci)
    {args : List Node} {kw : List (Str × Node)} {n : Node} (h : construct S cv ci args kw = .ok n)
    (hfield : ∀ a ∈ specNoList c, a.kind.isUnsupported = false → ∀ v,
      setAttr S cv a ((lookup a.name kw).getD (.val .none)) = .ok (some v) →
      FieldOk Dom a v ∧ (v.isAgg = true → Valid S cv esc Dom v))
    (hargs : c.elementList = false → ∀ m ∈ args, Valid S cv esc Dom m ∧
      ∃ cj f i cjc, m = .agg cj f i ∧ S.cls? cj = some cjc ∧ '.' ∉ cjc.name)
    (hargsEl : c.elementList = true → ∀ a ∈ c.spec, ∀ inner ireq, a.kind = .listElem inner ireq →
      ∀ m ∈ args, ∀ x, cv.convert S.enums inner ireq (Node.toVal m) = .ok x → x ≠ .none ∧ Dom inner ireq x)
    (hvalidate : ∀ fields items, setAttrs S cv (specNoList c) kw = .ok fields → applyArgs S cv c args = .ok items →
      validateArgs S c (rawItemsOf S cv esc c items) (rawKwOf S cv esc fields c.spec) = .ok ()) :
    ∃ t, toEtree S cv n = .ok t ∧ fromEtree S cv (mapText esc t) = .ok n :=
  C01_agg_roundtrip S cv esc Dom laws n
    (construct_valid_any S cv esc Dom hp h hfield hargs hargsEl hvalidate)

end Ofx.Agg
