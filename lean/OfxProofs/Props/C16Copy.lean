/-
C16, last clause — "… and a name nothing defines raises AttributeError, so hasattr, getattr with a default, copy,
deepcopy and pickle work on every instance and reproduce an equal model."

The model (`OfxModel/Ofx/CopyProto.lean`) carries the whole protocol for `Aggregate` instances: `__reduce_ex__` for
protocols 0–5, `copy._reconstruct`, `copy.deepcopy`'s recursion into dict values and list members, pickle's
dumps / loads with the `BUILD` probe on the instance that already holds its members. It is parametric in the attribute
access `G`; the theorems instantiate it with the code at HEAD (`Getattr.getattr S P`) and, for the negative twin, with the
code before 0f0930a (`getattrPinned S P`).

Premises of the positive theorems (both decidable, both evaluated by the driver on every generated real instance —
`copy.all` — so that they are known to hold where the correspondence runs):
  * `probesUndefined S P n`: on every aggregate of the tree nothing defines `__deepcopy__`, `__setstate__`, `__slots__`
    (`Spec.Getattr.undefined`); follows from `schemaQuiet S P` (no class declares such a name, no property has it:
    `Gen.schema_quiet` for the generated schema) and `instQuiet S n` (known classes, no such dict key);
  * `dictsWF n`: no `__dict__` of the tree holds a key twice (what being a dict means; `Node` uses association lists).
No premise says that the dicts are complete: the empty dict of `cls.__new__(cls)` and partial dicts are included.

Identity is outside `Node` (see the model's header): "equal model" is what these theorems say; that `copy.copy` shares the
children is expressed as `C16_copy_shallow` (the children are handed over, `G` is consulted on the fresh instance only).
-/
import OfxProofs.Lemmas.C16Copy
import OfxProofs.Props.C16

namespace Ofx.C16
open Ofx Ofx.Agg Ofx.Getattr Ofx.Spec.Getattr Ofx.CopyProto

/-! ### from "nothing defines the probe names" to "the probes answer AttributeError" -/

theorem undefined_parts (S : Schema) (P : Props) (ci : Nat) (fields : List (Str × Node)) (items : List Node)
    (name : Str) (h : undefined S P (.agg ci fields items) name = true) :
    ∃ c, S.cls? ci = some c ∧ c.attr? name = none ∧ P.find ci name = none := by
  simp only [undefined, Bool.and_eq_true] at h
  obtain ⟨⟨hclean, _⟩, hown⟩ := h
  cases hc : S.cls? ci with
  | none => simp [hc] at hown
  | some c =>
    simp only [hc, Option.isNone_iff_eq_none] at hown
    simp only [clean, hc, Bool.and_eq_true, Option.isNone_iff_eq_none] at hclean
    exact ⟨c, rfl, hown, hclean.1.1⟩

/-- the `__setstate__` probe on a freshly created instance, whatever members it already holds -/
theorem setstate_fresh (S : Schema) (P : Props) (ci : Nat) (fields : List (Str × Node)) (items its : List Node)
    (h : undefined S P (.agg ci fields items) nSetstate = true) :
    getattr S P (.agg ci [] its) nSetstate = .error .attr := by
  obtain ⟨c, hc, ha, hp⟩ := undefined_parts S P ci fields items nSetstate h
  exact C16_probe_empty_dict S P ci its nSetstate c hc ha hp

theorem quiet_of_undefined (S : Schema) (P : Props) (ci : Nat) (fields : List (Str × Node)) (items : List Node)
    (h : probeNames.all (fun nm => undefined S P (.agg ci fields items) nm) = true) :
    Quiet (getattr S P) ci fields items := by
  simp only [probeNames, List.all_cons, List.all_nil, Bool.and_true, Bool.and_eq_true] at h
  obtain ⟨hd, hs, hl⟩ := h
  exact ⟨C16_miss S P _ _ hd, C16_miss S P _ _ hl, fun its => setstate_fresh S P ci fields items its hs⟩

theorem QuietFields_of_mem (G : GA) : ∀ (fs : List (Str × Node)), (∀ k v, (k, v) ∈ fs → QuietAll G v) →
    QuietFields G fs
  | [], _ => by simp [QuietFields]
  | (k, v) :: r, h => by
    simp only [QuietFields]
    exact ⟨h k v List.mem_cons_self, QuietFields_of_mem G r (fun k' v' hm => h k' v' (List.mem_cons_of_mem _ hm))⟩

theorem QuietItems_of_mem (G : GA) : ∀ (is : List Node), (∀ v, v ∈ is → QuietAll G v) → QuietItems G is
  | [], _ => by simp [QuietItems]
  | v :: r, h => by
    simp only [QuietItems]
    exact ⟨h v List.mem_cons_self, QuietItems_of_mem G r (fun v' hm => h v' (List.mem_cons_of_mem _ hm))⟩

theorem probesUndefinedFields_mem (S : Schema) (P : Props) : ∀ (fs : List (Str × Node)),
    probesUndefinedFields S P fs = true → ∀ k v, (k, v) ∈ fs → probesUndefined S P v = true
  | [], _, _, _, h => by simp at h
  | (n, x) :: r, hq, k, v, h => by
    simp only [probesUndefinedFields, Bool.and_eq_true] at hq
    rcases List.mem_cons.mp h with h | h
    · have : v = x := by injection h
      rw [this]; exact hq.1
    · exact probesUndefinedFields_mem S P r hq.2 k v h

theorem probesUndefinedItems_mem (S : Schema) (P : Props) : ∀ (is : List Node),
    probesUndefinedItems S P is = true → ∀ v, v ∈ is → probesUndefined S P v = true
  | [], _, _, h => by simp at h
  | x :: r, hq, v, h => by
    simp only [probesUndefinedItems, Bool.and_eq_true] at hq
    rcases List.mem_cons.mp h with h | h
    · rw [h]; exact hq.1
    · exact probesUndefinedItems_mem S P r hq.2 v h

/-- with the code at HEAD, every probe on every aggregate of the tree answers AttributeError -/
theorem quietAll_of_probesUndefined (S : Schema) (P : Props) :
    ∀ n, probesUndefined S P n = true → QuietAll (getattr S P) n := by
  intro n
  induction n using Node.induct with
  | hval v => intro _; simp [QuietAll]
  | hagg ci fields items ihf ihi =>
    intro h
    simp only [probesUndefined, Bool.and_eq_true] at h
    obtain ⟨⟨hq, hf⟩, hi⟩ := h
    simp only [QuietAll]
    exact ⟨quiet_of_undefined S P ci fields items hq,
      QuietFields_of_mem _ fields (fun k v hm => ihf k v hm (probesUndefinedFields_mem S P fields hf k v hm)),
      QuietItems_of_mem _ items (fun v hm => ihi v hm (probesUndefinedItems_mem S P items hi v hm))⟩

/-! ### `__reduce_ex__` -/

/-- protocols 2–5 (and `copy`, `deepcopy`, which ask for 4): `(copyreg.__newobj__, (cls,), state, iter(x), None)` with
    `state` the instance dict, `None` when it is empty — for every `G`: no lookup reaches `__getattr__` -/
theorem C16_reduce_ex_newobj (G : GA) (proto ci : Nat) (fields : List (Str × Node)) (items : List Node)
    (hp : 2 ≤ proto) :
    reduceEx G proto (.agg ci fields items) =
      .ok ⟨.newobj, ci, [], if fields.isEmpty then none else some fields, some items⟩ :=
  reduceAgg_newobj G proto ci fields items hp

/-- protocols 0, 1: `(copyreg._reconstructor, (cls, list, list(x))[, state])` once the `__slots__` probe is answered -/
theorem C16_reduce_ex_reconstructor (S : Schema) (P : Props) (proto ci : Nat) (fields : List (Str × Node))
    (items : List Node) (hp : proto < 2) (h : undefined S P (.agg ci fields items) nSlots = true) :
    reduceEx (getattr S P) proto (.agg ci fields items) =
      .ok ⟨.reconstructor, ci, items, if fields.isEmpty then none else some fields, none⟩ :=
  reduceAgg_reconstructor _ proto ci fields items hp (C16_miss S P _ _ h)

/-! ### copy -/

/-- `copy.copy` for any attribute access: an instance with an empty dict is rebuilt without a single probe … -/
theorem C16_copy_empty_dict (G : GA) (ci : Nat) (items : List Node) :
    copyNode G (.agg ci [] items) = .ok (.agg ci [] items) := by
  simp [copyNode, reduceAgg, reconstruct, create, getstate, appendEach_eq, bind, Except.bind, pure, Except.pure]

/-- … and otherwise the ONLY thing consulted is `G` on the fresh, empty instance: the dict pairs and the members — the
    children — are handed over as they are (the shallow copy shares them; `G` never sees them) -/
theorem C16_copy_shallow (G : GA) (ci : Nat) (kv : Str × Node) (r : List (Str × Node)) (items : List Node) :
    copyNode G (.agg ci (kv :: r) items) =
      (setstateProbe G (.agg ci [] [])).bind (fun _ => .ok (.agg ci (dictUpdate [] (kv :: r)) items)) := by
  simp only [copyNode, reduceAgg_newobj G 4 ci (kv :: r) items (by omega), reconstruct, create, getstate, build,
    appendEach_eq, bind, Except.bind, pure, Except.pure, List.isEmpty_cons, List.nil_append]
  cases setstateProbe G (.agg ci [] []) <;> simp

/-- generic form (DESIGN 6.16 `C16_copy`): if the miss is clean, the copy is the instance -/
theorem C16_copy_of_clean_miss (G : GA) (ci : Nat) (fields : List (Str × Node)) (items : List Node)
    (hs : G (.agg ci [] []) nSetstate = .error .attr) (hn : nodupKeys fields = true) :
    copyNode G (.agg ci fields items) = .ok (.agg ci fields items) := by
  simp only [copyNode, reduceAgg_newobj G 4 ci fields items (by omega), bind, Except.bind]
  exact reconstruct_newobj G ci fields items hs hn

/-- **C16_copy_eq.** `copy.copy` reproduces every instance: any class, any members, any dict state -/
theorem C16_copy_eq (S : Schema) (P : Props) (ci : Nat) (fields : List (Str × Node)) (items : List Node)
    (h : undefined S P (.agg ci fields items) nSetstate = true) (hn : nodupKeys fields = true) :
    copyNode (getattr S P) (.agg ci fields items) = .ok (.agg ci fields items) :=
  C16_copy_of_clean_miss _ ci fields items (setstate_fresh S P ci fields items [] h) hn

/-! ### deepcopy, pickle -/

/-- **C16_deepcopy_eq.** `copy.deepcopy` reproduces every instance, at any depth -/
theorem C16_deepcopy_eq (S : Schema) (P : Props) (n : Node)
    (h : probesUndefined S P n = true) (hw : dictsWF n = true) :
    deepcopyNode (getattr S P) n = .ok n :=
  deepcopy_of_quiet _ n (quietAll_of_probesUndefined S P n h) hw

/-- `pickle.dumps` succeeds and says exactly `pkOf proto n` -/
theorem C16_dumps_eq (S : Schema) (P : Props) (proto : Nat) (n : Node) (h : probesUndefined S P n = true) :
    dumps (getattr S P) proto n = .ok (pkOf proto n) :=
  dumps_of_quiet _ proto n (quietAll_of_probesUndefined S P n h)

/-- **C16_pickle_eq.** `pickle.loads(pickle.dumps(x, proto))` reproduces every instance, for every protocol
    (0, 1: `_reconstructor` route; 2 and up: `__newobj__` route) -/
theorem C16_pickle_eq (S : Schema) (P : Props) (proto : Nat) (n : Node)
    (h : probesUndefined S P n = true) (hw : dictsWF n = true) :
    pickleRoundtrip (getattr S P) proto n = .ok n := by
  have hq := quietAll_of_probesUndefined S P n h
  simp only [pickleRoundtrip, dumps_of_quiet _ proto n hq, bind, Except.bind]
  exact loads_of_quiet _ proto n hq hw

/-- generic forms: whatever the attribute access, clean misses on the probes are all it takes -/
theorem C16_deepcopy_of_clean_miss (G : GA) (n : Node) (hq : QuietAll G n) (hw : dictsWF n = true) :
    deepcopyNode G n = .ok n := deepcopy_of_quiet G n hq hw

theorem C16_pickle_of_clean_miss (G : GA) (proto : Nat) (n : Node) (hq : QuietAll G n) (hw : dictsWF n = true) :
    pickleRoundtrip G proto n = .ok n := by
  simp only [pickleRoundtrip, dumps_of_quiet G proto n hq, bind, Except.bind]
  exact loads_of_quiet G proto n hq hw

/-! ### the premise from the schema: no class and no property uses a probe name -/

theorem find_none_of_all (P : Props) (ci : Nat) (nm : Str) : P.all (fun e => e.name != nm) = true →
    P.find ci nm = none := by
  induction P with
  | nil => intro _; rfl
  | cons e r ih =>
    intro h
    simp only [List.all_cons, Bool.and_eq_true, bne_iff_ne, ne_eq] at h
    simp [Props.find, h.1, ih h.2]

theorem childDefiners_all_nil : ∀ (l : List Attr) (fd : List (Str × List Path)),
    (∀ k ps, Agg.lookup k fd = some ps → ps = []) → childDefiners l fd = []
  | [], _, _ => rfl
  | a :: rest, fd, h => by
    simp only [childDefiners, childDefiners_all_nil rest fd h, List.append_nil]
    by_cases hs : a.kind.isSub = true
    · simp only [hs, if_true]
      cases hl : Agg.lookup a.name fd with
      | none => rfl
      | some ps => simp [h a.name ps hl]
    · simp [hs]

theorem cleanFields_of_mem (S : Schema) (P : Props) (nm : Str) : ∀ (fs : List (Str × Node)),
    (∀ k v, (k, v) ∈ fs → clean S P v nm = true) → cleanFields S P fs nm = true
  | [], _ => by simp [cleanFields]
  | (k, v) :: r, h => by
    simp only [cleanFields, Bool.and_eq_true]
    exact ⟨h k v List.mem_cons_self, cleanFields_of_mem S P nm r (fun k' v' hm => h k' v' (List.mem_cons_of_mem _ hm))⟩

theorem instQuietFields_mem (S : Schema) : ∀ (fs : List (Str × Node)),
    instQuietFields S fs = true → ∀ k v, (k, v) ∈ fs → instQuiet S v = true
  | [], _, _, _, h => by simp at h
  | (n, x) :: r, hq, k, v, h => by
    simp only [instQuietFields, Bool.and_eq_true] at hq
    rcases List.mem_cons.mp h with h | h
    · have : v = x := by injection h
      rw [this]; exact hq.1
    · exact instQuietFields_mem S r hq.2 k v h

theorem instQuietItems_mem (S : Schema) : ∀ (is : List Node),
    instQuietItems S is = true → ∀ v, v ∈ is → instQuiet S v = true
  | [], _, _, h => by simp at h
  | x :: r, hq, v, h => by
    simp only [instQuietItems, Bool.and_eq_true] at hq
    rcases List.mem_cons.mp h with h | h
    · rw [h]; exact hq.1
    · exact instQuietItems_mem S r hq.2 v h

theorem probesUndefinedFields_of_mem (S : Schema) (P : Props) : ∀ (fs : List (Str × Node)),
    (∀ k v, (k, v) ∈ fs → probesUndefined S P v = true) → probesUndefinedFields S P fs = true
  | [], _ => by simp [probesUndefinedFields]
  | (k, v) :: r, h => by
    simp only [probesUndefinedFields, Bool.and_eq_true]
    exact ⟨h k v List.mem_cons_self,
      probesUndefinedFields_of_mem S P r (fun k' v' hm => h k' v' (List.mem_cons_of_mem _ hm))⟩

theorem probesUndefinedItems_of_mem (S : Schema) (P : Props) : ∀ (is : List Node),
    (∀ v, v ∈ is → probesUndefined S P v = true) → probesUndefinedItems S P is = true
  | [], _ => by simp [probesUndefinedItems]
  | v :: r, h => by
    simp only [probesUndefinedItems, Bool.and_eq_true]
    exact ⟨h v List.mem_cons_self, probesUndefinedItems_of_mem S P r (fun v' hm => h v' (List.mem_cons_of_mem _ hm))⟩

/-- per name: a name no class of the schema declares and no property has is `clean` and has no definer on every tree
    of known classes whose dicts do not hold it -/
theorem clean_definers_of_schema (S : Schema) (P : Props) (nm : Str) (hnm : nm ∈ probeNames)
    (hS : ∀ c, c ∈ S.classes → c.attr? nm = none) (hP : P.all (fun e => e.name != nm) = true) :
    ∀ n, instQuiet S n = true → clean S P n nm = true ∧ definers S n nm = [] := by
  intro n
  induction n using Node.induct with
  | hval v => intro _; simp [clean, definers]
  | hagg ci fields items ihf _ =>
    intro h
    simp only [instQuiet, Bool.and_eq_true, List.all_eq_true, Bool.not_eq_true'] at h
    obtain ⟨⟨⟨hc, hk⟩, hf⟩, _⟩ := h
    cases hcc : S.cls? ci with
    | none => simp [hcc] at hc
    | some c =>
      have hmem : c ∈ S.classes := by
        unfold Schema.cls? at hcc
        exact List.mem_of_getElem? hcc
      have ha := hS c hmem
      have hkey := hk nm hnm
      have hcf : cleanFields S P fields nm = true :=
        cleanFields_of_mem S P nm fields (fun k v hm => (ihf k v hm (instQuietFields_mem S fields hf k v hm)).1)
      have hcd : childDefiners c.spec (fieldDefiners S fields nm) = [] := by
        apply childDefiners_all_nil
        intro k ps hl
        rw [lookup_fieldDefiners] at hl
        cases hv : Agg.lookup k fields with
        | none => simp [hv] at hl
        | some v =>
          simp only [hv, Option.map_some, Option.some.injEq] at hl
          rw [← hl]
          exact (ihf k v (lookup_mem k fields v hv) (instQuietFields_mem S fields hf k v (lookup_mem k fields v hv))).2
      constructor
      · simp [clean, hcc, find_none_of_all P ci nm hP, hkey, hcf]
      · simp [definers, hcc, ha, hcd]

/-- **the premise, from the schema.** If no class declares a probe name and no property has one (`schemaQuiet`), then on
    every tree of known classes whose dicts hold no probe name as a key, nothing defines the probe names -/
theorem probesUndefined_of_schema (S : Schema) (P : Props) (hq : schemaQuiet S P = true) :
    ∀ n, instQuiet S n = true → probesUndefined S P n = true := by
  simp only [schemaQuiet, List.all_eq_true, Bool.and_eq_true, Option.isNone_iff_eq_none] at hq
  intro n
  induction n using Node.induct with
  | hval v => intro _; simp [probesUndefined]
  | hagg ci fields items ihf ihi =>
    intro h
    have h' := h
    simp only [instQuiet, Bool.and_eq_true] at h'
    obtain ⟨⟨⟨hc, _⟩, hf⟩, hi⟩ := h'
    simp only [probesUndefined, Bool.and_eq_true, List.all_eq_true]
    refine ⟨⟨?_, ?_⟩, ?_⟩
    · intro nm hnm
      obtain ⟨hS, hP⟩ := hq nm hnm
      have hP' : P.all (fun e => e.name != nm) = true := by simpa [List.all_eq_true] using hP
      obtain ⟨hcl, hd⟩ := clean_definers_of_schema S P nm hnm hS hP' _ h
      cases hcc : S.cls? ci with
      | none => simp [hcc] at hc
      | some c =>
        have hmem : c ∈ S.classes := by
          unfold Schema.cls? at hcc
          exact List.mem_of_getElem? hcc
        simp [undefined, hcl, hd, hcc, hS c hmem]
    · exact probesUndefinedFields_of_mem S P fields (fun k v hm => ihf k v hm (instQuietFields_mem S fields hf k v hm))
    · exact probesUndefinedItems_of_mem S P items (fun v hm => ihi v hm (instQuietItems_mem S items hi v hm))

/-! ### the negative twin: the code before 0f0930a (recorded-fixed defect)

`subagg = getattr(self, subaggregate)` stood outside the `try`: on the instance `cls.__new__(cls)` that `_reconstruct` /
`BUILD` probe, the first sub-aggregate (or repeated child: never in the dict) raises KeyError, which `hasattr` does not
swallow. Every instance with a non-empty dict of every class that has a sub-aggregate or a repeated child is concerned. -/

/-- the pinned `__setstate__` probe on a freshly created instance: KeyError -/
theorem setstate_fresh_pinned (S : Schema) (P : Props) (ci : Nat) (c : Cls) (its : List Node) (name : Str)
    (hc : S.cls? ci = some c) (ha : c.attr? name = none) (hp : P.find ci name = none)
    (hsub : ∃ a, a ∈ c.spec ∧ a.kind.isSub = true) :
    getattrPinned S P (.agg ci [] its) name = .error .key := by
  simp [getattrPinned, getattrAtPinned, hc, ha, hp, fieldSubsPinned, Agg.lookup,
    getattrLoopPinned_empty name c.spec hsub]

/-- `copy.copy` raised KeyError on EVERY instance with a non-empty dict of such a class -/
theorem C16_copy_pinned_fails (S : Schema) (P : Props) (ci : Nat) (c : Cls) (kv : Str × Node) (r : List (Str × Node))
    (items : List Node) (hc : S.cls? ci = some c) (ha : c.attr? nSetstate = none) (hp : P.find ci nSetstate = none)
    (hsub : ∃ a, a ∈ c.spec ∧ a.kind.isSub = true) :
    copyNode (getattrPinned S P) (.agg ci (kv :: r) items) = .error .key := by
  rw [C16_copy_shallow]
  simp [setstateProbe, setstate_fresh_pinned S P ci c [] nSetstate hc ha hp hsub, Except.bind]

/-- a reduce value with a state cannot be rebuilt when the probe on the created instance fails -/
theorem reconstruct_fails (G : GA) (r : Reduced) (stC : PyM Dict) (itC : PyM (List Node)) (e : Err)
    (hs : r.state.isSome = true)
    (hprobe : setstateProbe G (.agg (create r).1 (create r).2.1 (create r).2.2) = .error e) :
    ∀ out, reconstruct G r stC itC ≠ .ok out := by
  intro out
  cases hst : r.state with
  | none => simp [hst] at hs
  | some st0 =>
    cases stC with
    | error e' => simp [reconstruct, hst, bind, Except.bind]
    | ok st => simp [reconstruct, hst, build, hprobe, bind, Except.bind]

/-- `copy.deepcopy` failed on every such instance (with whichever error came first) -/
theorem C16_deepcopy_pinned_fails (S : Schema) (P : Props) (ci : Nat) (c : Cls) (kv : Str × Node)
    (r : List (Str × Node)) (items : List Node) (hc : S.cls? ci = some c) (ha : c.attr? nSetstate = none)
    (hp : P.find ci nSetstate = none) (hsub : ∃ a, a ∈ c.spec ∧ a.kind.isSub = true) :
    ∀ out, deepcopyNode (getattrPinned S P) (.agg ci (kv :: r) items) ≠ .ok out := by
  intro out
  simp only [deepcopyNode, deepcopyAt, reduceAgg_newobj _ 4 ci (kv :: r) items (by omega), bind, Except.bind]
  cases deepcopyProbe (getattrPinned S P) (.agg ci (kv :: r) items) with
  | error e => simp
  | ok _ =>
    apply reconstruct_fails _ _ _ _ .key
    · simp [getstate]
    · simp [create, setstateProbe, setstate_fresh_pinned S P ci c [] nSetstate hc ha hp hsub]

theorem reduceAgg_shape (G : GA) (p ci : Nat) (fields : List (Str × Node)) (items : List Node) (red : Reduced)
    (h : reduceAgg G p ci fields items = .ok red) : red.cls = ci ∧ red.state = getstate fields := by
  unfold reduceAgg at h
  by_cases hp : p < 2
  · simp only [hp, if_true, bind, Except.bind] at h
    cases hs : slotsProbe G (.agg ci fields items) with
    | error e => simp [hs] at h
    | ok _ =>
      simp only [hs, pure, Except.pure, Except.ok.injEq] at h
      subst h; exact ⟨rfl, rfl⟩
  · simp only [hp, if_false, pure, Except.pure, Except.ok.injEq] at h
    subst h; exact ⟨rfl, rfl⟩

/-- what `dumps` says of an instance with a non-empty dict, if it succeeds: its class and a `BUILD` -/
theorem dumpsAt_shape (G : GA) (p ci : Nat) (kv : Str × Node) (r : List (Str × Node)) (items : List Node)
    (stD : PyM (List (Str × Pk))) (itD : PyM (List Pk)) (pk : Pk)
    (h : dumpsAt G p ci (kv :: r) items stD itD = .ok pk) : ∃ f st its, pk = .obj f ci true st its := by
  unfold dumpsAt at h
  cases hr : reduceAgg G p ci (kv :: r) items with
  | error e => simp [hr, bind, Except.bind] at h
  | ok red =>
    obtain ⟨h1, h2⟩ := reduceAgg_shape G p ci (kv :: r) items red hr
    simp only [hr, bind, Except.bind, h2, getstate, List.isEmpty_cons, Bool.false_eq_true, if_false] at h
    cases itD with
    | error e => simp at h
    | ok its =>
      cases stD with
      | error e => simp at h
      | ok st =>
        simp only [pure, Except.pure, Except.ok.injEq, Option.isSome_some] at h
        exact ⟨red.func, st, its, by rw [← h, h1]⟩

/-- `pickle` (every protocol) failed on every such instance -/
theorem C16_pickle_pinned_fails (S : Schema) (P : Props) (ci : Nat) (c : Cls) (kv : Str × Node)
    (r : List (Str × Node)) (items : List Node) (hc : S.cls? ci = some c) (ha : c.attr? nSetstate = none)
    (hp : P.find ci nSetstate = none) (hsub : ∃ a, a ∈ c.spec ∧ a.kind.isSub = true) :
    ∀ proto out, pickleRoundtrip (getattrPinned S P) proto (.agg ci (kv :: r) items) ≠ .ok out := by
  intro proto out
  simp only [pickleRoundtrip, dumps, bind, Except.bind]
  cases hd : dumpsAt (getattrPinned S P) proto ci (kv :: r) items (dumpsDict (getattrPinned S P) proto (kv :: r))
      (dumpsItems (getattrPinned S P) proto items) with
  | error e => simp
  | ok pk =>
    obtain ⟨f, st, its, rfl⟩ := dumpsAt_shape _ proto ci kv r items _ _ pk hd
    simp only [loads, loadsAt, bind, Except.bind]
    cases loadsItems (getattrPinned S P) its with
    | error e => simp
    | ok its' =>
      cases loadsDict (getattrPinned S P) st [] with
      | error e => simp
      | ok st' =>
        simp [build, setstateProbe, setstate_fresh_pinned S P ci c _ nSetstate hc ha hp hsub, bind, Except.bind]
/-- the full-strength statement for the pinned attribute access … -/
def C16_copy_pinned_full : Prop :=
  ∀ (S : Schema) (P : Props) (n : Node), probesUndefined S P n = true → dictsWF n = true →
    copyNode (getattrPinned S P) n = .ok n ∧ deepcopyNode (getattrPinned S P) n = .ok n ∧
    ∀ proto, pickleRoundtrip (getattrPinned S P) proto n = .ok n

namespace Example

/-- the premises of the positive theorems hold on the nested instance `iA` (class with an element, a sub-aggregate and a
    repeated child; two members), on a partial dict and on the empty dict of `cls.__new__(cls)` -/
example : probesUndefined S0 P0 iA = true ∧ dictsWF iA = true := by decide +kernel
example : schemaQuiet S0 P0 = true ∧ instQuiet S0 iA = true := by decide +kernel
example : probesUndefined S0 P0 (.agg 0 [("b".toList, iB)] [iB]) = true ∧
    dictsWF (.agg 0 [("b".toList, iB)] [iB]) = true := by decide +kernel
example : probesUndefined S0 P0 (.agg 0 [] [iB, iB]) = true ∧ dictsWF (.agg 0 [] [iB, iB]) = true := by decide +kernel
example : undefined S0 P0 iA nSetstate = true ∧ nodupKeys iA.fields = true := by decide +kernel
example : undefined S0 P0 iA nSlots = true := by decide +kernel

/-- the reduce values -/
example : (reduceEx (getattr S0 P0) 4 iA).toOption.map (fun r => (r.func, r.cls, r.state.isSome, r.listitems.isSome))
    = some (.newobj, 0, true, true) := by rfl
example : (reduceEx (getattr S0 P0) 1 iA).toOption.map (fun r => (r.func, r.cls, r.state.isSome, r.listitems.isSome))
    = some (.reconstructor, 0, true, false) := by rfl
example : (reduceEx (getattr S0 P0) 2 (.agg 0 [] [iB])).toOption.map
    (fun r => (r.func, r.cls, r.state.isSome, r.listitems.isSome)) = some (.newobj, 0, false, true) := by rfl

/-- the model, run: HEAD reproduces `iA` on every route … -/
example : copyNode (getattr S0 P0) iA = .ok iA := by rfl
example : deepcopyNode (getattr S0 P0) iA = .ok iA := by rfl
example : pickleRoundtrip (getattr S0 P0) 0 iA = .ok iA := by rfl
example : pickleRoundtrip (getattr S0 P0) 2 iA = .ok iA := by rfl

/-- … the pinned code fails with KeyError on every route: class `A` has the sub-aggregate `b` -/
theorem pinned_copy_witness : copyNode (getattrPinned S0 P0) iA = .error .key := by rfl
theorem pinned_deepcopy_witness : deepcopyNode (getattrPinned S0 P0) iA = .error .key := by rfl
theorem pinned_pickle0_witness : pickleRoundtrip (getattrPinned S0 P0) 0 iA = .error .key := by rfl
theorem pinned_pickle2_witness : pickleRoundtrip (getattrPinned S0 P0) 2 iA = .error .key := by rfl

/-- … while an instance with an empty dict went through even then (no state, no probe) -/
example : copyNode (getattrPinned S0 P0) (.agg 0 [] [iB]) = .ok (.agg 0 [] [iB]) := by rfl

/-- the guards of the general pinned theorems -/
example : S0.cls? 0 = some (mkCls "A" [⟨"x".toList, .string none false, false⟩, ⟨"b".toList, .sub 1, false⟩,
    ⟨"ms".toList, .listAgg 1, false⟩]) := by rfl
example : ∃ a, a ∈ (mkCls "A" [⟨"x".toList, .string none false, false⟩, ⟨"b".toList, .sub 1, false⟩,
    ⟨"ms".toList, .listAgg 1, false⟩]).spec ∧ a.kind.isSub = true := ⟨⟨"b".toList, .sub 1, false⟩, by simp [mkCls], rfl⟩

end Example

/-- … is false: `iA` satisfies the premises and `copy.copy` raises KeyError (0f0930a repaired this) -/
theorem C16_copy_pinned_full_false : ¬ C16_copy_pinned_full := by
  intro h
  have h1 := (h Example.S0 Example.P0 Example.iA (by decide +kernel) (by decide +kernel)).1
  rw [Example.pinned_copy_witness] at h1
  cases h1

end Ofx.C16
