/-
C03, sub-aggregates: the child's own conversion is what the instance holds (continues Props/C03.lean; kept apart
because it uses lemmas of Props/C04Order.lean).  With `C03_element_value` (data elements) and `C03_members_exact`
(repeated members) this covers every kind of child, one nesting level per application — whole paths are the iteration.
-/
import OfxProofs.Props.C04Order
namespace Ofx.Agg
open Ofx

/-- **C03 (sub-aggregates: nothing dropped, right value).** When `from_etree` accepts a document, every child of
    an aggregate node that carries the tag of a declared non-repeated sub-aggregate (and no text of its own) is in
    the instance under that attribute as the child's own conversion — an instance of the declared class. -/
theorem C03_sub_value (S : Schema) (cv : Conv) (tag : Str) (x tl : Option Str)
    (pre post : List Tree) (ch : Tree) (ci : Nat) (c : Cls) (a : Attr) (t : Nat)
    (fields : List (Str × Node)) (items : List Node) (cj : Nat)
    (hfind : S.findIdx? tag = some ci) (hcls : S.cls? ci = some c) (hg : c.groom = none)
    (hnd : (c.spec.map (·.name)).Nodup)
    (ha : a ∈ c.spec) (hname : a.name = lower ch.tag) (hdot : '.' ∉ ch.tag) (hk : a.kind = .sub t)
    (htext : ch.text = none ∨ ch.text = some [])
    (h : fromEtree S cv (.node tag x tl (pre ++ ch :: post)) = .ok (.agg cj fields items)) :
    ∃ ck f i, fromEtree S cv ch = .ok (.agg ck f i) ∧ lookup a.name fields = some (.agg ck f i) ∧
      isInstance S ck t = true := by
  have hl : a.kind.isList = false := by simp [hk, Kind.isList]
  have hu : a.kind.isUnsupported = false := by simp [hk, Kind.isUnsupported]
  simp only [fromEtree, convertNode, hfind, hcls] at h
  have hne : (pre ++ ch :: post).isEmpty = false := by cases pre <;> simp
  simp only [hne, Bool.false_eq_true, if_false] at h
  cases hf : foldChildren c (pre ++ ch :: post) (childInsts S cv (pre ++ ch :: post)) Accum.init with
  | error e => simp [hf, bind, Except.bind] at h
  | ok acc =>
    simp only [hf, bind, Except.bind] at h
    have hf' := hf
    rw [childInsts_append] at hf'
    simp only [childInsts] at hf'
    obtain ⟨acc1, acc2, hstep, hrest⟩ := foldChildren_mid c ch _ pre post _ _ Accum.init acc
      (childInsts_length S cv pre) hf'
    obtain ⟨pa, ra, hspec⟩ := List.append_of_mem ha
    have hidx : specIndex c (lower ch.tag) = some pa.length := by
      rw [← hname]; exact specIndex_at c pa ra a hspec hnd
    have hnl : isListMember c (lower ch.tag) = false := by
      rw [← hname]; exact not_listMember_of_nonlist c a ha hl hnd
    have hun : unsupportedAt c pa.length = false := by rw [unsupportedAt_of c pa ra a hspec]; exact hu
    -- the child's value is its own conversion
    have hcv : childValue ch (fromEtree S cv ch) = fromEtree S cv ch := by
      rcases htext with h0 | h0 <;> simp [childValue, h0]
    -- the step succeeded, so the conversion did
    cases hsub : fromEtree S cv ch with
    | error e =>
      rw [updateArgs_eq c acc1 ch _ pa.length hg hdot hidx, hnl, hun] at hstep
      split at hstep
      · simp at hstep
      · rw [hcv, hsub] at hstep; simp [bind, Except.bind] at hstep
    | ok v =>
      have hk2 := updateArgs_known_lookup c acc1 acc2 ch _ pa.length v hg hdot hidx hnl hun (by rw [hcv, hsub]) hstep
      have hkw : lookup a.name acc.kwargs = some v := by
        rw [hname]; exact foldChildren_lookup c hg post _ acc2 acc hrest _ _ hk2
      obtain ⟨c', fields', items', hc', _, hset, _, _, hn⟩ := (construct_ok_iff S cv ci acc.args acc.kwargs _).mp h
      rw [hcls] at hc'; injection hc' with hc'; subst hc'
      injection hn with _ hf2 _; subst hf2
      have hfm := setAttrs_fieldsMatch S cv acc.kwargs (specNoList c) fields
        (fun b hb => by simpa [specNoList] using (List.mem_filter.mp hb).2) hset
      have hnd' : ((specNoList c).map (·.name)).Nodup := by
        unfold specNoList
        exact (List.Sublist.map _ List.filter_sublist).nodup hnd
      have hmem : a ∈ specNoList c := by simp [specNoList, ha, hl]
      obtain ⟨w, hw, hpw⟩ := hfm.lookup hnd' a hmem hu
      rw [hkw] at hpw
      simp only [Option.getD, setAttr, hk] at hpw
      -- `from_etree` of an aggregate node returns an instance or fails
      cases v with
      | val y =>
        exfalso
        cases ch with
        | node ctag cx ctl cch =>
          simp only [fromEtree, convertNode] at hsub
          cases hfi : S.findIdx? ctag with
          | none => simp [hfi] at hsub
          | some k =>
            simp only [hfi] at hsub
            cases hck : S.cls? k with
            | none => simp [hck] at hsub
            | some cc =>
              simp only [hck] at hsub
              have hcon : ∀ args kw, construct S cv k args kw ≠ .ok (.val y) := by
                intro args kw hc
                obtain ⟨_, _, _, _, _, _, _, _, hn'⟩ := (construct_ok_iff S cv k args kw _).mp hc
                cases hn'
              by_cases hemp : cch.isEmpty = true
              · simp only [hemp, if_true] at hsub; exact hcon _ _ hsub
              · simp only [hemp, Bool.false_eq_true, if_false] at hsub
                cases hff : foldChildren cc cch (childInsts S cv cch) Accum.init with
                | error e => simp [hff, bind, Except.bind] at hsub
                | ok acc' => simp only [hff, bind, Except.bind] at hsub; exact hcon _ _ hsub
      | agg ck f i =>
        simp only [convertSub] at hpw
        by_cases hinst : isInstance S ck t = true
        · simp only [hinst, if_true, Except.map] at hpw
          injection hpw with hpw; injection hpw with hpw
          exact ⟨ck, f, i, rfl, by rw [hw, ← hpw], hinst⟩
        · simp [hinst, Except.map] at hpw

end Ofx.Agg
