/-
C17 — parsing, converting and writing are pure, repeatable and safe to run in threads.

In the model the pipeline operations (`Pipeline.writeFile`, `readFile`, `parseFile`, `Agg.fromEtree`,
`Agg.toEtree`, `Builder.parse`, `Types.conv`) are functions: "the same input gives an equal result" holds of them
by construction and is not restated here.  What the theorems below decide is the part of the code that is *not*
a function: the process-wide dispatch tables of `DateTime.unconvert` / `Time.unconvert` (rewritten at run time
by `DateTime.normalize_to_gmt`), their dispatch caches, and the per-instance dicts, modelled in
`OfxModel/Ofx/Registry.lean`.

* `C17_registry_inert`  every state reachable by any history — and by any interleaving of any number of threads —
                         dispatches every value exactly as the import-time state does (`≈`);
* `C17_history_free`    the result of an operation after any history is its result alone;
* `C17_interleave`      for the atomic actions {registry write, cache pop, cache read, registry read, cache
                         write}, under every schedule of k threads, each thread's results are those of running
                         its own program alone from the import state;
* `C17_inputs_intact_*` frame statements: which parts of the shared state an action can write at all.

PARTIAL.  Assumptions the model cannot discharge (they are exercised, not proved, by harness/corr/C17.py):
(1) the five dict operations are atomic (CPython: one C-level call each under the GIL; a free-threaded build or a
    pure-Python dict would void it); (2) there is no shared mutable state beyond what `Registry` lists (the harness
    snapshots module globals, class dicts, converter attributes and all 15 registries before/after);
(3) `_find_impl` is modelled for concrete classes (no ABC registered, so `cache_token` stays `None`).
-/
import OfxModel.Ofx.Pipeline
import OfxProofs.Lemmas.Registry

namespace Ofx.Registry
open Ofx Ofx.DateTime Ofx.Spec.Purity

/-! ### inertness -/

/-- states reachable from the import state by uninterrupted operations -/
inductive Reachable (tzs : List (Str × Int)) : Registry → Prop
  | init : Reachable tzs init
  | step {R : Registry} (op : Op) : Reachable tzs R → Reachable tzs (stepOp tzs R op).1

theorem Reachable.inv {tzs : List (Str × Int)} {R : Registry} (h : Reachable tzs R) : Inv R := by
  induction h with
  | init => exact inv_init
  | step op _ ih => exact stepOp_inv tzs ih op

/-- Every registry reachable by any history of conversions dispatches every value, for every converter
    instance, observationally like the import-time registry. -/
theorem C17_registry_inert (tzs : List (Str × Int)) {R : Registry} (h : Reachable tzs R) : R ≈ init :=
  h.inv.obsEq

/-- … and `unconvert` in such a state *is* the function of the pure model (`dtUnconvert` / `tmUnconvert`). -/
theorem C17_dispatch_is_pure (tzs : List (Str × Int)) {R : Registry} (h : Reachable tzs R) (obj : ConvInst) (v : Val) :
    R.unconvert obj v = unconvRes obj v :=
  h.inv.unconvert obj v

theorem C17_registry_inert_history (tzs : List (Str × Int)) (ops : List Op) : (runOps tzs init ops).1 ≈ init :=
  (runOps_inv tzs inv_init ops).obsEq

/-- the handler registered at run time differs from the import-time one (so `≈` is not `=`): guard witness -/
example : (stepOp [] init (.convert ⟨7, false, true⟩ (.str "20200101".toList))).1.dt.registry.lookup .datetime
    = some ⟨.dtDatetime, some ⟨7, false, true⟩⟩ := by decide +kernel

/-- The decidable check `inertB` — the one the driver evaluates on the model state and whose Python twin the
    harness evaluates on the real `dispatcher.registry` / `dispatch_cache` — is sound for `≈`. -/
theorem C17_inertB_sound {R : Registry} (h : inertB R = true) : R ≈ init := (inertB_inv h).obsEq

/-- every accepted date-time text re-registers: the run-time write happens on the main path, not a corner -/
theorem C17_accepted_text_registers (tzs : List (Str × Int)) (obj : ConvInst) (s : Str) (v : Val)
    (ht : obj.time = false) (h : convRes tzs obj (.str s) = .ok v) : registers tzs obj (.str s) = true := by
  simp only [convRes, ht, Bool.false_eq_true, if_false, dtConvertWith] at h
  simp only [registers, ht, Bool.not_false, Bool.true_and]
  exact dtRegisters_of_ok tzs s v h

/-! ### history-freeness -/

/-- For every history `ops` and every conversion `x`: running `ops` and then `x` gives the result of `x` alone. -/
theorem C17_history_free (tzs : List (Str × Int)) (ops : List Op) (x : Op) (r : PyM Val)
    (hx : pureOp tzs x = some r) :
    (stepOp tzs (runOps tzs init ops).1 x).2 = r ∧ (stepOp tzs init x).2 = r :=
  ⟨stepOp_pure tzs (runOps_inv tzs inv_init ops) hx, stepOp_pure tzs inv_init hx⟩

theorem runOps_heap_frame (tzs : List (Str × Int)) (R : Registry) (ops : List Op) (o : Nat) (n : Str)
    (h : ∀ op ∈ ops, Op.writes? op ≠ some o) : (runOps tzs R ops).1.heap.get o n = R.heap.get o n := by
  induction ops generalizing R with
  | nil => rfl
  | cons op ops ih =>
    simp only [runOps]
    rw [ih _ (fun op' h' => h op' (List.mem_cons_of_mem _ h')), stepOp_heap]
    cases op with
    | setAttr o' n' v =>
      have : o' ≠ o := fun e => h (.setAttr o' n' v) (by simp) (by simp [Op.writes?, e])
      exact Heap.get_put_other _ _ _ _ _ _ (fun e => this (Prod.mk.inj e).1.symm)
    | _ => rfl

/-- two good states that agree on the instances a program touches give the same results -/
theorem runOps_congr (tzs : List (Str × Int)) {R₁ R₂ : Registry} (h₁ : Inv R₁) (h₂ : Inv R₂) (p : List Op)
    (hh : ∀ o n, touches p o → R₁.heap.get o n = R₂.heap.get o n) :
    (runOps tzs R₁ p).2 = (runOps tzs R₂ p).2 := by
  induction p generalizing R₁ R₂ with
  | nil => rfl
  | cons op p ih =>
    simp only [runOps]
    have hout : (stepOp tzs R₁ op).2 = (stepOp tzs R₂ op).2 := by
      cases hp : pureOp tzs op with
      | some r => rw [stepOp_pure tzs h₁ hp, stepOp_pure tzs h₂ hp]
      | none =>
        cases op with
        | getAttr o n =>
          have : touches (.getAttr o n :: p) o := ⟨.getAttr o n, by simp, rfl⟩
          simp only [stepOp, Heap.read, hh o n this]
        | _ => simp [pureOp] at hp
    have hheap : ∀ o n, touches p o → (stepOp tzs R₁ op).1.heap.get o n = (stepOp tzs R₂ op).1.heap.get o n := by
      intro o n ht
      have ht' : touches (op :: p) o := by
        obtain ⟨op', hm, ho⟩ := ht
        exact ⟨op', List.mem_cons_of_mem _ hm, ho⟩
      rw [stepOp_heap, stepOp_heap]
      cases op with
      | setAttr o' n' v =>
        by_cases he : (o, n) = (o', n')
        · cases he; simp only [Heap.get_put_same]
        · simp only [Heap.get_put_other _ _ _ _ _ _ he]; exact hh o n ht'
      | _ => exact hh o n ht'
    rw [hout, ih (stepOp_inv tzs h₁ op) (stepOp_inv tzs h₂ op) hheap]

/-- Whole workloads: a program `p` run after an arbitrary history `ops` (other converters, failing conversions,
    other model instances) returns exactly what it returns when run alone — provided the history did not write
    the model instances `p` works on. -/
theorem C17_history_free_run (tzs : List (Str × Int)) (ops p : List Op)
    (hd : ∀ o, writes ops o → ¬ touches p o) :
    (runOps tzs (runOps tzs init ops).1 p).2 = (runOps tzs init p).2 := by
  refine runOps_congr tzs (runOps_inv tzs inv_init ops) inv_init p ?_
  intro o n ht
  refine runOps_heap_frame tzs init ops o n ?_
  intro op hm hw
  exact hd o ⟨op, hm, hw⟩ ht

/-- repetition: running a program twice in a row gives the same results both times (conversions only) -/
theorem C17_repeatable (tzs : List (Str × Int)) (ops p : List Op) (hp : ∀ o, ¬ writes p o) :
    (runOps tzs (runOps tzs (runOps tzs init ops).1 p).1 p).2 = (runOps tzs (runOps tzs init ops).1 p).2 := by
  have h1 : Inv (runOps tzs init ops).1 := runOps_inv tzs inv_init ops
  refine runOps_congr tzs (runOps_inv tzs h1 p) h1 p ?_
  intro o n _
  refine runOps_heap_frame tzs _ p o n ?_
  intro op hm hw
  exact hp o ⟨op, hm, hw⟩

/-- results of a program of conversions are the pure model's values, whatever the state -/
theorem C17_sequential_is_pure (tzs : List (Str × Int)) {R : Registry} (hR : Inv R) (p : List Op) :
    (∀ op ∈ p, (pureOp tzs op).isSome) → (runOps tzs R p).2.map some = p.map (pureOp tzs) := by
  induction p generalizing R with
  | nil => intro _; rfl
  | cons op p ih =>
    intro h
    obtain ⟨r, hr⟩ := Option.isSome_iff_exists.mp (h op (by simp))
    simp only [runOps, List.map_cons, stepOp_pure tzs hR hr, hr,
      ih (stepOp_inv tzs hR op) (fun op' hm => h op' (List.mem_cons_of_mem _ hm))]

/-! ### interleavings -/

theorem pcMatch_length {tzs : List (Str × Int)} {pc : Pc} {cur : List Op} (h : PcMatch tzs pc cur) : cur.length ≤ 1 := by
  cases pc with
  | idle => simp only [PcMatch] at h; simp [h]
  | regWrite obj res => obtain ⟨v, hc, _⟩ := h; simp [hc]
  | clearing res => obtain ⟨obj, v, hc, _⟩ := h; simp [hc]
  | cacheLookup obj v => simp only [PcMatch] at h; simp [h]
  | regLookup obj v => simp only [PcMatch] at h; simp [h]
  | cacheStore obj v hd => obtain ⟨hc, _⟩ := h; simp [hc]

/-- For k threads with arbitrary programs, started in the import state, under EVERY schedule of the atomic actions
    (`sched` lists which thread performs its next dict operation; any length, any order, fair or not):
    at every point each thread has returned exactly the results of running the completed part of its own program
    alone from the import state, at most one operation is in flight, and the shared tables are `≈ init`. -/
theorem C17_interleave (tzs : List (Str × Int)) (progs : List (List Op)) (hd : DisjointInstances progs)
    (sched : List Nat) (i : Nat) (T : Thread) (p : List Op)
    (hT : ((Sys.start init progs).run tzs sched).threads[i]? = some T) (hp : progs[i]? = some p) :
    ∃ done cur, p = done ++ cur ++ T.prog ∧ cur.length ≤ 1 ∧ T.out = (runOps tzs init done).2 := by
  obtain ⟨done, cur, h1, h2, h3, _⟩ := ((SysInv.start tzs progs).run hd sched).thr i T p hT hp
  exact ⟨done, cur, h1, pcMatch_length h2, h3⟩

/-- … so a thread that has finished returned the sequential results of its program, -/
theorem C17_interleave_finished (tzs : List (Str × Int)) (progs : List (List Op)) (hd : DisjointInstances progs)
    (sched : List Nat) (i : Nat) (T : Thread) (p : List Op)
    (hT : ((Sys.start init progs).run tzs sched).threads[i]? = some T) (hp : progs[i]? = some p)
    (hf : T.finished = true) : T.out = (runOps tzs init p).2 := by
  obtain ⟨done, cur, h1, h2, h3, _⟩ := ((SysInv.start tzs progs).run hd sched).thr i T p hT hp
  obtain ⟨prog, pc, out⟩ := T
  simp only [Thread.finished, Bool.and_eq_true, List.isEmpty_iff] at hf
  obtain ⟨hprog, hpc⟩ := hf
  subst hprog
  cases pc with
  | idle =>
    simp only [PcMatch] at h2; subst h2
    simp only [List.append_nil] at h1; subst h1
    exact h3
  | _ => simp at hpc

/-- … which for conversions are the pure model's values: concurrency is unobservable. -/
theorem C17_interleave_pure (tzs : List (Str × Int)) (progs : List (List Op)) (hd : DisjointInstances progs)
    (sched : List Nat) (i : Nat) (T : Thread) (p : List Op)
    (hT : ((Sys.start init progs).run tzs sched).threads[i]? = some T) (hp : progs[i]? = some p)
    (hf : T.finished = true) (hc : ∀ op ∈ p, (pureOp tzs op).isSome) :
    T.out.map some = p.map (pureOp tzs) := by
  rw [C17_interleave_finished tzs progs hd sched i T p hT hp hf]
  exact C17_sequential_is_pure tzs inv_init p hc

/-- the shared tables stay observationally initial at every point of every interleaving -/
theorem C17_registry_inert_threads (tzs : List (Str × Int)) (progs : List (List Op)) (hd : DisjointInstances progs)
    (sched : List Nat) : ((Sys.start init progs).run tzs sched).reg ≈ init :=
  ((SysInv.start tzs progs).run hd sched).reg.obsEq

/-- guards are satisfiable: two threads, conversions that register, shared converter, own instances -/
example : DisjointInstances
    [[.convert ⟨0, false, false⟩ (.str "20200101".toList), .setAttr 1 "a".toList (.int 1), .getAttr 1 "a".toList],
     [.unconvert ⟨0, false, false⟩ .none, .setAttr 2 "a".toList (.int 2)]] := by
  intro i j p q hij hp hq o hw ht
  match i, j with
  | 0, 0 => exact hij rfl
  | 1, 1 => exact hij rfl
  | 0, 1 =>
    simp at hp hq; subst hp; subst hq
    obtain ⟨op, hm, ho⟩ := hw; obtain ⟨op', hm', ho'⟩ := ht
    simp at hm hm'
    rcases hm with rfl | rfl | rfl <;> rcases hm' with rfl | rfl <;> simp_all [Op.writes?, Op.obj?] <;> omega
  | 1, 0 =>
    simp at hp hq; subst hp; subst hq
    obtain ⟨op, hm, ho⟩ := hw; obtain ⟨op', hm', ho'⟩ := ht
    simp at hm hm'
    rcases hm with rfl | rfl <;> rcases hm' with rfl | rfl | rfl <;> simp_all [Op.writes?, Op.obj?] <;> omega
  | i + 2, _ => simp at hp
  | 0, j + 2 => simp at hq
  | 1, j + 2 => simp at hq

/-- a schedule in which a stale handler is stored into the cache *after* another thread re-registered and cleared
    it (the race the invariant is about): thread 0 reads the registry, thread 1 converts (write + clear), thread 0
    stores — the cache then holds the old plain function while the registry holds the bound method -/
example :
    let S := (Sys.start init [[.unconvert ⟨0, false, false⟩ (.dt ⟨2020, 1, 1, 0, 0, 0, 0, some utcTz⟩)],
                             [.convert ⟨1, false, true⟩ (.str "20200101".toList)]]).run []
              [0, 0, 0, 1, 1, 1, 0]
    S.reg.dt.cache.lookup .datetime = some ⟨.dtDatetime, none⟩ ∧
    S.reg.dt.registry.lookup .datetime = some ⟨.dtDatetime, some ⟨1, false, true⟩⟩ := by decide +kernel

/-! ### inputs intact: frame statements -/

/-- a history that does not write instance `o` leaves every attribute of `o` as it was (values are stored on the
    instance — `obj.__dict__` — never on the shared descriptor) -/
theorem C17_inputs_intact_instances (tzs : List (Str × Int)) (R : Registry) (ops : List Op) (o : Nat) (n : Str)
    (h : ∀ op ∈ ops, Op.writes? op ≠ some o) : (runOps tzs R ops).1.heap.get o n = R.heap.get o n :=
  runOps_heap_frame tzs R ops o n h

/-- conversions never write any instance dict -/
theorem C17_inputs_intact_conversions (tzs : List (Str × Int)) (R : Registry) (obj : ConvInst) (v : Val) :
    (stepOp tzs R (.convert obj v)).1.heap = R.heap ∧ (stepOp tzs R (.unconvert obj v)).1.heap = R.heap :=
  ⟨stepOp_heap tzs R _, stepOp_heap tzs R _⟩

/-- `Time` conversions write nothing shared but the `Time.unconvert` dispatch cache; no conversion writes a
    registry unless `DateTime._convert_str` reaches `normalize_to_gmt` -/
theorem C17_inputs_intact_registry (tzs : List (Str × Int)) (R : Registry) (obj : ConvInst) (v : Val)
    (h : registers tzs obj v = false) : (stepOp tzs R (.convert obj v)).1 = R := by
  simp [stepOp, h]

/-- `serialize(prettyprint=True)` indents the tree that `to_etree` has just built — never a tree the caller holds:
    the pretty-printed file is the plain writer applied to `indent (toEtree inst)`. -/
theorem C17_inputs_intact_indent (E : Pipeline.Env) (version : Nat) (old new : Option Str) (close : Bool) (inst : Node) :
    Pipeline.writeFile E version old new true close inst = (do
      let hdr ← Header.makeHeader E.p1 E.p2 (.int version) none old new
      let tree ← Agg.toEtree E.S E.cv inst
      let text ← Serialize.serialize E.htmlEmpty (Header.strHdr hdr) version close false (Serialize.indent tree 0)
      Codec.encode E.cp1252 .utf8 text) := by
  simp only [Pipeline.writeFile, Serialize.serialize, Serialize.serializeBody]
  rfl

end Ofx.Registry
